(* JsonTextLemmas.v — proofs about the JSON text layer (JsonText.v), for
   property C15: what serde_json's printer writes, serde_json's reader reads
   back as the same Value.

   Structure: (1) tools, (2) UTF-8 encode/decode round trip, (3) strings,
   (4) integers, (5) the reader on the printer's output, for any formatter
   whose separators are whitespace (parse_print_value, by induction on the
   value, with the lists of elements and members), (6) the top level:
   parse_print_pretty / parse_print_compact, (7) objects: canon on canonical
   values, the serialisation order of keys::Layout, (8) the saved layout file:
   saved_text_reloads. *)
From Coq Require Import List NArith ZArith Bool Lia String Ascii.
From TM Require Import JsonText StrLemmas LoaderCheck RoundtripLemmas LoadedWf.
Import ListNotations.
Local Open Scope N_scope.

Arguments N.add : simpl never.
Arguments N.sub : simpl never.
Arguments N.mul : simpl never.
Arguments N.div : simpl never.
Arguments N.modulo : simpl never.
Arguments N.eqb : simpl never.
Arguments N.ltb : simpl never.
Arguments N.leb : simpl never.

(* lia on N with division and remainder by constants *)
Ltac Zify.zify_post_hook ::= Z.to_euclidean_division_equations.

(* ================================================================ 1. tools *)

(* decide every comparison of the goal that lia can decide *)
Ltac decide_tests :=
  repeat match goal with
  | |- context [N.ltb ?a ?b] =>
    first [ replace (N.ltb a b) with true by (symmetry; apply N.ltb_lt; lia)
          | replace (N.ltb a b) with false by (symmetry; apply N.ltb_ge; lia) ]
  | |- context [N.leb ?a ?b] =>
    first [ replace (N.leb a b) with true by (symmetry; apply N.leb_le; lia)
          | replace (N.leb a b) with false by (symmetry; apply N.leb_gt; lia) ]
  | |- context [N.eqb ?a ?b] =>
    first [ replace (N.eqb a b) with true by (symmetry; apply N.eqb_eq; lia)
          | replace (N.eqb a b) with false by (symmetry; apply N.eqb_neq; lia) ]
  end.

Ltac tests := decide_tests; cbn [andb orb negb].

(* lengths of concatenations, for lia *)
Ltac lens H := repeat (progress (cbn [length] in H) || rewrite app_length in H).
Ltac lensg := repeat (progress (cbn [length]) || rewrite app_length).

Lemma skip_ws_app : forall ws l, forallb is_ws ws = true -> skip_ws (ws ++ l) = skip_ws l.
Proof.
  induction ws as [|b ws IH]; intros l H; [reflexivity|].
  cbn [forallb] in H. apply andb_true_iff in H. destruct H as [Hb H].
  cbn [app skip_ws]. rewrite Hb. apply IH. exact H.
Qed.

Lemma skip_ws_head : forall c t, is_ws c = false -> skip_ws (c :: t) = c :: t.
Proof. intros c t H. cbn [skip_ws]. rewrite H. reflexivity. Qed.

Lemma is_ws_false : forall c, c <> 32 -> c <> 10 -> c <> 9 -> c <> 13 -> is_ws c = false.
Proof. intros c H1 H2 H3 H4. unfold is_ws. tests. reflexivity. Qed.

Lemma is_ws_cases : forall c, is_ws c = true -> c = 32 \/ c = 10 \/ c = 9 \/ c = 13.
Proof.
  intros c H. unfold is_ws in H.
  destruct (N.eqb_spec c 32); [auto|]. destruct (N.eqb_spec c 10); [auto|].
  destruct (N.eqb_spec c 9); [auto|]. destruct (N.eqb_spec c 13); [auto|]. discriminate.
Qed.

(* ================================================================ 2. UTF-8 *)

Lemma utf8_decode_encode : forall c l, valid_scalar c = true ->
  utf8_decode (utf8_encode c ++ l) = cons_opt c (utf8_decode l).
Proof.
  intros c l H. unfold valid_scalar in H.
  assert (Hc : c < 55296 \/ (57343 < c /\ c < 1114112)).
  { apply orb_true_iff in H. destruct H as [H|H].
    - left. apply N.ltb_lt. exact H.
    - right. apply andb_true_iff in H. destruct H as [H1 H2]. split; apply N.ltb_lt; assumption. }
  clear H. unfold utf8_encode.
  destruct (N.ltb_spec c 128) as [H1|H1].
  { cbn [app utf8_decode]. tests. reflexivity. }
  destruct (N.ltb_spec c 2048) as [H2|H2].
  { cbn [app utf8_decode]. unfold in_range, is_cont, in_range. tests.
    replace ((192 + c / 64 - 192) * 64 + (128 + c mod 64 - 128)) with c by lia. reflexivity. }
  destruct (N.ltb_spec c 65536) as [H3|H3].
  { cbn [app utf8_decode]. unfold second3, in_range, is_cont, in_range. tests.
    destruct (N.eqb_spec (224 + c / 4096) 224) as [E|E].
    - tests. replace ((224 + c / 4096 - 224) * 4096 + (128 + (c / 64) mod 64 - 128) * 64 + (128 + c mod 64 - 128)) with c by lia.
      reflexivity.
    - destruct (N.eqb_spec (224 + c / 4096) 237) as [E2|E2].
      + tests. replace ((224 + c / 4096 - 224) * 4096 + (128 + (c / 64) mod 64 - 128) * 64 + (128 + c mod 64 - 128)) with c by lia.
        reflexivity.
      + tests. replace ((224 + c / 4096 - 224) * 4096 + (128 + (c / 64) mod 64 - 128) * 64 + (128 + c mod 64 - 128)) with c by lia.
        reflexivity. }
  cbn [app utf8_decode]. unfold second4, in_range, is_cont, in_range. tests.
  destruct (N.eqb_spec (240 + c / 262144) 240) as [E|E].
  - tests.
    replace ((240 + c / 262144 - 240) * 262144 + (128 + (c / 4096) mod 64 - 128) * 4096
             + (128 + (c / 64) mod 64 - 128) * 64 + (128 + c mod 64 - 128)) with c by lia.
    reflexivity.
  - destruct (N.eqb_spec (240 + c / 262144) 244) as [E2|E2].
    + tests.
      replace ((240 + c / 262144 - 240) * 262144 + (128 + (c / 4096) mod 64 - 128) * 4096
               + (128 + (c / 64) mod 64 - 128) * 64 + (128 + c mod 64 - 128)) with c by lia.
      reflexivity.
    + tests.
      replace ((240 + c / 262144 - 240) * 262144 + (128 + (c / 4096) mod 64 - 128) * 4096
               + (128 + (c / 64) mod 64 - 128) * 64 + (128 + c mod 64 - 128)) with c by lia.
      reflexivity.
Qed.

Lemma utf8_decode_str : forall s, forallb valid_scalar s = true -> utf8_decode (utf8_of_str s) = Some s.
Proof.
  induction s as [|c s IH]; intro H; [reflexivity|].
  cbn [forallb] in H. apply andb_true_iff in H. destruct H as [Hc Hs].
  unfold utf8_of_str. cbn [flat_map]. rewrite utf8_decode_encode by exact Hc.
  fold (utf8_of_str s). rewrite IH by exact Hs. reflexivity.
Qed.

(* ================================================================ 3. strings *)

Lemma prepend_prepend : forall a b r, prepend a (prepend b r) = prepend (a ++ b) r.
Proof. intros a b [[bs rest]|]; cbn [prepend]; [rewrite app_assoc|]; reflexivity. Qed.

(* bytes that the string reader copies as they are *)
Lemma parse_raw_bytes : forall bs l, Forall (fun b => 128 <= b) bs ->
  parse_str_bytes (bs ++ l) = prepend bs (parse_str_bytes l).
Proof.
  induction bs as [|b bs IH]; intros l H.
  - cbn [app]. destruct (parse_str_bytes l) as [[x y]|]; reflexivity.
  - inversion H as [|? ? Hb Hbs]; subst. cbn [app parse_str_bytes]. tests.
    rewrite IH by exact Hbs. rewrite prepend_prepend. reflexivity.
Qed.

Lemma utf8_encode_high : forall c, 128 <= c -> c < 1114112 -> Forall (fun b => 128 <= b) (utf8_encode c).
Proof.
  intros c H1 H2. unfold utf8_encode. tests.
  destruct (N.ltb_spec c 2048); [|destruct (N.ltb_spec c 65536)]; repeat constructor; lia.
Qed.

Lemma hex_control : forall c, c < 32 -> hex4 48 48 (hex_digit (c / 16)) (hex_digit (c mod 16)) = Some c.
Proof.
  intros c H. unfold hex4, hex_val, hex_digit, is_digit, in_range. tests.
  destruct (N.ltb_spec (c mod 16) 10) as [H1|H1]; tests; f_equal; lia.
Qed.

Lemma valid_scalar_bound : forall c, valid_scalar c = true -> c < 1114112.
Proof.
  intros c H. unfold valid_scalar in H. apply orb_true_iff in H. destruct H as [H|H].
  - apply N.ltb_lt in H. lia.
  - apply andb_true_iff in H. destruct H as [_ H]. apply N.ltb_lt in H. exact H.
Qed.

(* one scalar as the printer writes it, read back into the scratch buffer *)
Lemma parse_escape_scalar : forall c l, valid_scalar c = true ->
  parse_str_bytes (escape_scalar c ++ l) = prepend (utf8_encode c) (parse_str_bytes l).
Proof.
  intros c l Hv. pose proof (valid_scalar_bound c Hv) as Hb. unfold escape_scalar.
  destruct (N.eqb_spec c 34) as [E|N1]; [subst; cbn [app parse_str_bytes]; unfold simple_escape, utf8_encode; tests; reflexivity|].
  destruct (N.eqb_spec c 92) as [E|N2]; [subst; cbn [app parse_str_bytes]; unfold simple_escape, utf8_encode; tests; reflexivity|].
  destruct (N.eqb_spec c 8) as [E|N3]; [subst; cbn [app parse_str_bytes]; unfold simple_escape, utf8_encode; tests; reflexivity|].
  destruct (N.eqb_spec c 12) as [E|N4]; [subst; cbn [app parse_str_bytes]; unfold simple_escape, utf8_encode; tests; reflexivity|].
  destruct (N.eqb_spec c 10) as [E|N5]; [subst; cbn [app parse_str_bytes]; unfold simple_escape, utf8_encode; tests; reflexivity|].
  destruct (N.eqb_spec c 13) as [E|N6]; [subst; cbn [app parse_str_bytes]; unfold simple_escape, utf8_encode; tests; reflexivity|].
  destruct (N.eqb_spec c 9) as [E|N7]; [subst; cbn [app parse_str_bytes]; unfold simple_escape, utf8_encode; tests; reflexivity|].
  destruct (N.ltb_spec c 32) as [L|L].
  - cbn [app parse_str_bytes]. tests. rewrite hex_control by exact L.
    unfold is_trail_surrogate, is_lead_surrogate, in_range, utf8_encode. tests. reflexivity.
  - destruct (N.ltb_spec c 128) as [A|A].
    + unfold utf8_encode. tests. cbn [app parse_str_bytes]. tests. reflexivity.
    + apply parse_raw_bytes. apply utf8_encode_high; assumption.
Qed.

Lemma parse_str_body : forall s rest, forallb valid_scalar s = true ->
  parse_str_bytes (flat_map escape_scalar s ++ 34 :: rest) = Some (utf8_of_str s, rest).
Proof.
  induction s as [|c s IH]; intros rest H.
  - cbn [flat_map app parse_str_bytes]. tests. reflexivity.
  - cbn [forallb] in H. apply andb_true_iff in H. destruct H as [Hc Hs].
    cbn [flat_map]. rewrite <- app_assoc. rewrite parse_escape_scalar by exact Hc.
    rewrite IH by exact Hs. reflexivity.
Qed.

(* the reader after the opening quote of a printed string *)
Lemma parse_print_str : forall s rest, forallb valid_scalar s = true ->
  parse_str (flat_map escape_scalar s ++ [34] ++ rest) = Some (s, rest).
Proof.
  intros s rest H. unfold parse_str. cbn [app]. rewrite parse_str_body by exact H.
  rewrite utf8_decode_str by exact H. reflexivity.
Qed.

Lemma print_str_shape : forall s rest, print_str s ++ rest = 34 :: flat_map escape_scalar s ++ [34] ++ rest.
Proof. intros s rest. unfold print_str. cbn [app]. rewrite <- app_assoc. reflexivity. Qed.

(* ================================================================ 4. integers *)

(* one step of the reader's significand accumulation *)
Definition dstep (a c : N) : N := a * 10 + (c - 48).

Definition digit_char (c : N) : Prop := 48 <= c <= 57.

Lemma digits_aux_spec : forall f n acc, n < 10 ^ N.of_nat f -> (0 < f)%nat ->
  exists pre, digits_aux f n acc = pre ++ acc /\ Forall digit_char pre
    /\ fold_left dstep pre 0 = n
    /\ (n = 0 -> pre = [48])
    /\ (0 < n -> exists d ds, pre = d :: ds /\ 49 <= d).
Proof.
  induction f as [|f IH]; intros n acc Hn Hf; [inversion Hf|].
  cbn [digits_aux]. destruct (N.ltb_spec n 10) as [L|L].
  - exists [48 + n mod 10]. rewrite N.mod_small by exact L. unfold digit_char, dstep. cbn [app fold_left].
    split; [reflexivity|]. split; [repeat constructor; lia|]. split; [lia|].
    split; [intro E; subst; reflexivity|]. intro P. exists (48 + n), []. split; [reflexivity|lia].
  - rewrite Nat2N.inj_succ, N.pow_succ_r' in Hn.
    destruct f as [|f'].
    { cbn in Hn. lia. }
    assert (Hq : n / 10 < 10 ^ N.of_nat (S f')).
    { apply N.div_lt_upper_bound; lia. }
    destruct (IH (n / 10) ((48 + n mod 10) :: acc) Hq ltac:(apply Nat.lt_0_succ)) as (pre & E & Hd & Hv & _ & Hpos).
    exists (pre ++ [48 + n mod 10]). rewrite <- app_assoc. cbn [app].
    split; [exact E|]. split.
    { apply Forall_app. split; [exact Hd|]. repeat constructor; unfold digit_char; lia. }
    split.
    { rewrite fold_left_app, Hv. cbn [fold_left]. unfold dstep. lia. }
    split; [intro E0; lia|].
    intros _. destruct Hpos as (d & ds & Ep & Hd1).
    { apply N.div_str_pos. lia. }
    exists d, (ds ++ [48 + n mod 10]). subst pre. split; [reflexivity|exact Hd1].
Qed.

Lemma pow10_20 : 10 ^ N.of_nat 20 = 100000000000000000000.
Proof. vm_compute. reflexivity. Qed.

Lemma print_nat_spec : forall n, n <= u64_max ->
  Forall digit_char (print_nat n) /\ fold_left dstep (print_nat n) 0 = n
  /\ (n = 0 -> print_nat n = [48])
  /\ (0 < n -> exists d ds, print_nat n = d :: ds /\ 49 <= d).
Proof.
  intros n H. unfold print_nat.
  destruct (digits_aux_spec 20 n []) as (pre & E & Hd & Hv & H0 & Hp).
  - rewrite pow10_20. unfold u64_max in H. lia.
  - apply Nat.lt_0_succ.
  - rewrite app_nil_r in E. rewrite E. auto.
Qed.

(* what may follow a number without extending it *)
Definition num_end (rest : list N) : bool :=
  match rest with
  | [] => true
  | c :: _ => negb (is_digit c) && negb (c =? 46) && negb (c =? 101) && negb (c =? 69)
  end.

Lemma num_end_inv : forall c t, num_end (c :: t) = true ->
  is_digit c = false /\ (c =? 46) = false /\ (c =? 101) = false /\ (c =? 69) = false.
Proof.
  intros c t H. cbn [num_end] in H.
  repeat (apply andb_true_iff in H; destruct H as [H ?]).
  repeat match goal with X : negb _ = true |- _ => apply negb_true_iff in X end. auto.
Qed.

Lemma parse_number_end : forall pos sig rest, num_end rest = true ->
  parse_number pos sig rest = Some (int_result pos sig, rest).
Proof.
  intros pos sig [|c t] H; [reflexivity|].
  apply num_end_inv in H. destruct H as (_ & H1 & H2 & H3).
  cbn [parse_number]. rewrite H1, H2, H3. reflexivity.
Qed.

Lemma dstep_mono : forall ds a, a <= fold_left dstep ds a.
Proof.
  induction ds as [|c ds IH]; intro a; cbn [fold_left]; [lia|].
  specialize (IH (dstep a c)). unfold dstep in *. lia.
Qed.

Lemma int_digits_spec : forall ds pos sig rest, Forall digit_char ds -> num_end rest = true ->
  fold_left dstep ds sig <= u64_max ->
  int_digits pos sig (ds ++ rest) = Some (int_result pos (fold_left dstep ds sig), rest).
Proof.
  induction ds as [|c ds IH]; intros pos sig rest Hd He Hb.
  - cbn [app fold_left]. destruct rest as [|c t].
    + reflexivity.
    + cbn [int_digits]. destruct (num_end_inv c t He) as (H0 & _). rewrite H0.
      apply parse_number_end. exact He.
  - inversion Hd as [|? ? Hc Hds]; subst. unfold digit_char in Hc.
    cbn [app int_digits fold_left]. unfold is_digit, in_range. tests.
    cbn [fold_left] in Hb. pose proof (dstep_mono ds (dstep sig c)) as Hm.
    fold (dstep sig c). unfold u64_max in *.
    replace (18446744073709551615 <? dstep sig c) with false by (symmetry; apply N.ltb_ge; lia).
    apply IH; assumption.
Qed.

Lemma parse_print_nat : forall n pos rest, n <= u64_max -> num_end rest = true ->
  parse_integer pos (print_nat n ++ rest) = Some (int_result pos n, rest).
Proof.
  intros n pos rest Hn He. destruct (print_nat_spec n Hn) as (Hd & Hv & H0 & Hp).
  destruct (N.eq_dec n 0) as [E|NE].
  - rewrite (H0 E). subst n. cbn [app parse_integer]. tests.
    destruct rest as [|c t].
    + reflexivity.
    + destruct (num_end_inv c t He) as (Hc & _). rewrite Hc. apply parse_number_end. exact He.
  - destruct Hp as (d & ds & Ep & Hd1); [lia|]. rewrite Ep in *.
    pose proof (Forall_inv Hd) as Hdc. pose proof (Forall_inv_tail Hd) as Hds. unfold digit_char in Hdc.
    cbn [app parse_integer]. unfold in_range. tests.
    cbn [fold_left] in Hv. unfold dstep at 2 in Hv. replace (0 * 10 + (d - 48)) with (d - 48) in Hv by lia.
    rewrite int_digits_spec; [rewrite Hv; reflexivity|exact Hds|exact He|rewrite Hv; exact Hn].
Qed.

Lemma print_nat_head : forall n, n <= u64_max -> exists d ds, print_nat n = d :: ds /\ 48 <= d <= 57.
Proof.
  intros n Hn. destruct (print_nat_spec n Hn) as (Hd & _ & H0 & Hp).
  destruct (N.eq_dec n 0) as [E|NE].
  - exists 48, []. rewrite (H0 E). split; [reflexivity|lia].
  - destruct Hp as (d & ds & Ep & Hd1); [lia|]. exists d, ds. split; [exact Ep|].
    rewrite Ep in Hd. inversion Hd as [|? ? Hdc _]; subst. unfold digit_char in Hdc. lia.
Qed.

Lemma is_i64_bounds : forall z, is_i64 z = true -> (-9223372036854775808 <= z <= 9223372036854775807)%Z.
Proof.
  intros z H. unfold is_i64 in H. apply andb_true_iff in H. destruct H as [H1 H2].
  apply Z.leb_le in H1. apply Z.leb_le in H2. lia.
Qed.

(* the reader on a printed i64, after any whitespace *)
Lemma parse_print_int : forall z a fuel rem ws rest,
  is_i64 z = true -> forallb is_ws ws = true -> num_end rest = true ->
  parse_value (a :: fuel) rem (ws ++ print_int z ++ rest) = Some (JNum (Some z), rest).
Proof.
  intros z a fuel rem ws rest Hz Hws He. apply is_i64_bounds in Hz.
  cbn [parse_value]. rewrite skip_ws_app by exact Hws.
  assert (Hnonneg : forall n, n <= i64_max ->
    match skip_ws (print_nat n ++ rest) with
    | [] => None
    | c :: t =>
      if c =? 110 then lit_value JNull (strip_prefix [117; 108; 108] t)
      else if c =? 116 then lit_value (JBool true) (strip_prefix [114; 117; 101] t)
      else if c =? 102 then lit_value (JBool false) (strip_prefix [97; 108; 115; 101] t)
      else if c =? 45 then num_value (parse_integer false t)
      else if is_digit c then num_value (parse_integer true (c :: t))
      else None
    end = Some (JNum (Some (Z.of_N n)), rest)).
  { intros n Hn. unfold i64_max in Hn.
    assert (Hu : n <= u64_max) by (unfold u64_max; lia).
    destruct (print_nat_head n Hu) as (d & ds & E & Hd).
    pose proof (parse_print_nat n true rest Hu He) as P. rewrite E in *. cbn [app] in *.
    rewrite skip_ws_head by (apply is_ws_false; lia).
    unfold is_digit, in_range. tests. rewrite P. cbn [num_value int_result json_of_pnum].
    unfold i64_max. tests. reflexivity. }
  destruct z as [|p|p].
  - cbn [print_int Z.to_N]. specialize (Hnonneg 0 ltac:(unfold i64_max; lia)).
    cbn [Z.of_N] in Hnonneg.
    destruct (skip_ws (print_nat 0 ++ rest)) as [|c t]; [discriminate|].
    destruct (c =? 110); [exact Hnonneg|]. destruct (c =? 116); [exact Hnonneg|].
    destruct (c =? 102); [exact Hnonneg|]. destruct (c =? 45); [exact Hnonneg|].
    destruct (is_digit c); [exact Hnonneg|discriminate].
  - cbn [print_int Z.to_N]. specialize (Hnonneg (Npos p) ltac:(unfold i64_max; lia)).
    cbn [Z.of_N] in Hnonneg.
    destruct (skip_ws (print_nat (Npos p) ++ rest)) as [|c t]; [discriminate|].
    destruct (c =? 110); [exact Hnonneg|]. destruct (c =? 116); [exact Hnonneg|].
    destruct (c =? 102); [exact Hnonneg|]. destruct (c =? 45); [exact Hnonneg|].
    destruct (is_digit c); [exact Hnonneg|discriminate].
  - cbn [print_int app]. rewrite skip_ws_head by reflexivity. tests.
    rewrite parse_print_nat; [|unfold u64_max; lia|exact He].
    cbn [num_value]. unfold int_result. tests. reflexivity.
Qed.

(* ================================================================ 5. values *)

Section JsonInd.
  Variable P : json -> Prop.
  Hypothesis Hnull : P JNull.
  Hypothesis Hbool : forall b, P (JBool b).
  Hypothesis Hnum : forall z, P (JNum z).
  Hypothesis Hstr : forall s, P (JStr s).
  Hypothesis Harr : forall l, Forall P l -> P (JArr l).
  Hypothesis Hobj : forall kvs, Forall (fun kv => P (snd kv)) kvs -> P (JObj kvs).

  Fixpoint json_ind2 (v : json) : P v :=
    match v with
    | JNull => Hnull
    | JBool b => Hbool b
    | JNum z => Hnum z
    | JStr s => Hstr s
    | JArr l =>
      Harr l ((fix go (l : list json) : Forall P l :=
                 match l with
                 | [] => Forall_nil P
                 | x :: t => Forall_cons x (json_ind2 x) (go t)
                 end) l)
    | JObj kvs =>
      Hobj kvs ((fix go (l : list (str * json)) : Forall (fun kv => P (snd kv)) l :=
                   match l with
                   | [] => Forall_nil _
                   | kv :: t => Forall_cons kv (json_ind2 (snd kv)) (go t)
                   end) kvs)
    end.
End JsonInd.

Lemma depth_arr_lt : forall l r, (depth (JArr l) < S r)%nat -> Forall (fun x => (depth x < r)%nat) l.
Proof.
  intros l r H. cbn [depth] in H. apply Nat.succ_lt_mono in H.
  induction l as [|x l IH]; [constructor|]. cbn [fold_right] in H.
  constructor; [lia|apply IH; lia].
Qed.

Lemma depth_obj_lt : forall kvs r, (depth (JObj kvs) < S r)%nat -> Forall (fun kv => (depth (snd kv) < r)%nat) kvs.
Proof.
  intros l r H. cbn [depth] in H. apply Nat.succ_lt_mono in H.
  induction l as [|x l IH]; [constructor|]. cbn [fold_right] in H.
  constructor; [lia|apply IH; lia].
Qed.

Lemma num_end_ws : forall c t, is_ws c = true -> num_end (c :: t) = true.
Proof.
  intros c t H. destruct (is_ws_cases c H) as [E|[E|[E|E]]]; subst; reflexivity.
Qed.

Section Reader.
  (* any formatter whose separators are whitespace *)
  Variable sp : nat -> list N.
  Variable colon : list N.
  Hypothesis Hsp : forall k, forallb is_ws (sp k) = true.
  Hypothesis Hcolon : forallb is_ws colon = true.

  Let pr := print_at sp colon.

  Lemma print_elems_nil : forall f ind, print_elems sp f ind [] = sp ind ++ [93].
  Proof. reflexivity. Qed.
  Lemma print_elems_cons : forall f ind y l,
    print_elems sp f ind (y :: l) = 44 :: sp (S ind) ++ f y ++ print_elems sp f ind l.
  Proof. reflexivity. Qed.
  Lemma print_members_nil : forall f ind, print_members sp colon f ind [] = sp ind ++ [125].
  Proof. reflexivity. Qed.
  Lemma print_members_cons : forall f ind kv l,
    print_members sp colon f ind (kv :: l) = 44 :: sp (S ind) ++ print_member colon f kv ++ print_members sp colon f ind l.
  Proof. reflexivity. Qed.
  Lemma print_at_arr_cons : forall ind x xs,
    pr ind (JArr (x :: xs)) = 91 :: sp (S ind) ++ pr (S ind) x ++ print_elems sp (pr (S ind)) ind xs.
  Proof. reflexivity. Qed.
  Lemma print_at_obj_cons : forall ind kv kvs,
    pr ind (JObj (kv :: kvs)) = 123 :: sp (S ind) ++ print_member colon (pr (S ind)) kv ++ print_members sp colon (pr (S ind)) ind kvs.
  Proof. reflexivity. Qed.

  Lemma print_member_shape : forall f k x R,
    print_member colon f (k, x) ++ R = 34 :: flat_map escape_scalar k ++ [34] ++ 58 :: colon ++ f x ++ R.
  Proof.
    intros f k x R. unfold print_member, print_str. cbn [fst snd app].
    rewrite <- !app_assoc. cbn [app]. rewrite <- !app_assoc. reflexivity.
  Qed.

  (* the first byte of a printed value: not whitespace, not a closing bracket *)
  Lemma print_head : forall ind v, printable v = true ->
    exists c t, pr ind v = c :: t /\ is_ws c = false /\ (c =? 93) = false.
  Proof.
    intros ind v H. destruct v as [|[|]|[z|]|s|[|x xs]|[|kv kvs]]; cbn [printable] in H; try discriminate;
      try (eexists; eexists; split; [reflexivity|split; reflexivity]).
    apply is_i64_bounds in H. unfold pr. cbn [print_at]. destruct z as [|p|p].
    - destruct (print_nat_head 0) as (d & ds & E & Hd); [unfold u64_max; lia|].
      cbn [print_int Z.to_N]. rewrite E. exists d, ds. split; [reflexivity|].
      split; [apply is_ws_false; lia|apply N.eqb_neq; lia].
    - destruct (print_nat_head (Npos p)) as (d & ds & E & Hd); [unfold u64_max; lia|].
      cbn [print_int Z.to_N]. rewrite E. exists d, ds. split; [reflexivity|].
      split; [apply is_ws_false; lia|apply N.eqb_neq; lia].
    - cbn [print_int]. eexists; eexists; split; [reflexivity|split; reflexivity].
  Qed.

  Lemma num_end_close : forall k c l, (c = 93 \/ c = 125) -> num_end (sp k ++ c :: l) = true.
  Proof.
    intros k c l Hc. pose proof (Hsp k) as H. destruct (sp k) as [|b t].
    - cbn [app]. destruct Hc; subst; reflexivity.
    - cbn [forallb] in H. apply andb_true_iff in H. destruct H as [Hb _].
      cbn [app]. apply num_end_ws. exact Hb.
  Qed.

  Lemma num_end_elems : forall f ind xs rest, num_end (print_elems sp f ind xs ++ rest) = true.
  Proof.
    intros f ind [|y xs] rest.
    - rewrite print_elems_nil, <- app_assoc. apply num_end_close. left. reflexivity.
    - rewrite print_elems_cons. reflexivity.
  Qed.

  Lemma num_end_members : forall f ind kvs rest, num_end (print_members sp colon f ind kvs ++ rest) = true.
  Proof.
    intros f ind [|y xs] rest.
    - rewrite print_members_nil, <- app_assoc. apply num_end_close. right. reflexivity.
    - rewrite print_members_cons. reflexivity.
  Qed.

  (* the statement proved by induction on the value: after any whitespace, with
     enough fuel and depth, before anything that does not extend a number *)
  Definition reads (v : json) : Prop := forall a fuel rem ind ws rest,
    printable v = true -> (depth v < rem)%nat -> forallb is_ws ws = true -> num_end rest = true ->
    (length (ws ++ pr ind v ++ rest) <= length fuel)%nat ->
    parse_value (a :: fuel) rem (ws ++ pr ind v ++ rest) = Some (canon v, rest).

  Lemma reads_elems : forall xs, Forall reads xs -> forall a fuel rem ind rest,
    forallb printable xs = true -> Forall (fun x => (depth x < rem)%nat) xs -> num_end rest = true ->
    (length (print_elems sp (pr (S ind)) ind xs ++ rest) <= length fuel)%nat ->
    parse_elems (a :: fuel) rem (print_elems sp (pr (S ind)) ind xs ++ rest) = Some (map canon xs, rest).
  Proof.
    intros xs H. induction H as [|y xs Hy Hxs IH]; intros a fuel rem ind rest Hp Hd He Hlen.
    - rewrite print_elems_nil, <- app_assoc. cbn [parse_elems]. rewrite skip_ws_app by apply Hsp.
      cbn [app]. rewrite skip_ws_head by reflexivity. tests. reflexivity.
    - rewrite print_elems_cons in *. cbn [forallb] in Hp. apply andb_true_iff in Hp. destruct Hp as [Hpy Hpxs].
      inversion Hd as [|? ? Hdy Hdxs]; subst.
      cbn [app] in *. rewrite <- !app_assoc in *.
      cbn [parse_elems]. rewrite skip_ws_head by reflexivity. tests.
      rewrite skip_ws_app by apply Hsp.
      destruct (print_head (S ind) y Hpy) as (c1 & t1 & E & Hn & H93).
      rewrite E. cbn [app]. rewrite skip_ws_head by exact Hn. rewrite H93.
      change (c1 :: t1 ++ print_elems sp (pr (S ind)) ind xs ++ rest)
        with ((c1 :: t1) ++ print_elems sp (pr (S ind)) ind xs ++ rest).
      rewrite <- E.
      lens Hlen. destruct fuel as [|a' f']; [cbn [length] in Hlen; lia|]. lens Hlen.
      pose proof (Hy a' f' rem (S ind) [] (print_elems sp (pr (S ind)) ind xs ++ rest) Hpy Hdy eq_refl
                    (num_end_elems _ _ _ _)) as Q.
      cbn [app] in Q. rewrite Q by (lensg; lia). clear Q.
      rewrite (IH a' f' rem ind rest); [reflexivity|exact Hpxs|exact Hdxs|exact He|lensg; lia].
  Qed.

  Lemma reads_member : forall k x, reads x -> forall a fuel rem ind R,
    forallb valid_scalar k = true -> printable x = true -> (depth x < rem)%nat -> num_end R = true ->
    (length (colon ++ pr ind x ++ R) <= length fuel)%nat ->
    parse_member (parse_value (a :: fuel) rem) (flat_map escape_scalar k ++ [34] ++ 58 :: colon ++ pr ind x ++ R)
    = Some ((k, canon x), R).
  Proof.
    intros k x Hx a fuel rem ind R Hk Hp Hd He Hlen. unfold parse_member.
    rewrite parse_print_str by exact Hk. rewrite skip_ws_head by reflexivity. tests.
    rewrite (Hx a fuel rem ind colon R); [reflexivity|exact Hp|exact Hd|exact Hcolon|exact He|exact Hlen].
  Qed.

  Lemma reads_members : forall kvs, Forall (fun kv => reads (snd kv)) kvs -> forall a fuel rem ind rest,
    forallb (fun kv => forallb valid_scalar (fst kv) && printable (snd kv)) kvs = true ->
    Forall (fun kv => (depth (snd kv) < rem)%nat) kvs -> num_end rest = true ->
    (length (print_members sp colon (pr (S ind)) ind kvs ++ rest) <= length fuel)%nat ->
    parse_members (a :: fuel) rem (print_members sp colon (pr (S ind)) ind kvs ++ rest)
    = Some (map (fun kv => (fst kv, canon (snd kv))) kvs, rest).
  Proof.
    intros kvs H. induction H as [|[k y] kvs Hy Hkvs IH]; intros a fuel rem ind rest Hp Hd He Hlen.
    - rewrite print_members_nil, <- app_assoc. cbn [parse_members]. rewrite skip_ws_app by apply Hsp.
      cbn [app]. rewrite skip_ws_head by reflexivity. tests. reflexivity.
    - rewrite print_members_cons in *. cbn [forallb fst snd] in Hp. apply andb_true_iff in Hp. destruct Hp as [Hpy Hpxs].
      apply andb_true_iff in Hpy. destruct Hpy as [Hk Hpy].
      inversion Hd as [|? ? Hdy Hdxs]; subst. cbn [snd] in Hdy, Hy.
      cbn [app] in *. rewrite <- !app_assoc in *. rewrite print_member_shape in *.
      cbn [parse_members]. rewrite skip_ws_head by reflexivity. tests.
      rewrite skip_ws_app by apply Hsp. rewrite skip_ws_head by reflexivity. tests.
      lens Hlen. destruct fuel as [|a' f']; [cbn [length] in Hlen; lia|]. lens Hlen.
      rewrite (reads_member k y Hy a' f' rem (S ind) (print_members sp colon (pr (S ind)) ind kvs ++ rest));
        [|exact Hk|exact Hpy|exact Hdy|apply num_end_members|lensg; lia].
      rewrite (IH a' f' rem ind rest); [reflexivity|exact Hpxs|exact Hdxs|exact He|lensg; lia].
  Qed.

  Lemma reads_all : forall v, reads v.
  Proof.
    induction v as [|b|z|s|l IH|kvs IH] using json_ind2; intros a fuel rem ind ws rest Hp Hd Hws He Hlen.
    - cbn [parse_value]. rewrite skip_ws_app by exact Hws. unfold pr. cbn [print_at app].
      rewrite skip_ws_head by reflexivity. tests. reflexivity.
    - cbn [parse_value]. rewrite skip_ws_app by exact Hws. unfold pr. destruct b; cbn [print_at app];
        rewrite skip_ws_head by reflexivity; tests; reflexivity.
    - destruct z as [z|]; [|discriminate]. unfold pr. cbn [print_at canon].
      apply parse_print_int; assumption.
    - cbn [parse_value]. rewrite skip_ws_app by exact Hws. unfold pr. cbn [print_at]. rewrite print_str_shape.
      rewrite skip_ws_head by reflexivity. unfold is_digit, in_range. tests.
      cbn [printable] in Hp. rewrite parse_print_str by exact Hp. reflexivity.
    - cbn [parse_value]. rewrite skip_ws_app by exact Hws.
      destruct rem as [|[|rem']]; [cbn [depth] in Hd; lia..|].
      destruct l as [|x xs].
      + unfold pr. cbn [print_at app]. rewrite skip_ws_head by reflexivity. unfold is_digit, in_range. tests.
        rewrite skip_ws_head by reflexivity. tests. reflexivity.
      + rewrite print_at_arr_cons in *. cbn [app] in *. rewrite <- !app_assoc in *.
        rewrite skip_ws_head by reflexivity. unfold is_digit, in_range. tests.
        rewrite skip_ws_app by apply Hsp.
        cbn [printable forallb] in Hp. apply andb_true_iff in Hp. destruct Hp as [Hpx Hpxs].
        apply depth_arr_lt in Hd. inversion Hd as [|? ? Hdx Hdxs]; subst.
        inversion IH as [|? ? Hx Hxs]; subst.
        destruct (print_head (S ind) x Hpx) as (c1 & t1 & E & Hn & H93).
        rewrite E. cbn [app]. rewrite skip_ws_head by exact Hn. rewrite H93.
        change (c1 :: t1 ++ print_elems sp (pr (S ind)) ind xs ++ rest)
          with ((c1 :: t1) ++ print_elems sp (pr (S ind)) ind xs ++ rest).
        rewrite <- E.
        lens Hlen. destruct fuel as [|a' f']; [cbn [length] in Hlen; lia|]. lens Hlen.
        pose proof (Hx a' f' (S rem') (S ind) [] (print_elems sp (pr (S ind)) ind xs ++ rest) Hpx Hdx eq_refl
                      (num_end_elems _ _ _ _)) as Q.
        cbn [app] in Q. rewrite Q by (lensg; lia). clear Q.
        rewrite (reads_elems xs Hxs a' f' (S rem') ind rest);
          [reflexivity|exact Hpxs|exact Hdxs|exact He|lensg; lia].
    - cbn [parse_value]. rewrite skip_ws_app by exact Hws.
      destruct rem as [|[|rem']]; [cbn [depth] in Hd; lia..|].
      destruct kvs as [|[k x] kvs].
      + unfold pr. cbn [print_at app]. rewrite skip_ws_head by reflexivity. unfold is_digit, in_range. tests.
        rewrite skip_ws_head by reflexivity. tests. reflexivity.
      + rewrite print_at_obj_cons in *. cbn [app] in *. rewrite <- !app_assoc in *.
        rewrite print_member_shape in *.
        rewrite skip_ws_head by reflexivity. unfold is_digit, in_range. tests.
        rewrite skip_ws_app by apply Hsp. rewrite skip_ws_head by reflexivity. tests.
        cbn [printable forallb fst snd] in Hp. apply andb_true_iff in Hp. destruct Hp as [Hpx Hpxs].
        apply andb_true_iff in Hpx. destruct Hpx as [Hk Hpx].
        apply depth_obj_lt in Hd. inversion Hd as [|? ? Hdx Hdxs]; subst. cbn [snd] in Hdx.
        inversion IH as [|? ? Hx Hxs]; subst. cbn [snd] in Hx.
        lens Hlen. destruct fuel as [|a' f']; [cbn [length] in Hlen; lia|]. lens Hlen.
        rewrite (reads_member k x Hx a' f' (S rem') (S ind) (print_members sp colon (pr (S ind)) ind kvs ++ rest));
          [|exact Hk|exact Hpx|exact Hdx|apply num_end_members|lensg; lia].
        rewrite (reads_members kvs Hxs a' f' (S rem') ind rest);
          [reflexivity|exact Hpxs|exact Hdxs|exact He|lensg; lia].
  Qed.

  (* the whole text: one printed value *)
  Theorem parse_print_at : forall v, printable v = true -> (depth v < recursion_limit)%nat ->
    parse_text (pr 0 v) = Some (canon v).
  Proof.
    intros v Hp Hd. unfold parse_text.
    pose proof (reads_all v 0 (pr 0 v) recursion_limit 0%nat [] [] Hp Hd eq_refl eq_refl) as H.
    cbn [app] in H. rewrite app_nil_r in H. rewrite H by lia. reflexivity.
  Qed.
End Reader.

(* ================================================================ 6. the two formatters of serde_json *)

Lemma pretty_sp_ws : forall k, forallb is_ws (pretty_sp k) = true.
Proof.
  intro k. unfold pretty_sp. cbn [forallb]. change (is_ws 10) with true. cbn [andb].
  induction (2 * k)%nat as [|n IH]; [reflexivity|]. cbn [List.repeat forallb]. rewrite IH. reflexivity.
Qed.

(* to_string_pretty / to_writer_pretty, then from_str / from_slice / from_reader *)
Theorem parse_print_pretty : forall v, printable v = true -> (depth v < 128)%nat ->
  parse_text (print_pretty v) = Some (canon v).
Proof. intros v Hp Hd. unfold print_pretty. apply parse_print_at; [exact pretty_sp_ws|reflexivity|exact Hp|exact Hd]. Qed.

(* to_string / to_writer *)
Theorem parse_print_compact : forall v, printable v = true -> (depth v < 128)%nat ->
  parse_text (print_compact v) = Some (canon v).
Proof. intros v Hp Hd. unfold print_compact. apply parse_print_at; [reflexivity|reflexivity|exact Hp|exact Hd]. Qed.

(* ================================================================ 7. objects *)

Lemma str_ltb_irrefl : forall a, str_ltb a a = false.
Proof.
  induction a as [|x a IH]; [reflexivity|]. cbn [str_ltb]. rewrite N.ltb_irrefl, N.eqb_refl, IH. reflexivity.
Qed.

Lemma str_ltb_trans : forall a b c, str_ltb a b = true -> str_ltb b c = true -> str_ltb a c = true.
Proof.
  induction a as [|x a IH]; intros [|y b] [|z c] H1 H2; cbn [str_ltb] in *; try discriminate; try reflexivity.
  apply orb_true_iff in H1. apply orb_true_iff in H2. apply orb_true_iff.
  destruct H1 as [H1|H1]; destruct H2 as [H2|H2].
  - left. apply N.ltb_lt in H1. apply N.ltb_lt in H2. apply N.ltb_lt. lia.
  - apply andb_true_iff in H2. destruct H2 as [E _]. apply N.eqb_eq in E. subst. left. exact H1.
  - apply andb_true_iff in H1. destruct H1 as [E _]. apply N.eqb_eq in E. subst. left. exact H2.
  - apply andb_true_iff in H1. destruct H1 as [E1 L1]. apply andb_true_iff in H2. destruct H2 as [E2 L2].
    apply N.eqb_eq in E1. apply N.eqb_eq in E2. subst. right. rewrite N.eqb_refl. cbn [andb].
    eapply IH; eassumption.
Qed.

Lemma str_ltb_asym : forall a b, str_ltb a b = true -> str_ltb b a = false.
Proof.
  intros a b H. destruct (str_ltb b a) eqn:E; [|reflexivity].
  pose proof (str_ltb_trans a b a H E) as C. rewrite str_ltb_irrefl in C. discriminate.
Qed.

Lemma str_ltb_neq : forall a b, str_ltb a b = true -> str_eqb b a = false.
Proof.
  intros a b H. destruct (str_eqb b a) eqn:E; [|reflexivity].
  apply str_eqb_eq in E. subst. rewrite str_ltb_irrefl in H. discriminate.
Qed.

(* inserting a key above all present keys appends *)
Lemma obj_insert_last : forall m k v, Forall (fun kv => str_ltb (fst kv) k = true) m ->
  obj_insert k v m = m ++ [(k, v)].
Proof.
  induction m as [|[k' v'] m IH]; intros k v H; [reflexivity|].
  inversion H as [|? ? Hk Hm]; subst. cbn [fst] in Hk. cbn [obj_insert app].
  rewrite (str_ltb_asym _ _ Hk), (str_ltb_neq _ _ Hk). rewrite IH by exact Hm. reflexivity.
Qed.

Lemma keys_sorted_app_lt : forall (a : list (str * json)) k t,
  keys_sorted (map fst a ++ k :: t) = true -> Forall (fun kv => str_ltb (fst kv) k = true) a.
Proof.
  induction a as [|[k0 v0] a IH]; intros k t H; [constructor|].
  cbn [map fst app] in H.
  assert (Hs : keys_sorted (map fst a ++ k :: t) = true).
  { cbn [keys_sorted] in H. destruct (map fst a ++ k :: t) eqn:E; [reflexivity|].
    apply andb_true_iff in H. destruct H as [_ H]. exact H. }
  pose proof (IH k t Hs) as F. constructor; [|exact F]. cbn [fst].
  destruct a as [|[k1 v1] a'].
  - cbn [map app keys_sorted] in H. apply andb_true_iff in H. destruct H as [H _]. exact H.
  - cbn [map fst app keys_sorted] in H. apply andb_true_iff in H. destruct H as [H _].
    inversion F as [|? ? F1 _]; subst. cbn [fst] in F1. eapply str_ltb_trans; eassumption.
Qed.

Lemma fold_insert_sorted : forall kvs acc, keys_sorted (map fst (acc ++ kvs)) = true ->
  fold_left (fun m kv => obj_insert (fst kv) (snd kv) m) kvs acc = acc ++ kvs.
Proof.
  induction kvs as [|[k v] kvs IH]; intros acc H; [rewrite app_nil_r; reflexivity|].
  cbn [fold_left fst snd]. rewrite map_app in H. cbn [map fst] in H.
  rewrite obj_insert_last by (eapply keys_sorted_app_lt; exact H).
  rewrite IH; [rewrite <- app_assoc; reflexivity|].
  rewrite <- app_assoc. cbn [app]. rewrite map_app. exact H.
Qed.

Lemma build_map_sorted : forall kvs, keys_sorted (map fst kvs) = true -> build_map kvs = kvs.
Proof. intros kvs H. unfold build_map. apply (fold_insert_sorted kvs [] H). Qed.

(* a Value (objects in BTreeMap order) is its own canonical form *)
Theorem canon_canonical : forall v, canonical v = true -> canon v = v.
Proof.
  induction v as [|b|z|s|l IH|kvs IH] using json_ind2; intro H; try reflexivity.
  - cbn [canon canonical] in *. f_equal. induction IH as [|x l Hx _ IHl]; [reflexivity|].
    cbn [forallb] in H. apply andb_true_iff in H. destruct H as [H1 H2].
    cbn [map]. rewrite Hx by exact H1. rewrite IHl by exact H2. reflexivity.
  - cbn [canon canonical] in *. apply andb_true_iff in H. destruct H as [Hs Hc].
    assert (E : map (fun kv => (fst kv, canon (snd kv))) kvs = kvs).
    { clear Hs. induction IH as [|[k x] l Hx _ IHl]; [reflexivity|].
      cbn [forallb snd] in Hc. apply andb_true_iff in Hc. destruct Hc as [H1 H2].
      cbn [map fst snd] in *. rewrite Hx by exact H1. rewrite IHl by exact H2. reflexivity. }
    rewrite E. rewrite build_map_sorted by exact Hs. reflexivity.
Qed.

(* ---------- the layout file: serialisation order and BTreeMap order ---------- *)

Lemma canon_keys_json : forall ks, canon (keys_json ks) = keys_json ks.
Proof.
  intro ks. unfold keys_json. cbn [canon]. f_equal. rewrite map_map. apply map_ext.
  intro k. unfold key_json. destruct (serde_name k); reflexivity.
Qed.

Lemma build_map_special : forall a b c,
  build_map [(lit "keys", a); (lit "delay_ms", b); (lit "interval_ms", c)]
  = [(lit "delay_ms", b); (lit "interval_ms", c); (lit "keys", a)].
Proof. intros a b c. vm_compute. reflexivity. Qed.

Lemma build_map_mapping : forall a b c d,
  build_map [(lit "from", a); (lit "to", b); (lit "repeat", c); (lit "absorbing", d)]
  = [(lit "absorbing", d); (lit "from", a); (lit "repeat", c); (lit "to", b)].
Proof. intros a b c d. vm_compute. reflexivity. Qed.

Lemma canon_ser_repeat : forall r, canon (ser_repeat r) = repeat_json r.
Proof.
  intros [| |ks d i]; [reflexivity|reflexivity|].
  unfold ser_repeat, repeat_json. cbn [canon map fst snd]. rewrite canon_keys_json.
  rewrite build_map_special. reflexivity.
Qed.

Lemma canon_ser_mapping : forall m, canon (ser_mapping m) = mapping_json m.
Proof.
  intro m. unfold ser_mapping, mapping_json. cbn [canon map fst snd].
  rewrite !canon_keys_json, canon_ser_repeat, build_map_mapping. reflexivity.
Qed.

(* the tree derive(Serialize) emits stands for the Value Serde.to_json *)
Theorem canon_ser_layout : forall L, canon (ser_layout L) = to_json L.
Proof.
  intro L. unfold ser_layout, to_json. cbn [canon map fst snd]. rewrite map_map.
  rewrite (map_ext _ _ canon_ser_mapping). reflexivity.
Qed.

Lemma canonical_keys_json : forall ks, canonical (keys_json ks) = true.
Proof.
  intro ks. unfold keys_json. cbn [canonical]. rewrite forallb_forall. intros x Hx.
  apply in_map_iff in Hx. destruct Hx as (k & E & _). subst. unfold key_json. destruct (serde_name k); reflexivity.
Qed.

Theorem canonical_to_json : forall L, canonical (to_json L) = true.
Proof.
  intro L. unfold to_json. cbn [canonical map fst snd forallb]. change (keys_sorted [lit "mappings"]) with true.
  cbn [andb]. rewrite andb_true_r. rewrite forallb_forall. intros x Hx.
  apply in_map_iff in Hx. destruct Hx as (m & E & _). subst. unfold mapping_json.
  cbn [canonical map fst snd forallb]. rewrite !canonical_keys_json.
  change (keys_sorted [lit "absorbing"; lit "from"; lit "repeat"; lit "to"]) with true. cbn [andb].
  rewrite andb_true_r. destruct (m_repeat m) as [| |ks d i]; [reflexivity|reflexivity|].
  unfold repeat_json. cbn [canonical map fst snd forallb]. rewrite canonical_keys_json. reflexivity.
Qed.

Theorem canon_to_json : forall L, canon (to_json L) = to_json L.
Proof. intro L. apply canon_canonical. apply canonical_to_json. Qed.

(* ================================================================ 8. the saved layout file *)

Lemma valid_scalar_lit : forall s, forallb valid_scalar (lit s) = true.
Proof.
  induction s as [|a s IH]; [reflexivity|]. cbn [lit forallb]. rewrite IH, andb_true_r.
  destruct a as [[] [] [] [] [] [] [] []]; reflexivity.
Qed.

Lemma serde_name_in_valid : forall tbl k s, serde_name_in tbl k = Some s -> forallb valid_scalar s = true.
Proof.
  induction tbl as [|[[i c] n] t IH]; intros k s E; [discriminate|].
  cbn [serde_name_in] in E. destruct (c =? k); [|exact (IH k s E)].
  injection E as E. subst. apply valid_scalar_lit.
Qed.

Lemma printable_keys_json : forall ks, printable (keys_json ks) = true.
Proof.
  intro ks. unfold keys_json. cbn [printable]. rewrite forallb_forall. intros x Hx.
  apply in_map_iff in Hx. destruct Hx as (k & E & _). subst. unfold key_json.
  destruct (serde_name k) as [s|] eqn:E; [|reflexivity].
  cbn [printable]. unfold serde_name in E. eapply serde_name_in_valid. exact E.
Qed.

Lemma is_i32_is_i64 : forall z, is_i32 z = true -> is_i64 z = true.
Proof.
  intros z H. unfold is_i32 in H. unfold is_i64. apply andb_true_iff in H. destruct H as [H1 H2].
  apply Z.leb_le in H1. apply Z.leb_le in H2. apply andb_true_iff. split; apply Z.leb_le; lia.
Qed.

Lemma printable_ser_layout : forall L, wf_basic L = true -> printable (ser_layout L) = true.
Proof.
  intros L H. unfold ser_layout. cbn [printable forallb fst snd]. rewrite valid_scalar_lit. cbn [andb].
  rewrite andb_true_r. rewrite forallb_forall. intros x Hx.
  apply in_map_iff in Hx. destruct Hx as (m & E & Hm). subst.
  unfold wf_basic in H. rewrite forallb_forall in H. specialize (H m Hm).
  unfold wf_basic_mapping in H. repeat (apply andb_true_iff in H; destruct H as [H ?]).
  unfold ser_mapping. cbn [printable forallb fst snd]. rewrite !valid_scalar_lit, !printable_keys_json. cbn [andb].
  rewrite andb_true_r. destruct (m_repeat m) as [| |ks d i]; [reflexivity|reflexivity|].
  match goal with R : repeat_okb _ = true |- _ => unfold repeat_okb in R;
    apply andb_true_iff in R; destruct R as [R Hi]; apply andb_true_iff in R; destruct R as [_ Hd] end.
  unfold ser_repeat. cbn [printable forallb fst snd]. rewrite !valid_scalar_lit, printable_keys_json.
  rewrite (is_i32_is_i64 _ Hd), (is_i32_is_i64 _ Hi). reflexivity.
Qed.

Lemma depth_keys_json : forall ks, depth (keys_json ks) = 1%nat.
Proof.
  intro ks. unfold keys_json. cbn [depth]. f_equal. induction ks as [|k ks IH]; [reflexivity|].
  cbn [map fold_right]. rewrite IH. unfold key_json. destruct (serde_name k); reflexivity.
Qed.

Lemma depth_ser_mapping : forall m, (depth (ser_mapping m) <= 4)%nat.
Proof.
  intro m. unfold ser_mapping. cbn [depth fold_right snd]. rewrite !depth_keys_json.
  destruct (m_repeat m) as [| |ks d i]; cbn [ser_repeat depth fold_right snd]; [lia|lia|].
  rewrite depth_keys_json. lia.
Qed.

(* a saved layout nests six levels deep, far below the reader's limit *)
Lemma depth_ser_layout : forall L, (depth (ser_layout L) <= 6)%nat.
Proof.
  intro L. unfold ser_layout. cbn [depth fold_right snd].
  assert (H : (fold_right (fun x m => Nat.max (depth x) m) 0%nat (map ser_mapping L) <= 4)%nat).
  { induction L as [|m L IH]; [cbn; lia|]. cbn [map fold_right]. pose proof (depth_ser_mapping m). lia. }
  lia.
Qed.

(* the text of the saved file is read back as the Value Serde.to_json *)
Theorem parse_saved_text : forall L, wf_basic L = true -> parse_text (save_text L) = Some (to_json L).
Proof.
  intros L H. unfold save_text. rewrite parse_print_pretty.
  - rewrite canon_ser_layout. reflexivity.
  - apply printable_ser_layout. exact H.
  - pose proof (depth_ser_layout L). lia.
Qed.

(* write_layout_to_global_config, then load_layout_from_file *)
Theorem saved_text_reloads : forall L, wf_basic L = true -> load_text (save_text L) = Ok L.
Proof.
  intros L H. unfold load_text. rewrite parse_saved_text by exact H. apply roundtrip. exact H.
Qed.

Theorem loaded_then_saved_text_reloads : forall j L, load j = Ok L -> load_text (save_text L) = Ok L.
Proof. intros j L H. apply saved_text_reloads. eapply loaded_is_wf_basic. exact H. Qed.

(* the same from the text of any layout file that loads *)
Theorem loaded_text_then_saved_text_reloads : forall t L, load_text t = Ok L -> load_text (save_text L) = Ok L.
Proof.
  intros t L H. unfold load_text in H. destruct (parse_text t) as [j|]; [|discriminate].
  eapply loaded_then_saved_text_reloads. exact H.
Qed.
