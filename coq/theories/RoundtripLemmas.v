(* RoundtripLemmas.v — C15: the serde form of a basic layout parses to the
   alias-free fancy layout with one single mapping per basic mapping, which
   converts back to the same basic layout. *)
From TM Require Import Base Json RustOps Fancy Mapper Parser Convert SpecTables ConvertSpec Serde LoaderCheck
  RustOpsLemmas StrLemmas ParserLemmas KeyNames ExpandLemmas.
From TMGen Require Import KeyTable.
From Coq Require Import Lia Arith.

(* ---------- lists ---------- *)

Lemma removelast_map : forall {A B} (f : A -> B) l, removelast (map f l) = map f (removelast l).
Proof.
  induction l as [|x l IH]; [reflexivity|]. destruct l as [|y l]; [reflexivity|].
  cbn [map removelast] in *. rewrite IH. reflexivity.
Qed.

Lemma last_map : forall {A B} (f : A -> B) l d, l <> [] -> last (map f l) (f d) = f (last l d).
Proof.
  induction l as [|x l IH]; intros d H; [contradiction|]. destruct l as [|y l]; [reflexivity|].
  cbn [map last] in *. apply IH. discriminate.
Qed.

Lemma map_res_Forall : forall {A B} (f : A -> res B) (g : A -> B) l,
  (forall x, In x l -> f x = Ok (g x)) -> map_res f l = Ok (map g l).
Proof.
  induction l as [|x l IH]; intro H; cbn [map_res map]; [reflexivity|].
  rewrite H by (left; reflexivity). cbn [bind]. rewrite IH by (intros; apply H; right; assumption). reflexivity.
Qed.

(* ---------- keys ---------- *)

Lemma known_key_json : forall k, known_key k = true ->
  exists s, key_json k = JStr s /\ parse_key_code s = Ok k /\ starts_with_at s = false.
Proof.
  intros k H. unfold known_key in H. unfold key_json. destruct (serde_name k) as [s|] eqn:E; [|discriminate].
  exists s. destruct (serde_name_parses k s E) as [H1 H2]. repeat split; assumption.
Qed.

Lemma parse_modifier_key_json : forall k, known_key k = true ->
  parse_from_modifier (key_json k) = Ok (MKey k) /\ parse_to_initial_elem (key_json k) = Ok (MKey k)
  /\ parse_key_code_j (key_json k) = Ok k
  /\ (match key_json k with JStr t => parse_modifier t | _ => Err end) = Ok (MKey k)
  /\ parse_from_key (key_json k) = Ok (FKSingle k)
  /\ parse_single_or_alias_to_terminal (key_json k) = Ok (SoaSingle (TPhysical k))
  /\ parse_single_to_terminal (key_json k) = Ok (TPhysical k).
Proof.
  intros k H. destruct (known_key_json k H) as [s [E [H1 H2]]]. rewrite E.
  unfold parse_from_modifier, parse_to_initial_elem, parse_key_code_j, parse_modifier, parse_from_key,
    parse_from_key_text, parse_single_or_alias_to_terminal, parse_single_or_alias_to_text,
    parse_single_to_terminal, parse_single_to_text.
  rewrite H2, H1. cbn [bind]. repeat split; reflexivity.
Qed.

Definition kn (ks : list key) : Prop := forallb known_key ks = true.

Lemma kn_In : forall ks k, kn ks -> In k ks -> known_key k = true.
Proof. intros ks k H Hin. unfold kn in H. rewrite forallb_forall in H. apply H. exact Hin. Qed.

Lemma kn_removelast : forall ks, kn ks -> kn (removelast ks).
Proof.
  intros ks H. unfold kn. apply forallb_forall. intros k Hk. eapply kn_In; [exact H|].
  destruct ks as [|x ks]; [destruct Hk|]. rewrite (app_removelast_last 0%N) by discriminate.
  apply in_or_app. left. exact Hk.
Qed.

Lemma kn_last : forall ks, kn ks -> ks <> [] -> known_key (last ks 0%N) = true.
Proof.
  intros ks H Hne. eapply kn_In; [exact H|]. rewrite (app_removelast_last 0%N Hne) at 2.
  apply in_or_app. right. left. reflexivity.
Qed.

Lemma parse_from_modifiers_keys : forall ks, kn ks -> parse_from_modifiers (map key_json ks) = Ok (map MKey ks).
Proof.
  intros ks H. unfold parse_from_modifiers. rewrite map_res_map. apply map_res_Forall.
  intros k Hk. apply parse_modifier_key_json. eapply kn_In; eassumption.
Qed.

Lemma parse_to_initial_keys : forall ks, kn ks -> parse_to_initial (map key_json ks) = Ok (map MKey ks).
Proof.
  intros ks H. unfold parse_to_initial. rewrite map_res_map. apply map_res_Forall.
  intros k Hk. apply parse_modifier_key_json. eapply kn_In; eassumption.
Qed.

(* ---------- the fancy mapping a basic mapping is read back as ---------- *)

Definition st_of (ks : list key) : single_to :=
  match ks with
  | [] => mkSingleTo [] TNull
  | _ => mkSingleTo (map MKey (removelast ks)) (TPhysical (last ks 0%N))
  end.

Definition srep_of (r : Mapper.repeat) : single_repeat :=
  match r with
  | RNormal => SRNormal
  | RDisabled => SRDisabled
  | RSpecial ks d i => SRSpecial (st_of ks) d i
  end.

Definition fancy_of_mapping (m : mapping) : fmapping :=
  FSingle (mkSingleFrom (map MKey (removelast (m_from m))) (last (m_from m) 0%N))
          (st_of (m_to m)) (srep_of (m_repeat m)) (map MKey (m_abs m)).

(* the operations on a non-empty array of key names *)
Lemma keys_array_ops : forall s1 s2 s3 ks, ks <> [] ->
  Nat.eqb (length (map key_json ks)) 0 = false
  /\ usub s1 (length (map key_json ks)) 1 = Ok (length (map key_json ks) - 1)%nat
  /\ slice s2 (map key_json ks) 0 (length (map key_json ks) - 1) = Ok (map key_json (removelast ks))
  /\ idx s3 (map key_json ks) (length (map key_json ks) - 1) = Ok (key_json (last ks 0%N)).
Proof.
  intros s1 s2 s3 ks Hne.
  assert (Nat.eqb (length (map key_json ks)) 0 = false) as E.
  { destruct ks; [contradiction|reflexivity]. }
  split; [exact E|].
  destruct (nonempty_ops s1 s2 s3 (map key_json ks) (key_json 0%N) E) as [H1 [H2 H3]].
  split; [exact H1|]. split.
  - rewrite H2, removelast_map. reflexivity.
  - rewrite H3, last_map by exact Hne. reflexivity.
Qed.

Lemma parse_from_keys : forall ks, kn ks -> ks <> [] ->
  parse_from (keys_json ks) = Ok (FromSingle (mkSingleFrom (map MKey (removelast ks)) (last ks 0%N))).
Proof.
  intros ks H Hne. unfold parse_from, keys_json.
  destruct (keys_array_ops "parse_from:len-1" "parse_from:from_elems[0..len-1]" "parse_from:from_elems[len-1]" ks Hne)
    as [E [H1 [H2 H3]]].
  rewrite E, H1. cbn [bind]. rewrite H2. cbn [bind].
  rewrite parse_from_modifiers_keys by (apply kn_removelast; exact H). cbn [bind]. rewrite H3. cbn [bind].
  destruct (parse_modifier_key_json _ (kn_last ks H Hne)) as [_ [_ [_ [_ [H5 _]]]]]. rewrite H5. reflexivity.
Qed.

Lemma parse_single_or_alias_to_keys : forall ks, kn ks -> parse_single_or_alias_to (keys_json ks) = Ok (SoaToSingle (st_of ks)).
Proof.
  intros ks H. unfold parse_single_or_alias_to, keys_json, parse_single_or_alias_to_array.
  destruct ks as [|x l]; [reflexivity|]. set (ks := x :: l) in *. assert (ks <> []) as Hne by discriminate.
  destruct (keys_array_ops "parse_single_or_alias_to_array:len-1" "parse_single_or_alias_to_array:to_elems[0..len-1]"
              "parse_single_or_alias_to_array:to_elems[len-1]" ks Hne) as [E [H1 [H2 H3]]].
  rewrite E, H1. cbn [bind]. rewrite H3. cbn [bind].
  destruct (parse_modifier_key_json _ (kn_last ks H Hne)) as [_ [_ [_ [_ [_ [H6 _]]]]]]. rewrite H6. cbn [bind].
  rewrite H2. cbn [bind]. rewrite parse_to_initial_keys by (apply kn_removelast; exact H). reflexivity.
Qed.

Lemma parse_single_to_keys : forall ks, kn ks -> parse_single_to (keys_json ks) = Ok (st_of ks).
Proof.
  intros ks H. unfold parse_single_to, keys_json, parse_single_to_array.
  destruct ks as [|x l]; [reflexivity|]. set (ks := x :: l) in *. assert (ks <> []) as Hne by discriminate.
  destruct (keys_array_ops "parse_single_to_array:len-1" "parse_single_to_array:to_elems[0..len-1]"
              "parse_single_to_array:to_elems[len-1]" ks Hne) as [E [H1 [H2 H3]]].
  rewrite E, H1. cbn [bind]. rewrite H2. cbn [bind].
  rewrite parse_to_initial_keys by (apply kn_removelast; exact H). cbn [bind]. rewrite H3. cbn [bind].
  destruct (parse_modifier_key_json _ (kn_last ks H Hne)) as [_ [_ [_ [_ [_ [_ H7]]]]]]. rewrite H7. reflexivity.
Qed.

(* ---------- repeat ---------- *)

Lemma wrap_i32_id : forall z, is_i32 z = true -> wrap_i32 z = z.
Proof.
  intros z H. unfold is_i32 in H. apply andb_true_iff in H. destruct H as [H1 H2].
  apply Z.leb_le in H1. apply Z.leb_le in H2. unfold wrap_i32. rewrite Z.mod_small by lia. lia.
Qed.

Lemma repeat_names : str_eqb (to_lowercase (lit "Normal")) name_normal = true
  /\ str_eqb (to_lowercase (lit "Disabled")) name_normal = false
  /\ str_eqb (to_lowercase (lit "Disabled")) name_disabled = true.
Proof. vm_compute. repeat split; reflexivity. Qed.

Lemma special_obj : forall v,
  has_exactly_keys [(lit "Special", v)] [k_Special] = true /\ obj_get [(lit "Special", v)] k_Special = Some v.
Proof. intro v. split; reflexivity. Qed.

Lemma special_fields : forall a b c,
  let sp := [(lit "delay_ms", a); (lit "interval_ms", b); (lit "keys", c)] in
  has_exactly_keys sp [k_keys; k_delay_ms; k_interval_ms] = true
  /\ obj_get sp k_keys = Some c /\ obj_get sp k_delay_ms = Some a /\ obj_get sp k_interval_ms = Some b.
Proof. intros a b c. repeat split; reflexivity. Qed.

Lemma parse_single_repeat_json : forall r, repeat_okb r = true -> parse_single_repeat (Some (repeat_json r)) = Ok (srep_of r).
Proof.
  intros [| |ks d i] H; cbn [repeat_json parse_single_repeat srep_of].
  - destruct repeat_names as [H1 _]. rewrite H1. reflexivity.
  - destruct repeat_names as [_ [H2 H3]]. rewrite H2, H3. reflexivity.
  - cbn [repeat_okb] in H. apply andb_true_iff in H. destruct H as [H Hi]. apply andb_true_iff in H. destruct H as [Hk Hd].
    unfold parse_repeat_special.
    destruct (special_obj (JObj [(lit "delay_ms", JNum (Some d)); (lit "interval_ms", JNum (Some i)); (lit "keys", keys_json ks)]))
      as [E1 E2].
    rewrite E1, E2. cbn [unwrap bind].
    destruct (special_fields (JNum (Some d)) (JNum (Some i)) (keys_json ks)) as [F1 [F2 [F3 F4]]]. cbv zeta in F1, F2, F3, F4.
    rewrite F1, F2, F3, F4. cbn [unwrap bind].
    unfold parse_single_repeat_keys. rewrite (parse_single_to_keys ks Hk). cbn [bind].
    unfold parse_repeat_delay_ms, parse_repeat_interval_ms, parse_repeat_ms. cbn [bind].
    rewrite (wrap_i32_id d Hd), (wrap_i32_id i Hi). reflexivity.
Qed.

(* ---------- absorbing ---------- *)

Lemma parse_absorbing_keys : forall ks, kn ks -> parse_absorbing (Some (keys_json ks)) = Ok (map MKey ks).
Proof.
  intros ks H. unfold parse_absorbing, keys_json. rewrite map_res_map. apply map_res_Forall.
  intros k Hk. apply parse_modifier_key_json. eapply kn_In; eassumption.
Qed.

Lemma absorbing_on_from_keys : forall ab mods, subset ab mods = true -> absorbing_on_from (map MKey ab) (map MKey mods) = true.
Proof.
  intros ab mods H. unfold absorbing_on_from, subset in *. rewrite forallb_forall in *.
  intros m Hm. apply in_map_iff in Hm. destruct Hm as [k [Hk Hin]]. subst m. specialize (H k Hin).
  unfold mem in H. apply existsb_exists in H. destruct H as [k' [Hk' E]]. apply N.eqb_eq in E. subst k'.
  apply existsb_exists. exists (MKey k). split; [apply in_map; exact Hk'|]. cbn. apply N.eqb_refl.
Qed.

(* ---------- one mapping ---------- *)

Lemma mapping_obj : forall a f r t,
  let mv := [(lit "absorbing", a); (lit "from", f); (lit "repeat", r); (lit "to", t)] in
  has_at_least_keys mv [k_from; k_to] = true
  /\ obj_get mv k_from = Some f /\ obj_get mv k_to = Some t /\ obj_get mv k_repeat = Some r /\ obj_get mv k_absorbing = Some a.
Proof. intros a f r t. repeat split; reflexivity. Qed.

Lemma wf_basic_mapping_parts : forall m, wf_basic_mapping m = true ->
  m_from m <> [] /\ nodupb (m_from m) = true /\ nodupb (m_to m) = true
  /\ kn (m_from m) /\ kn (m_to m) /\ kn (m_abs m) /\ repeat_okb (m_repeat m) = true
  /\ subset (m_abs m) (removelast (m_from m)) = true.
Proof.
  intros m H. unfold wf_basic_mapping in H. repeat (apply andb_true_iff in H; destruct H as [H ?]).
  repeat split; try assumption. destruct (m_from m); [discriminate|discriminate].
Qed.

Lemma parse_mapping_json : forall m, wf_basic_mapping m = true ->
  parse_mapping_from_json (mapping_json m) = Ok (fancy_of_mapping m).
Proof.
  intros m H. destruct (wf_basic_mapping_parts m H) as [Hne [_ [_ [Hf [Ht [Ha [Hr Hs]]]]]]].
  unfold mapping_json, parse_mapping_from_json.
  destruct (mapping_obj (keys_json (m_abs m)) (keys_json (m_from m)) (repeat_json (m_repeat m)) (keys_json (m_to m)))
    as [E0 [E1 [E2 [E3 E4]]]]. cbv zeta in E0, E1, E2, E3, E4.
  rewrite E0, E1, E2, E3, E4. cbn [unwrap bind].
  rewrite (parse_from_keys _ Hf Hne). cbn [bind].
  rewrite (parse_single_or_alias_to_keys _ Ht). cbn [bind].
  rewrite (parse_single_repeat_json _ Hr). cbn [bind].
  rewrite (parse_absorbing_keys _ Ha). cbn [bind sf_mods].
  rewrite (absorbing_on_from_keys _ _ Hs). reflexivity.
Qed.

(* ---------- the whole file ---------- *)

Lemma filter_map_just_mods_keys : forall ks, Parser.filter_map just_mods (map MKey ks) = [].
Proof. induction ks as [|k ks IH]; [reflexivity|]. cbn [map Parser.filter_map just_mods]. exact IH. Qed.

Lemma st_of_initial_aliases : forall ks, Parser.filter_map just_mods (st_initial (st_of ks)) = [].
Proof. intros [|k ks]; [reflexivity|]. unfold st_of. cbn [st_initial]. apply filter_map_just_mods_keys. Qed.

Lemma used_aliases_none : forall m, mapping_all_used_aliases (fancy_of_mapping m) = [].
Proof.
  intro m. unfold fancy_of_mapping. cbn [mapping_all_used_aliases sf_mods].
  rewrite !filter_map_just_mods_keys, st_of_initial_aliases.
  destruct (m_repeat m) as [| |ks d i]; cbn [srep_of]; [reflexivity|reflexivity|].
  rewrite st_of_initial_aliases. reflexivity.
Qed.

Lemma wf_basic_In : forall L m, wf_basic L = true -> In m L -> wf_basic_mapping m = true.
Proof. intros L m H Hin. unfold wf_basic in H. rewrite forallb_forall in H. apply H. exact Hin. Qed.

Lemma layout_obj : forall v,
  has_exactly_keys [(lit "mappings", v)] [k_mappings] = true /\ obj_get [(lit "mappings", v)] k_mappings = Some v.
Proof. intro v. split; reflexivity. Qed.

Lemma parse_layout_to_json : forall L, wf_basic L = true -> parse_layout (to_json L) = Ok (map fancy_of_mapping L).
Proof.
  intros L H. unfold parse_layout, to_json.
  destruct (layout_obj (JArr (map mapping_json L))) as [E1 E2]. rewrite E1, E2. cbn [unwrap bind].
  rewrite map_res_map.
  rewrite (map_res_Forall _ fancy_of_mapping) by (intros m Hm; apply parse_mapping_json; eapply wf_basic_In; eassumption).
  cbn [bind].
  assert (forall defined fs, iter_res (check_aliases_defined defined) (map fancy_of_mapping fs) = Ok tt) as Hit.
  { intros defined fs. induction fs as [|m fs IH]; cbn [map iter_res]; [reflexivity|].
    unfold check_aliases_defined at 1. rewrite used_aliases_none. cbn [iter_res bind]. exact IH. }
  rewrite Hit. reflexivity.
Qed.

(* ---------- converting the alias-free layout ---------- *)

Lemma subst_output_keys : forall ks, subst_output [] [] (map MKey ks) = Ok ks.
Proof.
  intro ks. unfold subst_output. rewrite map_res_map.
  rewrite (map_res_Forall _ (fun k => [k])) by reflexivity. cbn [bind]. f_equal.
  induction ks as [|k ks IH]; [reflexivity|]. cbn [map concat app]. rewrite IH. reflexivity.
Qed.

Lemma subst_trigger_keys : forall ks ch, subst_trigger (map MKey ks) ch = ks.
Proof. induction ks as [|k ks IH]; intro ch; [reflexivity|]. cbn [map subst_trigger]. rewrite IH. reflexivity. Qed.

Lemma alias_slots_keys : forall ks, alias_slots (map MKey ks) = [].
Proof. induction ks as [|k ks IH]; [reflexivity|]. cbn [map alias_slots flat_map app]. exact IH. Qed.

Lemma spec_single_to_st_of : forall ks, spec_single_to [] [] (st_of ks) = Ok ks.
Proof.
  intros [|x l]; [reflexivity|]. set (ks := x :: l).
  change (st_of ks) with (mkSingleTo (map MKey (removelast ks)) (TPhysical (last ks 0%N))).
  unfold spec_single_to. cbn [st_terminal st_initial].
  rewrite subst_output_keys. cbn [bind]. rewrite <- (app_removelast_last 0%N) by discriminate. reflexivity.
Qed.

Lemma spec_single_repeat_srep_of : forall r, spec_single_repeat [] [] (srep_of r) = Ok r.
Proof.
  intros [| |ks d i]; cbn [srep_of spec_single_repeat]; try reflexivity. rewrite spec_single_to_st_of. reflexivity.
Qed.

Lemma expand_mapping_fancy_of : forall f m, m_from m <> [] -> expand_mapping f (fancy_of_mapping m) = Ok [m].
Proof.
  intros f m Hne. unfold fancy_of_mapping. cbn [expand_mapping]. unfold expand_single. cbn [sf_mods sf_key].
  unfold candidates. rewrite alias_slots_keys. cbn [map_res bind choices].
  rewrite spec_single_to_st_of, spec_single_repeat_srep_of, subst_output_keys. cbn [bind].
  rewrite subst_trigger_keys. rewrite <- (app_removelast_last 0%N) by exact Hne. destruct m; reflexivity.
Qed.

Lemma expand_core_fancy_of : forall L, (forall m, In m L -> m_from m <> []) ->
  expand_core (map fancy_of_mapping L) = Ok L.
Proof.
  intros L H. unfold expand_core. set (f := map fancy_of_mapping L).
  assert (forall l, (forall m, In m l -> m_from m <> []) ->
            map_res (expand_mapping f) (map fancy_of_mapping l) = Ok (map (fun m => [m]) l)) as H1.
  { intros l Hl. rewrite map_res_map. apply map_res_Forall. intros m Hm. apply expand_mapping_fancy_of. apply Hl. exact Hm. }
  assert (forall l, map_res (repeat_requests f) (map fancy_of_mapping l) = Ok (map (fun _ => []) l)) as H2.
  { intro l. rewrite map_res_map. apply map_res_Forall. reflexivity. }
  unfold f at 2 4. rewrite (H1 L H). cbn [bind]. rewrite H2. cbn [bind].
  assert (forall l : list mapping, concat (map (fun m => [m]) l) = l) as C1.
  { induction l as [|m l IH]; [reflexivity|]. cbn [map concat app]. rewrite IH. reflexivity. }
  assert (forall (l : list mapping), concat (map (fun _ => @nil (list key * Mapper.repeat)) l) = []) as C2.
  { induction l as [|m l IH]; [reflexivity|]. cbn [map concat app]. exact IH. }
  rewrite C1, C2. reflexivity.
Qed.

(* the round trip *)
Theorem roundtrip : forall L, wf_basic L = true -> load (to_json L) = Ok L.
Proof.
  intros L H. unfold load. rewrite (parse_layout_to_json L H). cbn [bind].
  rewrite convert_refines_spec. unfold expand.
  rewrite expand_core_fancy_of.
  2:{ intros m Hm. apply (wf_basic_mapping_parts m). eapply wf_basic_In; eassumption. }
  cbn [bind].
  assert (existsb repeats_a_key L = false) as E.
  { destruct (existsb repeats_a_key L) eqn:E; [|reflexivity]. apply existsb_exists in E. destruct E as [m [Hm Hr]].
    destruct (wf_basic_mapping_parts m (wf_basic_In L m H Hm)) as [_ [N1 [N2 _]]].
    unfold repeats_a_key in Hr. rewrite N1, N2 in Hr. discriminate. }
  rewrite E. reflexivity.
Qed.
