(* ConvertSpec.v — SPECIFICATION of the shorthand expansion (property C13).
   Definitions only.  It is written as list comprehensions over the source
   layout, uses the hand-written keyboard of SpecTables.v (not the tables of
   /repo) and none of the converter's machinery (no indices, no odometer, no
   hash tables).  C13_convert_refines_spec proves Convert.convert = expand.

   Reading:
   * an alias @a stands for any ONE of its definitions (the alias mappings
     named @a, in source order); a definition contributes its trigger keys;
   * a mapping whose trigger uses alias modifiers stands for one mapping per
     combination of definitions, the FIRST alias slot varying fastest;
   * on the output side (to, repeat keys, absorbing) an alias is replaced by the
     keys chosen for it on the trigger side (if the alias occurs twice in the
     trigger: by the choice made for its last occurrence);
   * a row mapping stands for one mapping per letter that is not a space, the
     i-th letter on the i-th key of the row, typed as on a US-QWERTY keyboard
     (right Shift if the trigger contains right Shift);
   * a repeat-only entry sets the repeat mode of every mapping with the same
     trigger set (modifiers as a set, same final key); if no mapping produced
     by the ordinary entries has that trigger set it adds an identity mapping
     (decision 9.2: the test looks at the ordinary entries only, so two
     repeat-only entries for the same unmapped trigger add two mappings);
   * a layout in which some resulting trigger or output lists a key twice is
     rejected. *)
From TM Require Export Base Json RustOps Fancy Mapper SpecTables.

(* ---------- alias definitions ---------- *)

Definition defs (f : fancy_layout) (name : str) : list alias_mapping :=
  flat_map (fun m => match m with
                     | FAlias a => if str_eqb (am_name a) name then [a] else []
                     | _ => []
                     end) f.

Definition alias_slots (mods : list modifier) : list str :=
  flat_map (fun m => match m with MAlias a => [a] | MKey _ => [] end) mods.

(* the candidate definitions of every alias slot; an undefined alias is an error *)
Definition candidates (f : fancy_layout) (mods : list modifier) : res (list (list alias_mapping)) :=
  map_res (fun a => match defs f a with [] => Err | ds => Ok ds end) (alias_slots mods).

(* all ways to pick one element from each list; the first list varies fastest *)
Fixpoint choices {A} (cands : list (list A)) : list (list A) :=
  match cands with
  | [] => [[]]
  | c :: rest => flat_map (fun tl => map (fun x => x :: tl) c) (choices rest)
  end.

(* the trigger modifiers with every alias slot replaced by its chosen definition *)
Fixpoint subst_trigger (mods : list modifier) (choice : list alias_mapping) : list key :=
  match mods with
  | [] => []
  | MKey k :: t => k :: subst_trigger t choice
  | MAlias _ :: t =>
    match choice with
    | a :: ch => am_keys a ++ subst_trigger t ch
    | [] => subst_trigger t []
    end
  end.

(* the choice made for alias [a]: that of its last slot *)
Fixpoint chosen (slots : list str) (choice : list alias_mapping) (a : str) : option alias_mapping :=
  match slots, choice with
  | s :: slots', d :: choice' =>
    match chosen slots' choice' a with
    | Some d' => Some d'
    | None => if str_eqb s a then Some d else None
    end
  | _, _ => None
  end.

(* output-side modifiers; an alias that does not occur in the trigger is an error *)
Definition subst_output (slots : list str) (choice : list alias_mapping) (mods : list modifier) : res (list key) :=
  kss <- map_res (fun m => match m with
                           | MKey k => Ok [k]
                           | MAlias a => match chosen slots choice a with Some d => Ok (am_keys d) | None => Err end
                           end) mods ;;
  Ok (concat kss).

Definition spec_single_to (slots : list str) (choice : list alias_mapping) (to : single_to) : res (list key) :=
  match st_terminal to with
  | TPhysical t => ks <- subst_output slots choice (st_initial to) ;; Ok (ks ++ [t])
  | TNull => Ok []
  end.

Definition spec_single_repeat (slots : list str) (choice : list alias_mapping) (rep : single_repeat) : res Mapper.repeat :=
  match rep with
  | SRNormal => Ok RNormal
  | SRDisabled => Ok RDisabled
  | SRSpecial keys d i => ks <- spec_single_to slots choice keys ;; Ok (RSpecial ks d i)
  end.

(* ---------- rows ---------- *)

Definition spec_row (r : row) : list key :=
  match r with
  | RowGrave => spec_row_grave
  | Row1 => spec_row_1
  | RowQ => spec_row_q
  | RowA => spec_row_a
  | RowZ => spec_row_z
  end.

(* how the i-th letter is typed after the modifiers [mods]; None: no letter
   there or a space (= leave that key alone); unknown character: error *)
Definition type_letter (right_shift : bool) (mods : list key) (letters : str) (i : nat) : res (option (list key)) :=
  match nth_error letters i with
  | None => Ok None
  | Some ch =>
    if N.eqb ch 32 then Ok None
    else match spec_char ch with
         | None => Err
         | Some (false, k) => Ok (Some (mods ++ [k]))
         | Some (true, k) => Ok (Some (mods ++ [if right_shift then KEY_RIGHTSHIFT else KEY_LEFTSHIFT] ++ [k]))
         end
  end.

Definition opt_list {A} (o : option A) : list A := match o with Some a => [a] | None => [] end.

(* ---------- one source mapping ---------- *)

Definition expand_single (f : fancy_layout) (from : single_from) (to : single_to) (rep : single_repeat)
           (absorbing : list modifier) : res (list mapping) :=
  let slots := alias_slots (sf_mods from) in
  cands <- candidates f (sf_mods from) ;;
  map_res (fun choice =>
    to' <- spec_single_to slots choice to ;;
    rep' <- spec_single_repeat slots choice rep ;;
    absorbing' <- subst_output slots choice absorbing ;;
    Ok (mkMapping (subst_trigger (sf_mods from) choice ++ [sf_key from]) to' rep' absorbing'))
    (choices cands).

Definition expand_row (f : fancy_layout) (from : row_from) (to : row_to) (rep : row_repeat)
           (absorbing : list modifier) : res (list mapping) :=
  let slots := alias_slots (rf_mods from) in
  let prow := spec_row (rf_row from) in
  cands <- candidates f (rf_mods from) ;;
  per_choice <- map_res (fun choice =>
    let trigger := subst_trigger (rf_mods from) choice in
    let right_shift := existsb (N.eqb KEY_RIGHTSHIFT) trigger in
    to_mods <- subst_output slots choice (rt_initial to) ;;
    (* the repeat letters must not be longer than the letters; repeat modifiers *)
    rep_of <- match rep with
              | WRNormal => Ok (fun _ : nat => Ok RNormal)
              | WRDisabled => Ok (fun _ : nat => Ok RDisabled)
              | WRSpecial keys d i =>
                if (length (rt_letters to) <? length (rt_letters keys))%nat then Err
                else rmods <- subst_output slots choice (rt_initial keys) ;;
                     Ok (fun n : nat =>
                           r <- type_letter right_shift rmods (rt_letters keys) n ;;
                           Ok (match r with Some ks => RSpecial ks d i | None => RNormal end))
              end ;;
    (* more letters than the row has keys *)
    if (length prow <? length (rt_letters to))%nat then Err
    else
      per_letter <- map_res (fun n =>
        to' <- type_letter right_shift to_mods (rt_letters to) n ;;
        match to', nth_error prow n with
        | Some to'', Some pk =>
          rep' <- rep_of n ;;
          absorbing' <- subst_output slots choice absorbing ;;
          Ok [mkMapping (trigger ++ [pk]) to'' rep' absorbing']
        | _, _ => Ok []
        end) (seq 0 (length (rt_letters to))) ;;
      Ok (concat per_letter)) (choices cands) ;;
  Ok (concat per_choice).

Definition expand_alias (a : alias_mapping) : list mapping :=
  match am_keys a with
  | [k] => if spec_is_modifier k then [] else [mkMapping (am_keys a) (am_initial a) RNormal []]
  | _ => [mkMapping (am_keys a) (am_initial a) RNormal []]
  end.

Definition expand_mapping (f : fancy_layout) (m : fmapping) : res (list mapping) :=
  match m with
  | FAlias a => Ok (expand_alias a)
  | FSingle from to rep absorbing => expand_single f from to rep absorbing
  | FRow from to rep absorbing => expand_row f from to rep absorbing
  | FRepeatOnly _ _ => Ok []
  end.

(* ---------- repeat-only entries ---------- *)

(* the (trigger, repeat) requests of a repeat-only entry, one per combination *)
Definition repeat_requests (f : fancy_layout) (m : fmapping) : res (list (list key * Mapper.repeat)) :=
  match m with
  | FRepeatOnly from rep =>
    let slots := alias_slots (sf_mods from) in
    cands <- candidates f (sf_mods from) ;;
    map_res (fun choice =>
      rep' <- spec_single_repeat slots choice rep ;;
      Ok (subst_trigger (sf_mods from) choice ++ [sf_key from], rep')) (choices cands)
  | _ => Ok []
  end.

(* modifiers as a multiset, same final key *)
Fixpoint count_key (k : key) (l : list key) : nat :=
  match l with [] => 0 | x :: t => (if N.eqb x k then 1 else 0) + count_key k t end.

Definition same_multiset (a b : list key) : bool :=
  forallb (fun k => Nat.eqb (count_key k a) (count_key k b)) (a ++ b).

Definition same_trigger (a b : list key) : bool :=
  match last_opt a, last_opt b with
  | Some x, Some y => N.eqb x y && same_multiset (removelast a) (removelast b)
  | None, None => true
  | _, _ => false
  end.

Definition set_repeat_of (m : mapping) (r : Mapper.repeat) : mapping := mkMapping (m_from m) (m_to m) r (m_abs m).

Definition apply_repeat_only (base acc : list mapping) (e : list key * Mapper.repeat) : list mapping :=
  let '(trigger, rep) := e in
  if existsb (fun m => same_trigger (m_from m) trigger) base
  then map (fun m => if same_trigger (m_from m) trigger then set_repeat_of m rep else m) acc
  else acc ++ [mkMapping trigger trigger rep []].

(* ---------- the whole layout ---------- *)

Definition repeats_a_key (m : mapping) : bool := negb (nodupb (m_from m)) || negb (nodupb (m_to m)).

(* the expansion itself *)
Definition expand_core (f : fancy_layout) : res (list mapping) :=
  per_mapping <- map_res (expand_mapping f) f ;;
  let base := concat per_mapping in
  per_entry <- map_res (repeat_requests f) f ;;
  Ok (fold_left (apply_repeat_only base) (concat per_entry) base).

(* ... rejected when a resulting trigger or output lists a key twice *)
Definition expand (f : fancy_layout) : res layout :=
  result <- expand_core f ;;
  if existsb repeats_a_key result then Err else Ok result.
