(* LoopMonitors.v — C10, C11, C12, C20 as executable checkers over an OBSERVED
   transcript of the per-device loop (definitions only).

   A transcript is the list of Driver calls with their answers.  Clock readings
   and sleeps are not Driver calls; each entry instead carries a WINDOW
   [te_lo, te_hi] (ns) that contains every clock reading the loop makes
   between the return of the previous call and this call.  For the model's own
   transcript the window is the exact reading (`annotate`); for the real code
   it is (exit time of the previous call, entry time of this call) as measured
   by the scripted driver, and `tol` absorbs scheduling noise.

   The checker is written WITHOUT reference to Loop.resume: it keeps a ghost
   of what the properties talk about —
     * the specification mapper state for the key events read since the last
       tablet event (a FRESH mapper after every tablet event: C12 "resumes as
       from a fresh start"),
     * the set of keys held on the virtual keyboard according to the sends
       actually made,
     * whether the tablet switch is on, whether a repeat is pending and the
       window of its next wake-up,
     * the devices the loop was notified about and has not drained to Busy —
   and explains every call from it.  The theorems of Properties/C10,C11,C12,C20
   say that no clause ever fires on a transcript of Loop.run; the correspondence
   engine applies the extracted checker to transcripts of the real loop. *)
From TM Require Export Loop Monitors.

Record tentry := mkT { te_call : call; te_resp : resp; te_lo : Z; te_hi : Z }.

Inductive lclause :=
| L_C10_sends          (* a step output not sent at once / sent differently / a send that is no step output *)
| L_C10_unread         (* poll while a device the loop was notified about is not drained to Busy *)
| L_C10_end            (* a call after End, or End not followed by return Ok *)
| L_C11_only_then      (* a chord-shaped send not directly after a TimedOut while repeating *)
| L_C11_chord          (* the chord is not: non-held keys pressed in order, released in reverse *)
| L_C11_schedule       (* wrong time-out while repeating / chord not sent right after the time-out *)
| L_C11_cancel         (* a time-out is requested although no repeat is pending *)
| L_C12_on_releases_all (* after On something is still held on the virtual keyboard *)
| L_C12_silent         (* a send while the tablet switch is on *)
| L_C12_off_fresh      (* after a tablet event the mapping does not behave like a fresh mapper *)
| L_C20_stops.         (* a call after an Err answer, or a different return value *)

(* what the previous entry was, as far as a following send is concerned *)
Inductive prev :=
| PvOther
| PvKey (evs : list event)       (* a key event read outside tablet mode; evs = specified output *)
| PvKeyTab                       (* a key event read in tablet mode *)
| PvTab (was_on : bool) (on : bool)  (* a tablet event *)
| PvTick (chord : option (list event)).  (* TimedOut; Some c = a repeat was pending, c is the chord due *)

Record grep := mkGR { gr_keys : list key; gr_wlo : Z; gr_whi : Z; gr_iv : Z }.

Record ghost := mkG {
  g_ms : state;                   (* specification mapper *)
  g_since_tab : bool;             (* a tablet event has been read *)
  g_tab : bool;                   (* tablet switch on *)
  g_held : list key;              (* held on the virtual keyboard, from the sends made *)
  g_rep : option grep;            (* pending repeat *)
  g_arm : option (list key * Z * Z);  (* Repeating returned; next_wakeup is fixed at the next clock reading *)
  g_prev : prev;
  g_must : option lclause;        (* the next call must be a send, else this clause *)
  g_notified : list device;
  g_ended : bool;
  g_erred : bool
}.

Definition ginit : ghost := mkG init false false [] None None PvOther None [] false false.

Definition dev_eqb (a b : device) : bool :=
  match a, b with DKbd, DKbd => true | DTab, DTab => true | _, _ => false end.

Definition drop_dev (d : device) (l : list device) : list device :=
  filter (fun x => negb (dev_eqb x d)) l.

Definition chord_of (held : list key) (keys : list key) : list event :=
  let c := dedup (filter (fun k => negb (mem k held)) keys) in
  map Pressed c ++ map Released (rev c).

(* evs = presses of some keys then their releases in reverse order (non-empty) *)
Definition chord_shaped (evs : list event) : bool :=
  let n := Nat.div2 (length evs) in
  let ps := firstn n evs in
  let rs := skipn n evs in
  negb (Nat.eqb n 0) && Nat.eqb (length evs) (2 * n)
  && forallb is_pressed ps
  && list_eqb ev_eqb rs (map (fun e => match e with Pressed k => Released k | Released k => Released k end) (rev ps)).

Definition is_nil {A} (l : list A) : bool := match l with [] => true | _ => false end.

(* is the requested time-out t (ns) what `next_wakeup - now` can be?  When the wake-up may already be due, any
   wait of at most 1 ms (the code asks for 1 ms; C11 only says "at most") *)
Definition timeout_ok (tol lo hi wlo whi t : Z) : bool :=
  ((0 <=? t)%Z && (t <=? ns_per_ms)%Z && (wlo - tol <=? hi)%Z)
  || ((lo <? whi)%Z && (wlo - hi - tol <=? t)%Z && (t <=? whi - lo + tol)%Z).

Section WithModifiers.
Variable is_action : key -> bool.
Variable L : layout.
Variable tol : Z.

Definition flag (b : bool) (c : lclause) : list lclause := if b then [c] else [].

Definition sends_clause (g : ghost) : lclause := if g_since_tab g then L_C12_off_fresh else L_C10_sends.

(* a send of evs, judged by what came directly before *)
Definition judge_send (g : ghost) (evs : list event) : list lclause :=
  match g_prev g with
  | PvKey out => flag (negb (list_eqb ev_eqb evs out)) (sends_clause g)
  | PvKeyTab => [L_C12_silent]
  | PvTab was_on on =>
    if was_on then [L_C12_silent]
    else flag (negb (is_nil (apply_evs (g_held g) evs)))
              (if on then L_C12_on_releases_all else L_C12_off_fresh)
  | PvTick (Some c) => flag (negb (list_eqb ev_eqb evs c)) L_C11_chord
  | PvTick None => if g_tab g then [L_C12_silent] else [L_C11_only_then]
  | PvOther =>
    if g_tab g then [L_C12_silent]
    else if chord_shaped evs then [L_C11_only_then] else [sends_clause g]
  end.

Definition with_prev (g : ghost) (p : prev) (m : option lclause) : ghost :=
  mkG (g_ms g) (g_since_tab g) (g_tab g) (g_held g) (g_rep g) (g_arm g) p m
      (g_notified g) (g_ended g) (g_erred g).

(* fix next_wakeup from the window of the first clock reading after the step *)
Definition resolve_arm (g : ghost) (e : tentry) : ghost :=
  match g_arm g, te_call e with
  | Some _, CSend _ => g
  | Some (ks, d, i), _ =>
    let add := (as_u64 d * ns_per_ms)%Z in
    mkG (g_ms g) (g_since_tab g) (g_tab g) (g_held g)
        (Some (mkGR ks (te_lo e + add) (te_hi e + add) i)) None (g_prev g) (g_must g)
        (g_notified g) (g_ended g) (g_erred g)
  | None, _ => g
  end.

Definition gstep (g0 : ghost) (e : tentry) : ghost * list lclause :=
  let pre :=
    flag (g_ended g0) L_C10_end ++ flag (g_erred g0) L_C20_stops
    ++ match g_must g0, te_call e with
       | Some c, CSend _ => []
       | Some c, _ => [c]
       | None, _ => []
       end in
  let g := resolve_arm g0 e in
  let erred := match te_resp e with RErr _ => true | _ => g_erred g end in
  let g := mkG (g_ms g) (g_since_tab g) (g_tab g) (g_held g) (g_rep g) (g_arm g) (g_prev g) (g_must g)
               (g_notified g) (g_ended g) erred in
  match te_call e, te_resp e with
  | CPoll to, r =>
    let c1 := flag (negb (is_nil (g_notified g))) L_C10_unread in
    let c2 :=
      match g_rep g, to with
      | None, None => []
      | None, Some _ => []     (* a time-out requested while nothing repeats is not itself against C11 ("no repeat
                                  chord is written at any other time"): a send after its TimedOut is (L_C11_only_then) *)
      | Some _, None => [L_C11_schedule]
      | Some gr, Some t => flag (negb (timeout_ok tol (te_lo e) (te_hi e) (gr_wlo gr) (gr_whi gr) t)) L_C11_schedule
      end in
    let g1 :=
      match r with
      | RPoll PTimedOut =>
        match g_rep g with
        | Some gr =>
          if g_tab g then
            mkG (g_ms g) (g_since_tab g) (g_tab g) (g_held g) None (g_arm g) (PvTick None) None
                (g_notified g) (g_ended g) (g_erred g)
          else
            let c := chord_of (g_held g) (gr_keys gr) in
            let add := (as_u64 (gr_iv gr) * ns_per_ms)%Z in
            mkG (g_ms g) (g_since_tab g) (g_tab g) (g_held g)
                (Some (mkGR (gr_keys gr) (gr_wlo gr + add) (gr_whi gr + add) (gr_iv gr))) (g_arm g)
                (PvTick (Some c)) (if is_nil c then None else Some L_C11_schedule)
                (g_notified g) (g_ended g) (g_erred g)
        | None => with_prev g (PvTick None) None
        end
      | RPoll (PDeviceEvent ds) =>
        mkG (g_ms g) (g_since_tab g) (g_tab g) (g_held g) (g_rep g) (g_arm g) PvOther None
            ds (g_ended g) (g_erred g)
      | _ => with_prev g PvOther None
      end in
    (g1, pre ++ c1 ++ c2)
  | CNextKbd, RKbd NBusy =>
    (mkG (g_ms g) (g_since_tab g) (g_tab g) (g_held g) (g_rep g) (g_arm g) PvOther None
         (drop_dev DKbd (g_notified g)) (g_ended g) (g_erred g), pre)
  | CNextKbd, RKbd NEnd =>
    (mkG (g_ms g) (g_since_tab g) (g_tab g) (g_held g) (g_rep g) (g_arm g) PvOther None
         (g_notified g) true (g_erred g), pre)
  | CNextKbd, RKbd (NOne ev) =>
    if g_tab g then (with_prev g PvKeyTab None, pre)
    else
      let '(out, rep, ms') := step is_action L (g_ms g) ev in
      let rep' := match rep with RRDisabled | RRRepeating _ _ _ => None | RRNoChange => g_rep g end in
      let arm' := match rep with
                  | RRRepeating ks d i => Some (ks, d, i)
                  | RRDisabled => None
                  | RRNoChange => g_arm g
                  end in
      (mkG ms' (g_since_tab g) (g_tab g) (g_held g) rep' arm' (PvKey out)
           (if is_nil out then None else Some (sends_clause g))
           (g_notified g) (g_ended g) (g_erred g), pre)
  | CNextTab, RTab NBusy =>
    (mkG (g_ms g) (g_since_tab g) (g_tab g) (g_held g) (g_rep g) (g_arm g) PvOther None
         (drop_dev DTab (g_notified g)) (g_ended g) (g_erred g), pre)
  | CNextTab, RTab NEnd =>
    (mkG (g_ms g) (g_since_tab g) (g_tab g) (g_held g) (g_rep g) (g_arm g) PvOther None
         (g_notified g) true (g_erred g), pre)
  | CNextTab, RTab (NOne on) =>
    (mkG init true on (g_held g) None None (PvTab (g_tab g) on)
         (if g_tab g || is_nil (g_held g) then None
          else Some (if on then L_C12_on_releases_all else L_C12_off_fresh))
         (g_notified g) (g_ended g) (g_erred g), pre)
  | CSend evs, r =>
    let held' := match r with RUnit => apply_evs (g_held g) evs | _ => g_held g end in
    (mkG (g_ms g) (g_since_tab g) (g_tab g) held' (g_rep g) (g_arm g) PvOther None
         (g_notified g) (g_ended g) (g_erred g), pre ++ judge_send g evs)
  | _, _ => (with_prev g PvOther None, pre)
  end.

(* all clauses that fire, with the index of the entry *)
Fixpoint gwalk (g : ghost) (n : N) (tr : list tentry) : list (N * lclause) :=
  match tr with
  | [] => []
  | e :: tr' =>
    let '(g', cs) := gstep g e in
    map (fun c => (n, c)) cs ++ gwalk g' (n + 1)%N tr'
  end.

Fixpoint gfinal (g : ghost) (tr : list tentry) : ghost :=
  match tr with
  | [] => g
  | e :: tr' => gfinal (fst (gstep g e)) tr'
  end.

Definition check_transcript (tr : list tentry) : list (N * lclause) := gwalk ginit 0%N tr.

End WithModifiers.

(* the return value against the transcript: after an Err answer the loop returns
   that error; after End it returns Ok *)
Fixpoint first_err (tr : list tentry) : option N :=
  match tr with
  | [] => None
  | e :: tr' => match te_resp e with RErr m => Some m | _ => first_err tr' end
  end.

Definition is_end (r : resp) : bool :=
  match r with RKbd NEnd | RTab NEnd => true | _ => false end.

Definition check_outcome (tr : list tentry) (o : outcome) : list lclause :=
  match first_err tr with
  | Some m => match o with Returned_err m' => if N.eqb m m' then [] else [L_C20_stops] | _ => [L_C20_stops] end
  | None =>
    if existsb (fun e => is_end (te_resp e)) tr
    then match o with Returned_ok | Returned_err _ => [] | _ => [L_C10_end] end   (* it stops: WHAT it returns after End is not C10's *)
    else []
  end.

(* the model's own transcript: clock readings become exact windows, sleeps are dropped *)
Fixpoint annotate (last : Z) (cs : list call) (rs : list resp) : list tentry :=
  match cs, rs with
  | c :: cs', r :: rs' =>
    match c, r with
    | CNow, RNow t => annotate t cs' rs'
    | CNow, _ => annotate last cs' rs'
    | CSleep _, _ => annotate last cs' rs'
    | _, _ => mkT c r last last :: annotate last cs' rs'
    end
  | _, _ => []
  end.
