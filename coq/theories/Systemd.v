(* Systemd.v — an executable reading of how systemd 252 turns the value of an
   `ExecStart=` assignment of a template unit into the argument vector it
   executes.  Written from systemd's rules (systemd.syntax(7),
   systemd.service(5) "COMMAND LINES", systemd.unit(5) "SPECIFIERS") and the
   behaviour of v252 (conf-parser.c, extract-word.c, escape.c cunescape_one,
   utf8.c, specifier.c, load-fragment.c config_parse_exec, env-util.c
   replace_env_argv), NOT from /repo: this file does not import Escape.v.
   Definitions only.  It is the oracle of property C17; accept/reject is
   cross-checked against the installed `systemd-analyze verify` in the thorough
   tier.

   Everything works on BYTES (N < 256), as systemd does.

   Order of processing, as in systemd:
     0. the assignment is dropped unless the line is "UTF-8 clean"
        (utf8_is_valid: well-formed, shortest form, no surrogate, no Unicode
        noncharacter, below U+110000);
     1. the value is split into words (extract_first_word with
        EXTRACT_UNQUOTE|EXTRACT_CUNESCAPE, separators space/tab/LF/CR): quotes
        '...' and "..." group, C escapes are decoded outside quotes and inside
        BOTH kinds of quotes (v252 does that; checked with systemd-analyze),
        a word that is exactly an unquoted `;` ends the command, `\;` as a whole
        word is a literal `;`;
     2. specifiers are expanded in each word (specifier_printf);
     3. at exec time environment variables are expanded in each word
        (replace_env_argv).

   Deliberate strictness (each makes the oracle reject MORE, never less):
     - an unknown or malformed escape sequence rejects the line.  systemd 252
       retries such a word with EXTRACT_CUNESCAPE_RELAX, keeps the backslash
       and the character verbatim and logs "Ignoring unknown escape
       sequences"; a command line that only works through that warning path is
       not "read back by the documented rules";
     - a command terminated by `;` followed by anything but white space is
       rejected (a second command; refused for Type=simple);
     - the first word must be an absolute path after specifier expansion; the
       special executable prefixes (- @ : + !) are not modelled;
     - `$NAME` without braces inside a word is substituted (DESIGN.md 6.4; the
       v252 source passes no REPLACE_ENV_ALLOW_BRACELESS there, so real systemd
       substitutes less than this oracle). *)
From Coq Require Import List NArith Bool.
Import ListNotations.
Open Scope N_scope.

(* ------------------------------------------------------------------ bytes *)

(* WHITESPACE " \t\n\r" *)
Definition is_ws (b : N) : bool := (b =? 32) || (b =? 9) || (b =? 10) || (b =? 13).

Definition is_digit (b : N) : bool := (48 <=? b) && (b <=? 57).
Definition is_upper (b : N) : bool := (65 <=? b) && (b <=? 90).
Definition is_lower (b : N) : bool := (97 <=? b) && (b <=? 122).
Definition is_alnum (b : N) : bool := is_digit b || is_upper b || is_lower b.

(* unhexchar: both cases accepted *)
Definition unhexchar (b : N) : option N :=
  if is_digit b then Some (b - 48)
  else if (97 <=? b) && (b <=? 102) then Some (b - 87)
  else if (65 <=? b) && (b <=? 70) then Some (b - 55)
  else None.

Definition unoctchar (b : N) : option N :=
  if (48 <=? b) && (b <=? 55) then Some (b - 48) else None.

(* unichar_is_valid (utf8.c) *)
Definition unichar_is_valid (ch : N) : bool :=
  (ch <? 1114112)                                   (* end of Unicode space *)
  && negb ((55296 <=? ch) && (ch <=? 57343))        (* (ch & 0xFFFFF800) == 0xD800 *)
  && negb ((64976 <=? ch) && (ch <=? 65007))        (* 0xFDD0..0xFDEF *)
  && negb (N.land ch 65534 =? 65534).               (* (ch & 0xFFFE) == 0xFFFE *)

(* utf8_encode_unichar (utf8.c), written with the shifts and masks of the C *)
Definition encode_unichar (g : N) : list N :=
  if g <? 128 then [N.land g 127]
  else if g <? 2048 then
    [N.lor 192 (N.land (N.shiftr g 6) 31); N.lor 128 (N.land g 63)]
  else if g <? 65536 then
    [N.lor 224 (N.land (N.shiftr g 12) 15); N.lor 128 (N.land (N.shiftr g 6) 63); N.lor 128 (N.land g 63)]
  else if g <? 2097152 then
    [N.lor 240 (N.land (N.shiftr g 18) 7); N.lor 128 (N.land (N.shiftr g 12) 63);
     N.lor 128 (N.land (N.shiftr g 6) 63); N.lor 128 (N.land g 63)]
  else [].

(* utf8_unichar_to_encoded_len *)
Definition unichar_len (ch : N) : N :=
  if ch <? 128 then 1 else if ch <? 2048 then 2 else if ch <? 65536 then 3
  else if ch <? 2097152 then 4 else 5.

Definition is_cont (b : N) : bool := (128 <=? b) && (b <? 192).

(* utf8_is_valid: every sequence is complete, has continuation bytes, is in
   shortest form and denotes a valid unichar.  A NUL byte cannot occur inside a
   line (read_line ends the line there).  Lead bytes 0xF8.. (5/6-byte forms)
   always decode to an invalid unichar, so they are rejected directly. *)
Fixpoint utf8_is_valid (l : list N) : bool :=
  match l with
  | [] => true
  | b0 :: r0 =>
    if b0 =? 0 then false
    else if b0 <? 128 then utf8_is_valid r0
    else if b0 <? 192 then false
    else if b0 <? 224 then
      match r0 with
      | b1 :: r1 =>
        let u := (b0 - 192) * 64 + (b1 - 128) in
        is_cont b1 && (unichar_len u =? 2) && unichar_is_valid u && utf8_is_valid r1
      | _ => false
      end
    else if b0 <? 240 then
      match r0 with
      | b1 :: b2 :: r2 =>
        let u := (b0 - 224) * 4096 + (b1 - 128) * 64 + (b2 - 128) in
        is_cont b1 && is_cont b2 && (unichar_len u =? 3) && unichar_is_valid u && utf8_is_valid r2
      | _ => false
      end
    else if b0 <? 248 then
      match r0 with
      | b1 :: b2 :: b3 :: r3 =>
        let u := (b0 - 240) * 262144 + (b1 - 128) * 4096 + (b2 - 128) * 64 + (b3 - 128) in
        is_cont b1 && is_cont b2 && is_cont b3 && (unichar_len u =? 4) && unichar_is_valid u
        && utf8_is_valid r3
      | _ => false
      end
    else false
  end.

(* ------------------------------------------------- 1. splitting into words *)

(* progress inside a backslash escape (cunescape_one) *)
Inductive esc_state :=
| ENone
| EStart                                   (* a backslash was read *)
| EHex (remaining : nat) (acc : N) (kind : N)  (* kind 0: \xHH byte, 1: \uHHHH, 2: \UHHHHHHHH *)
| EOct (remaining : nat) (acc : N).        (* \OOO *)

(* words are kept in reverse order, the current word in reverse byte order *)
Inductive sstate :=
| SBetween (words : list (list N))         (* between words, skipping separators *)
| SSemi (words : list (list N))            (* the word began with ';' (undecided) *)
| SBsStart (words : list (list N))         (* the word began with '\' (undecided) *)
| SBsSemi (words : list (list N))          (* the word began with "\;" *)
| SDone (words : list (list N))            (* command ended by a lone ';' *)
| SWord (words : list (list N)) (cur : list N) (quote : N) (esc : esc_state).

Definition push_bytes (cur : list N) (bs : list N) : list N := rev bs ++ cur.

(* an ordinary position inside a word, no escape pending *)
Definition word_char (ws : list (list N)) (cur : list N) (quote : N) (b : N) : option sstate :=
  if quote =? 0 then
    if is_ws b then Some (SBetween (rev cur :: ws))
    else if (b =? 39) || (b =? 34) then Some (SWord ws cur b ENone)
    else if b =? 92 then Some (SWord ws cur 0 EStart)
    else Some (SWord ws (b :: cur) 0 ENone)
  else
    if b =? quote then Some (SWord ws cur 0 ENone)
    else if b =? 92 then Some (SWord ws cur quote EStart)
    else Some (SWord ws (b :: cur) quote ENone).

(* the value of a completed numeric escape *)
Definition esc_finish (ws : list (list N)) (cur : list N) (quote : N) (kind : N) (v : N) : option sstate :=
  if v =? 0 then None                                  (* "Don't allow NUL" *)
  else if kind =? 0 then Some (SWord ws (v :: cur) quote ENone)          (* eight_bit *)
  else if kind =? 1 then Some (SWord ws (push_bytes cur (encode_unichar v)) quote ENone)
  else if unichar_is_valid v then Some (SWord ws (push_bytes cur (encode_unichar v)) quote ENone)
  else None.

(* one byte of an escape sequence; anything cunescape_one refuses rejects *)
Definition esc_char (ws : list (list N)) (cur : list N) (quote : N) (e : esc_state) (b : N) : option sstate :=
  match e with
  | ENone => None
  | EStart =>
    let lit v := Some (SWord ws (v :: cur) quote ENone) in
    if b =? 97 then lit 7            (* \a *)
    else if b =? 98 then lit 8       (* \b *)
    else if b =? 102 then lit 12     (* \f *)
    else if b =? 110 then lit 10     (* \n *)
    else if b =? 114 then lit 13     (* \r *)
    else if b =? 116 then lit 9      (* \t *)
    else if b =? 118 then lit 11     (* \v *)
    else if b =? 92 then lit 92      (* \\ *)
    else if b =? 34 then lit 34      (* backslash, double quote *)
    else if b =? 39 then lit 39      (* \' *)
    else if b =? 115 then lit 32     (* \s *)
    else if b =? 120 then Some (SWord ws cur quote (EHex 2 0 0))
    else if b =? 117 then Some (SWord ws cur quote (EHex 4 0 1))
    else if b =? 85 then Some (SWord ws cur quote (EHex 8 0 2))
    else match unoctchar b with
         | Some d => Some (SWord ws cur quote (EOct 2 d))
         | None => None
         end
  | EHex O _ _ => None
  | EHex (S n) acc kind =>
    match unhexchar b with
    | None => None
    | Some d =>
      let acc' := acc * 16 + d in
      match n with
      | O => esc_finish ws cur quote kind acc'
      | S _ => Some (SWord ws cur quote (EHex n acc' kind))
      end
    end
  | EOct O _ => None
  | EOct (S n) acc =>
    match unoctchar b with
    | None => None
    | Some d =>
      let acc' := acc * 8 + d in
      match n with
      | O => if 255 <? acc' then None else esc_finish ws cur quote 0 acc'
      | S _ => Some (SWord ws cur quote (EOct n acc'))
      end
    end
  end.

Definition step (s : sstate) (b : N) : option sstate :=
  match s with
  | SDone ws => if is_ws b then Some (SDone ws) else None
  | SBetween ws =>
    if is_ws b then Some (SBetween ws)
    else if b =? 59 then Some (SSemi ws)
    else if b =? 92 then Some (SBsStart ws)
    else word_char ws [] 0 b
  | SSemi ws =>
    if is_ws b then Some (SDone ws)           (* p[0]==';' && p[1] is white space *)
    else word_char ws [59] 0 b
  | SBsStart ws =>
    if b =? 59 then Some (SBsSemi ws)
    else esc_char ws [] 0 EStart b
  | SBsSemi ws =>
    if is_ws b then Some (SBetween ([59] :: ws))   (* "\;" as a whole word *)
    else None                                      (* "\;x": unknown escape *)
  | SWord ws cur quote ENone => word_char ws cur quote b
  | SWord ws cur quote e => esc_char ws cur quote e b
  end.

Definition finish (s : sstate) : option (list (list N)) :=
  match s with
  | SBetween ws | SDone ws | SSemi ws => Some (rev ws)
  | SBsStart _ => None                               (* trailing backslash *)
  | SBsSemi ws => Some (rev ([59] :: ws))
  | SWord ws cur quote ENone => if quote =? 0 then Some (rev (rev cur :: ws)) else None
  | SWord _ _ _ _ => None
  end.

Fixpoint split_run (s : sstate) (l : list N) : option (list (list N)) :=
  match l with
  | [] => finish s
  | b :: r => match step s b with None => None | Some s' => split_run s' r end
  end.

Definition split_words (line : list N) : option (list (list N)) := split_run (SBetween []) line.

(* --------------------------------------------------- 2. specifier expansion *)

(* the specifier letters the installed systemd 252 resolves in a service unit
   (found by asking systemd-analyze verify about every letter and digit):
   a b c d f g h i j l m n o p q r s t u v w y A B C E G H I J L M N P R S T U V W Y *)
Definition known_specifiers : list N :=
  [97; 98; 99; 100; 102; 103; 104; 105; 106; 108; 109; 110; 111; 112; 113; 114; 115; 116; 117; 118; 119; 121;
   65; 66; 67; 69; 71; 72; 73; 74; 76; 77; 78; 80; 82; 83; 84; 85; 86; 87; 89].

(* what a resolved specifier other than %i / %I stands for: a NUL byte, which no
   argument can contain *)
Definition other_expansion : list N := [0].

Definition omap {A B} (f : A -> B) (o : option A) : option B :=
  match o with Some a => Some (f a) | None => None end.

(* specifier_printf on one word; [percent] = the previous byte was an unconsumed '%' *)
Fixpoint spec_run (inst : list N) (percent : bool) (l : list N) : option (list N) :=
  match l with
  | [] => Some (if percent then [37] else [])      (* a stray final % stays *)
  | b :: r =>
    if percent then
      if b =? 37 then omap (cons 37) (spec_run inst false r)
      else if (b =? 73) || (b =? 105) then omap (app inst) (spec_run inst false r)
      else if existsb (N.eqb b) known_specifiers then omap (app other_expansion) (spec_run inst false r)
      else if is_alnum b then None                  (* POSSIBLE_SPECIFIERS: -EBADSLT *)
      else omap (fun t => 37 :: b :: t) (spec_run inst false r)
    else if b =? 37 then spec_run inst true r
    else omap (cons b) (spec_run inst false r)
  end.

Fixpoint spec_all (inst : list N) (ws : list (list N)) : option (list (list N)) :=
  match ws with
  | [] => Some []
  | w :: r =>
    match spec_run inst false w, spec_all inst r with
    | Some w', Some r' => Some (w' :: r')
    | _, _ => None
    end
  end.

(* ------------------------------------------------- 3. environment expansion *)

Definition is_name_char (b : N) : bool := is_alnum b || (b =? 95).

Definition env_value (env : list N -> option (list N)) (name : list N) : list N :=
  match env name with Some v => v | None => [] end.

(* replace_env: states WORD, CURLY, VARIABLE, VARIABLE_RAW of env-util.c *)
Inductive env_state :=
| VWord
| VCurly                        (* a '$' was read *)
| VVar (name_rev : list N)      (* inside ${ ... *)
| VRaw (name_rev : list N).     (* inside $NAME *)

Fixpoint env_run (env : list N -> option (list N)) (st : env_state) (l : list N) : list N :=
  match l with
  | [] =>
    match st with
    | VWord => []
    | VCurly => [36]
    | VVar n => 36 :: 123 :: rev n              (* unterminated ${ stays as written *)
    | VRaw n => env_value env (rev n)
    end
  | b :: r =>
    match st with
    | VWord => if b =? 36 then env_run env VCurly r else b :: env_run env VWord r
    | VCurly =>
      if b =? 123 then env_run env (VVar []) r
      else if b =? 36 then 36 :: env_run env VWord r          (* $$ -> $ *)
      else if is_name_char b then env_run env (VRaw [b]) r
      else 36 :: b :: env_run env VWord r
    | VVar n =>
      if b =? 125 then env_value env (rev n) ++ env_run env VWord r
      else if b =? 58 then (36 :: 123 :: rev n) ++ 58 :: env_run env VWord r   (* ${X:...}: unsupported, no replacement *)
      else env_run env (VVar (b :: n)) r
    | VRaw n =>
      if is_name_char b then env_run env (VRaw (b :: n)) r
      else env_value env (rev n)
           ++ (if b =? 36 then env_run env VCurly r else b :: env_run env VWord r)
    end
  end.

(* splitting of the value of a whole-word $NAME: strv_split_full(value,
   WHITESPACE, EXTRACT_RELAX|EXTRACT_UNQUOTE): quotes group and are removed, a
   backslash makes the next byte literal, nothing is an error.
   state: (in a word?, quote, after backslash?, current word reversed) *)
Fixpoint split_relaxed (inw : bool) (quote : N) (bs : bool) (cur : list N) (l : list N) : list (list N) :=
  match l with
  | [] => if inw then [rev cur] else []
  | b :: r =>
    if bs then split_relaxed true quote false (b :: cur) r
    else if b =? 92 then split_relaxed true quote true cur r
    else if quote =? 0 then
      if is_ws b then (if inw then rev cur :: split_relaxed false 0 false [] r else split_relaxed false 0 false [] r)
      else if (b =? 39) || (b =? 34) then split_relaxed true b false cur r
      else split_relaxed true 0 false (b :: cur) r
    else if b =? quote then split_relaxed true 0 false cur r
    else split_relaxed true quote false (b :: cur) r
  end.

(* replace_env_argv on one word: "$NAME" as a whole word (second byte neither
   '{' nor '$') is replaced by the split value, or dropped when unset *)
Definition env_word (env : list N -> option (list N)) (w : list N) : list (list N) :=
  match w with
  | b0 :: rest =>
    if b0 =? 36 then
      let whole := match env rest with
                   | Some v => split_relaxed false 0 false [] v
                   | None => []
                   end in
      match rest with
      | b1 :: _ => if (b1 =? 123) || (b1 =? 36) then [env_run env VWord w] else whole
      | [] => whole
      end
    else [env_run env VWord w]
  | [] => [env_run env VWord w]
  end.

(* --------------------------------------------------------------- the whole *)

(* [instance]: the bytes %I stands for; [env]: the service's environment;
   [line]: the bytes after "ExecStart=" up to the end of the line.
   Result: the argument vector (argv[0] first), or None when systemd would not
   run exactly one command from this line. *)
Definition decode (instance : list N) (env : list N -> option (list N)) (line : list N)
  : option (list (list N)) :=
  if utf8_is_valid line then
    match split_words line with
    | None => None
    | Some ws =>
      match spec_all instance ws with
      | None => None
      | Some ws' =>
        match ws' with
        | (b :: _) :: _ =>
          if b =? 47 then Some (flat_map (env_word env) ws')        (* absolute path *)
          else None
        | _ => None
        end
      end
    end
  else None.

(* ------------------------------------------------------- the unit file text *)

(* How systemd 252 reads a unit FILE up to the point where it has the values of
   the ExecStart= assignments of the [Service] section (conf-parser.c
   config_parse / parse_line, fileio.c read_line_full, load-fragment.c
   config_parse_exec for the "empty value resets the list" rule).  Every other
   setting of the file is read past, not interpreted: what this reader answers
   does not depend on Description=, User=, Restart= ... lines, on their order or
   on blank lines and comments.  Each rule below was checked against the
   installed `systemd-analyze verify` (v252) on hand-written unit files:
     - a line ends at LF, CR, NUL, or at one of the pairs CR LF / LF CR (each
       kind of end-of-line byte at most once per line end); a last line
       without line end counts;
     - a line whose first non-blank byte is '#' or ';' is a comment and is
       dropped, ALSO in the middle of a continued line (the continuation goes
       on with the line after the comment);
     - the first line that begins with a UTF-8 byte order mark loses it (the
       comment test comes first);
     - a line that ends in a backslash which is not itself escaped by a
       backslash is joined with the next line, the backslash becoming a space;
       an empty line ends a continuation; a continuation still open at the end
       of the file is used as it is;
     - the joined line is stripped of leading and trailing white space; empty
       lines are skipped; a line that is not "UTF-8 clean" makes the whole
       unit fail to load ("String is not UTF-8 clean, ignoring assignment",
       then "failed to load properly: Invalid argument");
     - "[name]" sets the current section (names are case sensitive; a section
       the unit type does not know is ignored with everything in it); a line
       that begins with '[' and does not end with ']' makes the unit fail to
       load ("Invalid section header");
     - any other line is  key=value  at its first '=' (no '=' or no key: the
       line is ignored with a warning), key and value stripped of white space;
     - ExecStart= counts in section [Service] only.
   Deliberate strictness: EVERY ExecStart= assignment of [Service] is reported,
   also one with an empty value.  For systemd an empty value empties the list
   of commands collected so far, so a unit with such a reset can be fine for
   systemd (unless a line before the reset was malformed: v252 then still
   refuses to start the unit) while a reader that wants exactly one assignment
   refuses it.
   Not modelled: drop-in directories, lines longer than 1 MiB. *)

Fixpoint strip_prefix (p l : list N) : option (list N) :=
  match p, l with
  | [], _ => Some l
  | a :: p', b :: l' => if a =? b then strip_prefix p' l' else None
  | _ :: _, [] => None
  end.

Fixpoint list_eqb (a b : list N) : bool :=
  match a, b with
  | [], [] => true
  | x :: a', y :: b' => (x =? y) && list_eqb a' b'
  | _, _ => false
  end.

Definition is_eol (b : N) : bool := (b =? 10) || (b =? 13) || (b =? 0).
Definition memb (b : N) (l : list N) : bool := existsb (N.eqb b) l.
Definition nonempty (l : list N) : bool := match l with [] => false | _ :: _ => true end.

(* read_line, called until the end of the file.  [cur]: the bytes of the line
   being read, reversed; [prev]: the end-of-line bytes already consumed for it.
   A line is complete when a NUL was consumed, when a byte that is no
   end-of-line byte follows an end-of-line byte, or when an end-of-line byte of
   a kind already consumed comes again; that byte then starts the next line. *)
Fixpoint read_lines (cur prev : list N) (l : list N) : list (list N) :=
  match l with
  | [] => if nonempty prev || nonempty cur then [rev cur] else []
  | b :: r =>
    if memb 0 prev || (negb (is_eol b) && nonempty prev) || (is_eol b && memb b prev)
    then rev cur :: (if is_eol b then read_lines [] [b] r else read_lines [b] [] r)
    else if is_eol b then read_lines cur (b :: prev) r
    else read_lines (b :: cur) prev r
  end.

Definition file_lines (text : list N) : list (list N) := read_lines [] [] text.

Fixpoint skip_ws (l : list N) : list N :=
  match l with
  | b :: r => if is_ws b then skip_ws r else l
  | [] => []
  end.

(* strstrip *)
Definition strstrip (l : list N) : list N := rev (skip_ws (rev (skip_ws l))).

(* COMMENTS "#;" after skip_leading_chars(buf, WHITESPACE) *)
Definition is_comment_line (l : list N) : bool :=
  match skip_ws l with
  | b :: _ => (b =? 35) || (b =? 59)
  | [] => false
  end.

(* does the line end in a backslash that is not escaped itself? *)
Fixpoint ends_escaped (esc : bool) (l : list N) : bool :=
  match l with
  | [] => esc
  | b :: r => if esc then ends_escaped false r else ends_escaped (b =? 92) r
  end.

(* key and value at the first '=' *)
Fixpoint split_assign (key_rev : list N) (l : list N) : option (list N * list N) :=
  match l with
  | [] => None
  | b :: r => if b =? 61 then Some (rev key_rev, r) else split_assign (b :: key_rev) r
  end.

Inductive line_kind :=
| LIgnore                                  (* empty, or ignored with a warning *)
| LSection (name : list N)
| LAssign (key value : list N)
| LBad.                                    (* the unit fails to load *)

(* parse_line on a complete (joined) line *)
Definition classify_line (p : list N) : line_kind :=
  let l := strstrip p in
  match l with
  | [] => LIgnore
  | b0 :: t =>
    if negb (utf8_is_valid l) then LBad
    else if b0 =? 91 then
      match rev t with
      | x :: m => if x =? 93 then LSection (rev m) else LBad
      | [] => LBad
      end
    else
      match split_assign [] l with
      | None => LIgnore
      | Some (k, v) =>
        match k with
        | [] => LIgnore
        | _ :: _ => LAssign (strstrip k) (strstrip v)
        end
      end
  end.

Definition name_service : list N := [83; 101; 114; 118; 105; 99; 101].                 (* Service *)
Definition name_exec_start : list N := [69; 120; 101; 99; 83; 116; 97; 114; 116].      (* ExecStart *)
Definition utf8_bom : list N := [239; 187; 191].

(* [in_service]: the current section is [Service]; [execs]: the values of the
   ExecStart= assignments seen so far, last one first *)
Definition apply_line (in_service : bool) (execs : list (list N)) (p : list N)
  : option (bool * list (list N)) :=
  match classify_line p with
  | LBad => None
  | LIgnore => Some (in_service, execs)
  | LSection n => Some (list_eqb n name_service, execs)
  | LAssign k v =>
    if in_service && list_eqb k name_exec_start
    then Some (in_service, v :: execs)
    else Some (in_service, execs)
  end.

(* state of config_parse between two lines of the file: the continued line so
   far, whether a byte order mark was dropped already, then as in apply_line *)
Inductive ustate :=
| UState (cont : option (list N)) (bom_seen : bool) (in_service : bool) (execs : list (list N)).

Definition drop_bom (bom_seen : bool) (buf : list N) : list N * bool :=
  if bom_seen then (buf, true)
  else match strip_prefix utf8_bom buf with
       | Some q => (q, true)
       | None => (buf, false)
       end.

(* one line of the file *)
Definition unit_step (st : ustate) (buf : list N) : option ustate :=
  match st with
  | UState cont bs sv ex =>
    if is_comment_line buf then Some st
    else
      let lb := drop_bom bs buf in
      let p := match cont with Some c => c ++ fst lb | None => fst lb end in
      if ends_escaped false p then Some (UState (Some (removelast p ++ [32])) (snd lb) sv ex)
      else match apply_line sv ex p with
           | Some r => Some (UState None (snd lb) (fst r) (snd r))
           | None => None
           end
  end.

Fixpoint unit_run (st : ustate) (ls : list (list N)) : option ustate :=
  match ls with
  | [] => Some st
  | l :: r => match unit_step st l with Some st' => unit_run st' r | None => None end
  end.

(* end of the file: a continuation that is still open is a line *)
Definition unit_finish (st : ustate) : option (list (list N)) :=
  match st with
  | UState cont _ sv ex =>
    match cont with
    | None => Some (rev ex)
    | Some p => match apply_line sv ex p with Some r => Some (rev (snd r)) | None => None end
    end
  end.

(* the values of all ExecStart= assignments systemd finds in section [Service]
   of this unit file text, in order; None: the unit does not load.  (For
   Type=simple systemd refuses a unit with more than one command.) *)
Definition service_exec_starts (text : list N) : option (list (list N)) :=
  match unit_run (UState None false false []) (file_lines text) with
  | Some st => unit_finish st
  | None => None
  end.
