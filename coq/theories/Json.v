(* Json.v — serde_json::Value as seen by the layout loader.  Definitions only.

   Strings are lists of Unicode scalar values.  An object is serde_json's
   Map<String, Value> = BTreeMap (Cargo.lock: serde_json without
   preserve_order): sorted by key bytes (= by scalar values, UTF-8 preserves
   the order) and duplicate-free; the harness canonicalises what it writes and
   the model only ever looks keys up (first match), counts them and lists them.
   JNum None is a number that Number::as_i64 does not represent (float, or an
   u64 above i64::MAX).  Text <-> Value (serde_json's reader/printer) is not
   modelled. *)
From Coq Require Export String Ascii NArith ZArith Bool List.
Export ListNotations.

Definition str := list N.

Inductive json :=
| JNull
| JBool (b : bool)
| JNum (z : option Z)
| JStr (s : str)
| JArr (l : list json)
| JObj (kvs : list (str * json)).

Fixpoint str_eqb (a b : str) : bool :=
  match a, b with
  | [], [] => true
  | x :: a', y :: b' => N.eqb x y && str_eqb a' b'
  | _, _ => false
  end.

(* an ASCII identifier of the source as a list of scalars *)
Fixpoint lit (s : string) : str :=
  match s with
  | EmptyString => []
  | String a t => N_of_ascii a :: lit t
  end.

(* association list keyed by strings: first match *)
Fixpoint assoc_str {A} (s : str) (l : list (str * A)) : option A :=
  match l with
  | [] => None
  | (s', v) :: t => if str_eqb s' s then Some v else assoc_str s t
  end.

(* Map::get *)
Fixpoint obj_get (kvs : list (str * json)) (k : str) : option json :=
  match kvs with
  | [] => None
  | (k', v) :: t => if str_eqb k' k then Some v else obj_get t k
  end.

(* Map::contains_key *)
Definition obj_has (kvs : list (str * json)) (k : str) : bool :=
  match obj_get kvs k with Some _ => true | None => false end.

Definition obj_keys (kvs : list (str * json)) : list str := map fst kvs.

(* lexicographic order on scalar lists = byte order of the UTF-8 encodings *)
Fixpoint str_ltb (a b : str) : bool :=
  match a, b with
  | [], [] => false
  | [], _ :: _ => true
  | _ :: _, [] => false
  | x :: a', y :: b' => N.ltb x y || (N.eqb x y && str_ltb a' b')
  end.

(* canonical form of an object's key list: strictly increasing *)
Fixpoint keys_sorted (ks : list str) : bool :=
  match ks with
  | [] => true
  | k :: t => match t with [] => true | k' :: _ => str_ltb k k' && keys_sorted t end
  end.
