(* TabletWire.v — executable model of the tablet-mode switch reader of totalmapper:
     src/tablet_mode_switch_reader.rs    TabletModeSwitchReader::next
   (the reader behind the loop's `next_tablet`), and the specification of what it
   has to deliver for a sequence of kernel records.  Definitions only (lemmas:
   TabletWireLemmas.v; statements: Properties/C12.v).

   The code is the same loop as DevInputReader::next (Wire.v): a zeroed buffer of
   size_of::<input_event>() bytes, one read(2) whose count is ignored and whose
   error is propagated with `?`, the fields taken out of the buffer by index
   (buf[16] .. buf[23]: a panic if the buffer were shorter), then
       if type_==5 && code==1 && value==1 { return Ok(On) }
       else if type_==5 && code==1 && value==0 { return Ok(Off) }
   and otherwise the next iteration.  Model assumptions A1-A3 of Wire.v apply
   unchanged (little-endian, 24-byte input_event with type/code/value at
   16/18/20, reads of min(24, available) bytes and EAGAIN when drained); they are
   checked on the platform by the `wire` harness engine.  Events are bool:
   true = TableModeEvent::On, false = TableModeEvent::Off. *)
From TM Require Export Base Mapper Wire WireSpec.

(* ---------- TabletModeSwitchReader::next ---------- *)

(* one iteration of the loop body after read(): TBPanic = an index buf[i] out of
   bounds (buf has `size` entries, so this needs size < 24) *)
Inductive tab_buf_result := TBPanic | TBSkip | TBEvent (on : bool).

Definition tab_decode_buf (buf : list N) : tab_buf_result :=
  match nth_error buf 16, nth_error buf 17, nth_error buf 18, nth_error buf 19,
        nth_error buf 20, nth_error buf 21, nth_error buf 22, nth_error buf 23 with
  | Some b16, Some b17, Some b18, Some b19, Some b20, Some b21, Some b22, Some b23 =>
    let type_ := u16_from_le b16 b17 in
    let code := u16_from_le b18 b19 in
    let value := i32_from_le b20 b21 b22 b23 in
    if (type_ =? 5)%N && (code =? 1)%N && (value =? 1)%Z then TBEvent true
    else if (type_ =? 5)%N && (code =? 1)%N && (value =? 0)%Z then TBEvent false
    else TBSkip
  | _, _, _, _, _, _, _, _ => TBPanic
  end.

(* next(): Ok(On/Off) / Err (read failed: nothing left) / panic, and the reads
   left for later calls.  `loop` = recursion on the pending reads (Wire.reads_of,
   Wire.fill_buf). *)
Inductive tab_next_result := TNOk (on : bool) | TNErr | TNPanic.

Fixpoint tab_next (reads : list (list N)) : tab_next_result * list (list N) :=
  match reads with
  | [] => (TNErr, [])
  | got :: rest =>
    match tab_decode_buf (fill_buf got) with
    | TBPanic => (TNPanic, rest)
    | TBEvent on => (TNOk on, rest)
    | TBSkip => tab_next rest
    end
  end.

(* the caller: next() again and again until it does not return Ok *)
Fixpoint tab_next_n (calls : nat) (reads : list (list N)) : list bool * run_end :=
  match calls with
  | O => ([], Drained)
  | S c =>
    match tab_next reads with
    | (TNOk on, rest) => let (evs, o) := tab_next_n c rest in (on :: evs, o)
    | (TNErr, _) => ([], Drained)
    | (TNPanic, _) => ([], Panicked)
    end
  end.

(* more calls than reads: the last one hits the drained descriptor *)
Definition decode_tablet_run (s : list N) : list bool * run_end :=
  let r := reads_of s in tab_next_n (S (length r)) r.

(* ---------- specification ---------- *)

(* what the switch reader has to deliver for one record (WireSpec.raw: any 16
   time bytes, type, code, value): On iff it is EV_SW (5) / SW_TABLET_MODE (1)
   with value 1, Off iff value 0; every other record — other switches (SW_LID =
   code 0, ...), other types (EV_SYN, EV_KEY, EV_MSC, ...), other values — is
   skipped *)
Definition tablet_event (r : raw) : option bool :=
  if (r_type r =? 5)%N && (r_code r =? 1)%N then
    if (r_value r =? 1)%Z then Some true
    else if (r_value r =? 0)%Z then Some false
    else None
  else None.

Definition tablet_events_of (rs : list raw) : list bool :=
  flat_map (fun r => opt_list (tablet_event r)) rs.

(* checker for the REAL reader's answers (extracted; uses neither tab_decode_buf
   nor decode_tablet_run) *)
Fixpoint bools_eqb (a b : list bool) : bool :=
  match a, b with
  | [], [] => true
  | x :: s, y :: t => Bool.eqb x y && bools_eqb s t
  | _, _ => false
  end.

Definition check_switch_reader (rs : list raw) (returned : list bool) : bool :=
  bools_eqb (tablet_events_of rs) returned.
