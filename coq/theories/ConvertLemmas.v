(* ConvertLemmas.v — the converter's machinery (alias table, alias_map,
   AliasCombination, MultiplyIter) against the specification's vocabulary
   (defs, candidates, choices, subst_trigger, chosen, subst_output): one lemma
   per Rust function, each saying "this function returns exactly what the
   specification's function returns", hence in particular does not panic. *)
From TM Require Import Base Json RustOps Fancy Mapper Parser Convert SpecTables ConvertSpec
  RustOpsLemmas StrLemmas OdometerLemmas LoaderTables.
From TMGen Require Import CharTable Rows Modifiers.
From Coq Require Import Lia Arith.

(* ---------- find_alias_mappings ---------- *)

Definition get0 (tbl : alias_table) (name : str) : list alias_mapping :=
  match alias_get tbl name with Some l => l | None => [] end.

(* every entry of the table has at least one definition *)
Definition tbl_ok (tbl : alias_table) : Prop := forall name l, alias_get tbl name = Some l -> l <> [].

Lemma alias_get_at_push : forall tbl name a x,
  alias_get (at_push tbl name a) x = if str_eqb name x then Some (get0 tbl x ++ [a]) else alias_get tbl x.
Proof.
  unfold get0, alias_get. induction tbl as [|[n l] tbl IH]; intros name a x; cbn [at_push assoc_str].
  - destruct (str_eqb name x); reflexivity.
  - destruct (str_eqb n name) eqn:E; cbn [assoc_str].
    + apply str_eqb_eq in E. subst n. destruct (str_eqb name x); reflexivity.
    + rewrite IH. destruct (str_eqb name x) eqn:E2; [|reflexivity].
      apply str_eqb_eq in E2. subst x. rewrite E. reflexivity.
Qed.

Lemma tbl_ok_at_push : forall tbl name a, tbl_ok tbl -> tbl_ok (at_push tbl name a).
Proof.
  intros tbl name a H x l Hl. rewrite alias_get_at_push in Hl. destruct (str_eqb name x).
  - inversion Hl. destruct (get0 tbl x); discriminate.
  - eapply H. exact Hl.
Qed.

Definition fam_step (tbl : alias_table) (m : fmapping) : alias_table :=
  match m with FAlias a => at_push tbl (am_name a) a | _ => tbl end.

Lemma fam_fold : forall f tbl, tbl_ok tbl ->
  tbl_ok (fold_left fam_step f tbl) /\ forall x, get0 (fold_left fam_step f tbl) x = get0 tbl x ++ defs f x.
Proof.
  induction f as [|m f IH]; intros tbl Hok; cbn [fold_left].
  - split; [exact Hok|]. intro x. cbn. rewrite app_nil_r. reflexivity.
  - assert (tbl_ok (fam_step tbl m)) as Hok'.
    { destruct m; cbn [fam_step]; try exact Hok. apply tbl_ok_at_push. exact Hok. }
    destruct (IH _ Hok') as [H1 H2]. split; [exact H1|]. intro x. rewrite H2.
    unfold defs. cbn [flat_map]. fold (defs f x).
    destruct m as [| a | |]; cbn [fam_step]; try reflexivity.
    unfold get0 at 1. rewrite alias_get_at_push. destruct (str_eqb (am_name a) x).
    + rewrite <- app_assoc. reflexivity.
    + fold (get0 tbl x). reflexivity.
Qed.

Lemma find_alias_mappings_ok : forall f, tbl_ok (find_alias_mappings f).
Proof.
  intro f. unfold find_alias_mappings. apply (fam_fold f []). intros name l H. discriminate.
Qed.

(* looking an alias up in the table = collecting its definitions in source order *)
Lemma alias_get_defs : forall f x,
  alias_get (find_alias_mappings f) x = match defs f x with [] => None | ds => Some ds end.
Proof.
  intros f x. pose proof (find_alias_mappings_ok f) as Hok.
  destruct (fam_fold f [] (fun n l (H : alias_get [] n = Some l) => ltac:(discriminate))) as [_ H].
  specialize (H x). cbn [app] in H. unfold get0 in H at 2. cbn in H.
  unfold find_alias_mappings. fold fam_step.
  unfold get0 in H. destruct (alias_get (fold_left fam_step f []) x) as [l|] eqn:E.
  - rewrite <- H. specialize (Hok x l E). destruct l; [contradiction|reflexivity].
  - rewrite <- H. reflexivity.
Qed.

(* ---------- build_combinations ---------- *)

(* alias_map after the loop: slot names with their slot numbers, last insert first *)
Fixpoint bc_mp (slots : list str) (base : nat) (mp : list (str * nat)) : list (str * nat) :=
  match slots with
  | [] => mp
  | s :: r => bc_mp r (S base) ((s, base) :: mp)
  end.

Definition lookup_defs (tbl : alias_table) (a : str) : res (list alias_mapping) := opt_res (alias_get tbl a).

Lemma bc_fold : forall tbl mods q fd mp,
  fold_res (bc_step tbl) mods (q, fd, mp)
  = (found <- map_res (lookup_defs tbl) (alias_slots mods) ;;
     Ok (q ++ map (@length _) found, fd ++ found, bc_mp (alias_slots mods) (length q) mp)).
Proof.
  intros tbl. induction mods as [|m mods IH]; intros q fd mp.
  - cbn. rewrite !app_nil_r. reflexivity.
  - cbn [fold_res]. destruct m as [k|a].
    + cbn [bc_step bind]. rewrite IH. reflexivity.
    + cbn [bc_step alias_slots flat_map app map_res]. unfold lookup_defs at 1.
      destruct (alias_get tbl a) as [ms|]; cbn [opt_res bind]; [|reflexivity].
      rewrite IH. fold (alias_slots mods). rewrite bind_assoc. apply bind_ext. intros found _.
      cbn [bind map bc_mp]. rewrite <- !app_assoc. cbn [app]. rewrite app_length. cbn [length].
      rewrite Nat.add_1_r. reflexivity.
Qed.

Lemma build_combinations_spec : forall tbl mods,
  build_combinations tbl mods
  = (found <- map_res (lookup_defs tbl) (alias_slots mods) ;;
     Ok (mkCombos mods (map (@length _) found) found (bc_mp (alias_slots mods) 0 []))).
Proof.
  intros tbl mods. unfold build_combinations.
  rewrite (fold_res_idx_seq "build_combinations:modifiers[i]" (bc_step tbl) mods).
  rewrite bc_fold. rewrite bind_assoc. apply bind_ext. intros found _. reflexivity.
Qed.

Lemma lookup_defs_nonempty : forall tbl slots found, tbl_ok tbl ->
  map_res (lookup_defs tbl) slots = Ok found ->
  length found = length slots /\ Forall (fun q => (0 < q)%nat) (map (@length _) found).
Proof.
  intros tbl slots found Hok H. split; [eapply map_res_Ok_length; exact H|].
  revert found H. induction slots as [|s slots IH]; intros found H; cbn [map_res] in H.
  - inversion H. constructor.
  - apply bind_Ok_inv in H. destruct H as [ms [Hms H]]. apply bind_Ok_inv in H. destruct H as [fd [Hfd H]].
    inversion H; subst. cbn [map]. constructor; [|apply IH; exact Hfd].
    unfold lookup_defs in Hms. destruct (alias_get tbl s) as [l|] eqn:E; cbn in Hms; [|discriminate].
    inversion Hms; subst. specialize (Hok s ms E). destruct ms; [contradiction|cbn; lia].
Qed.

(* the specification's candidates are the table's answers *)
Lemma candidates_lookup : forall f mods,
  candidates f mods = map_res (lookup_defs (find_alias_mappings f)) (alias_slots mods).
Proof.
  intros f mods. unfold candidates. apply map_res_ext. intros a _.
  unfold lookup_defs. rewrite alias_get_defs. destruct (defs f a); reflexivity.
Qed.

(* ---------- tuples of indices select choices ---------- *)

(* tuple t selects the definitions ch from the candidate lists fd *)
Inductive sel : list (list alias_mapping) -> list nat -> list alias_mapping -> Prop :=
| sel_nil : sel [] [] []
| sel_cons : forall ms fd i t a ch, nth_error ms i = Some a -> sel fd t ch -> sel (ms :: fd) (i :: t) (a :: ch).

Lemma Forall2_flat_map : forall {A B C D} (R : A -> B -> Prop) (S : C -> D -> Prop) (f : A -> list C) (g : B -> list D) l1 l2,
  Forall2 R l1 l2 -> (forall x y, R x y -> Forall2 S (f x) (g y)) -> Forall2 S (flat_map f l1) (flat_map g l2).
Proof.
  intros A B C D R S f g l1 l2 H Hfg. induction H as [|x y l1 l2 Hxy H IH]; cbn [flat_map]; [constructor|].
  apply Forall2_app; [apply Hfg; exact Hxy|exact IH].
Qed.

Lemma Forall2_seq_nth : forall {A} (pre l : list A),
  Forall2 (fun i a => nth_error (pre ++ l) i = Some a) (seq (length pre) (length l)) l.
Proof.
  intros A pre l. revert pre. induction l as [|x l IH]; intro pre; cbn [length seq]; [constructor|].
  constructor.
  - rewrite nth_error_app2 by lia. rewrite Nat.sub_diag. reflexivity.
  - specialize (IH (pre ++ [x])). rewrite <- app_assoc in IH. cbn [app] in IH.
    rewrite app_length in IH. cbn [length] in IH. rewrite Nat.add_1_r in IH. exact IH.
Qed.

Lemma sel_map_cons : forall ms fd t ch l1 l2, sel fd t ch ->
  Forall2 (fun i a => nth_error ms i = Some a) l1 l2 ->
  Forall2 (sel (ms :: fd)) (map (fun x => x :: t) l1) (map (fun x => x :: ch) l2).
Proof.
  intros ms fd t ch l1 l2 Hsel H. induction H as [|i a l1 l2 Hia H IH]; cbn [map]; constructor; [|exact IH].
  constructor; assumption.
Qed.

Lemma tuples_choices : forall fd, Forall2 (sel fd) (tuples (map (@length _) fd)) (choices fd).
Proof.
  induction fd as [|ms fd IH]; cbn [map tuples choices].
  - constructor; [constructor|constructor].
  - eapply Forall2_flat_map; [exact IH|]. intros t ch Hsel.
    pose proof (Forall2_seq_nth [] ms) as H. cbn [app length] in H.
    apply sel_map_cons; assumption.
Qed.

Lemma sel_length : forall fd t ch, sel fd t ch -> length t = length fd /\ length ch = length fd.
Proof. intros fd t ch H. induction H; cbn [length]; [split; reflexivity|]. destruct IHsel. split; congruence. Qed.

Lemma sel_nth : forall fd t ch j a, sel fd t ch -> nth_error ch j = Some a ->
  exists ms i, nth_error fd j = Some ms /\ nth_error t j = Some i /\ nth_error ms i = Some a.
Proof.
  intros fd t ch j a H. revert j. induction H as [|ms fd i t a' ch Hn H IH]; intros j Hj.
  - destruct j; discriminate.
  - destruct j as [|j]; cbn [nth_error] in *.
    + inversion Hj; subst. exists ms, i. repeat split; assumption.
    + apply IH. exact Hj.
Qed.

Lemma map_res_rel : forall {A B C} (R : A -> B -> Prop) (f : A -> res C) (g : B -> res C) l1 l2,
  Forall2 R l1 l2 -> (forall x y, R x y -> f x = g y) -> map_res f l1 = map_res g l2.
Proof.
  intros A B C R f g l1 l2 H Hfg. induction H as [|x y l1 l2 Hxy H IH]; cbn [map_res]; [reflexivity|].
  rewrite (Hfg x y Hxy), IH. reflexivity.
Qed.

Lemma skipn_cons_nth : forall {A} j (l : list A) d l', skipn j l = d :: l' -> nth_error l j = Some d.
Proof.
  induction j as [|j IH]; intros l d l' H.
  - cbn in H. subst. reflexivity.
  - destruct l as [|x l]; [discriminate|]. cbn [skipn] in H. cbn [nth_error]. eapply IH. exact H.
Qed.

Lemma skipn_cons_S : forall {A} j (l : list A) d l', skipn j l = d :: l' -> skipn (S j) l = l'.
Proof.
  induction j as [|j IH]; intros l d l' H.
  - cbn in H. subst. reflexivity.
  - destruct l as [|x l]; [discriminate|]. cbn [skipn] in H. change (skipn (S (S j)) (x :: l)) with (skipn (S j) l).
    eapply IH. exact H.
Qed.

(* ---------- one combination ---------- *)

Section OneCombination.
Variable c : combos.
Variable t : list nat.
Variable ch : list alias_mapping.
Hypothesis Hsel : sel (c_found c) t ch.

Lemma alias_keys_at_spec : forall j a, nth_error ch j = Some a -> alias_keys_at c t j = Ok (am_keys a).
Proof.
  intros j a Hj. destruct (sel_nth _ _ _ _ _ Hsel Hj) as [ms [i [H1 [H2 H3]]]].
  unfold alias_keys_at. rewrite (idx_Ok _ _ _ _ H1). cbn [bind].
  rewrite (idx_Ok _ _ _ _ H2). cbn [bind]. rewrite (idx_Ok _ _ _ _ H3). reflexivity.
Qed.

(* from_modifiers: the loop with its alias counter j *)
Lemma from_modifiers_fold : forall mods ch' acc j,
  skipn j ch = ch' -> length ch' = length (alias_slots mods) ->
  exists j',
  fold_res (fun (acc : list key * nat) m =>
              match m with
              | MAlias _ => ks <- alias_keys_at c t (snd acc) ;; Ok (fst acc ++ ks, S (snd acc))
              | MKey k => Ok (fst acc ++ [k], snd acc)
              end) mods (acc, j)
  = Ok (acc ++ subst_trigger mods ch', j').
Proof.
  induction mods as [|m mods IH]; intros ch' acc j Hsk Hlen; cbn [fold_res subst_trigger].
  - exists j. rewrite app_nil_r. reflexivity.
  - destruct m as [k|a]; cbn [fst snd].
    + cbn [bind]. destruct (IH ch' (acc ++ [k]) j Hsk Hlen) as [j' E]. exists j'. rewrite E.
      rewrite <- app_assoc. reflexivity.
    + cbn [alias_slots flat_map app length] in Hlen. fold (alias_slots mods) in Hlen.
      destruct ch' as [|d ch']; [discriminate|]. cbn [length] in Hlen.
      assert (nth_error ch j = Some d) as Hd by (eapply skipn_cons_nth; exact Hsk).
      rewrite (alias_keys_at_spec j d Hd). cbn [bind].
      assert (skipn (S j) ch = ch') as Hsk'.
      { eapply skipn_cons_S. exact Hsk. }
      destruct (IH ch' (acc ++ am_keys d) (S j) Hsk' ltac:(lia)) as [j' E]. exists j'. rewrite E.
      rewrite <- app_assoc. reflexivity.
Qed.

Hypothesis Hlen : length (c_found c) = length (alias_slots (c_mods c)).

Lemma from_modifiers_spec : from_modifiers c t = Ok (subst_trigger (c_mods c) ch).
Proof.
  unfold from_modifiers.
  rewrite (fold_res_idx_seq "from_modifiers:modifiers[i]"
             (fun (acc : list key * nat) m =>
                match m with
                | MAlias _ => ks <- alias_keys_at c t (snd acc) ;; Ok (fst acc ++ ks, S (snd acc))
                | MKey k => Ok (fst acc ++ [k], snd acc)
                end) (c_mods c) ([], 0%nat)).
  destruct (sel_length _ _ _ Hsel) as [_ Hl].
  destruct (from_modifiers_fold (c_mods c) ch [] 0%nat eq_refl ltac:(congruence)) as [j' E].
  rewrite E. reflexivity.
Qed.

End OneCombination.

(* ---------- alias_map: the slot an output-side alias refers to ---------- *)

(* the number of the last slot named a, slots being numbered from base *)
Fixpoint last_index (slots : list str) (base : nat) (a : str) : option nat :=
  match slots with
  | [] => None
  | s :: r =>
    match last_index r (S base) a with
    | Some i => Some i
    | None => if str_eqb s a then Some base else None
    end
  end.

Lemma assoc_bc_mp : forall slots base mp a,
  assoc_str a (bc_mp slots base mp) = match last_index slots base a with Some i => Some i | None => assoc_str a mp end.
Proof.
  induction slots as [|s r IH]; intros base mp a; cbn [bc_mp last_index]; [reflexivity|].
  rewrite IH. destruct (last_index r (S base) a); [reflexivity|]. cbn [assoc_str].
  destruct (str_eqb s a); reflexivity.
Qed.

Lemma chosen_last_index : forall slots chs base a, length chs = length slots ->
  match last_index slots base a with
  | Some i => (base <= i)%nat /\ (i - base < length chs)%nat /\ chosen slots chs a = nth_error chs (i - base)
  | None => chosen slots chs a = None
  end.
Proof.
  induction slots as [|s r IH]; intros chs base a Hlen; cbn [last_index].
  - destruct chs; reflexivity.
  - destruct chs as [|d chs]; [discriminate|]. cbn [length] in Hlen. cbn [chosen].
    specialize (IH chs (S base) a ltac:(lia)).
    destruct (last_index r (S base) a) as [i|].
    + destruct IH as [H1 [H2 H3]]. split; [lia|]. split; [cbn [length]; lia|].
      replace (i - base)%nat with (S (i - S base)) by lia. cbn [nth_error]. rewrite H3.
      destruct (nth_error chs (i - S base)) eqn:E; [reflexivity|]. apply nth_error_None in E. lia.
    + rewrite IH. destruct (str_eqb s a); [|reflexivity].
      split; [lia|]. split; [cbn [length]; lia|]. rewrite Nat.sub_diag. reflexivity.
Qed.

Section OneCombinationOutputs.
Variable c : combos.
Variable t : list nat.
Variable ch : list alias_mapping.
Hypothesis Hsel : sel (c_found c) t ch.
Hypothesis Hlen : length (c_found c) = length (alias_slots (c_mods c)).
Hypothesis Hmap : c_map c = bc_mp (alias_slots (c_mods c)) 0 [].

Let slots := alias_slots (c_mods c).

Definition spec_one (slots : list str) (ch : list alias_mapping) (m : modifier) : res (list key) :=
  match m with
  | MKey k => Ok [k]
  | MAlias a => match chosen slots ch a with Some d => Ok (am_keys d) | None => Err end
  end.

Lemma reify_one_spec : forall m, reify_one c t m = spec_one slots ch m.
Proof.
  intros [k|a]; cbn [reify_one spec_one]; [reflexivity|].
  rewrite Hmap, assoc_bc_mp. cbn [assoc_str].
  destruct (sel_length _ _ _ Hsel) as [_ Hl].
  pose proof (chosen_last_index slots ch 0%nat a ltac:(subst slots; congruence)) as H.
  fold slots. destruct (last_index slots 0 a) as [i|].
  - destruct H as [_ [H2 H3]]. rewrite Nat.sub_0_r in *. rewrite H3.
    destruct (nth_error ch i) as [d|] eqn:E; [|apply nth_error_None in E; lia].
    apply (alias_keys_at_spec c t ch Hsel). exact E.
  - rewrite H. reflexivity.
Qed.

Lemma reify_modifiers_spec : forall mods, reify_modifiers c t mods = subst_output slots ch mods.
Proof.
  intro mods. unfold reify_modifiers, subst_output.
  rewrite (map_res_ext (reify_one c t) (spec_one slots ch)) by (intros; apply reify_one_spec). reflexivity.
Qed.

Lemma translate_single_to_keys_spec : forall to, translate_single_to_keys c t to = spec_single_to slots ch to.
Proof.
  intro to. unfold translate_single_to_keys, spec_single_to. destruct (st_terminal to); [|reflexivity].
  rewrite reify_modifiers_spec. reflexivity.
Qed.

Lemma convert_single_repeat_spec : forall rep, convert_single_repeat c t rep = spec_single_repeat slots ch rep.
Proof.
  intros [| |keys d i]; cbn [convert_single_repeat spec_single_repeat]; try reflexivity.
  rewrite translate_single_to_keys_spec. reflexivity.
Qed.

End OneCombinationOutputs.

(* ---------- loops that push one element per round ---------- *)

Lemma fold_res_snoc : forall {A B} (g : A -> res B) l acc,
  fold_res (fun s x => y <- g x ;; Ok (s ++ [y])) l acc = (ys <- map_res g l ;; Ok (acc ++ ys)).
Proof.
  induction l as [|x l IH]; intro acc; cbn [fold_res map_res bind].
  - rewrite app_nil_r. reflexivity.
  - rewrite !bind_assoc. apply bind_ext. intros y _. cbn [bind]. rewrite IH. rewrite !bind_assoc.
    apply bind_ext. intros ys _. cbn [bind]. rewrite <- app_assoc. reflexivity.
Qed.

(* the combination loop of a converter function, in the specification's terms:
   a loop over the tuples is a loop over the choices *)
Lemma combos_of_found : forall mods found,
  let c := mkCombos mods (map (@length _) found) found (bc_mp (alias_slots mods) 0 []) in
  length found = length (alias_slots mods) ->
  Forall2 (fun t ch => sel (c_found c) t ch /\ length (c_found c) = length (alias_slots (c_mods c))
                       /\ c_map c = bc_mp (alias_slots (c_mods c)) 0 [])
          (tuples (c_quant c)) (choices found).
Proof.
  intros mods found c Hlen. cbn [c_quant c_found c_mods c_map c].
  pose proof (tuples_choices found) as H. induction H; constructor; auto.
Qed.

(* ---------- convert_single ---------- *)

Lemma convert_single_spec : forall f from to rep absorbing,
  convert_single (find_alias_mappings f) from to rep absorbing = expand_single f from to rep absorbing.
Proof.
  intros f from to rep absorbing. unfold convert_single, expand_single.
  rewrite build_combinations_spec, candidates_lookup. rewrite bind_assoc. apply bind_ext. intros found Hfound.
  cbn [bind].
  destruct (lookup_defs_nonempty _ _ _ (find_alias_mappings_ok f) Hfound) as [Hlen Hpos].
  set (c := mkCombos (sf_mods from) (map (@length _) found) found (bc_mp (alias_slots (sf_mods from)) 0 [])).
  rewrite for_combinations_spec by exact Hpos.
  set (G := fun tuple : list nat =>
              fm <- from_modifiers c tuple ;;
              to' <- translate_single_to_keys c tuple to ;;
              rep' <- convert_single_repeat c tuple rep ;;
              absorbing' <- reify_modifiers c tuple absorbing ;;
              Ok (mkMapping (fm ++ [sf_key from]) to' rep' absorbing')).
  rewrite (fold_res_ext _ (fun s x => y <- G x ;; Ok (s ++ [y]))).
  2:{ intros s x _. unfold G. rewrite !bind_assoc. apply bind_ext. intros fm _.
      rewrite !bind_assoc. apply bind_ext. intros to' _. rewrite !bind_assoc. apply bind_ext. intros rep' _.
      rewrite !bind_assoc. apply bind_ext. intros ab' _. reflexivity. }
  rewrite fold_res_snoc. cbn [app]. rewrite bind_ret.
  eapply map_res_rel; [apply (combos_of_found (sf_mods from) found Hlen)|].
  intros t ch [Hsel [Hl Hm]]. fold c in Hsel, Hl, Hm. unfold G.
  rewrite (from_modifiers_spec c t ch Hsel Hl). cbn [bind].
  rewrite (translate_single_to_keys_spec c t ch Hsel Hl Hm).
  rewrite (convert_single_repeat_spec c t ch Hsel Hl Hm).
  rewrite (reify_modifiers_spec c t ch Hsel Hl Hm). reflexivity.
Qed.

(* ---------- convert_row_to, find_right_shift ---------- *)

Lemma convert_row_to_spec : forall hrs mods letters i,
  convert_row_to hrs mods letters i = type_letter hrs mods letters i.
Proof.
  intros hrs mods letters i. unfold convert_row_to, type_letter.
  destruct (nth_error letters i) as [ch|] eqn:E.
  - assert (i < length letters)%nat as Hlt by (apply nth_error_Some; congruence).
    replace (length letters <=? i)%nat with false by (symmetry; apply Nat.leb_gt; exact Hlt).
    rewrite (idx_Ok _ _ _ _ E). cbn [bind]. destruct (N.eqb ch 32); [reflexivity|].
    rewrite char_lookup_is_spec. destruct shift_keys_are_spec as [Hr Hl]. rewrite Hr, Hl.
    destruct (spec_char ch) as [[[|] k]|]; try reflexivity.
  - apply nth_error_None in E.
    replace (length letters <=? i)%nat with true by (symmetry; apply Nat.leb_le; exact E). reflexivity.
Qed.

Lemma np_type_letter : forall rs mods letters i, np (type_letter rs mods letters i).
Proof.
  intros. unfold type_letter. destruct (nth_error letters i); [|apply np_Ok].
  destruct (N.eqb n 32); [apply np_Ok|]. destruct (spec_char n) as [[[|] k]|]; try apply np_Ok. apply np_Err.
Qed.

Lemma find_right_shift_spec : forall ks, find_right_shift ks = existsb (N.eqb KEY_RIGHTSHIFT) ks.
Proof.
  intro ks. unfold find_right_shift. destruct shift_keys_are_spec as [Hr _]. rewrite Hr.
  induction ks as [|k ks IH]; cbn [existsb]; [reflexivity|]. rewrite IH, N.eqb_sym. reflexivity.
Qed.

Lemma np_subst_output : forall slots ch mods, np (subst_output slots ch mods).
Proof.
  intros. unfold subst_output. apply np_bind; [|intros; apply np_Ok].
  apply np_map_res. intros [k|a] _; [apply np_Ok|]. destruct (chosen slots ch a); [apply np_Ok|apply np_Err].
Qed.

(* ---------- the letters loop of convert_row ---------- *)

Lemma fold_res_Err : forall {A St} (f : St -> A -> res St) l p s,
  In p l -> (forall s, f s p = Err) -> (forall s x, np (f s x)) -> fold_res f l s = Err.
Proof.
  induction l as [|x l IH]; intros p s Hin Hp Hnp; [destruct Hin|]. cbn [fold_res].
  destruct (f s x) as [s'| |site] eqn:E; cbn [bind].
  - destruct Hin as [Hin|Hin]; [subst; rewrite Hp in E; discriminate|]. eapply IH; eauto.
  - reflexivity.
  - exfalso. apply (Hnp s x site). exact E.
Qed.

(* what one letter contributes, in the specification's words *)
Definition letter_entry (rs : bool) (trigger to_mods : list key) (letters : str) (prow : list key)
           (R : nat -> res Mapper.repeat) (AB : res (list key)) (n : nat) : res (list mapping) :=
  to' <- type_letter rs to_mods letters n ;;
  match to', nth_error prow n with
  | Some to'', Some pk =>
    rep' <- R n ;;
    absorbing' <- AB ;;
    Ok [mkMapping (trigger ++ [pk]) to'' rep' absorbing']
  | _, _ => Ok []
  end.

Lemma letters_loop_spec : forall site hrs from_mods to_mods letters prow (R R' : nat -> res Mapper.repeat) AB acc,
  (forall n, R n = R' n) -> (forall n, np (R' n)) -> np AB ->
  fold_res (fun acc char_i =>
      if (length prow <=? char_i)%nat then Err
      else
        to' <- convert_row_to hrs to_mods letters char_i ;;
        match to' with
        | None => Ok acc
        | Some to'' =>
          pk <- idx site prow char_i ;;
          rep' <- R char_i ;;
          absorbing' <- AB ;;
          Ok (acc ++ [mkMapping (from_mods ++ [pk]) to'' rep' absorbing'])
        end) (seq 0 (length letters)) acc
  = (ys <- (if (length prow <? length letters)%nat then Err
            else per_letter <- map_res (letter_entry hrs from_mods to_mods letters prow R' AB) (seq 0 (length letters)) ;;
                 Ok (concat per_letter)) ;;
     Ok (acc ++ ys)).
Proof.
  intros site hrs from_mods to_mods letters prow R R' AB acc HR HnpR HnpAB.
  destruct (length prow <? length letters)%nat eqn:E.
  - apply Nat.ltb_lt in E. cbn [bind]. apply (fold_res_Err _ _ (length prow)).
    + apply in_seq. lia.
    + intro s. rewrite Nat.leb_refl. reflexivity.
    + intros s x. destruct (length prow <=? x)%nat eqn:E2; [apply np_Err|]. apply Nat.leb_gt in E2.
      rewrite convert_row_to_spec. apply np_bind; [apply np_type_letter|]. intros [to''|] _; [|apply np_Ok].
      destruct (idx_lt site prow x E2) as [pk [Hpk _]]. rewrite Hpk. cbn [bind].
      rewrite HR. apply np_bind; [apply HnpR|]. intros rep' _. apply np_bind; [exact HnpAB|]. intros ab _. apply np_Ok.
  - apply Nat.ltb_ge in E.
    rewrite (fold_res_ext _ (fun acc n => ys <- letter_entry hrs from_mods to_mods letters prow R' AB n ;; Ok (acc ++ ys))).
    + rewrite fold_res_append. rewrite !bind_assoc. apply bind_ext. intros yss _. reflexivity.
    + intros s n Hin. apply in_seq in Hin.
      replace (length prow <=? n)%nat with false by (symmetry; apply Nat.leb_gt; lia).
      unfold letter_entry. rewrite convert_row_to_spec. rewrite bind_assoc. apply bind_ext. intros [to''|] _.
      * destruct (idx_lt site prow n ltac:(lia)) as [pk [Hpk Hn]]. rewrite Hpk, Hn. cbn [bind]. rewrite HR.
        rewrite !bind_assoc. apply bind_ext. intros rep' _. rewrite !bind_assoc. apply bind_ext. intros ab _. reflexivity.
      * cbn [bind]. rewrite app_nil_r. reflexivity.
Qed.

(* ---------- convert_row ---------- *)

(* what one combination of a row mapping contributes (the function mapped over
   the choices in ConvertSpec.expand_row) *)
Definition row_choice (from : row_from) (to : row_to) (rep : row_repeat) (absorbing : list modifier)
           (choice : list alias_mapping) : res (list mapping) :=
  let slots := alias_slots (rf_mods from) in
  let prow := spec_row (rf_row from) in
  let trigger := subst_trigger (rf_mods from) choice in
  let right_shift := existsb (N.eqb KEY_RIGHTSHIFT) trigger in
  to_mods <- subst_output slots choice (rt_initial to) ;;
  rep_of <- match rep with
            | WRNormal => Ok (fun _ : nat => Ok RNormal)
            | WRDisabled => Ok (fun _ : nat => Ok RDisabled)
            | WRSpecial keys d i =>
              if (length (rt_letters to) <? length (rt_letters keys))%nat then Err
              else rmods <- subst_output slots choice (rt_initial keys) ;;
                   Ok (fun n : nat =>
                         r <- type_letter right_shift rmods (rt_letters keys) n ;;
                         Ok (match r with Some ks => RSpecial ks d i | None => RNormal end))
            end ;;
  if (length prow <? length (rt_letters to))%nat then Err
  else
    per_letter <- map_res (fun n =>
      to' <- type_letter right_shift to_mods (rt_letters to) n ;;
      match to', nth_error prow n with
      | Some to'', Some pk =>
        rep' <- rep_of n ;;
        absorbing' <- subst_output slots choice absorbing ;;
        Ok [mkMapping (trigger ++ [pk]) to'' rep' absorbing']
      | _, _ => Ok []
      end) (seq 0 (length (rt_letters to))) ;;
    Ok (concat per_letter).

Lemma expand_row_unfold : forall f from to rep absorbing,
  expand_row f from to rep absorbing
  = (cands <- candidates f (rf_mods from) ;;
     per_choice <- map_res (row_choice from to rep absorbing) (choices cands) ;;
     Ok (concat per_choice)).
Proof. reflexivity. Qed.

Lemma convert_row_body_spec : forall c t ch from to rep absorbing acc,
  sel (c_found c) t ch -> length (c_found c) = length (alias_slots (c_mods c)) ->
  c_map c = bc_mp (alias_slots (c_mods c)) 0 [] -> c_mods c = rf_mods from ->
  (from_mods <- from_modifiers c t ;;
   to_mods <- reify_modifiers c t (rt_initial to) ;;
   tmpl <- row_template c t to rep ;;
   prow <- opt_res (physical_row (rf_row from)) ;;
   let hrs := find_right_shift from_mods in
   fold_res (fun acc char_i =>
      if (length prow <=? char_i)%nat then Err
      else
        to' <- convert_row_to hrs to_mods (rt_letters to) char_i ;;
        match to' with
        | None => Ok acc
        | Some to'' =>
          pk <- idx "convert_row:from_physical_row[char_i]" prow char_i ;;
          rep' <- row_repeat_at hrs tmpl char_i ;;
          absorbing' <- reify_modifiers c t absorbing ;;
          Ok (acc ++ [mkMapping (from_mods ++ [pk]) to'' rep' absorbing'])
        end) (seq 0 (length (rt_letters to))) acc)
  = (ys <- row_choice from to rep absorbing ch ;; Ok (acc ++ ys)).
Proof.
  intros c t ch from to rep absorbing acc Hsel Hl Hm Hmods.
  rewrite (from_modifiers_spec c t ch Hsel Hl). cbn [bind].
  rewrite !(reify_modifiers_spec c t ch Hsel Hl Hm). rewrite Hmods.
  unfold row_choice. rewrite bind_assoc. apply bind_ext. intros to_mods _.
  rewrite physical_row_is_spec. rewrite find_right_shift_spec.
  set (rs := existsb (N.eqb KEY_RIGHTSHIFT) (subst_trigger (rf_mods from) ch)).
  set (slots := alias_slots (rf_mods from)).
  destruct rep as [| |keys d i]; cbn [row_template bind opt_res].
  - rewrite (letters_loop_spec _ rs _ to_mods (rt_letters to) (spec_row (rf_row from))
               (row_repeat_at rs TNormal) (fun _ => Ok RNormal) (subst_output slots ch absorbing) acc);
      [reflexivity|reflexivity|intros; apply np_Ok|apply np_subst_output].
  - rewrite (letters_loop_spec _ rs _ to_mods (rt_letters to) (spec_row (rf_row from))
               (row_repeat_at rs TDisabled) (fun _ => Ok RDisabled) (subst_output slots ch absorbing) acc);
      [reflexivity|reflexivity|intros; apply np_Ok|apply np_subst_output].
  - destruct (length (rt_letters to) <? length (rt_letters keys))%nat; [reflexivity|].
    rewrite (reify_modifiers_spec c t ch Hsel Hl Hm). rewrite Hmods. fold slots.
    rewrite !bind_assoc. apply bind_ext. intros rmods _. cbn [bind].
    rewrite (letters_loop_spec _ rs _ to_mods (rt_letters to) (spec_row (rf_row from))
               (row_repeat_at rs (TSpecial rmods (rt_letters keys) d i))
               (fun n => r <- type_letter rs rmods (rt_letters keys) n ;;
                         Ok (match r with Some ks => RSpecial ks d i | None => RNormal end))
               (subst_output slots ch absorbing) acc).
    + reflexivity.
    + intro n. cbn [row_repeat_at]. rewrite convert_row_to_spec. apply bind_ext. intros [ks|] _; reflexivity.
    + intro n. apply np_bind; [apply np_type_letter|]. intros; apply np_Ok.
    + apply np_subst_output.
Qed.

Lemma convert_row_spec : forall f from to rep absorbing,
  convert_row (find_alias_mappings f) from to rep absorbing = expand_row f from to rep absorbing.
Proof.
  intros f from to rep absorbing. rewrite expand_row_unfold. unfold convert_row.
  rewrite build_combinations_spec, candidates_lookup. rewrite bind_assoc. apply bind_ext. intros found Hfound.
  cbn [bind].
  destruct (lookup_defs_nonempty _ _ _ (find_alias_mappings_ok f) Hfound) as [Hlen Hpos].
  set (c := mkCombos (rf_mods from) (map (@length _) found) found (bc_mp (alias_slots (rf_mods from)) 0 [])).
  rewrite for_combinations_spec by exact Hpos.
  pose proof (combos_of_found (rf_mods from) found Hlen) as Hrel. cbv zeta in Hrel. fold c in Hrel.
  assert (forall acc,
    fold_res (fun s t =>
       from_mods <- from_modifiers c t ;;
       to_mods <- reify_modifiers c t (rt_initial to) ;;
       tmpl <- row_template c t to rep ;;
       prow <- opt_res (physical_row (rf_row from)) ;;
       let hrs := find_right_shift from_mods in
       fold_res (fun acc char_i =>
          if (length prow <=? char_i)%nat then Err
          else
            to' <- convert_row_to hrs to_mods (rt_letters to) char_i ;;
            match to' with
            | None => Ok acc
            | Some to'' =>
              pk <- idx "convert_row:from_physical_row[char_i]" prow char_i ;;
              rep' <- row_repeat_at hrs tmpl char_i ;;
              absorbing' <- reify_modifiers c t absorbing ;;
              Ok (acc ++ [mkMapping (from_mods ++ [pk]) to'' rep' absorbing'])
            end) (seq 0 (length (rt_letters to))) s) (tuples (c_quant c)) acc
    = (yss <- map_res (row_choice from to rep absorbing) (choices found) ;; Ok (acc ++ concat yss))) as H.
  { induction Hrel as [|t ch ts chs [Hsel [Hl Hm]] Hrel IH]; intro acc; cbn [fold_res map_res].
    - cbn [bind concat]. rewrite app_nil_r. reflexivity.
    - pose proof (convert_row_body_spec c t ch from to rep absorbing acc Hsel Hl Hm eq_refl) as E.
      cbv zeta in E. rewrite E. clear E.
      rewrite !bind_assoc. apply bind_ext. intros ys _. cbn [bind]. rewrite IH.
      rewrite !bind_assoc. apply bind_ext. intros yss _. cbn [bind concat]. rewrite app_assoc. reflexivity. }
  rewrite H. reflexivity.
Qed.

(* ---------- convert_alias, convert_mapping ---------- *)

Lemma convert_alias_spec : forall a, convert_alias a = Ok (expand_alias a).
Proof.
  intro a. unfold convert_alias, is_just_one_modifier, expand_alias.
  destruct (am_keys a) as [|k [|k2 ks]]; cbn [length Nat.eqb idx nth_error bind]; try reflexivity.
  rewrite is_modifier_is_spec. destruct (spec_is_modifier k); reflexivity.
Qed.

Lemma convert_mapping_spec : forall f m, convert_mapping (find_alias_mappings f) m = expand_mapping f m.
Proof.
  intros f [from to rep ab|a|from to rep ab|from rep]; cbn [convert_mapping expand_mapping].
  - apply convert_single_spec.
  - apply convert_alias_spec.
  - apply convert_row_spec.
  - reflexivity.
Qed.

