(* LoopLemmas.v — basic facts about Loop.run: unfolding equations, the
   configurations of a run, the induction principle along a run, determinism
   with respect to extending the script, and "this answer ends the run"
   (C20, C10 end-of-device). *)
From TM Require Import Base ListFacts Mapper Monitors Loop LoopEnv LoopSpec.
From Coq Require Import Lia.

Section S.
Variable is_action : key -> bool.
Variable L : layout.

Notation resume := (Loop.resume is_action L).
Notation run_from := (Loop.run_from is_action L).
Notation run := (Loop.run is_action L).
Notation confs := (LoopSpec.confs is_action L).
Notation transcript_of := (LoopSpec.transcript_of is_action L).

(* ---------- unfolding ---------- *)

Lemma run_from_nil p st : run_from p st [] = ([pending p], Starved).
Proof. reflexivity. Qed.

Lemma run_from_stop p st r rs o :
  resume p st r = Stop o -> run_from p st (r :: rs) = ([pending p], o).
Proof. intros H. cbn [Loop.run_from]. rewrite H. reflexivity. Qed.

Lemma run_from_go p st r rs p' st' :
  resume p st r = Go p' st' ->
  run_from p st (r :: rs) = (pending p :: fst (run_from p' st' rs), snd (run_from p' st' rs)).
Proof.
  intros H. cbn [Loop.run_from]. rewrite H. destruct (run_from p' st' rs) as [cs o]. reflexivity.
Qed.

Lemma confs_nil p st : confs p st [] = [].
Proof. reflexivity. Qed.

Lemma confs_stop p st r rs o : resume p st r = Stop o -> confs p st (r :: rs) = [(p, st, r)].
Proof. intros H. cbn [LoopSpec.confs]. rewrite H. reflexivity. Qed.

Lemma confs_go p st r rs p' st' :
  resume p st r = Go p' st' -> confs p st (r :: rs) = (p, st, r) :: confs p' st' rs.
Proof. intros H. cbn [LoopSpec.confs]. rewrite H. reflexivity. Qed.

(* the calls always start with the pending call *)
Lemma run_from_calls_hd p st rs : exists cs, fst (run_from p st rs) = pending p :: cs.
Proof.
  destruct rs as [|r rs]; [exists []; reflexivity|].
  destruct (resume p st r) as [p' st'|o] eqn:E.
  - rewrite (run_from_go _ _ _ _ _ _ E). eexists. reflexivity.
  - rewrite (run_from_stop _ _ _ _ _ E). exists []. reflexivity.
Qed.

(* ---------- transcript = answered calls ---------- *)

Lemma run_from_transcript : forall rs p st,
  combine (fst (run_from p st rs)) rs = transcript_of p st rs.
Proof.
  unfold LoopSpec.transcript_of.
  induction rs as [|r rs IH]; intros p st; [reflexivity|].
  destruct (resume p st r) as [p' st'|o] eqn:E.
  - rewrite (run_from_go _ _ _ _ _ _ E), (confs_go _ _ _ _ _ _ E). cbn [fst combine map].
    rewrite IH. reflexivity.
  - rewrite (run_from_stop _ _ _ _ _ E), (confs_stop _ _ _ _ _ E). cbn [fst combine map].
    destruct rs; reflexivity.
Qed.

Lemma run_transcript rs cs o :
  run rs = (cs, o) -> combine cs rs = transcript_of PRegister linit rs.
Proof. intros H. rewrite <- run_from_transcript. fold (run rs). rewrite H. reflexivity. Qed.

Lemma confs_length_le : forall rs p st, (length (confs p st rs) <= length rs)%nat.
Proof.
  induction rs as [|r rs IH]; intros p st; [apply le_n|].
  cbn [LoopSpec.confs length]. destruct (resume p st r) as [p' st'|o].
  - apply le_n_S. apply IH.
  - cbn [length]. lia.
Qed.

(* number of calls = answered calls, plus one when the last call is unanswered *)
Lemma run_from_calls_length : forall rs p st,
  length (fst (run_from p st rs)) =
  (length (confs p st rs) + match snd (run_from p st rs) with Starved => 1 | _ => 0 end)%nat
  \/ (snd (run_from p st rs) = Starved /\ length (fst (run_from p st rs)) = length (confs p st rs)
      /\ exists pre x, confs p st rs = pre ++ [x] /\ resume (c_point x) (c_state x) (c_resp x) = Stop Starved).
Proof.
  induction rs as [|r rs IH]; intros p st; [left; reflexivity|].
  destruct (resume p st r) as [p' st'|o] eqn:E.
  - rewrite (run_from_go _ _ _ _ _ _ E), (confs_go _ _ _ _ _ _ E). cbn [fst snd length].
    destruct (IH p' st') as [H|[H1 [H2 [pre [x [H3 H4]]]]]].
    + left. rewrite H. reflexivity.
    + right. split; [exact H1|]. split; [rewrite H2; reflexivity|].
      exists ((p, st, r) :: pre), x. rewrite H3. split; [reflexivity | exact H4].
  - rewrite (run_from_stop _ _ _ _ _ E), (confs_stop _ _ _ _ _ E). cbn [fst snd length].
    destruct o; try (left; reflexivity).
    right. split; [reflexivity|]. split; [reflexivity|].
    exists [], (p, st, r). split; [reflexivity | exact E].
Qed.

(* ---------- consecutive configurations ---------- *)

Lemma confs_next : forall rs p st k x y,
  nth_error (confs p st rs) k = Some x ->
  nth_error (confs p st rs) (S k) = Some y ->
  resume (c_point x) (c_state x) (c_resp x) = Go (c_point y) (c_state y).
Proof.
  induction rs as [|r rs IH]; intros p st k x y Hx Hy; [destruct k; discriminate|].
  cbn [LoopSpec.confs] in Hx, Hy.
  destruct (resume p st r) as [p' st'|o] eqn:E.
  - destruct k as [|k].
    + cbn [nth_error] in Hx, Hy. inversion Hx; subst x. cbn [c_point c_state c_resp fst snd].
      rewrite E. destruct rs as [|r' rs]; [discriminate|].
      cbn [LoopSpec.confs nth_error] in Hy. inversion Hy; subst y. reflexivity.
    + cbn [nth_error] in Hx. change (nth_error ((p, st, r) :: confs p' st' rs) (S (S k)))
        with (nth_error (confs p' st' rs) (S k)) in Hy.
      exact (IH p' st' k x y Hx Hy).
  - destruct k as [|k]; cbn [nth_error] in Hy; [discriminate | destruct k; discriminate].
Qed.

Lemma confs_first p st rs x : nth_error (confs p st rs) 0 = Some x -> c_point x = p /\ c_state x = st.
Proof. destruct rs as [|r rs]; [discriminate|]. cbn [LoopSpec.confs nth_error]. intros H. inversion H. split; reflexivity. Qed.

(* the last configuration is where the run stopped or starved *)
Lemma confs_last_stop : forall rs p st k x,
  nth_error (confs p st rs) k = Some x ->
  nth_error (confs p st rs) (S k) = None ->
  (exists o, resume (c_point x) (c_state x) (c_resp x) = Stop o /\ snd (run_from p st rs) = o
             /\ length (fst (run_from p st rs)) = S k)
  \/ (exists p' st', resume (c_point x) (c_state x) (c_resp x) = Go p' st' /\ snd (run_from p st rs) = Starved
             /\ length (fst (run_from p st rs)) = S (S k)
             /\ nth_error (fst (run_from p st rs)) (S k) = Some (pending p')).
Proof.
  induction rs as [|r rs IH]; intros p st k x Hx Hy; [destruct k; discriminate|].
  destruct (resume p st r) as [p' st'|o] eqn:E.
  - rewrite (confs_go _ _ _ _ _ _ E) in Hx, Hy. rewrite (run_from_go _ _ _ _ _ _ E). cbn [fst snd length].
    destruct k as [|k].
    + cbn [nth_error] in Hx, Hy. inversion Hx; subst x. cbn [c_point c_state c_resp fst snd].
      right. exists p', st'. split; [exact E|].
      destruct rs as [|r' rs]; [|discriminate]. cbn. repeat split; reflexivity.
    + cbn [nth_error] in Hx. change (nth_error ((p, st, r) :: confs p' st' rs) (S (S k)))
        with (nth_error (confs p' st' rs) (S k)) in Hy.
      destruct (IH p' st' k x Hx Hy) as [[o [H1 [H2 H3]]]|[p2 [st2 [H1 [H2 [H3 H4]]]]]].
      * left. exists o. split; [exact H1|]. split; [exact H2|]. rewrite H3. reflexivity.
      * right. exists p2, st2. split; [exact H1|]. split; [exact H2|]. split; [rewrite H3; reflexivity|].
        cbn [nth_error]. exact H4.
  - rewrite (confs_stop _ _ _ _ _ E) in Hx. rewrite (run_from_stop _ _ _ _ _ E). cbn [fst snd length].
    destruct k as [|k]; [|destruct k; discriminate].
    cbn [nth_error] in Hx. inversion Hx; subst x. cbn [c_point c_state c_resp fst snd].
    left. exists o. repeat split; [exact E].
Qed.

(* the call made in configuration k is the k-th call *)
Lemma confs_call : forall rs p st k x,
  nth_error (confs p st rs) k = Some x ->
  nth_error (fst (run_from p st rs)) k = Some (pending (c_point x)).
Proof.
  induction rs as [|r rs IH]; intros p st k x Hx; [destruct k; discriminate|].
  destruct (resume p st r) as [p' st'|o] eqn:E.
  - rewrite (confs_go _ _ _ _ _ _ E) in Hx. rewrite (run_from_go _ _ _ _ _ _ E). cbn [fst].
    destruct k as [|k]; cbn [nth_error] in *.
    + inversion Hx. reflexivity.
    + exact (IH p' st' k x Hx).
  - rewrite (confs_stop _ _ _ _ _ E) in Hx. rewrite (run_from_stop _ _ _ _ _ E). cbn [fst].
    destruct k as [|k]; cbn [nth_error] in *; [inversion Hx; reflexivity | destruct k; discriminate].
Qed.

(* the (k+1)-th call, answered or not, is the pending call of the point the
   k-th configuration resumes to *)
Lemma confs_next_call : forall rs p st k x p' st',
  nth_error (confs p st rs) k = Some x ->
  resume (c_point x) (c_state x) (c_resp x) = Go p' st' ->
  nth_error (fst (run_from p st rs)) (S k) = Some (pending p').
Proof.
  induction rs as [|r rs IH]; intros p st k x p2 st2 Hx Hgo; [destruct k; discriminate|].
  destruct (resume p st r) as [p' st'|o] eqn:E.
  - rewrite (confs_go _ _ _ _ _ _ E) in Hx. rewrite (run_from_go _ _ _ _ _ _ E). cbn [fst].
    destruct k as [|k]; cbn [nth_error] in *.
    + inversion Hx; subst x. cbn [c_point c_state c_resp fst snd] in Hgo. rewrite E in Hgo.
      inversion Hgo; subst p2 st2. destruct (run_from_calls_hd p' st' rs) as [cs Hcs]. rewrite Hcs. reflexivity.
    + exact (IH p' st' k x p2 st2 Hx Hgo).
  - rewrite (confs_stop _ _ _ _ _ E) in Hx.
    destruct k as [|k]; cbn [nth_error] in *; [|destruct k; discriminate].
    inversion Hx; subst x. cbn [c_point c_state c_resp fst snd] in Hgo. rewrite E in Hgo. discriminate.
Qed.

Lemma confs_stop_no_call : forall rs p st k x o,
  nth_error (confs p st rs) k = Some x ->
  resume (c_point x) (c_state x) (c_resp x) = Stop o ->
  nth_error (fst (run_from p st rs)) (S k) = None /\ snd (run_from p st rs) = o.
Proof.
  induction rs as [|r rs IH]; intros p st k x o1 Hx Hst; [destruct k; discriminate|].
  destruct (resume p st r) as [p' st'|o] eqn:E.
  - rewrite (confs_go _ _ _ _ _ _ E) in Hx. rewrite (run_from_go _ _ _ _ _ _ E). cbn [fst snd].
    destruct k as [|k]; cbn [nth_error] in *.
    + inversion Hx; subst x. cbn [c_point c_state c_resp fst snd] in Hst. rewrite E in Hst. discriminate.
    + exact (IH p' st' k x o1 Hx Hst).
  - rewrite (confs_stop _ _ _ _ _ E) in Hx. rewrite (run_from_stop _ _ _ _ _ E). cbn [fst snd].
    destruct k as [|k]; cbn [nth_error] in *; [|destruct k; discriminate].
    inversion Hx; subst x. cbn [c_point c_state c_resp fst snd] in Hst. rewrite E in Hst.
    inversion Hst. split; reflexivity.
Qed.

(* ---------- induction along a run ---------- *)

(* An invariant over (transcript so far, point, local state) that holds at the
   start and is preserved by every resumption holds in every configuration. *)
Lemma confs_ind_tr (I : list (call * resp) -> point -> lstate -> Prop) :
  (forall tr p st r p' st', I tr p st -> resume p st r = Go p' st' -> I (tr ++ [(pending p, r)]) p' st') ->
  forall rs p st tr0, I tr0 p st ->
  forall k x, nth_error (confs p st rs) k = Some x ->
    I (tr0 ++ firstn k (transcript_of p st rs)) (c_point x) (c_state x).
Proof.
  intros Hstep. unfold LoopSpec.transcript_of.
  induction rs as [|r rs IH]; intros p st tr0 H0 k x Hx; [destruct k; discriminate|].
  destruct k as [|k].
  - cbn [LoopSpec.confs nth_error] in Hx. inversion Hx; subst x. cbn [firstn]. rewrite app_nil_r. exact H0.
  - cbn [LoopSpec.confs] in Hx |- *. destruct (resume p st r) as [p' st'|o] eqn:E.
    + cbn [nth_error] in Hx. cbn [map firstn].
      specialize (IH p' st' (tr0 ++ [(pending p, r)]) (Hstep _ _ _ _ _ _ H0 E) k x Hx).
      rewrite <- app_assoc in IH. exact IH.
    + cbn [nth_error] in Hx. destruct k; discriminate.
Qed.

Lemma confs_ind (I : point -> lstate -> Prop) :
  (forall p st r p' st', I p st -> resume p st r = Go p' st' -> I p' st') ->
  forall rs p st, I p st ->
  forall k x, nth_error (confs p st rs) k = Some x -> I (c_point x) (c_state x).
Proof.
  intros Hstep rs p st H0 k x Hx.
  exact (confs_ind_tr (fun _ => I) (fun tr p0 st0 r p' st' H E => Hstep p0 st0 r p' st' H E) rs p st [] H0 k x Hx).
Qed.

(* ---------- determinism with respect to extending the script ---------- *)

(* a run that did not starve ignores the rest of the script *)
Lemma run_from_app_done : forall rs1 rs2 p st,
  snd (run_from p st rs1) <> Starved -> run_from p st (rs1 ++ rs2) = run_from p st rs1.
Proof.
  induction rs1 as [|r rs1 IH]; intros rs2 p st Hne; [exfalso; apply Hne; reflexivity|].
  cbn [app]. destruct (resume p st r) as [p' st'|o] eqn:E.
  - rewrite (run_from_go _ _ _ _ _ _ E) in Hne. cbn [snd] in Hne.
    rewrite !(run_from_go _ _ _ _ _ _ E). rewrite (IH rs2 p' st' Hne). reflexivity.
  - rewrite !(run_from_stop _ _ _ _ _ E). reflexivity.
Qed.

(* the configurations of a script are a prefix of those of any extension *)
Lemma confs_app_prefix : forall rs1 rs2 p st,
  exists more, confs p st (rs1 ++ rs2) = confs p st rs1 ++ more.
Proof.
  induction rs1 as [|r rs1 IH]; intros rs2 p st; [eexists; reflexivity|].
  cbn [app LoopSpec.confs]. destruct (resume p st r) as [p' st'|o].
  - destruct (IH rs2 p' st') as [more Hm]. exists more. rewrite Hm. reflexivity.
  - exists []. reflexivity.
Qed.

(* the calls of a script are a prefix of those of any extension *)
Lemma run_from_app_prefix : forall rs1 rs2 p st,
  exists more, fst (run_from p st (rs1 ++ rs2)) = fst (run_from p st rs1) ++ more.
Proof.
  induction rs1 as [|r rs1 IH]; intros rs2 p st.
  - cbn [app]. destruct (run_from_calls_hd p st rs2) as [cs Hcs]. exists cs. rewrite Hcs. reflexivity.
  - cbn [app]. destruct (resume p st r) as [p' st'|o] eqn:E.
    + rewrite !(run_from_go _ _ _ _ _ _ E). cbn [fst]. destruct (IH rs2 p' st') as [more Hm].
      exists more. rewrite Hm. reflexivity.
    + rewrite !(run_from_stop _ _ _ _ _ E). exists []. reflexivity.
Qed.

(* where a starved run stands: the point and state it is waiting in *)
Fixpoint standing (p : point) (st : lstate) (rs : list resp) : option (point * lstate) :=
  match rs with
  | [] => Some (p, st)
  | r :: rs' => match resume p st r with Go p' st' => standing p' st' rs' | Stop _ => None end
  end.

Lemma standing_starved : forall rs p st,
  snd (run_from p st rs) = Starved ->
  (exists q sq, standing p st rs = Some (q, sq) /\ last (fst (run_from p st rs)) CNow = pending q)
  \/ standing p st rs = None.
Proof.
  induction rs as [|r rs IH]; intros p st Hs.
  - left. exists p, st. split; reflexivity.
  - cbn [standing]. destruct (resume p st r) as [p' st'|o] eqn:E.
    + rewrite (run_from_go _ _ _ _ _ _ E) in Hs |- *. cbn [fst snd] in *.
      destruct (IH p' st' Hs) as [[q [sq [H1 H2]]]|H]; [left|right; exact H].
      exists q, sq. split; [exact H1|]. destruct (run_from_calls_hd p' st' rs) as [cs Hcs].
      rewrite Hcs in H2 |- *. exact H2.
    + right. reflexivity.
Qed.

Lemma run_from_app_standing : forall rs1 rs2 p st q sq,
  standing p st rs1 = Some (q, sq) ->
  run_from p st (rs1 ++ rs2) =
  (removelast (fst (run_from p st rs1)) ++ fst (run_from q sq rs2), snd (run_from q sq rs2)).
Proof.
  induction rs1 as [|r rs1 IH]; intros rs2 p st q sq Hst.
  - cbn [standing] in Hst. inversion Hst; subst q sq. cbn [app Loop.run_from fst removelast].
    destruct (run_from p st rs2); reflexivity.
  - cbn [standing] in Hst. cbn [app]. destruct (resume p st r) as [p' st'|o] eqn:E; [|discriminate].
    rewrite !(run_from_go _ _ _ _ _ _ E). rewrite (IH rs2 p' st' q sq Hst). cbn [fst snd].
    destruct (run_from_calls_hd p' st' rs1) as [cs Hcs]. rewrite Hcs. reflexivity.
Qed.

Lemma standing_some_starved : forall rs p st q sq,
  standing p st rs = Some (q, sq) ->
  snd (run_from p st rs) = Starved /\ last (fst (run_from p st rs)) CNow = pending q.
Proof.
  induction rs as [|r rs IH]; intros p st q sq Hst.
  - cbn [standing] in Hst. inversion Hst. split; reflexivity.
  - cbn [standing] in Hst. destruct (resume p st r) as [p' st'|o] eqn:E; [|discriminate].
    rewrite (run_from_go _ _ _ _ _ _ E). cbn [fst snd]. destruct (IH p' st' q sq Hst) as [H1 H2].
    split; [exact H1|]. destruct (run_from_calls_hd p' st' rs) as [cs Hcs]. rewrite Hcs in H2 |- *. exact H2.
Qed.

(* ---------- errors ---------- *)

Lemma resume_err p st m :
  resume p st (RErr m) =
  Stop (if is_driver_call (pending p) then Returned_err m else Mismatch).
Proof. destruct p; reflexivity. Qed.

(* the straight-line helpers always continue, except for the Instant overflow *)
Lemma at_top_go st : exists p, at_top st = Go p st.
Proof. unfold at_top. destruct (l_wr st); eexists; reflexivity. Qed.

Lemma visit_go rest st : exists p, visit rest st = Go p st.
Proof. destruct rest as [|[|] rest]; cbn [visit]; [apply at_top_go | eexists; reflexivity | eexists; reflexivity]. Qed.

Lemma after_step_send_go rep rest st : exists p st', after_step_send rep rest st = Go p st'.
Proof. destruct rep; cbn [after_step_send]; do 2 eexists; reflexivity. Qed.

Lemma advance_wakeup_cases st :
  advance_wakeup st = Stop Panicked \/ exists p st', advance_wakeup st = Go p st'.
Proof.
  unfold advance_wakeup. destruct (l_wr st) as [|ks nw iv].
  - right. destruct (at_top_go st) as [p Hp]. exists p, st. exact Hp.
  - destruct (instant_add_ms nw iv) as [nw'|]; [right | left; reflexivity].
    destruct (at_top_go (set_wr st (Repeating ks nw' iv))) as [p Hp]. eexists. eexists. exact Hp.
Qed.

(* how the loop can stop: never "Starved" out of an answer; an error only out
   of an Err answer to a driver call; Ok only out of End *)
Definition stop_kind (p : point) (r : resp) (o : outcome) : Prop :=
  match o with
  | Starved => False
  | Returned_err m => r = RErr m /\ is_driver_call (pending p) = true
  | Returned_ok => (pending p = CNextKbd /\ r = RKbd NEnd) \/ (pending p = CNextTab /\ r = RTab NEnd)
  | Mismatch | Panicked => True
  end.

Ltac stop_tac H :=
  first
  [ discriminate H
  | match type of H with
    | context [at_top ?s] =>
      let q := fresh "q" in let Hq := fresh "Hq" in
      destruct (at_top_go s) as [q Hq]; rewrite Hq in H; discriminate H
    | context [visit ?d ?s] =>
      let q := fresh "q" in let Hq := fresh "Hq" in
      destruct (visit_go d s) as [q Hq]; rewrite Hq in H; discriminate H
    | context [after_step_send ?a ?b ?s] =>
      let q := fresh "q" in let s' := fresh "s'" in let Hq := fresh "Hq" in
      destruct (after_step_send_go a b s) as [q [s' Hq]]; rewrite Hq in H; discriminate H
    | context [advance_wakeup ?s] =>
      let q := fresh "q" in let s' := fresh "s'" in let Hq := fresh "Hq" in
      destruct (advance_wakeup_cases s) as [Hq|[q [s' Hq]]]; rewrite Hq in H;
      [inversion H; subst; exact I | discriminate H]
    end
  | inversion H; subst; cbn [stop_kind pending]; first [exact I | left; split; reflexivity | right; split; reflexivity] ].

Lemma resume_stop_kind p st r o : resume p st r = Stop o -> stop_kind p r o.
Proof.
  intros H. destruct r as [| t | pr | n | n | m'].
  6:{ rewrite resume_err in H. destruct (is_driver_call (pending p)) eqn:Ed; inversion H; subst o; cbn [stop_kind].
      - split; [reflexivity | exact Ed].
      - exact I. }
  - destruct p; cbn [Loop.resume] in H; stop_tac H.
  - destruct p; cbn [Loop.resume] in H; try stop_tac H.
    + destruct (l_wr st); stop_tac H.
    + destruct (instant_add_ms t delay_ms); stop_tac H.
  - destruct p; cbn [Loop.resume] in H; try stop_tac H.
    destruct pr as [ds| |]; try stop_tac H.
    + destruct (l_wr st) as [|ks nw iv]; [stop_tac H|].
      destruct (l_tablet st); [stop_tac H|].
      destruct (chord_events (l_mapper st) ks); stop_tac H.
    + destruct (1 <? l_restart st + 1)%Z; [|stop_tac H].
      destruct (sleep_ms (l_restart st + 1)); stop_tac H.
  - destruct p; cbn [Loop.resume] in H; try stop_tac H.
    destruct n as [| |e]; try stop_tac H.
    destruct (l_tablet st); [stop_tac H|].
    destruct (step is_action L (l_mapper st) e) as [[evs rep] s']. destruct evs; stop_tac H.
  - destruct p; cbn [Loop.resume] in H; try stop_tac H.
    destruct n as [| |b]; try stop_tac H.
    destruct (release_all is_action L (l_mapper st)) as [evs s']. destruct evs; stop_tac H.
Qed.

Lemma resume_returns_err p st r m :
  resume p st r = Stop (Returned_err m) -> r = RErr m /\ is_driver_call (pending p) = true.
Proof. intros H. exact (resume_stop_kind _ _ _ _ H). Qed.

Lemma resume_not_starved p st r : resume p st r <> Stop Starved.
Proof. intros H. exact (resume_stop_kind _ _ _ _ H). Qed.

(* ---------- an answer that ends the run ---------- *)

(* If the answer r to call c makes the loop stop with an outcome satisfying Q
   wherever c is pending, then in every run an entry (c, r) of the transcript
   is the last one, no further call is made, and the outcome satisfies Q. *)
Lemma entry_stops (c : call) (r : resp) (Q : outcome -> Prop) :
  (forall p st, pending p = c -> exists o, resume p st r = Stop o /\ Q o) ->
  forall rs p st pre post,
    combine (fst (run_from p st rs)) rs = pre ++ (c, r) :: post ->
    post = [] /\ length (fst (run_from p st rs)) = S (length pre) /\ Q (snd (run_from p st rs)).
Proof.
  intros Hstop.
  induction rs as [|r0 rs IH]; intros p st pre post Htr.
  - cbn [Loop.run_from fst combine] in Htr. destruct pre; discriminate.
  - destruct (resume p st r0) as [p' st'|o] eqn:E.
    + rewrite (run_from_go _ _ _ _ _ _ E) in Htr |- *. cbn [fst snd combine length] in *.
      destruct pre as [|x pre].
      * cbn [app] in Htr. inversion Htr as [[Hc Hr Hrest]]. subst r0.
        destruct (Hstop p st Hc) as [o [Ho _]]. rewrite Ho in E. discriminate.
      * cbn [app] in Htr. inversion Htr as [[Hx Hrest]].
        destruct (IH p' st' pre post Hrest) as [H1 [H2 H3]].
        split; [exact H1|]. split; [rewrite H2; reflexivity | exact H3].
    + rewrite (run_from_stop _ _ _ _ _ E) in Htr |- *. cbn [fst snd combine length] in *.
      destruct pre as [|x pre].
      * cbn [app] in Htr. inversion Htr as [[Hc Hr Hrest]]. subst r0.
        destruct (Hstop p st Hc) as [o' [Ho HQ]]. rewrite Ho in E. inversion E; subst o'.
        split; [reflexivity|]. split; [reflexivity | exact HQ].
      * cbn [app] in Htr. inversion Htr as [[Hx Hrest]]. destruct pre; discriminate.
Qed.

(* C20 *)
Lemma error_stops rs cs o pre c m post :
  run rs = (cs, o) ->
  combine cs rs = pre ++ (c, RErr m) :: post ->
  post = [] /\ length cs = S (length pre)
  /\ o = (if is_driver_call c then Returned_err m else Mismatch).
Proof.
  intros Hrun Htr.
  pose proof (entry_stops c (RErr m) (fun o => o = if is_driver_call c then Returned_err m else Mismatch)) as H.
  assert (Hs : forall p st, pending p = c -> exists o0, resume p st (RErr m) = Stop o0
             /\ o0 = if is_driver_call c then Returned_err m else Mismatch).
  { intros p st Hp. eexists. split; [apply resume_err|]. rewrite Hp. reflexivity. }
  specialize (H Hs rs PRegister linit pre post). fold (run rs) in H. rewrite Hrun in H. cbn [fst snd] in H.
  exact (H Htr).
Qed.

(* the outcome is an error only when the last answer was that error, given to a driver call *)
Lemma returned_err_only_then : forall rs p st m,
  snd (run_from p st rs) = Returned_err m ->
  exists pre c, combine (fst (run_from p st rs)) rs = pre ++ [(c, RErr m)] /\ is_driver_call c = true
                /\ length (fst (run_from p st rs)) = S (length pre).
Proof.
  induction rs as [|r rs IH]; intros p st m Ho; [discriminate|].
  destruct (resume p st r) as [p' st'|o] eqn:E.
  - rewrite (run_from_go _ _ _ _ _ _ E) in Ho |- *. cbn [fst snd] in *.
    destruct (IH p' st' m Ho) as [pre [c [H1 [H2 H3]]]].
    exists ((pending p, r) :: pre), c. cbn [combine app length]. rewrite H1, H3. repeat split. exact H2.
  - rewrite (run_from_stop _ _ _ _ _ E) in Ho |- *. cbn [fst snd] in *. subst o.
    destruct (resume_returns_err _ _ _ _ E) as [Hr Hd]. subst r.
    exists [], (pending p). cbn [combine app length]. destruct rs; repeat split; exact Hd.
Qed.

(* C20: the run with an error injected where an error-free script is exhausted
   makes exactly the same calls (so everything sent before the error is what
   the error-free run sends), and returns the error *)
Lemma error_injected_same_calls rs1 m rs2 cs :
  run rs1 = (cs, Starved) -> is_driver_call (last cs CNow) = true ->
  run (rs1 ++ RErr m :: rs2) = (cs, Returned_err m).
Proof.
  unfold Loop.run. intros Hrun Hd.
  assert (Hs : snd (run_from PRegister linit rs1) = Starved) by (rewrite Hrun; reflexivity).
  destruct (standing_starved rs1 PRegister linit Hs) as [[q [sq [H1 H2]]]|Hnone].
  - rewrite (run_from_app_standing _ _ _ _ _ _ H1). rewrite Hrun in H2 |- *. cbn [fst] in *.
    assert (E : resume q sq (RErr m) = Stop (Returned_err m)).
    { rewrite resume_err. rewrite <- H2, Hd. reflexivity. }
    rewrite (run_from_stop _ _ _ _ _ E). cbn [fst snd]. rewrite <- H2.
    destruct (run_from_calls_hd PRegister linit rs1) as [cs' Hcs]. rewrite Hrun in Hcs. cbn [fst] in Hcs.
    rewrite <- app_removelast_last; [reflexivity | rewrite Hcs; discriminate].
  - (* Starved by a Stop Starved is impossible: resume never returns Stop Starved; but we do not
       need that: standing = None means some answer stopped the run, with outcome Starved *)
    exfalso. clear Hd. revert Hnone Hs. generalize PRegister, linit. clear Hrun.
    induction rs1 as [|r rs1 IH]; intros p st Hnone Hs; [discriminate|].
    cbn [standing] in Hnone. destruct (resume p st r) as [p' st'|o] eqn:E.
    + rewrite (run_from_go _ _ _ _ _ _ E) in Hs. exact (IH p' st' Hnone Hs).
    + rewrite (run_from_stop _ _ _ _ _ E) in Hs. cbn [snd] in Hs. subst o.
      exact (resume_not_starved _ _ _ E).
Qed.

(* ---------- end of device (C10) ---------- *)

Lemma end_stops rs cs o pre c r post :
  run rs = (cs, o) ->
  (c, r) = (CNextKbd, RKbd NEnd) \/ (c, r) = (CNextTab, RTab NEnd) ->
  combine cs rs = pre ++ (c, r) :: post ->
  post = [] /\ length cs = S (length pre) /\ o = Returned_ok.
Proof.
  intros Hrun Hcr Htr.
  pose proof (entry_stops c r (fun o => o = Returned_ok)) as H.
  assert (Hs : forall p st, pending p = c -> exists o0, resume p st r = Stop o0 /\ o0 = Returned_ok).
  { intros p st Hp. exists Returned_ok. split; [|reflexivity].
    destruct Hcr as [Hcr|Hcr]; inversion Hcr; subst c r; destruct p; try discriminate; reflexivity. }
  specialize (H Hs rs PRegister linit pre post). fold (run rs) in H. rewrite Hrun in H. cbn [fst snd] in H.
  exact (H Htr).
Qed.

End S.
