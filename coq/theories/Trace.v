(* Trace.v — held-key sets as lists and well-formed output traces
   (definitions only; lemmas in TraceLemmas.v). *)
From TM Require Export Mapper Monitors.

Definition seteq (a b : list key) : Prop := forall k, In k a <-> In k b.

(* keys the mapper's own bookkeeping says are down on the output
   (Mapper::is_output_held) *)
Definition held_of (s : state) : list key := pass s ++ mout s.

(* evs is a well-formed output trace from held set h to held set h':
   presses only of keys that are up, releases only of keys that are down *)
Definition tr_ok (h : list key) (evs : list event) (h' : list key) : Prop :=
  redundant h evs = false /\ seteq (apply_evs h evs) h'.
