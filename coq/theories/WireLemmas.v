(* WireLemmas.v — proofs about the wire codec model (Wire.v) against its
   specification (WireSpec.v).  Property statements: Properties/C18.v. *)
From TM Require Import Wire WireSpec SpecKernelKeys.
From TMGen Require Import KeyTable.
From Coq Require Import Lia.

Local Notation len := List.length.

(* ------------------------------------------------------------------ *)
(* bytes: div / mod 256                                                *)
(* ------------------------------------------------------------------ *)

Lemma u16_from_le_split (x : N) : u16_from_le (x mod 256) (x / 256) = x.
Proof.
  unfold u16_from_le.
  pose proof (N.div_mod x 256) as H.
  lia.
Qed.

Lemma div256_small (x : N) : (x < 65536)%N -> (x / 256 < 256)%N.
Proof.
  intros H. apply N.div_lt_upper_bound; lia.
Qed.

Lemma div256_mod_small (x : N) : (x < 65536)%N -> ((x / 256) mod 256 = x / 256)%N.
Proof.
  intros H. apply N.mod_small. apply div256_small; exact H.
Qed.

Lemma mod256_lt (x : N) : (x mod 256 < 256)%N.
Proof. apply N.mod_lt. discriminate. Qed.

Lemma u32_from_le_split (u : N) :
  (u < 4294967296)%N ->
  u32_from_le (u mod 256) (u / 256 mod 256) (u / 65536 mod 256) (u / 16777216) = u.
Proof.
  intros Hu. unfold u32_from_le.
  replace (u / 65536)%N with (u / 256 / 256)%N by (rewrite N.div_div by discriminate; reflexivity).
  replace (u / 16777216)%N with (u / 256 / 256 / 256)%N
    by (rewrite !N.div_div by discriminate; reflexivity).
  pose proof (N.div_mod u 256) as H0.
  pose proof (N.div_mod (u / 256) 256) as H1.
  pose proof (N.div_mod (u / 256 / 256) 256) as H2.
  lia.
Qed.

Lemma value_bits_lt (v : Z) : (value_bits v < 4294967296)%N.
Proof.
  unfold value_bits.
  pose proof (Z.mod_pos_bound v 4294967296) as H.
  lia.
Qed.

Lemma i32_from_le_value_bits (v : Z) :
  (-2147483648 <= v < 2147483648)%Z ->
  i32_from_le (value_bits v mod 256) (value_bits v / 256 mod 256)
              (value_bits v / 65536 mod 256) (value_bits v / 16777216) = v.
Proof.
  intros Hv. unfold i32_from_le.
  rewrite u32_from_le_split by apply value_bits_lt.
  unfold value_bits.
  pose proof (Z.mod_pos_bound v 4294967296) as Hb.
  rewrite Z2N.id by lia.
  destruct (Z.ltb_spec (v mod 4294967296) 2147483648) as [Hlt | Hge].
  - assert (0 <= v)%Z as Hnn.
    { destruct (Z.lt_ge_cases v 0) as [Hneg | Hok]; [|exact Hok].
      exfalso.
      assert ((v + 4294967296) mod 4294967296 = v + 4294967296)%Z as E
          by (apply Z.mod_small; lia).
      replace (v + 4294967296)%Z with (v + 1 * 4294967296)%Z in E at 1 by lia.
      rewrite Z.mod_add in E by lia. lia. }
    apply Z.mod_small. lia.
  - assert (v < 0)%Z as Hneg.
    { destruct (Z.lt_ge_cases v 0) as [Hok | Hnn]; [exact Hok|].
      exfalso. rewrite Z.mod_small in Hge by lia. lia. }
    assert ((v + 4294967296) mod 4294967296 = v + 4294967296)%Z as E
        by (apply Z.mod_small; lia).
    replace (v + 4294967296)%Z with (v + 1 * 4294967296)%Z in E at 1 by lia.
    rewrite Z.mod_add in E by lia. lia.
Qed.

Lemma key_as_u16_small (k : key) : (k < 65536)%N -> key_as_u16 k = k.
Proof.
  intros H. unfold key_as_u16, u16_bits.
  rewrite Z.mod_small by lia.
  apply N2Z.id.
Qed.

(* ------------------------------------------------------------------ *)
(* list helpers                                                        *)
(* ------------------------------------------------------------------ *)

Lemma firstn_len_app {A} (a b : list A) (n : nat) : len a = n -> firstn n (a ++ b) = a.
Proof.
  revert n. induction a as [|x a IH]; intros n H.
  - cbn in H. subst n. reflexivity.
  - cbn in H. subst n. cbn [app firstn]. rewrite IH by reflexivity. reflexivity.
Qed.

Lemma skipn_len_app {A} (a b : list A) (n : nat) : len a = n -> skipn n (a ++ b) = b.
Proof.
  revert n. induction a as [|x a IH]; intros n H.
  - cbn in H. subst n. reflexivity.
  - cbn in H. subst n. cbn [app skipn]. apply IH. reflexivity.
Qed.

Lemma find_eqb (c : N) (l : list N) :
  find (N.eqb c) l = if existsb (N.eqb c) l then Some c else None.
Proof.
  induction l as [|x l IH].
  - reflexivity.
  - cbn [find existsb]. destruct (N.eqb c x) eqn:E.
    + apply N.eqb_eq in E. subst x. reflexivity.
    + cbn [orb]. exact IH.
Qed.

Lemma from_u16_known (c : N) : from_u16 c = if known_code c then Some c else None.
Proof. unfold from_u16, known_code, key_codes. apply find_eqb. Qed.

Lemma nodupb_NoDup (l : list key) : nodupb l = true -> NoDup l.
Proof.
  induction l as [|x l IH]; intros H.
  - constructor.
  - cbn [nodupb] in H. apply andb_true_iff in H. destruct H as [Hx Hl].
    constructor.
    + intros Hin. apply negb_true_iff in Hx.
      assert (mem x l = true) as Hm.
      { unfold mem. apply existsb_exists. exists x. split; [exact Hin | apply N.eqb_refl]. }
      rewrite Hm in Hx. discriminate.
    + apply IH. exact Hl.
Qed.

(* ------------------------------------------------------------------ *)
(* the writer                                                          *)
(* ------------------------------------------------------------------ *)

Definition rec_bytes (type_ code : N) (value : Z) : list N :=
  le_bytes 8 (i64_bits 0) ++ le_bytes 8 (i64_bits 0) ++ le_bytes 2 type_ ++ le_bytes 2 code
  ++ le_bytes 4 (i32_bits value).

Lemma send_type_code_value_app sink t c v :
  send_type_code_value sink t c v = sink ++ rec_bytes t c v.
Proof.
  unfold send_type_code_value, add_i32, add_u16, add_i64, rec_bytes.
  rewrite <- !app_assoc. reflexivity.
Qed.

Lemma fold_send_event (evs : list event) : forall sink,
  fold_left send_event evs sink
  = sink ++ List.concat (map (fun e => rec_bytes 1 (key_as_u16 (ev_key e)) (ev_value e)) evs).
Proof.
  induction evs as [|e evs IH]; intros sink.
  - cbn. rewrite app_nil_r. reflexivity.
  - cbn [fold_left map List.concat]. rewrite IH. unfold send_event at 1.
    rewrite send_type_code_value_app. rewrite <- app_assoc. reflexivity.
Qed.

Lemma rec_bytes_spec (e : event) :
  (spec_key e < 65536)%N ->
  rec_bytes 1 (key_as_u16 (ev_key e)) (ev_value e) = spec_record e.
Proof.
  intros Hk.
  assert (ev_key e = spec_key e) as Ek by (destruct e; reflexivity).
  rewrite Ek. rewrite key_as_u16_small by exact Hk.
  unfold rec_bytes, spec_record.
  replace (le_bytes 2 (spec_key e)) with [spec_key e mod 256; spec_key e / 256]%N.
  2:{ cbn [le_bytes]. rewrite div256_mod_small by exact Hk. reflexivity. }
  destruct e as [k | k]; reflexivity.
Qed.

Lemma syn_bytes : rec_bytes 0 0 0 = syn_record.
Proof. reflexivity. Qed.

Lemma fits_u16_forall (evs : list event) :
  fits_u16 evs = true -> forall e, In e evs -> (spec_key e < 65536)%N.
Proof.
  intros H e Hin. unfold fits_u16 in H.
  rewrite forallb_forall in H. apply N.ltb_lt. apply H. exact Hin.
Qed.

Lemma encode_batch_shape (evs : list event) :
  fits_u16 evs = true -> encode_batch evs = spec_batch evs.
Proof.
  intros Hf. unfold encode_batch, spec_batch.
  rewrite send_type_code_value_app, fold_send_event, syn_bytes.
  cbn [app]. f_equal.
  pose proof (fits_u16_forall evs Hf) as Hall. clear Hf.
  induction evs as [|e evs IH].
  - reflexivity.
  - cbn [map List.concat]. rewrite rec_bytes_spec by (apply Hall; left; reflexivity).
    rewrite IH; [reflexivity|]. intros e' Hin. apply Hall. right. exact Hin.
Qed.

Lemma spec_record_length (e : event) : len (spec_record e) = 24%nat.
Proof. destruct e; reflexivity. Qed.

Lemma syn_record_length : len syn_record = 24%nat.
Proof. reflexivity. Qed.

Lemma concat_records_length (evs : list event) :
  len (List.concat (map spec_record evs)) = (24 * len evs)%nat.
Proof.
  induction evs as [|e evs IH].
  - reflexivity.
  - cbn [map List.concat]. rewrite app_length, spec_record_length, IH. cbn [len]. lia.
Qed.

Lemma spec_batch_length (evs : list event) : len (spec_batch evs) = (24 * S (len evs))%nat.
Proof.
  unfold spec_batch. rewrite app_length, concat_records_length, syn_record_length. lia.
Qed.

(* ------------------------------------------------------------------ *)
(* the checker for written bytes accepts the specified batch           *)
(* ------------------------------------------------------------------ *)

Lemma record_ok_spec (e : event) : (spec_key e < 65536)%N -> record_ok e (spec_record e) = true.
Proof.
  intros Hk.
  pose proof (mod256_lt (spec_key e)) as Hlo.
  pose proof (div256_small _ Hk) as Hhi.
  pose proof (N.div_mod (spec_key e) 256) as Hdm.
  unfold record_ok. rewrite spec_record_length.
  assert (forallb is_byte (spec_record e) = true) as Hb.
  { unfold spec_record. rewrite !forallb_app.
    assert (forallb is_byte [spec_key e mod 256; spec_key e / 256]%N = true) as Hc.
    { cbn [forallb]. unfold is_byte.
      apply N.ltb_lt in Hlo. apply N.ltb_lt in Hhi. rewrite Hlo, Hhi. reflexivity. }
    rewrite Hc. destruct e; reflexivity. }
  rewrite Hb.
  assert (field (spec_record e) 16 2 = 1%N) as F1 by (destruct e; reflexivity).
  assert (field (spec_record e) 18 2 = spec_key e) as F2.
  { unfold field, spec_record.
    cbv [List.repeat app skipn firstn le_value].
    lia. }
  assert (signed32 (field (spec_record e) 20 4) = spec_value e) as F3 by (destruct e; reflexivity).
  rewrite F1, F2, F3, !N.eqb_refl, Z.eqb_refl. reflexivity.
Qed.

Lemma syn_ok_syn : syn_ok syn_record = true.
Proof. reflexivity. Qed.

Lemma check_records_spec (evs : list event) :
  fits_u16 evs = true -> check_records evs (spec_batch evs) = [].
Proof.
  intros Hf. pose proof (fits_u16_forall evs Hf) as Hall. clear Hf.
  unfold spec_batch.
  induction evs as [|e evs IH].
  - cbn [map List.concat app check_records]. rewrite syn_ok_syn. reflexivity.
  - cbn [map List.concat check_records]. rewrite <- app_assoc.
    rewrite firstn_len_app by apply spec_record_length.
    rewrite skipn_len_app by apply spec_record_length.
    rewrite record_ok_spec by (apply Hall; left; reflexivity).
    apply IH. intros e' Hin. apply Hall. right. exact Hin.
Qed.

Lemma check_write_spec (evs : list event) :
  fits_u16 evs = true -> check_write evs (spec_batch evs) = [].
Proof.
  intros Hf. unfold check_write.
  rewrite spec_batch_length, Nat.eqb_refl, check_records_spec by exact Hf.
  reflexivity.
Qed.

(* ------------------------------------------------------------------ *)
(* the reader on one record                                            *)
(* ------------------------------------------------------------------ *)

Lemma raw_wf_parts (r : raw) :
  raw_wf r = true ->
  len (r_time r) = 16%nat /\ (r_type r < 65536)%N /\ (r_code r < 65536)%N
  /\ (-2147483648 <= r_value r < 2147483648)%Z.
Proof.
  unfold raw_wf. intros H.
  repeat (apply andb_true_iff in H; let H' := fresh "H" in destruct H as [H H']).
  apply Nat.eqb_eq in H.
  repeat split; try (apply N.ltb_lt; assumption); try (apply Z.leb_le; assumption);
    try (apply Z.ltb_lt; assumption); assumption.
Qed.

Lemma raw_bytes_length (r : raw) : raw_wf r = true -> len (raw_bytes r) = 24%nat.
Proof.
  intros H. apply raw_wf_parts in H. destruct H as [Hl _].
  unfold raw_bytes. rewrite !app_length, Hl. reflexivity.
Qed.

Definition buf_of_opt (o : option event) : buf_result :=
  match o with Some e => BEvent e | None => BSkip end.

Lemma decode_buf_fields (tm : list N) (b16 b17 b18 b19 b20 b21 b22 b23 : N) :
  len tm = 16%nat ->
  decode_buf (fill_buf (tm ++ [b16; b17] ++ [b18; b19] ++ [b20; b21; b22; b23])) =
    let type_ := u16_from_le b16 b17 in
    let code := u16_from_le b18 b19 in
    let value := i32_from_le b20 b21 b22 b23 in
    if (type_ =? 1)%N && ((value =? 0)%Z || (value =? 1)%Z) then
      match from_u16 code with
      | Some k =>
        if (value =? 1)%Z then BEvent (Pressed k)
        else if (value =? 0)%Z then BEvent (Released k)
        else BSkip
      | None => BSkip
      end
    else BSkip.
Proof.
  intros Hl.
  do 16 (destruct tm as [|? tm]; [discriminate Hl|]).
  destruct tm as [|? tm]; [|discriminate Hl].
  reflexivity.
Qed.

Lemma decode_raw (r : raw) :
  raw_wf r = true -> decode_buf (fill_buf (raw_bytes r)) = buf_of_opt (raw_event r).
Proof.
  intros Hwf. apply raw_wf_parts in Hwf.
  destruct Hwf as [Hl [Ht [Hc Hv]]].
  unfold raw_bytes. rewrite decode_buf_fields by exact Hl.
  cbv zeta.
  rewrite !u16_from_le_split, i32_from_le_value_bits by exact Hv.
  rewrite from_u16_known. unfold raw_event.
  destruct (r_type r =? 1)%N; destruct (known_code (r_code r));
    destruct (r_value r =? 0)%Z; destruct (r_value r =? 1)%Z; reflexivity.
Qed.

(* ------------------------------------------------------------------ *)
(* cutting a stream into reads                                         *)
(* ------------------------------------------------------------------ *)

Lemma reads_aux_app (r : list N) : forall (n : nat) (cur rest : list N),
  len r = S n -> reads_aux n cur (r ++ rest) = (cur ++ r) :: reads_of rest.
Proof.
  induction r as [|b r IH]; intros n cur rest Hl.
  - discriminate Hl.
  - cbn [app reads_aux]. destruct n as [|n].
    + destruct r as [|? ?]; [|discriminate Hl]. reflexivity.
    + rewrite IH by (cbn in Hl; lia). rewrite <- app_assoc. reflexivity.
Qed.

Lemma reads_of_concat (recs : list (list N)) :
  (forall r, In r recs -> len r = 24%nat) -> reads_of (List.concat recs) = recs.
Proof.
  induction recs as [|r recs IH]; intros Hall.
  - reflexivity.
  - cbn [List.concat]. unfold reads_of at 1.
    rewrite reads_aux_app by (apply Hall; left; reflexivity).
    cbn [app]. rewrite IH; [reflexivity|].
    intros r' Hin. apply Hall. right. exact Hin.
Qed.

(* ------------------------------------------------------------------ *)
(* repeated next() = one pass over the reads                           *)
(* ------------------------------------------------------------------ *)

Fixpoint flat_run (reads : list (list N)) : list event * run_end :=
  match reads with
  | [] => ([], Drained)
  | got :: rest =>
    match decode_buf (fill_buf got) with
    | BPanic => ([], Panicked)
    | BEvent e => let (evs, o) := flat_run rest in (e :: evs, o)
    | BSkip => flat_run rest
    end
  end.

Lemma next_n_flat (reads : list (list N)) : forall calls,
  (len reads < calls)%nat -> next_n calls reads = flat_run reads.
Proof.
  induction reads as [|got rest IH]; intros calls Hc.
  - destruct calls as [|c]; [lia|]. reflexivity.
  - destruct calls as [|c]; [lia|].
    cbn [len] in Hc.
    cbn [next_n next flat_run].
    destruct (decode_buf (fill_buf got)) as [| |e] eqn:E.
    + reflexivity.
    + rewrite <- (IH (S c)) by lia. reflexivity.
    + rewrite (IH c) by lia. reflexivity.
Qed.

Lemma decode_run_flat (s : list N) : decode_run s = flat_run (reads_of s).
Proof. unfold decode_run. apply next_n_flat. lia. Qed.

Lemma flat_run_raw (rs : list raw) :
  (forall r, In r rs -> raw_wf r = true) ->
  flat_run (map raw_bytes rs) = (raw_events rs, Drained).
Proof.
  induction rs as [|r rs IH]; intros Hall.
  - reflexivity.
  - cbn [map flat_run]. rewrite decode_raw by (apply Hall; left; reflexivity).
    rewrite IH by (intros r' Hin; apply Hall; right; exact Hin).
    unfold raw_events. cbn [flat_map].
    destruct (raw_event r) as [e|]; reflexivity.
Qed.

Lemma decode_run_raw (rs : list raw) :
  (forall r, In r rs -> raw_wf r = true) ->
  decode_run (raw_stream rs) = (raw_events rs, Drained).
Proof.
  intros Hall. rewrite decode_run_flat. unfold raw_stream.
  rewrite reads_of_concat.
  - apply flat_run_raw. exact Hall.
  - intros b Hin. apply in_map_iff in Hin. destruct Hin as [r [Eb Hr]]. subst b.
    apply raw_bytes_length. apply Hall. exact Hr.
Qed.

(* ------------------------------------------------------------------ *)
(* the reader never panics, whatever the bytes                         *)
(* ------------------------------------------------------------------ *)

Lemma fill_buf_length (got : list N) : (24 <= len (fill_buf got))%nat.
Proof.
  unfold fill_buf, input_event_size. rewrite app_length, repeat_length. lia.
Qed.

Lemma decode_buf_no_panic (buf : list N) : (24 <= len buf)%nat -> decode_buf buf <> BPanic.
Proof.
  intros Hl. unfold decode_buf.
  destruct (nth_error buf 16) as [b16|] eqn:E16; [|apply nth_error_None in E16; lia].
  destruct (nth_error buf 17) as [b17|] eqn:E17; [|apply nth_error_None in E17; lia].
  destruct (nth_error buf 18) as [b18|] eqn:E18; [|apply nth_error_None in E18; lia].
  destruct (nth_error buf 19) as [b19|] eqn:E19; [|apply nth_error_None in E19; lia].
  destruct (nth_error buf 20) as [b20|] eqn:E20; [|apply nth_error_None in E20; lia].
  destruct (nth_error buf 21) as [b21|] eqn:E21; [|apply nth_error_None in E21; lia].
  destruct (nth_error buf 22) as [b22|] eqn:E22; [|apply nth_error_None in E22; lia].
  destruct (nth_error buf 23) as [b23|] eqn:E23; [|apply nth_error_None in E23; lia].
  cbv zeta.
  destruct ((u16_from_le b16 b17 =? 1)%N && _); [|discriminate].
  destruct (from_u16 _); [|discriminate].
  destruct (_ =? 1)%Z; [discriminate|].
  destruct (_ =? 0)%Z; discriminate.
Qed.

Lemma flat_run_no_panic (reads : list (list N)) : snd (flat_run reads) = Drained.
Proof.
  induction reads as [|got rest IH].
  - reflexivity.
  - cbn [flat_run].
    destruct (decode_buf (fill_buf got)) as [| |e] eqn:E.
    + exfalso. apply (decode_buf_no_panic (fill_buf got)); [apply fill_buf_length | exact E].
    + exact IH.
    + destruct (flat_run rest) as [evs o]. exact IH.
Qed.

Lemma decode_run_no_panic (s : list N) : snd (decode_run s) = Drained.
Proof. rewrite decode_run_flat. apply flat_run_no_panic. Qed.

(* ------------------------------------------------------------------ *)
(* the key table (finite facts, by computation on the regenerated table) *)
(* ------------------------------------------------------------------ *)

Lemma codes_fit_u16_true : codes_fit_u16 = true.
Proof. vm_compute. reflexivity. Qed.

Lemma codes_match_kernel_true : codes_match_kernel = true.
Proof. vm_compute. reflexivity. Qed.

Lemma codes_distinct_true : codes_distinct = true.
Proof. vm_compute. reflexivity. Qed.

Lemma table_code_fits (id : String.string) (c : N) (s : String.string) :
  In (id, c, s) key_table -> (c < 65536)%N.
Proof.
  intros Hin. pose proof codes_fit_u16_true as H. unfold codes_fit_u16 in H.
  rewrite forallb_forall in H. apply N.ltb_lt. exact (H _ Hin).
Qed.

Lemma table_code_kernel (id : String.string) (c : N) (s : String.string) :
  In (id, c, s) key_table ->
  forall kc, kernel_code (kernel_name id) = Some kc -> kc = c.
Proof.
  intros Hin kc Hk. pose proof codes_match_kernel_true as H. unfold codes_match_kernel in H.
  rewrite forallb_forall in H. specialize (H _ Hin).
  unfold entry_matches, entry_ident, entry_code in H. cbn [fst snd] in H.
  rewrite Hk in H. apply N.eqb_eq. exact H.
Qed.

Lemma table_codes_nodup : NoDup (map (fun e : String.string * N * String.string => snd (fst e)) key_table).
Proof. apply nodupb_NoDup. exact codes_distinct_true. Qed.

Lemma known_code_in (c : N) :
  known_code c = true <-> exists id s, In (id, c, s) key_table.
Proof.
  unfold known_code. rewrite existsb_exists. split.
  - intros [x [Hin E]]. apply N.eqb_eq in E. subst x.
    apply in_map_iff in Hin. destruct Hin as [[[id c'] s] [Ec Hin]]. cbn [fst snd] in Ec. subst c'.
    exists id, s. exact Hin.
  - intros [id [s Hin]]. exists c. split; [|apply N.eqb_refl].
    apply in_map_iff. exists (id, c, s). split; [reflexivity | exact Hin].
Qed.

Lemma known_code_fits (c : N) : known_code c = true -> (c < 65536)%N.
Proof.
  intros H. apply known_code_in in H. destruct H as [id [s Hin]].
  exact (table_code_fits _ _ _ Hin).
Qed.

Lemma known_batch_fits (evs : list event) : known_batch evs = true -> fits_u16 evs = true.
Proof.
  unfold known_batch, fits_u16. rewrite !forallb_forall.
  intros H e Hin. apply N.ltb_lt. apply known_code_fits. exact (H e Hin).
Qed.

(* ------------------------------------------------------------------ *)
(* the writer's records as raw records; interleavings                  *)
(* ------------------------------------------------------------------ *)

Definition raw_of_event (e : event) : raw :=
  mkRaw (List.repeat 0%N 16) 1 (spec_key e) (spec_value e).

Lemma raw_of_event_bytes (e : event) : raw_bytes (raw_of_event e) = spec_record e.
Proof. destruct e; reflexivity. Qed.

Lemma raw_of_event_wf (e : event) : (spec_key e < 65536)%N -> raw_wf (raw_of_event e) = true.
Proof.
  intros Hk. unfold raw_wf, raw_of_event. cbn [r_time r_type r_code r_value].
  apply N.ltb_lt in Hk. rewrite Hk.
  destruct e; reflexivity.
Qed.

Lemma raw_of_event_event (e : event) :
  known_code (spec_key e) = true -> raw_event (raw_of_event e) = Some e.
Proof.
  intros Hk. unfold raw_event, raw_of_event. cbn [r_time r_type r_code r_value].
  rewrite Hk. destruct e; reflexivity.
Qed.

Definition item_raw (i : item) : raw :=
  match i with inl r => r | inr e => raw_of_event e end.

Lemma items_as_raw (l : list item) :
  (forall i, In i l -> item_ok i = true) ->
  items_stream l = raw_stream (map item_raw l)
  /\ items_events l = raw_events (map item_raw l)
  /\ (forall r, In r (map item_raw l) -> raw_wf r = true).
Proof.
  induction l as [|i l IH]; intros Hall.
  - repeat split. intros r [].
  - destruct IH as [IHs [IHe IHw]]; [intros j Hj; apply Hall; right; exact Hj|].
    pose proof (Hall i (or_introl eq_refl)) as Hi.
    unfold items_stream, raw_stream, items_events, raw_events in *.
    cbn [map List.concat flat_map].
    rewrite IHs, IHe.
    destruct i as [r | e]; cbn [item_ok] in Hi; cbn [item_raw item_bytes item_events].
    + apply andb_true_iff in Hi. destruct Hi as [Hwf Hfor].
      unfold is_foreign in Hfor.
      destruct (raw_event r) as [e|] eqn:Er; [discriminate Hfor|].
      repeat split.
      intros r' [E | Hin]; [subst r'; exact Hwf | apply IHw; exact Hin].
    + rewrite raw_of_event_bytes, raw_of_event_event by exact Hi.
      repeat split.
      intros r' [E | Hin]; [|apply IHw; exact Hin].
      subst r'. apply raw_of_event_wf. apply known_code_fits. exact Hi.
Qed.

Lemma decode_run_items (l : list item) :
  (forall i, In i l -> item_ok i = true) ->
  decode_run (items_stream l) = (items_events l, Drained).
Proof.
  intros Hall. destruct (items_as_raw l Hall) as [Es [Ee Hw]].
  rewrite Es, Ee. apply decode_run_raw. exact Hw.
Qed.

(* the SYN record is a foreign record (type 0) *)
Definition syn_raw : raw := mkRaw (List.repeat 0%N 16) 0 0 0.

Lemma syn_raw_ok : item_ok (inl syn_raw) = true.
Proof. reflexivity. Qed.

Lemma spec_batch_items (evs : list event) :
  spec_batch evs = items_stream (map inr evs ++ [inl syn_raw])
  /\ items_events (map inr evs ++ [inl syn_raw]) = evs.
Proof.
  unfold spec_batch, items_stream, items_events.
  rewrite map_app, concat_app, flat_map_app. cbn [map List.concat flat_map item_bytes item_events].
  rewrite !app_nil_r.
  split.
  - f_equal. f_equal. rewrite map_map. reflexivity.
  - induction evs as [|e evs IH]; [reflexivity|].
    cbn [map flat_map item_events app]. f_equal. exact IH.
Qed.

Lemma roundtrip (evs : list event) :
  known_batch evs = true -> decode_run (encode_batch evs) = (evs, Drained).
Proof.
  intros Hk.
  rewrite encode_batch_shape by (apply known_batch_fits; exact Hk).
  destruct (spec_batch_items evs) as [Es Ee].
  rewrite Es. rewrite decode_run_items.
  - rewrite Ee. reflexivity.
  - intros i Hin. apply in_app_or in Hin. destruct Hin as [Hin | [E | []]].
    + apply in_map_iff in Hin. destruct Hin as [e [Ei He]]. subst i. cbn [item_ok].
      unfold known_batch in Hk. rewrite forallb_forall in Hk. exact (Hk e He).
    + subst i. exact syn_raw_ok.
Qed.

(* what "foreign" means, spelled out *)
Lemma is_foreign_iff (r : raw) :
  is_foreign r = true <->
  (r_type r <> 1%N \/ (r_value r <> 0 /\ r_value r <> 1)%Z \/ known_code (r_code r) = false).
Proof.
  unfold is_foreign, raw_event.
  destruct (N.eqb_spec (r_type r) 1) as [Et | Et];
    destruct (known_code (r_code r)) eqn:Ek;
    destruct (Z.eqb_spec (r_value r) 1) as [E1 | E1];
    destruct (Z.eqb_spec (r_value r) 0) as [E0 | E0];
    cbn [andb]; split; intros H;
    try reflexivity; try discriminate H;
    try (left; exact Et); try (right; right; reflexivity);
    try (right; left; split; assumption);
    try (exfalso; destruct H as [H | [[H0 H1] | H]];
         [apply H; exact Et | first [apply H1; exact E1 | apply H0; exact E0] | discriminate H]).
Qed.

Lemma check_bytes_model (evs : list event) :
  fits_u16 evs = true -> check_bytes evs (encode_batch evs) = true.
Proof.
  intros Hf. unfold check_bytes.
  rewrite encode_batch_shape, check_write_spec by exact Hf. reflexivity.
Qed.

(* ------------------------------------------------------------------ *)
(* the statements of Properties/C18.v                                  *)
(* ------------------------------------------------------------------ *)

Lemma wellformed_full :
  forall evs : list event,
    fits_u16 evs = true ->
    encode_batch evs = List.concat (map spec_record evs) ++ syn_record
    /\ (forall e : event,
           spec_record e =
           List.repeat 0%N 16 ++ [1; 0]%N ++ [spec_key e mod 256; spec_key e / 256]%N
           ++ [match e with Pressed _ => 1 | Released _ => 0 end; 0; 0; 0]%N
           /\ len (spec_record e) = 24%nat)
    /\ syn_record = List.repeat 0%N 24
    /\ len (encode_batch evs) = (24 * S (len evs))%nat
    /\ check_bytes evs (encode_batch evs) = true.
Proof.
  intros evs Hf. split; [exact (encode_batch_shape evs Hf)|].
  split; [intros e; split; [destruct e; reflexivity | apply spec_record_length]|].
  split; [reflexivity|].
  split; [rewrite (encode_batch_shape evs Hf); apply spec_batch_length|].
  exact (check_bytes_model evs Hf).
Qed.

Lemma roundtrip_full :
  forall evs : list event,
    known_batch evs = true ->
    decode_stream (encode_batch evs) = evs
    /\ decode_run (encode_batch evs) = (evs, Drained).
Proof.
  intros evs Hk. pose proof (roundtrip evs Hk) as H. split; [|exact H].
  unfold decode_stream. rewrite H. reflexivity.
Qed.

Lemma reader_filters_full :
  forall items : list (raw + event),
    (forall i, In i items ->
       match i with
       | inl r => raw_wf r = true
                  /\ (r_type r <> 1%N \/ (r_value r <> 0 /\ r_value r <> 1)%Z
                      \/ known_code (r_code r) = false)
       | inr e => known_code (spec_key e) = true
       end) ->
    decode_stream (items_stream items) = items_events items
    /\ decode_run (items_stream items) = (items_events items, Drained).
Proof.
  intros items Hall.
  assert (decode_run (items_stream items) = (items_events items, Drained)) as H.
  { apply decode_run_items. intros i Hin. specialize (Hall i Hin).
    destruct i as [r | e]; cbn [item_ok].
    - destruct Hall as [Hwf Hfor]. rewrite Hwf. apply is_foreign_iff in Hfor. rewrite Hfor. reflexivity.
    - exact Hall. }
  split; [|exact H]. unfold decode_stream. rewrite H. reflexivity.
Qed.

Lemma codes_full :
  (forall (id : String.string) (c : N) (s : String.string),
      In (id, c, s) key_table ->
      (c < 65536)%N
      /\ (forall kc, kernel_code (kernel_name id) = Some kc -> kc = c))
  /\ NoDup (map (fun e : String.string * N * String.string => snd (fst e)) key_table).
Proof.
  split.
  - intros id c s Hin. split.
    + exact (table_code_fits id c s Hin).
    + exact (table_code_kernel id c s Hin).
  - exact table_codes_nodup.
Qed.
