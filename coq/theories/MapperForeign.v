(* MapperForeign.v — C05, first clause: a key that appears nowhere in the layout. *)
From TM Require Import Base ListFacts Mapper Monitors Trace TraceLemmas MapperInv MapperProps MapperFire MapperProv.

Lemma foreign_not_in_layout L x :
  foreign L x = true -> ~ lay_out L x /\ ~ lay_from L x /\ ~ lay_abs L x.
Proof.
  unfold foreign. rewrite negb_true_iff. intros H.
  assert (Hm : forall m, In m L -> mem x (m_from m) = false /\ mem x (m_to m) = false /\ mem x (m_abs m) = false).
  { intros m Hm. destruct (mem x (m_from m) || mem x (m_to m) || mem x (m_abs m) || mem x (repeat_keys m)) eqn:E.
    - exfalso. assert (existsb (fun m => mem x (m_from m) || mem x (m_to m) || mem x (m_abs m) || mem x (repeat_keys m)) L = true).
      { apply existsb_exists. exists m. split; assumption. } congruence.
    - rewrite !orb_false_iff in E. tauto. }
  split; [|split]; intros [m [HmL Hx]]; apply mem_In in Hx; destruct (Hm m HmL) as [A [B C]]; congruence.
Qed.

Section S.
Variable is_action : key -> bool.

(* absorbed keys are always absorbing-list keys of the layout *)
Lemma absd_fold_lay L : forall ks evs s,
  wf_layout L -> Inv L s -> (forall x, In x (absd s) -> lay_abs L x) ->
  forall x, In x (absd (snd (fold_left (release_all_one is_action L) ks (evs, s)))) -> lay_abs L x.
Proof.
  induction ks as [|k t IH]; intros evs s Hwf I Ha x Hx; cbn [fold_left] in Hx; [apply Ha; exact Hx|].
  rewrite release_all_one_eq in Hx.
  pose proof (step_inv is_action L s (Released k) Hwf I) as R. cbn zeta in R.
  destruct R as [I1 [_ [_ [_ [_ Habs]]]]].
  eapply IH; [exact Hwf | exact I1 | | exact Hx].
  intros y Hy. destruct (Habs y Hy) as [H|H]; [apply Ha; exact H | exact H].
Qed.

Lemma absd_run_lay L : forall h s,
  wf_layout L -> Inv L s -> (forall x, In x (absd s) -> lay_abs L x) ->
  forall x, In x (absd (snd (mrun is_action L s h))) -> lay_abs L x.
Proof.
  induction h as [|i h IH]; intros s Hwf I Ha x Hx; cbn [mrun] in Hx; [apply Ha; exact Hx|].
  pose proof (mstep_inv is_action L s i Hwf I) as R. cbn zeta in R.
  assert (Ha1 : forall y, In y (absd (snd (mstep is_action L s i))) -> lay_abs L y).
  { destruct i as [e|]; cbn [mstep].
    - pose proof (step_inv is_action L s e Hwf I) as R2. cbn zeta in R2.
      destruct (step is_action L s e) as [[evs rep] s']. cbn [fst snd] in *.
      destruct R2 as [_ [_ [_ [_ [_ Habs]]]]]. intros y Hy.
      destruct (Habs y Hy) as [H|H]; [apply Ha; exact H | exact H].
    - pose proof (absd_fold_lay L (inp s) [] s Hwf I Ha) as Hf. unfold release_all.
      destruct (fold_left (release_all_one is_action L) (inp s) ([], s)) as [evs s']. exact Hf. }
  destruct (mstep is_action L s i) as [[evs rep] s1]. cbn [fst snd] in *. destruct R as [I1 _].
  specialize (IH s1 Hwf I1 Ha1 x).
  destruct (mrun is_action L s1 h) as [outs s2]. cbn [snd] in *. apply IH. exact Hx.
Qed.

Lemma absd_in_layout L h x :
  wf_layout L -> In x (absd (state_of is_action L h)) -> lay_abs L x.
Proof. intros Hwf. apply (absd_run_lay L h init Hwf (Inv_init L)). intros y []. Qed.

(* 1. a foreign key is pressed on the output only by an acted press of itself;
   2. it is released only by its own release, by release-all, or - a non-modifier -
      by a step that fires a no-repeat mapping *)
Lemma foreign_events L h i x e :
  wf_layout L -> foreign L x = true ->
  let s := state_of is_action L h in
  In e (fst (fst (mstep is_action L s i))) -> ev_key e = x ->
  match e with
  | Pressed _ => i = IEv (Pressed x) /\ mem x (inp s) = false
  | Released _ =>
    i = IEv (Released x) \/ i = IReleaseAll
    \/ (is_action x = true /\ exists k m, i = IEv (Pressed k) /\ fired L s k = Some m /\ m_repeat m <> RNormal)
  end.
Proof.
  intros Hwf Hfor. cbn zeta. intros He Hx.
  destruct (run_facts is_action L h Hwf) as [I _].
  destruct (foreign_not_in_layout L x Hfor) as [N1 [N2 N3]].
  destruct i as [[k|k]|].
  - (* press *)
    cbn [mstep] in He.
    destruct (step is_action L (state_of is_action L h) (Pressed k)) as [[evs rep] s'] eqn:Es. cbn [fst] in He.
    destruct (mem k (inp (state_of is_action L h))) eqn:Ek.
    { cbn [step] in Es. rewrite Ek in Es. inversion Es. subst. destruct He. }
    pose proof (press_event_class is_action L _ k e I Ek) as Hc. rewrite Es in Hc. specialize (Hc He).
    destruct e as [y|y]; cbn [ev_key] in Hx; subst y.
    + destruct Hc as [E|H]; [subst; split; [reflexivity | exact Ek] | contradiction].
    + destruct Hc as [H|[H|[H|[Ha [m [Hf Hn]]]]]].
      * exfalso. apply N3. eapply absd_in_layout; eassumption.
      * contradiction.
      * contradiction.
      * right. right. split; [exact Ha|]. exists k, m. split; [reflexivity | split; assumption].
  - (* release *)
    pose proof (release_never_presses is_action L (state_of is_action L h) (IEv (Released k))) as Hrel. cbn beta iota in Hrel.
    destruct (all_released_In _ e Hrel He) as [y Ey]. subst e. cbn [ev_key] in Hx. subst y.
    cbn [mstep] in He.
    pose proof (release_scope is_action L h k x Hwf) as Hsc. cbn zeta in Hsc.
    destruct (step is_action L (state_of is_action L h) (Released k)) as [[evs rep] s']. cbn [fst snd] in *.
    destruct (Hsc He) as [[E|[m [Hm [_ Hxm]]]] _].
    + left. subst. reflexivity.
    + exfalso. apply N1. exists m. split; assumption.
  - pose proof (release_never_presses is_action L (state_of is_action L h) IReleaseAll) as Hrel. cbn beta iota in Hrel.
    destruct (all_released_In _ e Hrel He) as [y Ey]. subst e. right. left. reflexivity.
Qed.

(* 3. an acted press of a foreign key emits exactly one press of it, as the last event *)
Lemma foreign_press_once L h x :
  wf_layout L -> foreign L x = true -> mem x (phys_of h) = false ->
  exists e1, fst (fst (step is_action L (state_of is_action L h) (Pressed x))) = e1 ++ [Pressed x]
             /\ all_released e1.
Proof.
  intros Hwf Hfor Hp.
  destruct (run_facts is_action L h Hwf) as [I [_ Hinp]].
  destruct (foreign_not_in_layout L x Hfor) as [N1 [N2 N3]].
  set (s := state_of is_action L h) in *.
  assert (Hk : mem x (inp s) = false).
  { apply mem_false. intro H. apply mem_false in Hp. apply Hp. apply Hinp. exact H. }
  cbn [step]. rewrite Hk. unfold newly_press. cbn zeta. fold (pre_press s x).
  assert (Hg : group_of L x = []).
  { unfold group_of. destruct (filter (has_final x) L) as [|m t] eqn:E; [reflexivity|]. exfalso.
    assert (Hm : In m (filter (has_final x) L)) by (rewrite E; left; reflexivity).
    apply filter_In in Hm. destruct Hm as [HmL Hf]. unfold has_final in Hf.
    destruct (last_opt (m_from m)) as [l|] eqn:El; [|discriminate]. apply N.eqb_eq in Hf. subst l.
    apply N2. exists m. split; [exact HmL | eapply last_opt_In; exact El]. }
  rewrite Hg. cbn [rev find].
  change (act (pre_press s x)) with (act s). change (pass (pre_press s x)) with (pass s).
  assert (Hmen : existsb (mentions x) (act s) = false).
  { destruct (existsb (mentions x) (act s)) eqn:E; [|reflexivity]. exfalso.
    apply existsb_exists in E. destruct E as [m [Hm Hx]]. destruct (i_act _ _ I m Hm) as [HmL _].
    unfold mentions in Hx. apply orb_true_iff in Hx. destruct Hx as [Hx|Hx]; apply mem_In in Hx.
    - apply N2. exists m. split; assumption.
    - apply N1. exists m. split; assumption. }
  rewrite Hmen.
  assert (Hpa : mem x (pass s) = false).
  { apply mem_false. intro H. apply mem_false in Hk. apply Hk. apply (i_pass_inp _ _ I). exact H. }
  rewrite Hpa.
  destruct (is_action x).
  - pose proof (release_action_mappings_inv is_action L _ (Inv_pre_press L s x I)) as R1. cbn zeta in R1.
    destruct (release_action_mappings is_action (pre_press s x)) as [ea sa]. cbn [fst snd] in *.
    destruct R1 as [Ia [_ [_ [_ [_ [_ [_ Hra]]]]]]].
    pose proof (release_absorbed_keys_inv is_action L sa Ia) as R2. cbn zeta in R2.
    destruct (release_absorbed_keys sa) as [eb sb]. cbn [fst snd] in *.
    destruct R2 as [_ [_ [Hrb _]]].
    exists (ea ++ eb). split; [reflexivity | apply all_released_app_intro; assumption].
  - exists []. split; reflexivity.
Qed.

(* 4. after its physical release a foreign key is not held on the output *)
Lemma foreign_up_after_release L h x :
  wf_layout L -> foreign L x = true ->
  ~ In x (held_all is_action L (h ++ [IEv (Released x)])).
Proof.
  intros Hwf Hfor Hh.
  destruct (foreign_not_in_layout L x Hfor) as [N1 _].
  destruct (run_facts is_action L (h ++ [IEv (Released x)]) Hwf) as [I [_ Hinp]].
  apply (held_all_seteq is_action L _ Hwf) in Hh. unfold held_of in Hh. apply in_app_or in Hh.
  destruct Hh as [Hh|Hh].
  - apply (i_pass_inp _ _ I) in Hh. apply Hinp in Hh. rewrite phys_of_snoc in Hh. cbn [phys_after] in Hh.
    apply In_apply_ev_release in Hh. tauto.
  - apply N1. destruct (i_mout _ _ I x Hh) as [m [Hm Hx]]. exists m. split; [apply (i_act _ _ I); exact Hm | exact Hx].
Qed.

End S.
