(* EscapeSpec.v — what property C17 expects of the written unit file, as
   executable definitions (no lemmas): the shape of the argument vector systemd
   must end up with, and the checker that is extracted and applied to the REAL
   unit text (ocaml/escape_check.ml).  Written from the property statement, not
   from the escaper.

   The checker demands what the property states and nothing more.  Its answer
   does not depend on any line of the unit other than the ExecStart=
   assignment(s) of [Service], nor on the program path, on --verbose, on the
   layout path or on further options in front of the exclude region. *)
From Coq Require Import List NArith Bool String.
From TM Require Import Escape Systemd.
Import ListNotations.
Open Scope N_scope.

(* a Unicode scalar value other than NUL (what a Rust `char` of a pattern can be,
   NUL excluded by the property) *)
Definition scalar_ok (c : N) : Prop := 0 < c /\ c < 1114112 /\ ~ (55296 <= c <= 57343).

Definition scalar_okb (c : N) : bool :=
  (0 <? c) && (c <? 1114112) && negb ((55296 <=? c) && (c <=? 57343)).

(* the words the property names (ASCII: bytes = scalars) *)
Definition w_exclude : list N := str "--exclude".
Definition w_devfile : list N := str "--dev-file".
Definition w_layout_file : list N := str "--layout-file".
Definition w_only_if_keyboard : list N := str "--only-if-keyboard".

(* "--exclude <pattern>" for each pattern: the pattern's bytes, in order *)
Definition exclude_args (pats : list (list N)) : list (list N) :=
  flat_map (fun p => [w_exclude; utf8 p]) pats.

(* what the argument vector must END with, for instance [inst] (bytes of the
   unescaped instance name, e.g. dev/input/event3): the exclude region, then
   "--dev-file" "/<instance>" *)
Definition required_suffix (inst : list N) (pats : list (list N)) : list (list N) :=
  exclude_args pats ++ [w_devfile; 47 :: inst].

(* ---------------------------------------------------------------- the property, as a proposition *)

(* "The surrounding arguments stay intact": in front of the exclude region
   there is a program, no stray --exclude, --layout-file with a value, and
   --only-if-keyboard somewhere other than in the place of that value *)
Definition prefix_intact (pre : list (list N)) : Prop :=
  pre <> []
  /\ ~ In w_exclude pre
  /\ exists a v b, pre = a ++ [w_layout_file; v] ++ b /\ In w_only_if_keyboard (a ++ b).

(* Property C17 of a unit file text, for one instance and one environment of
   the service: systemd finds exactly one ExecStart= assignment in [Service], and
   reads it as  <intact prefix> --exclude p1 ... --exclude pn --dev-file /<instance>
   with p1..pn the user's patterns, byte for byte and in order *)
Definition c17_holds (inst : list N) (env : list N -> option (list N)) (pats : list (list N))
  (text : list N) : Prop :=
  exists line argv pre,
    service_exec_starts text = Some [line]
    /\ decode inst env line = Some argv
    /\ argv = pre ++ exclude_args pats ++ [w_devfile; 47 :: inst]
    /\ prefix_intact pre.

(* ---------------------------------------------------------------- the same, executable *)

(* the unit file text (bytes) read back: the one ExecStart= assignment of
   [Service] as systemd finds it, then systemd's command-line rules *)
Definition read_unit (inst : list N) (env : list N -> option (list N)) (text : list N)
  : option (list (list N)) :=
  match service_exec_starts text with
  | Some [line] => decode inst env line
  | _ => None
  end.

Fixpoint argv_eqb (a b : list (list N)) : bool :=
  match a, b with
  | [], [] => true
  | x :: a', y :: b' => list_eqb x y && argv_eqb a' b'
  | _, _ => false
  end.

Definition word_in (w : list N) (ws : list (list N)) : bool := existsb (list_eqb w) ws.

(* "--layout-file <word>" occurs in [ws], and "--only-if-keyboard" occurs among
   the words [before] or in [ws] at a place other than that <word> *)
Fixpoint layout_and_flag (before : list (list N)) (ws : list (list N)) : bool :=
  match ws with
  | w :: r =>
    match r with
    | _ :: r' =>
      (list_eqb w w_layout_file && (word_in w_only_if_keyboard before || word_in w_only_if_keyboard r'))
      || layout_and_flag (w :: before) r
    | [] => false
    end
  | [] => false
  end.

Definition prefix_ok (pre : list (list N)) : bool :=
  match pre with
  | [] => false
  | _ :: _ => negb (word_in w_exclude pre) && layout_and_flag [] pre
  end.

(* the argument vector ends with the required suffix and what is in front of
   it is an intact prefix *)
Definition argv_ok (inst : list N) (pats : list (list N)) (argv : list (list N)) : bool :=
  let suffix := required_suffix inst pats in
  let n := (List.length argv - List.length suffix)%nat in
  argv_eqb (skipn n argv) suffix && prefix_ok (firstn n argv).

(* the C17 checker: applied to the model's text it is always true (theorem
   C17_check_on_model); a true answer on ANY text means c17_holds (theorem
   C17_check_sound), a false answer means it does not (C17_check_complete);
   applied to the real text it decides the property *)
Definition c17_check (inst : list N) (env : list N -> option (list N)) (pats : list (list N))
  (text : list N) : bool :=
  match read_unit inst env text with
  | Some argv => argv_ok inst pats argv
  | None => false
  end.

(* ---------------------------------------------------------------- correspondence class TEXT *)

(* What the escape engine compares between the REAL unit text and the model
   (this part, unlike the checker above, uses the escaper model): the text of
   the exclude region and of what follows it.  The real ExecStart= value must
   be  P ++ suffix_text pats  for some front part P that systemd, reading P
   alone, takes as complete words forming an intact prefix.  Theorem
   C17_any_prefix says that every such line is read as the property demands,
   for ALL patterns; so the model's own front part (program path, --verbose,
   layout path) is not part of what is compared. *)

(* the word splitter run over the front part of a line *)
Fixpoint split_pre (s : sstate) (l : list N) : option sstate :=
  match l with
  | [] => Some s
  | b :: r => match step s b with None => None | Some s' => split_pre s' r end
  end.

(* the argument words of a front part P that ends between two words: UTF-8
   clean, split, specifiers and variables expanded, an absolute program path *)
Definition read_prefix (inst : list N) (env : list N -> option (list N)) (P : list N)
  : option (list (list N)) :=
  if utf8_is_valid P then
    match split_pre (SBetween []) P with
    | Some (SBetween ws) =>
      match spec_all inst (rev ws) with
      | Some ws' =>
        match ws' with
        | (b :: _) :: _ => if b =? 47 then Some (flat_map (env_word env) ws') else None
        | _ => None
        end
      | None => None
      end
    | _ => None
    end
  else None.

(* the text the model writes from the exclude region on *)
Definition suffix_text (pats : list (list N)) : list N :=
  (utf8 (build_exclude_text pats) ++ [32]) ++ utf8 (str "--dev-file /%I").

Definition text_class_ok (inst : list N) (env : list N -> option (list N)) (pats : list (list N))
  (text : list N) : bool :=
  match service_exec_starts text with
  | Some [line] =>
    let S := suffix_text pats in
    let n := (List.length line - List.length S)%nat in
    list_eqb (skipn n line) S
    && match read_prefix inst env (firstn n line) with
       | Some pre => prefix_ok pre
       | None => false
       end
  | _ => false
  end.

(* ---------------------------------------------------------------- about the model's line only *)

(* the arguments the MODEL's line has in front of the exclude region (argv[0]
   included), and the argument vector it must be read as *)
Definition fixed_prefix_words : list (list N) :=
  [str "/usr/bin/totalmapper"; str "remap"; str "--verbose"; w_layout_file;
   str "/etc/totalmapper.json"; w_only_if_keyboard].

Definition expected_argv (inst : list N) (pats : list (list N)) : list (list N) :=
  fixed_prefix_words ++ required_suffix inst pats.
