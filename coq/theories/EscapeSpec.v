(* EscapeSpec.v — what property C17 expects of the written unit file, as
   executable definitions (no lemmas): the argument vector systemd must end up
   with, and the checker that is extracted and applied to the REAL unit text
   (ocaml/escape_check.ml).  Written from the property statement and the unit
   template, not from the escaper. *)
From Coq Require Import List NArith Bool String.
From TM Require Import Escape Systemd.
Import ListNotations.
Open Scope N_scope.

(* a Unicode scalar value other than NUL (what a Rust `char` of a pattern can be,
   NUL excluded by the property) *)
Definition scalar_ok (c : N) : Prop := 0 < c /\ c < 1114112 /\ ~ (55296 <= c <= 57343).

Definition scalar_okb (c : N) : bool :=
  (0 <? c) && (c <? 1114112) && negb ((55296 <=? c) && (c <=? 57343)).

(* the arguments in front of the --exclude options (argv[0] included) *)
Definition fixed_prefix_words : list (list N) :=
  [str "/usr/bin/totalmapper"; str "remap"; str "--verbose"; str "--layout-file";
   str "/etc/totalmapper.json"; str "--only-if-keyboard"].

(* the non-empty lines a reader of the unit file must find before ExecStart= *)
Definition expected_header : list (list N) :=
  [str "[Unit]"; str "Description=Totalmapper"; str "[Service]"; str "Type=simple";
   str "User=totalmapper"; str "Group=input"].

(* what systemd must execute for instance [inst] (bytes of the unescaped
   instance name, e.g. dev/input/event3) and the user's patterns *)
Definition expected_argv (inst : list N) (pats : list (list N)) : list (list N) :=
  fixed_prefix_words
  ++ flat_map (fun p => [utf8 (str "--exclude"); utf8 p]) pats
  ++ [utf8 (str "--dev-file"); utf8 (str "/") ++ inst].

(* the unit file text (bytes) read back: the single ExecStart= line after the
   expected header, then systemd's command-line rules *)
Definition read_back (inst : list N) (env : list N -> option (list N)) (text : list N)
  : option (list (list N)) :=
  match unit_exec_start expected_header text with
  | Some line => decode inst env line
  | None => None
  end.

Fixpoint argv_eqb (a b : list (list N)) : bool :=
  match a, b with
  | [], [] => true
  | x :: a', y :: b' => list_eqb x y && argv_eqb a' b'
  | _, _ => false
  end.

(* the C17 checker: applied to the model's text it is always true (theorem
   C17_check_on_model); applied to the real text it decides the property *)
Definition c17_check (inst : list N) (env : list N -> option (list N)) (pats : list (list N))
  (text : list N) : bool :=
  match read_back inst env text with
  | Some argv => argv_eqb argv (expected_argv inst pats)
  | None => false
  end.
