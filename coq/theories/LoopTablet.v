(* LoopTablet.v — every send explained (C10/C11 "only then"), step outputs sent
   at once (C10), tablet mode (C12): release-all on every tablet event, silence
   while the switch is on, fresh mapper afterwards. *)
From TM Require Import Base ListFacts Mapper Monitors Trace TraceLemmas MapperInv MapperProps MapperRepeat
                       MapperRefire Loop LoopEnv LoopMonitors LoopSpec LoopLemmas LoopStep LoopSends.
From Coq Require Import Lia.

Lemma since_tab_snoc : forall tr tab acc x,
  since_tab tab acc (tr ++ [x]) =
  match ekind_of x with
  | EKey e => if tab_after tab tr then since_tab tab acc tr else since_tab tab acc tr ++ [IEv e]
  | ETab _ => []
  | EOther => since_tab tab acc tr
  end.
Proof.
  induction tr as [|y tr IH]; intros tab acc x.
  - cbn [app since_tab tab_after]. destruct (ekind_of x); [destruct tab|..]; reflexivity.
  - cbn [app since_tab tab_after]. destruct (ekind_of y); apply IH.
Qed.

Lemma since_tab_no_tab : forall tr acc,
  (forall x, In x tr -> forall b, ekind_of x <> ETab b) ->
  since_tab false acc tr = acc ++ map IEv (kbd_reads tr).
Proof.
  induction tr as [|x tr IH]; intros acc Hno; [cbn; rewrite app_nil_r; reflexivity|].
  assert (Hno' : forall y, In y tr -> forall b, ekind_of y <> ETab b) by (intros y Hy; apply Hno; right; exact Hy).
  pose proof (Hno x (or_introl eq_refl)) as Hx.
  cbn [since_tab kbd_reads]. destruct x as [c r].
  destruct c; try (apply IH; exact Hno').
  - destruct r as [| | |n| |]; try (apply IH; exact Hno'). destruct n as [| |e]; try (apply IH; exact Hno').
    cbn [ekind_of map]. rewrite (IH _ Hno'), <- app_assoc. reflexivity.
  - destruct r as [| | | |n|]; try (apply IH; exact Hno'). destruct n as [| |b]; try (apply IH; exact Hno').
    exfalso. exact (Hx b eq_refl).
Qed.

Section S.
Variable is_action : key -> bool.
Variable L : layout.
Hypothesis Hwf : wf_layout L.

Notation resume := (Loop.resume is_action L).
Notation run_from := (Loop.run_from is_action L).
Notation run := (Loop.run is_action L).
Notation confs := (LoopSpec.confs is_action L).
Notation conf_at := (LoopSpec.conf_at is_action L).
Notation step := (Mapper.step is_action L).
Notation release_all := (Mapper.release_all is_action L).
Notation state_of := (MapperProps.state_of is_action L).
Notation mview := (LoopSends.mview is_action L).

(* ---------- from calls and transcript entries to configurations ---------- *)

Lemma call_succ_conf : forall rs p st k c,
  nth_error (fst (run_from p st rs)) (S k) = Some c ->
  exists x p' st', nth_error (confs p st rs) k = Some x
    /\ resume (c_point x) (c_state x) (c_resp x) = Go p' st' /\ pending p' = c.
Proof.
  induction rs as [|r rs IH]; intros p st k c Hc.
  - cbn [Loop.run_from fst nth_error] in Hc. destruct k; discriminate.
  - destruct (resume p st r) as [p' st'|o] eqn:E.
    + rewrite (run_from_go _ _ _ _ _ _ _ _ E) in Hc. cbn [fst nth_error] in Hc.
      rewrite (confs_go _ _ _ _ _ _ _ _ E). destruct k as [|k].
      * destruct (run_from_calls_hd is_action L p' st' rs) as [cs' Hcs]. rewrite Hcs in Hc. cbn [nth_error] in Hc.
        inversion Hc; subst c. exists (p, st, r), p', st'. cbn [nth_error c_point c_state c_resp fst snd].
        repeat split. exact E.
      * destruct (IH p' st' k c Hc) as [x [p2 [st2 [H1 [H2 H3]]]]]. exists x, p2, st2.
        cbn [nth_error]. repeat split; assumption.
    + rewrite (run_from_stop _ _ _ _ _ _ _ E) in Hc. cbn [fst nth_error] in Hc. destruct k; discriminate.
Qed.

Lemma entry_conf rs cs o k c r :
  run rs = (cs, o) -> nth_error (combine cs rs) k = Some (c, r) ->
  exists x, conf_at rs k = Some x /\ pending (c_point x) = c /\ c_resp x = r.
Proof.
  intros Hrun Hk. rewrite (run_transcript is_action L rs cs o Hrun) in Hk.
  unfold LoopSpec.transcript_of in Hk. unfold LoopSpec.conf_at.
  destruct (nth_error (confs PRegister linit rs) k) as [x|] eqn:E.
  - rewrite (map_nth_error entry_of k _ E) in Hk. inversion Hk. exists x. repeat split.
  - exfalso. apply nth_error_None in E. assert (nth_error (map entry_of (confs PRegister linit rs)) k <> None) by congruence.
    apply nth_error_Some in H. rewrite map_length in H. lia.
Qed.

Lemma conf_entry rs cs o k x :
  run rs = (cs, o) -> conf_at rs k = Some x ->
  nth_error (combine cs rs) k = Some (pending (c_point x), c_resp x).
Proof.
  intros Hrun Hx. rewrite (run_transcript is_action L rs cs o Hrun).
  unfold LoopSpec.transcript_of. exact (map_nth_error entry_of k _ Hx).
Qed.

(* ---------- every send is explained (C10 / C11 only-then / C12) ---------- *)

Inductive send_reason (x : conf) (evs : list event) : Prop :=
| SR_step : forall rest e,
    c_point x = PKbd rest -> c_resp x = RKbd (NOne e) -> l_tablet (c_state x) = false ->
    evs = fst (fst (step (l_mapper (c_state x)) e)) -> send_reason x evs
| SR_chord : forall to ks nw iv,
    c_point x = PPoll to -> c_resp x = RPoll PTimedOut -> l_tablet (c_state x) = false ->
    l_wr (c_state x) = Repeating ks nw iv ->
    evs = chord_events (l_mapper (c_state x)) ks -> send_reason x evs
| SR_tablet : forall rest on,
    c_point x = PTab rest -> c_resp x = RTab (NOne on) ->
    evs = fst (release_all (l_mapper (c_state x))) -> send_reason x evs.

Lemma mview_send p st r p' st' evs :
  mview p st r p' st' -> pending p' = CSend evs -> evs <> [] /\ send_reason (p, st, r) evs.
Proof.
  intros H Hp. destruct H as [p st r p' st' _ _ _ Hns _ | rest st e evs0 rep s' p' st' Htf Hs _ _ Hc
                              | rest st on evs0 s' p' st' Hr _ _ _ Hc | to st ks nw iv Hw Htf Hne].
  - unfold not_send in Hns. rewrite Hp in Hns. contradiction.
  - destruct Hc as [[_ Hns]|[Hne ->]].
    + unfold not_send in Hns. rewrite Hp in Hns. contradiction.
    + cbn [pending] in Hp. inversion Hp; subst evs0. split; [exact Hne|].
      eapply SR_step; try reflexivity; [exact Htf|]. cbn [c_state fst snd]. rewrite Hs. reflexivity.
  - destruct Hc as [[_ ->]|[Hne ->]]; [discriminate|].
    cbn [pending] in Hp. inversion Hp; subst evs0. split; [exact Hne|].
    eapply SR_tablet; try reflexivity. cbn [c_state fst snd]. rewrite Hr. reflexivity.
  - cbn [pending] in Hp. inversion Hp; subst evs. split; [exact Hne|].
    eapply SR_chord; try reflexivity; eassumption.
Qed.

Theorem every_send_explained rs cs o k evs :
  run rs = (cs, o) -> nth_error cs (S k) = Some (CSend evs) ->
  exists x, conf_at rs k = Some x /\ evs <> [] /\ send_reason x evs.
Proof.
  intros Hrun Hc. pose proof (call_succ_conf rs PRegister linit k (CSend evs)) as H.
  fold (run rs) in H. rewrite Hrun in H. destruct (H Hc) as [x [p' [st' [H1 [H2 H3]]]]].
  exists x. split; [exact H1|]. apply resume_mview in H2.
  destruct x as [[p st] r]. exact (mview_send _ _ _ _ _ _ H2 H3).
Qed.

(* ---------- the call after a key read / a tablet event ---------- *)

Lemma next_call rs cs o k x p' st' :
  run rs = (cs, o) -> conf_at rs k = Some x ->
  resume (c_point x) (c_state x) (c_resp x) = Go p' st' ->
  nth_error cs (S k) = Some (pending p').
Proof.
  intros Hrun Hx Hgo. pose proof (confs_next_call is_action L rs PRegister linit k x p' st' Hx Hgo) as H.
  fold (run rs) in H. rewrite Hrun in H. exact H.
Qed.

Definition is_send (c : option call) : Prop := exists evs, c = Some (CSend evs).

Theorem after_key_read rs cs o k x rest e :
  run rs = (cs, o) -> conf_at rs k = Some x ->
  c_point x = PKbd rest -> c_resp x = RKbd (NOne e) ->
  if l_tablet (c_state x) then ~ is_send (nth_error cs (S k))
  else let out := fst (fst (step (l_mapper (c_state x)) e)) in
       (out <> [] -> nth_error cs (S k) = Some (CSend out))
       /\ (out = [] -> ~ is_send (nth_error cs (S k))).
Proof.
  intros Hrun Hx Hp Hr. destruct x as [[p st] r]. cbn [c_point c_state c_resp fst snd] in *. subst p r.
  destruct (resume (PKbd rest) st (RKbd (NOne e))) as [p' st'|o'] eqn:E.
  2:{ apply stop_ekind in E. discriminate. }
  pose proof (next_call rs cs o k _ p' st' Hrun Hx E) as Hn. apply resume_mview in E.
  inversion E as [? ? ? ? ? Hk _ _ Hns _ | ? ? ? evs rep s' ? ? Htf Hs _ _ Hc | | ]; subst.
  - destruct Hk as [Hk|[e' [_ Htab]]]; [discriminate|]. rewrite Htab.
    intros [evs Hsend]. rewrite Hn in Hsend. unfold not_send in Hns. inversion Hsend as [Hq]. rewrite Hq in Hns. exact Hns.
  - rewrite Htf. cbn zeta. rewrite Hs. cbn [fst]. split.
    + intros Hne. destruct Hc as [[-> _]|[_ ->]]; [contradiction | exact Hn].
    + intros ->. destruct Hc as [[_ Hns]|[Hne _]]; [|contradiction].
      intros [evs Hsend]. rewrite Hn in Hsend. unfold not_send in Hns. inversion Hsend as [Hq]. rewrite Hq in Hns. exact Hns.
Qed.

Theorem after_tablet_event rs cs o k x rest on :
  run rs = (cs, o) -> conf_at rs k = Some x ->
  c_point x = PTab rest -> c_resp x = RTab (NOne on) ->
  let batch := fst (release_all (l_mapper (c_state x))) in
  (batch <> [] -> nth_error cs (S k) = Some (CSend batch))
  /\ (batch = [] -> nth_error cs (S k) = Some CNextTab).
Proof.
  intros Hrun Hx Hp Hr. destruct x as [[p st] r]. cbn [c_point c_state c_resp fst snd] in *. subst p r.
  destruct (resume (PTab rest) st (RTab (NOne on))) as [p' st'|o'] eqn:E.
  2:{ apply stop_ekind in E. discriminate. }
  pose proof (next_call rs cs o k _ p' st' Hrun Hx E) as Hn. apply resume_mview in E.
  inversion E as [? ? ? ? ? Hk _ _ Hns _ | | ? ? ? evs s' ? ? Hrel _ _ _ Hc | ]; subst.
  - destruct Hk as [Hk|[e' [Hk _]]]; discriminate.
  - cbn zeta. rewrite Hrel. cbn [fst]. split.
    + intros Hne. destruct Hc as [[-> _]|[_ ->]]; [contradiction | exact Hn].
    + intros ->. destruct Hc as [[_ ->]|[Hne _]]; [exact Hn | contradiction].
Qed.

(* ---------- the invariants of LoopSends at a configuration, together ---------- *)

Definition fresh_inv (tr : list (call * resp)) (p : point) (st : lstate) : Prop :=
  Inv L (state_of (since_tab false [] tr)) /\ aeq (state_of (since_tab false [] tr)) (l_mapper st).

Definition all_inv (tr : list (call * resp)) (p : point) (st : lstate) : Prop :=
  state_inv is_action L tr p st /\ held_inv L tr p st /\ fresh_inv tr p st.

Lemma all_inv_step tr p st r p' st' :
  all_inv tr p st -> resume p st r = Go p' st' -> all_inv (tr ++ [(pending p, r)]) p' st'.
Proof.
  intros [HS [HH HF]] E. split; [exact (state_inv_step is_action L tr p st r p' st' HS E)|].
  split; [exact (held_inv_step is_action L Hwf tr p st r p' st' HH E)|].
  destruct HS as [_ Htab]. destruct HH as [HI [_ Hinp]]. destruct HF as [HIg Haeq].
  apply resume_mview in E. unfold fresh_inv. rewrite since_tab_snoc. rewrite <- Htab.
  destruct E as [p st r p' st' Hk Hm' Ht' Hns _ | rest st e evs rep s' p' st' Htf Hs Hm' Ht' Hp
                | rest st on evs s' p' st' Hr Hm' Ht' _ Hp | to st ks nw iv Hw Htf Hne].
  - rewrite Hm'. destruct Hk as [Hk|[e [Hk Hon]]]; rewrite Hk; [|rewrite Hon]; split; assumption.
  - cbn [ekind_of pending]. rewrite Htf. rewrite state_of_snoc. cbn [Monitors.mstep].
    pose proof (step_inv is_action L _ e Hwf HIg) as R. cbn zeta in R.
    destruct (step_aeq is_action L _ _ e Hwf HIg HI Haeq) as [_ A]. rewrite Hs in A. cbn [snd] in A.
    destruct (step (state_of (since_tab false [] tr)) e) as [[evs1 rep1] s1]. cbn [fst snd] in *.
    split; [apply R | rewrite Hm'; exact A].
  - cbn [ekind_of pending]. split; [apply Inv_init|].
    pose proof (release_all_inv is_action L (l_mapper st) Hwf HI) as R. cbn zeta in R. rewrite Hr in R.
    cbn [fst snd] in R. destruct R as [I' [_ [_ [Hi _]]]]. rewrite Hm'.
    apply (rest_aeq_init L s' Hwf I' Hi).
  - cbn [ekind_of pending]. split; assumption.
Qed.

Lemma all_inv_init : all_inv [] PRegister linit.
Proof.
  split; [split; reflexivity|]. split; [apply held_inv_init|]. split; [apply Inv_init | apply aeq_refl].
Qed.

Theorem all_at rs cs o k x :
  run rs = (cs, o) -> conf_at rs k = Some x ->
  all_inv (firstn k (combine cs rs)) (c_point x) (c_state x).
Proof.
  intros Hrun Hx. rewrite (run_transcript is_action L rs cs o Hrun).
  exact (confs_ind_tr is_action L all_inv all_inv_step rs PRegister linit [] all_inv_init k x Hx).
Qed.

(* ---------- C12 ---------- *)

(* after a tablet event (On or Off) everything acknowledged so far followed by
   the release-all batch is a well-formed trace that leaves NOTHING held *)
Theorem tablet_event_releases_all rs cs o k x rest on :
  run rs = (cs, o) -> conf_at rs k = Some x ->
  c_point x = PTab rest -> c_resp x = RTab (NOne on) ->
  let sent := acked (firstn k (combine cs rs)) ++ fst (release_all (l_mapper (c_state x))) in
  apply_evs [] sent = [] /\ redundant [] sent = false.
Proof.
  intros Hrun Hx Hp Hr. destruct (all_at rs cs o k x Hrun Hx) as [_ [[HI [HT _]] _]].
  rewrite Hp in HT. cbn [pending_send pending] in HT. rewrite app_nil_r in HT.
  pose proof (release_all_inv is_action L _ Hwf HI) as R. cbn zeta in R. destruct R as [_ [T' _]].
  destruct (tr_ok_app _ _ _ _ _ HT T') as [R1 R2]. cbn zeta. split; [|exact R1].
  apply seteq_nil_l. exact R2.
Qed.

(* while the switch is on (before the entry), the call after the entry is never a send *)
Theorem silent_in_tablet_mode rs cs o k evs :
  run rs = (cs, o) -> nth_error cs (S k) = Some (CSend evs) ->
  tab_after false (firstn k (combine cs rs)) = false.
Proof.
  intros Hrun Hc. destruct (every_send_explained rs cs o k evs Hrun Hc) as [x [Hx [Hne Hwhy]]].
  destruct (all_at rs cs o k x Hrun Hx) as [[_ Htab] [[_ [_ Hinp]] _]]. rewrite <- Htab.
  destruct Hwhy as [rest e _ _ Htf _ | to ks nw iv _ _ Htf _ _ | rest on _ _ Hevs]; try exact Htf.
  destruct (l_tablet (c_state x)) eqn:Eon; [exfalso | reflexivity].
  rewrite (release_all_nil is_action L _ (Hinp eq_refl)) in Hevs. cbn [fst] in Hevs. contradiction.
Qed.

(* the mapper of the loop answers every future input sequence like a mapper
   started fresh at the last tablet event that has seen the key events read
   since (outside tablet mode) *)
Theorem fresh_since_tablet_event rs cs o k x :
  run rs = (cs, o) -> conf_at rs k = Some x ->
  forall h, mresp is_action L (l_mapper (c_state x)) h
            = mresp is_action L (state_of (since_tab false [] (firstn k (combine cs rs)))) h.
Proof.
  intros Hrun Hx h. destruct (all_at rs cs o k x Hrun Hx) as [_ [[HI _] [HIg Haeq]]].
  apply mresp_aeq; assumption.
Qed.

Lemma step_of_mresp s e : fst (step s e) = (fst (fst (step s e)), snd (fst (step s e))).
Proof. destruct (step s e) as [[a b] c]. reflexivity. Qed.

Theorem step_output_since_tablet_event rs cs o k x e :
  run rs = (cs, o) -> conf_at rs k = Some x ->
  fst (step (l_mapper (c_state x)) e)
  = fst (step (state_of (since_tab false [] (firstn k (combine cs rs)))) e).
Proof.
  intros Hrun Hx. destruct (all_at rs cs o k x Hrun Hx) as [_ [[HI _] [HIg Haeq]]].
  destruct (step_aeq is_action L _ _ e Hwf HIg HI Haeq) as [H _]. exact H.
Qed.

(* a release of a key that was not pressed since the last tablet event is ignored *)
Lemma phys_all_pressed : forall h p k,
  In k (phys_all p h) -> In k p \/ In (IEv (Pressed k)) h.
Proof.
  induction h as [|i h IH]; intros p k Hk; [left; exact Hk|].
  unfold phys_all in *. cbn [fold_left] in Hk. destruct (IH _ _ Hk) as [H|H]; [|right; right; exact H].
  destruct i as [[x|x]|]; cbn [phys_after] in H.
  - apply In_apply_ev_press in H. destruct H as [H|H]; [left; exact H | right; left; subst; reflexivity].
  - apply In_apply_ev_release in H. left. apply H.
  - contradiction.
Qed.

Theorem stale_release_ignored h key :
  ~ In (IEv (Pressed key)) h ->
  step (state_of h) (Released key) = ([], RRNoChange, state_of h).
Proof.
  intros Hno. apply step_ignored. apply mem_false. intros Hin.
  destruct (run_facts is_action L h Hwf) as [_ [_ Hincl]]. apply Hincl in Hin.
  unfold phys_of in Hin. destruct (phys_all_pressed h [] key Hin) as [[]|H]. exact (Hno H).
Qed.

End S.
