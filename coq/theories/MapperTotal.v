(* MapperTotal.v — C14, mapper half: the index loops of key_transforms.rs stay
   in range.  The model's only partial operation is `active_mappings[i]` in the
   two "i from len-1 down to 0, remove_mapping(i) if the trigger contains k"
   loops (release_absorbed_keys, newly_release); release_loop models the
   out-of-range case by its `None` branch.  release_loop_oob answers whether
   that branch is ever reached. *)
From TM Require Import Base ListFacts Mapper.
From Coq Require Import Lia.

Fixpoint release_loop_oob (n : nat) (k : key) (s : state) : bool :=
  match n with
  | O => false
  | S i =>
    match nth_error (act s) i with
    | None => true
    | Some m =>
      if fails_when_released (m_from m) k
      then release_loop_oob i k (snd (remove_mapping s i k))
      else release_loop_oob i k s
    end
  end.

Lemma remove_nth_length {A} i (l : list A) : (i < length l)%nat -> length (remove_nth i l) = (length l - 1)%nat.
Proof.
  revert i. induction l as [|x t IH]; intros i H; cbn [length] in *; [lia|].
  destruct i as [|j]; cbn [remove_nth length]; [lia|]. rewrite IH by lia. lia.
Qed.

Lemma release_loop_in_range k : forall n s, (n <= length (act s))%nat -> release_loop_oob n k s = false.
Proof.
  induction n as [|i IH]; intros s H; cbn [release_loop_oob]; [reflexivity|].
  destruct (nth_error (act s) i) as [m|] eqn:E.
  - destruct (fails_when_released (m_from m) k).
    + apply IH. unfold remove_mapping. cbn [snd act set_act]. rewrite remove_nth_length by lia. lia.
    + apply IH. lia.
  - apply nth_error_None in E. lia.
Qed.

(* every call site starts the loop at the current length *)
Lemma release_loop_calls_in_range k s : release_loop_oob (length (act s)) k s = false.
Proof. apply release_loop_in_range. apply le_n. Qed.

(* the constructor's panic conditions are exactly the negation of for_layout_ok:
   an empty trigger (final_key indexes trigger[len-1]) or a repeated key inside
   one trigger / one output *)
Lemma for_layout_ok_spec L :
  for_layout_ok L = true <->
  forall m, In m L -> m_from m <> [] /\ NoDup (m_from m) /\ NoDup (m_to m).
Proof.
  unfold for_layout_ok. rewrite forallb_forall. split; intros H m Hm; specialize (H m Hm).
  - unfold mapping_ok in H. apply andb_true_iff in H. destruct H as [H H3]. apply andb_true_iff in H. destruct H as [H1 H2].
    split; [destruct (m_from m); [discriminate | discriminate]|]. split; apply nodupb_NoDup; assumption.
  - destruct H as [H1 [H2 H3]]. unfold mapping_ok. rewrite !andb_true_iff. split; [split|].
    + destruct (m_from m); [contradiction | reflexivity].
    + apply nodupb_NoDup; exact H2.
    + apply nodupb_NoDup; exact H3.
Qed.
