(* Listing.v — executable model of keyboard selection (property C16).
   Definitions only; lemmas are in ListingLemmas.v.

   Rust sources modelled (the tree as it is NOW):
     src/keyboard_listing.rs   parse_mask_hex, extract_keyboards_from_proc_bus_input_devices,
                               extract_input_devices_from_proc_bus_input_devices,
                               list_keyboards, list_input_devices
     src/remapping_loop.rs     flag_excluded, flag_excluded_input_devices,
                               do_remapping_loop_all_devices (its selection),
                               filter_devices_verbose

   TEXT REPRESENTATION.  A Rust &str / String is modelled as the list of its
   UTF-8 BYTES (`bytes = list N`, every element < 256), not of its scalars,
   because the code slices by byte offsets (`line[9..]`, `name[..name.len()-1]`).
   Every pattern the code compares with is ASCII, and UTF-8 is
   self-synchronising, so on the bytes of a valid UTF-8 string
     split('\n'), rsplit(' '), starts_with("..."), ends_with(QUOTE),
     contains("Mouse"), == "cros_ec", the per-char hex-digit count
   are exactly the byte-level operations below.  The two places where Unicode
   matters are modelled with their documented exceptions:
     * trim_end() removes trailing White_Space scalars: U+0009..000D, U+0020,
       U+0085, U+00A0, U+1680, U+2000..200A, U+2028, U+2029, U+202F, U+205F,
       U+3000 — `trim_rev` strips their UTF-8 encodings from the end;
     * to_lowercase().contains("keyboard"): the only scalars whose lower case
       contains one of the letters k,e,y,b,o,a,r,d are the ASCII letters
       themselves and U+212A KELVIN SIGN (-> 'k'); `lower_fold` folds ASCII
       A-Z and rewrites the bytes E2 84 AA to 'k', every other byte is kept
       (a non-ASCII byte can never take part in a match of an ASCII pattern).
   Both tables are validated against the real `char::is_whitespace` /
   `char::to_lowercase` by the listing engine (exhaustive scan of all scalars
   in the harness, and a per-scalar correspondence sweep).

   PARTIAL OPERATIONS are explicit: `res A = Ok a | Panic site`.
     * `&line[n..]` and `&name[..len-1]`: start beyond the end or not on a
       char boundary (byte 0x80..0xBF at the cut) panics (`slice_from`,
       `slice_drop_last`); `name.len()-1` underflows on the empty string;
     * i32 arithmetic of parse_mask_hex (`token_index * 64`, `token_index += 1`)
       and of `num_keys +=` panics on overflow in a build with overflow checks
       (the harness build; needs a line of >= 2^25 tokens resp. >= 2^29 hex
       digits).  The release build wraps instead: NOT modelled — a single line
       of 64 MiB is outside this model's domain (the kernel prints at most
       12 tokens).
   `read_to_string` and the /sys walk can fail with an io::Error that the code
   propagates with `?`: outcome `OIoErr` of the selection layer. *)
From Coq Require Import List NArith Bool String Ascii.
From TMGen Require Import KeyTable.
Import ListNotations.
Open Scope N_scope.

Definition bytes := list N.

Inductive res (A : Type) : Type :=
| Ok (a : A)
| Panic (site : string).
Arguments Ok {A} a.
Arguments Panic {A} site.

Definition bind {A B} (r : res A) (f : A -> res B) : res B :=
  match r with
  | Ok a => f a
  | Panic s => Panic s
  end.

(* ---------------------------------------------------------------- strings *)

Fixpoint bytes_of_string (s : string) : bytes :=
  match s with
  | EmptyString => []
  | String c r => N_of_ascii c :: bytes_of_string r
  end.

Fixpoint beq_bytes (a b : bytes) : bool :=
  match a, b with
  | [], [] => true
  | x :: a', y :: b' => N.eqb x y && beq_bytes a' b'
  | _, _ => false
  end.

(* str::starts_with(&str) *)
Fixpoint starts_with (p l : bytes) : bool :=
  match p, l with
  | [], _ => true
  | a :: p', b :: l' => N.eqb a b && starts_with p' l'
  | _ :: _, [] => false
  end.

(* str::contains(&str) *)
Fixpoint contains (p l : bytes) : bool :=
  starts_with p l ||
  match l with
  | [] => false
  | _ :: r => contains p r
  end.

(* str::split(c) for an ASCII separator: "" gives [""], "a\n" gives ["a"; ""] *)
Fixpoint split_on (sep : N) (l : bytes) : list bytes :=
  match l with
  | [] => [[]]
  | c :: r =>
    if N.eqb c sep then [] :: split_on sep r
    else match split_on sep r with
         | cur :: rest => (c :: cur) :: rest
         | [] => [[c]]
         end
  end.

Definition split_lines (t : bytes) : list bytes := split_on 10 t.

(* inverse of split_lines on lists of newline-free lines *)
Fixpoint join_lines (ls : list bytes) : bytes :=
  match ls with
  | [] => []
  | [l] => l
  | l :: r => l ++ 10 :: join_lines r
  end.

(* str::rsplit(' ') *)
Definition rsplit_space (l : bytes) : list bytes := rev (split_on 32 l).

(* UTF-8 continuation byte: index i is a char boundary iff i = 0, i = len, or
   the byte at i is not one of these *)
Definition is_cont (b : N) : bool := (128 <=? b) && (b <? 192).

(* &s[n..] *)
Definition slice_from (n : nat) (l : bytes) : res bytes :=
  if Nat.ltb (List.length l) n then Panic "str slice: start index beyond the end"
  else match nth_error l n with
       | Some b =>
         if is_cont b && negb (Nat.eqb n 0) then Panic "str slice: start index is not a char boundary"
         else Ok (skipn n l)
       | None => Ok (skipn n l)
       end.

(* &s[..s.len()-1] *)
Definition slice_drop_last (l : bytes) : res bytes :=
  match List.length l with
  | O => Panic "usize underflow: len() - 1"
  | S k =>
    match nth_error l k with
    | Some b =>
      if is_cont b && negb (Nat.eqb k 0) then Panic "str slice: end index is not a char boundary"
      else Ok (firstn k l)
    | None => Ok (firstn k l)
    end
  end.

(* ---- trim_end: White_Space encodings, matched on the REVERSED string *)
Definition ws1 (c : N) : bool := ((9 <=? c) && (c <=? 13)) || (c =? 32).
(* d c = C2 85 (U+0085) | C2 A0 (U+00A0) *)
Definition ws2 (d c : N) : bool := (d =? 194) && ((c =? 133) || (c =? 160)).
(* e d c = E1 9A 80 (U+1680) | E2 80 80..8A (U+2000..200A) | E2 80 A8/A9 (U+2028/9)
         | E2 80 AF (U+202F) | E2 81 9F (U+205F) | E3 80 80 (U+3000) *)
Definition ws3 (e d c : N) : bool :=
  ((e =? 225) && (d =? 154) && (c =? 128))
  || ((e =? 226) && (d =? 128) && (((128 <=? c) && (c <=? 138)) || (c =? 168) || (c =? 169) || (c =? 175)))
  || ((e =? 226) && (d =? 129) && (c =? 159))
  || ((e =? 227) && (d =? 128) && (c =? 128)).

Fixpoint trim_rev (r : bytes) : bytes :=
  match r with
  | [] => []
  | c :: r1 =>
    if ws1 c then trim_rev r1
    else match r1 with
         | [] => r
         | d :: r2 =>
           if ws2 d c then trim_rev r2
           else match r2 with
                | [] => r
                | e :: r3 => if ws3 e d c then trim_rev r3 else r
                end
         end
  end.

Definition trim_end (l : bytes) : bytes := rev (trim_rev (rev l)).

(* s.ends_with(QUOTE) *)
Definition ends_with_quote (l : bytes) : bool :=
  match rev l with
  | c :: _ => c =? 34
  | [] => false
  end.

(* ---- to_lowercase as far as contains("keyboard") can see it *)
Definition lc (c : N) : N := if (65 <=? c) && (c <=? 90) then c + 32 else c.

Fixpoint lower_fold (l : bytes) : bytes :=
  match l with
  | [] => []
  | c :: r =>
    match r with
    | d :: e :: r3 =>
      if (c =? 226) && (d =? 132) && (e =? 170) then 107 :: lower_fold r3   (* U+212A -> 'k' *)
      else lc c :: lower_fold r
    | _ => lc c :: lower_fold r
    end
  end.

(* ---------------------------------------------------------------- masks *)

(* the `match c { '0' => 0, '1' => 1, ... 'f' => 4, _ => 0 }` of the KEY line:
   lower-case digits only *)
Definition key_digit_bits (c : N) : N :=
  if c =? 48 then 0 else if c =? 49 then 1 else if c =? 50 then 1 else if c =? 51 then 2
  else if c =? 52 then 1 else if c =? 53 then 2 else if c =? 54 then 2 else if c =? 55 then 3
  else if c =? 56 then 1 else if c =? 57 then 2 else if c =? 97 then 2 else if c =? 98 then 3
  else if c =? 99 then 2 else if c =? 100 then 3 else if c =? 101 then 3 else if c =? 102 then 4
  else 0.

(* char::to_digit(16) on a byte *)
Definition hex_digit (c : N) : option N :=
  if (48 <=? c) && (c <=? 57) then Some (c - 48)
  else if (97 <=? c) && (c <=? 102) then Some (c - 87)
  else if (65 <=? c) && (c <=? 70) then Some (c - 55)
  else None.

Fixpoint hex_digits (acc : N) (l : bytes) : option N :=
  match l with
  | [] => Some acc
  | c :: r =>
    match hex_digit c with
    | None => None
    | Some d => hex_digits (acc * 16 + d) r
    end
  end.

Definition u64_max : N := 18446744073709551615.

(* u64::from_str_radix(token, 16): "" is an error; one optional leading '+';
   "+" alone is an error; '-' is an invalid digit for an unsigned type; both
   cases of a-f accepted; a value above u64::MAX is an error (the accumulator
   only grows, so testing the final value is the same as testing every step) *)
Definition parse_u64_hex (tok : bytes) : option N :=
  match tok with
  | [] => None
  | c :: r =>
    let digits := if c =? 43 then r else tok in
    match digits with
    | [] => None
    | _ =>
      match hex_digits 0 digits with
      | Some v => if v <=? u64_max then Some v else None
      | None => None
      end
    end
  end.

Definition i32_max : N := 2147483647.

(* the loop of parse_mask_hex over the tokens in rsplit order.
   Ok None = Err(ParseIntError); Ok (Some vs) = the parsed words, least
   significant first (word k carries codes 64k .. 64k+62: `0u8..63u8`) *)
Fixpoint mask_tokens (idx : N) (toks : list bytes) : res (option (list N)) :=
  match toks with
  | [] => Ok (Some [])
  | t :: r =>
    match parse_u64_hex t with
    | None => Ok None
    | Some v =>
      if negb (N.land v 9223372036854775807 =? 0) && (33554432 <=? idx)
      then Panic "i32 overflow: token_index * 64"
      else if idx =? i32_max then Panic "i32 overflow: token_index += 1"
      else match mask_tokens (idx + 1) r with
           | Panic s => Panic s
           | Ok None => Ok None
           | Ok (Some vs) => Ok (Some (v :: vs))
           end
    end
  end.

Definition parse_mask_hex (hex : bytes) : res (option (list N)) :=
  mask_tokens 0 (rsplit_space hex).

(* parse_mask_hex(..).unwrap_or(HashSet::new()).contains(&code) *)
Definition mask_has (m : option (list N)) (code : N) : bool :=
  match m with
  | None => false
  | Some vs =>
    match nth_error vs (N.to_nat (code / 64)) with
    | Some v => N.testbit v (code mod 64) && (code mod 64 <? 63)
    | None => false
    end
  end.

(* ---------------------------------------------------------------- heuristic *)

(* `KeyCode::X as i32`, from the enum of the working tree (gen/KeyTable.v) *)
Definition kc (ident : string) : N :=
  match find (fun e => String.eqb (fst (fst e)) ident) key_table with
  | Some e => snd (fst e)
  | None => 0
  end.

Definition b2n (b : bool) : N := if b then 1 else 0.

Definition s_Mouse := bytes_of_string "Mouse".
Definition s_keyboard := bytes_of_string "keyboard".
Definition s_cros_ec := bytes_of_string "cros_ec".

(* the body of the `B: KEY=` branch up to the boolean; `name` is the working
   name or "", `ev` the working EV mask text, `k` the text after "B: KEY=" *)
Definition keyboard_like (name : bytes) (ev : option bytes) (k : bytes) : res bool :=
  let num_keys := fold_left (fun a c => a + key_digit_bits c) k 0 in
  if i32_max <? num_keys then Panic "i32 overflow: num_keys +="
  else
  bind (parse_mask_hex k) (fun key_set =>
  bind (match ev with
        | None => Ok None
        | Some m => parse_mask_hex m
        end) (fun ev_set =>
  let has c := mask_has key_set c in
  let num_normal_keys :=
      b2n (has (kc "A")) + b2n (has (kc "B")) + b2n (has (kc "C")) + b2n (has (kc "SPACE"))
    + b2n (has (kc "LEFTSHIFT")) + b2n (has (kc "RIGHTSHIFT")) + b2n (has (kc "BACKSPACE"))
    + b2n (has (kc "ENTER")) + b2n (has (kc "ESC")) + b2n (has (kc "PAUSE")) in
  let has_scroll_down := has (kc "SCROLLDOWN") in
  let lacks_leds := negb (mask_has ev_set 17) in
  let has_mouse_in_name := contains s_Mouse name in
  let is_cros_ec := beq_bytes name s_cros_ec in
  let mousey := 2 <=? b2n has_scroll_down + b2n lacks_leds + b2n has_mouse_in_name in
  let has_keyboard_in_name := contains s_keyboard (lower_fold name) in
  Ok ((20 <=? num_keys) && (3 <=? num_normal_keys) && (has_keyboard_in_name || negb mousey) && negb is_cros_ec))).

(* ---------------------------------------------------------------- extractors *)

Record working := mkW { w_sysfs : option bytes; w_name : option bytes; w_ev : option bytes }.
Definition w_init : working := mkW None None None.

Definition kdev := (bytes * bytes)%type.           (* ExtractedProcBusKeyboard: sysfs_path, name *)
Definition idev := (bytes * bytes * bool)%type.    (* ExtractedProcBusInputDevice: sysfs_path, name, is_keyboard *)

Definition p_I := bytes_of_string "I:".
Definition p_S := bytes_of_string "S: Sysfs=".
Definition p_N := bytes_of_string "N: Name=""".
Definition p_EV := bytes_of_string "B: EV=".
Definition p_KEY := bytes_of_string "B: KEY=".

(* the N: Name= branch: line[9..], trim_end, strip one trailing double quote *)
Definition parse_name (line : bytes) : res bytes :=
  bind (slice_from 9 line) (fun n0 =>
  let n1 := trim_end n0 in
  if ends_with_quote n1 then slice_drop_last n1 else Ok n1).

Definition working_name (w : working) : bytes :=
  match w_name w with
  | None => []
  | Some n => n
  end.

Section Extractors.
  (* classification at the B: KEY= line; the concrete one is keyboard_like *)
  Variable classify : bytes -> option bytes -> bytes -> res bool.

  (* one iteration of the `for line in lines` loop of
     extract_keyboards_from_proc_bus_input_devices: new working fields, pushed devices *)
  Definition kbd_line (w : working) (line : bytes) : res (working * list kdev) :=
    if starts_with p_I line then Ok (w_init, [])
    else if starts_with p_S line then
      bind (slice_from 9 line) (fun p => Ok (mkW (Some p) (w_name w) (w_ev w), []))
    else if starts_with p_N line then
      bind (parse_name line) (fun n => Ok (mkW (w_sysfs w) (Some n) (w_ev w), []))
    else if starts_with p_EV line then
      bind (slice_from 6 line) (fun m => Ok (mkW (w_sysfs w) (w_name w) (Some m), []))
    else if starts_with p_KEY line then
      bind (slice_from 7 line) (fun k =>
      let name := working_name w in
      bind (classify name (w_ev w) k) (fun is_keyboard =>
      Ok (w, if is_keyboard
             then match w_sysfs w with
                  | None => []
                  | Some p => [(p, name)]
                  end
             else [])))
    else Ok (w, []).

  (* the same for extract_input_devices_from_proc_bus_input_devices (a textual
     copy in the Rust; kept a separate definition here) *)
  Definition dev_line (w : working) (line : bytes) : res (working * list idev) :=
    if starts_with p_I line then Ok (w_init, [])
    else if starts_with p_S line then
      bind (slice_from 9 line) (fun p => Ok (mkW (Some p) (w_name w) (w_ev w), []))
    else if starts_with p_N line then
      bind (parse_name line) (fun n => Ok (mkW (w_sysfs w) (Some n) (w_ev w), []))
    else if starts_with p_EV line then
      bind (slice_from 6 line) (fun m => Ok (mkW (w_sysfs w) (w_name w) (Some m), []))
    else if starts_with p_KEY line then
      bind (slice_from 7 line) (fun k =>
      let name := working_name w in
      bind (classify name (w_ev w) k) (fun is_keyboard =>
      Ok (w, match w_sysfs w with
             | None => []
             | Some p => [(p, name, is_keyboard)]
             end)))
    else Ok (w, []).

  (* the loop: fold over the lines, a panic aborts *)
  Fixpoint run {D : Type} (step : working -> bytes -> res (working * list D))
           (w : working) (ls : list bytes) : res (working * list D) :=
    match ls with
    | [] => Ok (w, [])
    | l :: r =>
      match step w l with
      | Panic s => Panic s
      | Ok (w1, out1) =>
        match run step w1 r with
        | Panic s => Panic s
        | Ok (w2, out2) => Ok (w2, out1 ++ out2)
        end
      end
    end.

  Definition outputs {D : Type} (r : res (working * list D)) : res (list D) :=
    match r with
    | Ok (_, o) => Ok o
    | Panic s => Panic s
    end.

  Definition kbd_lines (ls : list bytes) : res (list kdev) := outputs (run kbd_line w_init ls).
  Definition dev_lines (ls : list bytes) : res (list idev) := outputs (run dev_line w_init ls).

  Definition extract_keyboards_with (t : bytes) : res (list kdev) := kbd_lines (split_lines t).
  Definition extract_input_devices_with (t : bytes) : res (list idev) := dev_lines (split_lines t).
End Extractors.

Definition extract_keyboards : bytes -> res (list kdev) := extract_keyboards_with keyboard_like.
Definition extract_input_devices : bytes -> res (list idev) := extract_input_devices_with keyboard_like.

(* ---------------------------------------------------------------- domain of panic-freedom *)

(* In well-formed UTF-8 a continuation byte follows a lead byte or another
   continuation byte, never an ASCII byte. *)
Fixpoint no_cont_after_ascii (l : bytes) : bool :=
  match l with
  | [] => true
  | a :: r =>
    match r with
    | [] => true
    | b :: _ => negb ((a <? 128) && is_cont b) && no_cont_after_ascii r
    end
  end.

(* 2^25 bytes = 32 MiB *)
Definition short (l : bytes) : bool := N.of_nat (List.length l) <? 33554432.

Definition line_ok (l : bytes) : bool := no_cont_after_ascii l && short l.

(* ---------------------------------------------------------------- entries (C16, DESIGN 9.3) *)

(* An entry is a block of lines from one "I:" line up to (not including) the
   next.  split_entries ls = (lines before the first "I:" line, the entries). *)
Fixpoint split_entries (ls : list bytes) : list bytes * list (list bytes) :=
  match ls with
  | [] => ([], [])
  | l :: r =>
    let '(pre, es) := split_entries r in
    if starts_with p_I l then ([], (l :: pre) :: es)
    else (l :: pre, es)
  end.

Definition is_I_line (l : bytes) : bool := starts_with p_I l.

(* first line is an "I:" line *)
Definition starts_entry (e : list bytes) : bool :=
  match e with
  | l :: _ => is_I_line l
  | [] => false
  end.

(* ... and no other line is: the entry of exactly one device *)
Definition is_entry (e : list bytes) : bool :=
  match e with
  | l :: r => is_I_line l && forallb (fun x => negb (is_I_line x)) r
  | [] => false
  end.

(* ---- checkers applied to the REAL extractors' outputs by ocaml/listing_check.ml *)

Definition beq_kdev (a b : kdev) : bool :=
  beq_bytes (fst a) (fst b) && beq_bytes (snd a) (snd b).
Definition beq_idev (a b : idev) : bool :=
  beq_bytes (fst (fst a)) (fst (fst b)) && beq_bytes (snd (fst a)) (snd (fst b)) && Bool.eqb (snd a) (snd b).

Fixpoint beq_list {A} (eq : A -> A -> bool) (a b : list A) : bool :=
  match a, b with
  | [], [] => true
  | x :: a', y :: b' => eq x y && beq_list eq a' b'
  | _, _ => false
  end.

Definition beq_res {A} (eq : A -> A -> bool) (a b : res A) : bool :=
  match a, b with
  | Ok x, Ok y => eq x y
  | Panic _, Panic _ => true
  | _, _ => false
  end.

(* result of the whole text = result of the preamble ++ results of the entries,
   each extracted ALONE; a panic anywhere is a panic of the whole *)
Fixpoint concat_res {D} (rs : list (res (list D))) : res (list D) :=
  match rs with
  | [] => Ok []
  | r :: t =>
    match r with
    | Panic s => Panic s
    | Ok a =>
      match concat_res t with
      | Panic s => Panic s
      | Ok b => Ok (a ++ b)
      end
    end
  end.

Definition local_ok {D} (eq : D -> D -> bool) (whole pre : res (list D)) (entries : list (res (list D))) : bool :=
  beq_res (beq_list eq) whole (concat_res (pre :: entries)).

Definition forget (d : idev) : kdev := fst d.
Definition is_kbd (d : idev) : bool := snd d.

Definition agree_ok (k : res (list kdev)) (d : res (list idev)) : bool :=
  beq_res (beq_list beq_kdev) k
          (match d with
           | Ok ds => Ok (map forget (filter is_kbd ds))
           | Panic s => Panic s
           end).

(* ---------------------------------------------------------------- selection *)

Inductive outcome (A : Type) : Type :=
| OOk (a : A)
| OIoErr            (* io::Error propagated by `?` (the code formats it into Err(String)) *)
| OPanic (site : string).
Arguments OOk {A} a.
Arguments OIoErr {A}.
Arguments OPanic {A} site.

Inductive io (A : Type) : Type :=
| IoOk (a : A)
| IoErr.
Arguments IoOk {A} a.
Arguments IoErr {A}.

Definition s_virtual := bytes_of_string "/devices/virtual/input/".
Definition is_virtual (sysfs : bytes) : bool := starts_with s_virtual sysfs.

Definition xkbd := (bytes * bytes)%type.           (* ExtractedKeyboard: dev_path, name *)
Definition xdev := (bytes * bytes * bool)%type.    (* ExtractedInputDevice: dev_path, name, is_keyboard *)

(* l.replace("//", "/"): non-overlapping matches, left to right *)
Fixpoint replace_dslash (l : bytes) : bytes :=
  match l with
  | [] => []
  | a :: t =>
    match t with
    | [] => [a]
    | b :: r => if (a =? 47) && (b =? 47) then 47 :: replace_dslash r else a :: replace_dslash t
    end
  end.

Section Selection.
  (* WildMatch::new(pattern).matches(name) *)
  Variable glob_match : bytes -> bytes -> bool.
  (* dev_path_for_sysfs_name: io error (e.g. /sys<path> missing) | no event* child
     with a DEVNAME | the /dev node *)
  Variable sys_devnode : bytes -> io (option bytes).
  (* std::fs::canonicalize(p) followed by to_str(): None = error or not UTF-8 *)
  Variable canon : bytes -> option bytes.

  (* the `for dev in extracted` loop of list_keyboards / list_input_devices:
     the first io error aborts *)
  Fixpoint resolve {A B} (sysfs_of : A -> bytes) (mk : A -> bytes -> B) (l : list A) : io (list B) :=
    match l with
    | [] => IoOk []
    | d :: r =>
      if negb (is_virtual (sysfs_of d)) then
        match sys_devnode (sysfs_of d) with
        | IoErr => IoErr
        | IoOk None => resolve sysfs_of mk r
        | IoOk (Some node) =>
          match resolve sysfs_of mk r with
          | IoErr => IoErr
          | IoOk t => IoOk (mk d node :: t)
          end
        end
      else resolve sysfs_of mk r
    end.

  Definition lift {A B} (r : res (list A)) (f : list A -> io (list B)) : outcome (list B) :=
    match r with
    | Panic s => OPanic s
    | Ok l => match f l with
              | IoErr => OIoErr
              | IoOk x => OOk x
              end
    end.

  (* list_keyboards(): `t` is the content of /proc/bus/input/devices *)
  Definition list_keyboards (t : bytes) : outcome (list xkbd) :=
    lift (extract_keyboards t) (resolve (fun d : kdev => fst d) (fun d node => (node, snd d))).

  Definition list_input_devices (t : bytes) : outcome (list xdev) :=
    lift (extract_input_devices t)
         (resolve (fun d : idev => fst (fst d)) (fun d node => (node, snd (fst d), snd d))).

  Definition excluded (excludes : list bytes) (name : bytes) : bool :=
    existsb (fun p => glob_match p name) excludes.

  Definition flag_excluded (devs : list xkbd) (excludes : list bytes) : list (xkbd * bool) :=
    map (fun d => (d, excluded excludes (snd d))) devs.

  Definition flag_excluded_input_devices (devs : list xdev) (excludes : list bytes) : list (xdev * bool) :=
    map (fun d => (d, excluded excludes (snd (fst d)))) devs.

  Definition omap {A B} (f : A -> B) (o : outcome A) : outcome B :=
    match o with
    | OOk a => OOk (f a)
    | OIoErr => OIoErr
    | OPanic s => OPanic s
    end.

  (* do_remapping_loop_all_devices: the device nodes handed to
     do_remapping_loop_these_devices *)
  Definition select_all_keyboards (t : bytes) (excludes : list bytes) : outcome (list bytes) :=
    omap (fun devs => map (fun e => fst (fst e)) (filter (fun e => negb (snd e)) (flag_excluded devs excludes)))
         (list_keyboards t).

  (* HashMap<String, PossiblyExcludedInputDevice> as the list of insertions;
     get = the LAST insertion with that key *)
  Definition cset := list (bytes * (xdev * bool)).

  Fixpoint cset_get (k : bytes) (s : cset) : option (xdev * bool) :=
    match s with
    | [] => None
    | (k1, v) :: r =>
      match cset_get k r with
      | Some v2 => Some v2
      | None => if beq_bytes k1 k then Some v else None
      end
    end.

  Definition build_cset (flagged : list (xdev * bool)) : cset :=
    flat_map (fun p => match canon (fst (fst (fst p))) with
                       | Some s => [(s, p)]
                       | None => []
                       end) flagged.

  (* the `for s in devices` loop of filter_devices_verbose *)
  Definition keep_dev (skip_non_keyboard : bool) (cs : cset) (s : bytes) : bool :=
    match canon s with
    | None => false
    | Some c =>
      match cset_get (replace_dslash c) cs with
      | None => false
      | Some (d, excl) =>
        if skip_non_keyboard && negb (snd d) then false
        else negb excl
      end
    end.

  (* filter_devices_verbose(devices, skip_non_keyboard, excludes, _) *)
  Definition filter_devices (t : bytes) (devices : list bytes) (skip_non_keyboard : bool)
             (excludes : list bytes) : outcome (list bytes) :=
    omap (fun all => let cs := build_cset (flag_excluded_input_devices all excludes) in
                     filter (keep_dev skip_non_keyboard cs) devices)
         (list_input_devices t).

  (* ---- specification side of C16_selection *)

  (* entry d of the device list is a real, non-excluded keyboard with node n *)
  Definition selectable (excludes : list bytes) (d : idev) (n : bytes) : Prop :=
    is_kbd d = true /\ is_virtual (fst (fst d)) = false /\ sys_devnode (fst (fst d)) = IoOk (Some n)
    /\ excluded excludes (snd (fst d)) = false.

  Definition selectable_node (excludes : list bytes) (d : idev) : list bytes :=
    if is_kbd d && negb (is_virtual (fst (fst d))) && negb (excluded excludes (snd (fst d))) then
      match sys_devnode (fst (fst d)) with
      | IoOk (Some n) => [n]
      | _ => []
      end
    else [].

  (* the lookups the two listings perform succeed (no io error) *)
  Definition lookups_ok (only_keyboards : bool) (ds : list idev) : Prop :=
    forall d, In d ds -> (only_keyboards = true -> is_kbd d = true) -> is_virtual (fst (fst d)) = false ->
              sys_devnode (fst (fst d)) <> IoErr.

  (* the non-virtual entries that have a device node, with their node *)
  Definition listed (ds : list idev) : list (bytes * idev) :=
    flat_map (fun d => if is_virtual (fst (fst d)) then []
                       else match sys_devnode (fst (fst d)) with
                            | IoOk (Some n) => [(n, d)]
                            | _ => []
                            end) ds.

  (* guards of the --dev-file path: canonical paths contain no "//" (the lookup
     key is rewritten with replace("//","/"), the stored key is not), and two
     listed entries never share a canonical node path (the HashMap keeps only
     the last one): canon_distinct_b below *)
  Definition canon_clean : Prop := forall p c, canon p = Some c -> replace_dslash c = c.

  (* what --all-keyboards must select, from the device list alone *)
  Definition spec_all (excludes : list bytes) (ds : list idev) : list bytes :=
    flat_map (selectable_node excludes) ds.

  Definition same_canon (c : bytes) (n : bytes) : bool :=
    match canon n with
    | Some c2 => beq_bytes c2 c
    | None => false
    end.

  (* what --dev-file d.. --only-if-keyboard must select: the given paths whose
     canonical path is that of a listed, keyboard-like, non-excluded device *)
  Definition spec_dev_file (excludes : list bytes) (ds : list idev) (devices : list bytes) : list bytes :=
    filter (fun s => match canon s with
                     | None => false
                     | Some c =>
                       existsb (fun nd => same_canon c (fst nd) && is_kbd (snd nd)
                                          && negb (excluded excludes (snd (fst (snd nd)))))
                               (listed ds)
                     end) devices.

  (* computable forms of the guards, for the checkers *)
  Definition canon_keys (ds : list idev) : list bytes :=
    flat_map (fun nd => match canon (fst nd) with
                        | Some c => [c]
                        | None => []
                        end) (listed ds).

  Fixpoint nodup_bytes (l : list bytes) : bool :=
    match l with
    | [] => true
    | x :: r => negb (existsb (beq_bytes x) r) && nodup_bytes r
    end.

  Definition canon_distinct_b (ds : list idev) : bool := nodup_bytes (canon_keys ds).

  Definition lookups_ok_b (only_keyboards : bool) (ds : list idev) : bool :=
    forallb (fun d => (only_keyboards && negb (is_kbd d)) || is_virtual (fst (fst d))
                      || match sys_devnode (fst (fst d)) with
                         | IoErr => false
                         | IoOk _ => true
                         end) ds.

  Definition canon_clean_b (paths : list bytes) : bool :=
    forallb (fun p => match canon p with
                      | Some c => beq_bytes (replace_dslash c) c
                      | None => true
                      end) paths.
End Selection.

(* ---- checkers for the selection layer, applied to the REAL listings obtained
   in a private mount namespace (oracles = the fabricated /sys and /dev trees) *)

Definition beq_flag (a b : bytes * bool) : bool := beq_bytes (fst a) (fst b) && Bool.eqb (snd a) (snd b).

(* the two exclusion functions must flag the same names the same way *)
Definition exclude_agree_ok (a b : res (list (bytes * bool))) : bool := beq_res (beq_list beq_flag) a b.

(* no returned node belongs to a virtual sysfs path; `truth` maps node -> sysfs *)
Definition no_virtual_listed (truth : list (bytes * bytes)) (nodes : list bytes) : bool :=
  forallb (fun n => forallb (fun p => negb (beq_bytes (fst p) n && is_virtual (snd p))) truth) nodes.
