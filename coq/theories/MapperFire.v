(* MapperFire.v — what a press does in terms of the mapping it fires (C07, C03). *)
From TM Require Import Base ListFacts Mapper Monitors Trace TraceLemmas MapperInv.

Section S.
Variable is_action : key -> bool.

Definition pre_press (s : state) (k : key) : state :=
  set_rtrig (set_absd s (remove_all k (absd s))) None.

Lemma fired_spec L s k :
  mem k (inp s) = false ->
  fired L s k =
  find (fun m => is_supported (m_from m) (inp (pre_press s k))
                   (if should_absorb (pre_press s k) k then absd (pre_press s k) else []) k)
       (rev (group_of L k)).
Proof. intros H. unfold fired. rewrite H. reflexivity. Qed.

Lemma newly_press_fired_some L s k m :
  mem k (inp s) = false -> fired L s k = Some m ->
  newly_press is_action L s k =
  (fst (fst (add_new_mapping is_action (pre_press s k) k m)),
   snd (fst (add_new_mapping is_action (pre_press s k) k m)),
   set_inp (snd (add_new_mapping is_action (pre_press s k) k m))
           (inp (snd (add_new_mapping is_action (pre_press s k) k m)) ++ [k])).
Proof.
  intros Hk Hf. rewrite (fired_spec L s k Hk) in Hf. unfold newly_press. cbn zeta.
  fold (pre_press s k). rewrite Hf.
  destruct (add_new_mapping is_action (pre_press s k) k m) as [[evs rep] s2]. reflexivity.
Qed.

Lemma fired_some_facts L s k m :
  mem k (inp s) = false -> fired L s k = Some m ->
  In m L /\ has_final k m = true
  /\ (forall f, In f (m_from m) ->
        f = k \/ (In f (inp (pre_press s k))
                  /\ (is_action_mapping is_action m = true -> should_absorb (pre_press s k) k = true ->
                      ~ In f (absd (pre_press s k))))).
Proof.
  intros Hk Hf. rewrite (fired_spec L s k Hk) in Hf.
  apply find_some in Hf. destruct Hf as [Hm Hsup]. apply in_rev in Hm. apply group_of_In in Hm.
  destruct Hm as [HmL Hfin]. split; [exact HmL|]. split; [exact Hfin|].
  intros f Hf. unfold is_supported in Hsup. rewrite forallb_forall in Hsup. specialize (Hsup f Hf).
  apply orb_true_iff in Hsup. destruct Hsup as [Hs|Hs]; [|left; apply N.eqb_eq; exact Hs].
  apply andb_true_iff in Hs. destruct Hs as [Hs1 Hs2]. right. split; [apply mem_In; exact Hs1|].
  intros _ Hsa. rewrite Hsa in Hs2. apply negb_true_iff, mem_false in Hs2. exact Hs2.
Qed.

Lemma Inv_pre_press L s k : Inv L s -> Inv L (pre_press s k).
Proof. intros I. constructor; unfold pre_press; sf; apply I. Qed.

(* facts about the step that fires m *)
Lemma fire_facts L s k m :
  wf_layout L -> Inv L s -> mem k (inp s) = false -> fired L s k = Some m ->
  let r := step is_action L s (Pressed k) in
  (forall t, In t (m_to m) -> is_action t = true -> In (Pressed t) (fst (fst r)))
  /\ (forall t, In t (m_to m) -> is_action t = false -> In t (held_of (snd r)))
  /\ (m_repeat m = RNormal -> forall t, In t (m_to m) -> In t (held_of (snd r)))
  /\ (m_repeat m <> RNormal -> forall x, In x (held_of (snd r)) -> is_action x = false)
  /\ (exists A, act (snd r) = A ++ [m] /\ forall m', In m' A -> In m' (act s)).
Proof.
  intros Hwf I Hk Hf. cbn [step]. rewrite Hk.
  rewrite (newly_press_fired_some L s k m Hk Hf).
  destruct (fired_some_facts L s k m Hk Hf) as [HmL [Hfin Hsup]].
  assert (Hk' : ~ In k (inp (pre_press s k))) by (apply mem_false; exact Hk).
  pose proof (add_new_mapping_inv is_action L (pre_press s k) k m (Inv_pre_press L s k I) HmL (Hwf m HmL) Hk' Hsup) as R.
  cbn zeta in R.
  destruct (add_new_mapping is_action (pre_press s k) k m) as [[evs rep] s2]. cbn [fst snd] in *.
  destruct R as [_ [_ [_ [H1 [H2 [H3 [H4 [H5 _]]]]]]]].
  unfold held_of in *. sf.
  split; [exact H1|]. split; [intros t Ht Ha; apply in_or_app; right; apply H2; assumption|].
  split; [intros Hn t Ht; apply in_or_app; right; apply H3; assumption|].
  split; [exact H4 | exact H5].
Qed.

End S.
