(* TraceLemmas.v — well-formed output traces over held sets represented as lists *)
From TM Require Import Base ListFacts Mapper Monitors Trace.

Lemma seteq_refl a : seteq a a.
Proof. intros k. tauto. Qed.

Lemma seteq_sym a b : seteq a b -> seteq b a.
Proof. intros H k. symmetry. apply H. Qed.

Lemma seteq_trans a b c : seteq a b -> seteq b c -> seteq a c.
Proof. intros H1 H2 k. rewrite (H1 k). apply H2. Qed.

Lemma mem_seteq a b k : seteq a b -> mem k a = mem k b.
Proof.
  intros H. destruct (mem k b) eqn:E.
  - apply mem_In. apply H. apply mem_In. exact E.
  - apply mem_false. intro Hin. apply mem_false in E. apply E. apply H. exact Hin.
Qed.

Lemma In_apply_ev_press h x k : In k (apply_ev h (Pressed x)) <-> In k h \/ k = x.
Proof.
  cbn [apply_ev]. destruct (mem x h) eqn:E.
  - apply mem_In in E. split; [tauto|]. intros [H|H]; subst; assumption.
  - rewrite in_app_iff. cbn. split.
    + intros [H|[H|[]]]; [left; exact H | right; symmetry; exact H].
    + intros [H|H]; [left; exact H | right; left; symmetry; exact H].
Qed.

Lemma In_apply_ev_release h x k : In k (apply_ev h (Released x)) <-> In k h /\ k <> x.
Proof. cbn [apply_ev]. apply In_remove_all. Qed.

Lemma apply_ev_seteq a b e : seteq a b -> seteq (apply_ev a e) (apply_ev b e).
Proof.
  intros H k. destruct e as [x|x].
  - rewrite !In_apply_ev_press. rewrite (H k). tauto.
  - rewrite !In_apply_ev_release. rewrite (H k). tauto.
Qed.

Lemma apply_evs_seteq evs : forall a b, seteq a b -> seteq (apply_evs a evs) (apply_evs b evs).
Proof.
  unfold apply_evs. induction evs as [|e t IH]; intros a b H; cbn [fold_left]; [exact H|].
  apply IH. apply apply_ev_seteq. exact H.
Qed.

Lemma apply_evs_app h e1 e2 : apply_evs h (e1 ++ e2) = apply_evs (apply_evs h e1) e2.
Proof. unfold apply_evs. apply fold_left_app. Qed.

Definition bad_ev (h : list key) (e : event) : bool :=
  match e with Pressed k => mem k h | Released k => negb (mem k h) end.

Lemma redundant_cons h e t : redundant h (e :: t) = bad_ev h e || redundant (apply_ev h e) t.
Proof.
  destruct e as [k|k]; cbn [redundant bad_ev apply_ev].
  - destruct (mem k h); reflexivity.
  - reflexivity.
Qed.

Lemma redundant_seteq evs : forall a b, seteq a b -> redundant a evs = redundant b evs.
Proof.
  induction evs as [|e t IH]; intros a b H; [reflexivity|].
  rewrite !redundant_cons. f_equal.
  - destruct e as [k|k]; cbn [bad_ev]; rewrite (mem_seteq a b k H); reflexivity.
  - apply IH. apply apply_ev_seteq. exact H.
Qed.

Lemma redundant_app e1 : forall h e2,
  redundant h (e1 ++ e2) = redundant h e1 || redundant (apply_evs h e1) e2.
Proof.
  induction e1 as [|e t IH]; intros h e2; [reflexivity|].
  cbn [app]. rewrite !redundant_cons. rewrite IH. rewrite orb_assoc. reflexivity.
Qed.

(* ---------- tr_ok combinators ---------- *)

Lemma tr_ok_nil h h' : seteq h h' -> tr_ok h [] h'.
Proof. intros H. split; [reflexivity | exact H]. Qed.

Lemma tr_ok_seteq_l h1 h2 evs h' : seteq h1 h2 -> tr_ok h1 evs h' -> tr_ok h2 evs h'.
Proof.
  intros H [R S]. split.
  - rewrite <- (redundant_seteq evs h1 h2 H). exact R.
  - eapply seteq_trans; [|exact S]. apply apply_evs_seteq. apply seteq_sym. exact H.
Qed.

Lemma tr_ok_seteq_r h evs h1 h2 : seteq h1 h2 -> tr_ok h evs h1 -> tr_ok h evs h2.
Proof. intros H [R S]. split; [exact R | eapply seteq_trans; eassumption]. Qed.

Lemma tr_ok_app h e1 h1 e2 h2 : tr_ok h e1 h1 -> tr_ok h1 e2 h2 -> tr_ok h (e1 ++ e2) h2.
Proof.
  intros [R1 S1] [R2 S2]. split.
  - rewrite redundant_app, R1. cbn [orb].
    rewrite (redundant_seteq e2 _ _ S1). exact R2.
  - rewrite apply_evs_app. eapply seteq_trans; [|exact S2].
    apply apply_evs_seteq. exact S1.
Qed.

Lemma tr_ok_press h k : ~ In k h -> tr_ok h [Pressed k] (h ++ [k]).
Proof.
  intros H. apply mem_false in H. split.
  - cbn [redundant]. rewrite H. reflexivity.
  - unfold apply_evs. cbn [fold_left apply_ev]. rewrite H. apply seteq_refl.
Qed.

Lemma tr_ok_release h k : In k h -> tr_ok h [Released k] (remove_all k h).
Proof.
  intros H. apply mem_In in H. split.
  - cbn [redundant]. rewrite H. reflexivity.
  - unfold apply_evs. cbn [fold_left apply_ev]. apply seteq_refl.
Qed.

Lemma tr_ok_repress h k : In k h -> tr_ok h [Released k; Pressed k] h.
Proof.
  intros H. change [Released k; Pressed k] with ([Released k] ++ [Pressed k]).
  eapply tr_ok_app; [apply tr_ok_release; exact H|].
  eapply tr_ok_seteq_r; [|apply tr_ok_press].
  - intros x. rewrite in_app_iff, In_remove_all. cbn. split.
    + intros [[Hx _]|[E|[]]]; [exact Hx | subst; exact H].
    + intros Hx. destruct (N.eq_dec x k) as [E|E]; [right; left; symmetry; exact E | left; split; assumption].
  - rewrite In_remove_all. intros [_ E]. apply E. reflexivity.
Qed.

(* releasing a duplicate-free list of held keys *)
Lemma tr_ok_releases ks : forall h,
  NoDup ks -> (forall k, In k ks -> In k h) ->
  tr_ok h (map Released ks) (filter (fun x => negb (mem x ks)) h).
Proof.
  induction ks as [|k t IH]; intros h Hnd Hin.
  - cbn [map]. apply tr_ok_nil. intros x. rewrite filter_In. cbn. tauto.
  - inversion Hnd as [|? ? Hk Ht]; subst.
    change (map Released (k :: t)) with ([Released k] ++ map Released t).
    eapply tr_ok_app; [apply tr_ok_release; apply Hin; left; reflexivity|].
    eapply tr_ok_seteq_r; [|apply IH; [exact Ht|]].
    + intros x. rewrite !filter_In, In_remove_all. cbn [mem existsb].
      rewrite !negb_true_iff. rewrite orb_false_iff. rewrite N.eqb_neq. fold (mem x t). tauto.
    + intros x Hx. apply In_remove_all. split; [apply Hin; right; exact Hx|].
      intro E. subst. contradiction.
Qed.

Lemma all_released_app a b :
  forallb (fun e => negb (is_pressed e)) (a ++ b) =
  forallb (fun e => negb (is_pressed e)) a && forallb (fun e => negb (is_pressed e)) b.
Proof. apply forallb_app. Qed.

Lemma all_released_map ks : forallb (fun e => negb (is_pressed e)) (map Released ks) = true.
Proof. induction ks as [|k t IH]; [reflexivity | exact IH]. Qed.
