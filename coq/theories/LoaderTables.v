(* LoaderTables.v — finite facts about the regenerated tables (KeyTable,
   CharTable, Rows, Modifiers), all by vm_compute, and their consequences in
   quantified form. *)
From TM Require Import Base Json RustOps Fancy Mapper Parser Convert Serde SpecTables ConvertSpec LoaderCheck.
From TMGen Require Import KeyTable CharTable Rows Modifiers.
From Coq Require Import Lia.

(* ---------- strings ---------- *)

Lemma str_eqb_refl : forall s, str_eqb s s = true.
Proof. induction s as [|c s IH]; cbn; [reflexivity|]. rewrite N.eqb_refl, IH. reflexivity. Qed.

Lemma str_eqb_eq : forall a b, str_eqb a b = true <-> a = b.
Proof.
  induction a as [|x a IH]; destruct b as [|y b]; cbn; split; intro H; try reflexivity; try discriminate.
  - apply andb_true_iff in H. destruct H as [H1 H2]. apply N.eqb_eq in H1. apply IH in H2. subst. reflexivity.
  - inversion H; subst. rewrite N.eqb_refl. cbn. apply IH. reflexivity.
Qed.

Lemma str_eqb_sym : forall a b, str_eqb a b = str_eqb b a.
Proof.
  intros a b. destruct (str_eqb a b) eqn:E.
  - apply str_eqb_eq in E. subst. symmetry. apply str_eqb_refl.
  - destruct (str_eqb b a) eqn:E2; [|reflexivity]. apply str_eqb_eq in E2. subst.
    rewrite str_eqb_refl in E. discriminate.
Qed.

Lemma keys_eqb_eq : forall a b, keys_eqb a b = true <-> a = b.
Proof.
  induction a as [|x a IH]; destruct b as [|y b]; cbn; split; intro H; try reflexivity; try discriminate.
  - apply andb_true_iff in H. destruct H as [H1 H2]. apply N.eqb_eq in H1. apply IH in H2. subst. reflexivity.
  - inversion H; subst. rewrite N.eqb_refl. cbn. apply IH. reflexivity.
Qed.

Lemma keys_eqb_refl : forall a, keys_eqb a a = true.
Proof. intro a. apply keys_eqb_eq. reflexivity. Qed.

(* ---------- key names (C15) ---------- *)

Definition ident_of (e : string * N * string) : string := fst (fst e).
Definition code_of (e : string * N * string) : N := snd (fst e).
Definition sname_of (e : string * N * string) : string := snd e.

(* a string of ASCII digits only (and not empty) *)
Definition is_digit_string (s : str) : bool :=
  match s with [] => false | _ => forallb (fun c => (48 <=? c)%N && (c <=? 57)%N) s end.

Definition res_key_is (r : res key) (k : key) : bool :=
  match r with Ok k' => N.eqb k' k | _ => false end.

Definition opt_str_is (o : option str) (s : str) : bool :=
  match o with Some s' => str_eqb s' s | None => false end.

Definition key_entry_ok (e : string * N * string) : bool :=
  res_key_is (parse_key_code (lit (sname_of e))) (code_of e)
  && res_key_is (parse_key_code (lit (ident_of e))) (code_of e)
  && opt_str_is (serde_name (code_of e)) (lit (sname_of e))
  && negb (starts_with_at (lit (ident_of e)))
  && negb (is_digit_string (lit (ident_of e))).

Lemma key_table_ok : forallb key_entry_ok key_table = true.
Proof. vm_compute. reflexivity. Qed.

Fixpoint nodup_str (l : list str) : bool :=
  match l with
  | [] => true
  | x :: t => negb (existsb (str_eqb x) t) && nodup_str t
  end.

Lemma nodup_str_NoDup : forall l, nodup_str l = true -> NoDup l.
Proof.
  induction l as [|x l IH]; cbn; intro H; [constructor|].
  apply andb_true_iff in H. destruct H as [H1 H2]. constructor; [|apply IH; exact H2].
  intro Hin. apply negb_true_iff in H1.
  assert (existsb (str_eqb x) l = true) as E.
  { apply existsb_exists. exists x. split; [exact Hin|apply str_eqb_refl]. }
  rewrite E in H1. discriminate.
Qed.

Lemma key_idents_nodup : nodup_str (map (fun e => lit (ident_of e)) key_table) = true.
Proof. vm_compute. reflexivity. Qed.

Lemma key_snames_nodup : nodup_str (map (fun e => lit (sname_of e)) key_table) = true.
Proof. vm_compute. reflexivity. Qed.

Lemma key_codes_nodup : nodupb (map code_of key_table) = true.
Proof. vm_compute. reflexivity. Qed.

Lemma res_key_is_eq : forall r k, res_key_is r k = true -> r = Ok k.
Proof. intros [k'| |s] k H; cbn in H; try discriminate. apply N.eqb_eq in H. subst. reflexivity. Qed.

Lemma opt_str_is_eq : forall o s, opt_str_is o s = true -> o = Some s.
Proof. intros [s'|] s H; cbn in H; try discriminate. apply str_eqb_eq in H. subst. reflexivity. Qed.

Lemma key_names_roundtrip :
  forall e, In e key_table ->
    parse_key_code (lit (sname_of e)) = Ok (code_of e)
    /\ parse_key_code (lit (ident_of e)) = Ok (code_of e)
    /\ serde_name (code_of e) = Some (lit (sname_of e))
    /\ starts_with_at (lit (ident_of e)) = false
    /\ is_digit_string (lit (ident_of e)) = false.
Proof.
  intros e Hin. pose proof key_table_ok as H. rewrite forallb_forall in H. specialize (H e Hin).
  unfold key_entry_ok in H. repeat (apply andb_true_iff in H; destruct H as [H ?]).
  repeat split.
  - apply res_key_is_eq; assumption.
  - apply res_key_is_eq; assumption.
  - apply opt_str_is_eq; assumption.
  - apply negb_true_iff; assumption.
  - apply negb_true_iff; assumption.
Qed.

(* a key known to the table is written by serde as a name that parses back *)
Lemma serde_name_in_table : forall tbl k s, serde_name_in tbl k = Some s ->
  exists e, In e tbl /\ code_of e = k /\ lit (sname_of e) = s.
Proof.
  induction tbl as [|[[i c] sn] tbl IH]; cbn; intros k s H; [discriminate|].
  destruct (N.eqb c k) eqn:E.
  - inversion H; subst. apply N.eqb_eq in E. exists (i, c, sn). repeat split; auto.
  - destruct (IH k s H) as [e [Hin [Hc Hs]]]. exists e. repeat split; auto.
Qed.

Lemma serde_name_parses : forall k s, serde_name k = Some s -> parse_key_code s = Ok k /\ starts_with_at s = false.
Proof.
  intros k s H. unfold serde_name in H. destruct (serde_name_in_table _ _ _ H) as [e [Hin [Hc Hs]]].
  destruct (key_names_roundtrip e Hin) as [H1 _]. subst. split; [exact H1|].
  unfold parse_key_code in H1. destruct (starts_with_at (lit (sname_of e))); [discriminate|reflexivity].
Qed.

(* ---------- the character table and the rows (C13) ---------- *)

Definition opt_bk_eqb (a b : option (bool * key)) : bool :=
  match a, b with
  | Some (s1, k1), Some (s2, k2) => Bool.eqb s1 s2 && N.eqb k1 k2
  | None, None => true
  | _, _ => false
  end.

Lemma opt_bk_eqb_eq : forall a b, opt_bk_eqb a b = true -> a = b.
Proof.
  intros [[s1 k1]|] [[s2 k2]|] H; cbn in H; try discriminate; try reflexivity.
  apply andb_true_iff in H. destruct H as [H1 H2]. apply eqb_prop in H1. apply N.eqb_eq in H2. subst. reflexivity.
Qed.

(* every character either table knows is typed the same way by both *)
Definition table_chars : list N := map (fun e => fst (fst e)) char_table ++ map (fun e => fst (fst e)) us_qwerty.

Lemma char_tables_agree_on_known : forallb (fun ch => opt_bk_eqb (char_lookup ch) (spec_char ch)) table_chars = true.
Proof. vm_compute. reflexivity. Qed.

Lemma find_none_not_in : forall (l : list (N * bool * N)) ch,
  ~ In ch (map (fun e => fst (fst e)) l) -> find (fun e => N.eqb (fst (fst e)) ch) l = None.
Proof.
  induction l as [|e l IH]; cbn; intros ch H; [reflexivity|].
  destruct (N.eqb (fst (fst e)) ch) eqn:E.
  - apply N.eqb_eq in E. exfalso. apply H. left. exact E.
  - apply IH. intro Hin. apply H. right. exact Hin.
Qed.

Lemma char_lookup_unknown : forall ch, ~ In ch (map (fun e => fst (fst e)) char_table) -> char_lookup ch = None.
Proof.
  intros ch H. unfold char_lookup, char_table_rev. rewrite find_none_not_in; [reflexivity|].
  intro Hin. apply H. rewrite map_rev in Hin. apply in_rev in Hin. exact Hin.
Qed.

Lemma spec_char_in_unknown : forall kb ch,
  ~ In ch (map (fun e => fst (fst e)) (flat_map (fun k => match k with (code, plain, shifted) => [(plain, false, code); (shifted, true, code)] end) kb)) ->
  spec_char_in kb ch = None.
Proof.
  induction kb as [|[[code plain] shifted] kb IH]; cbn; intros ch H; [reflexivity|].
  destruct (N.eqb ch plain) eqn:E1.
  - apply N.eqb_eq in E1. exfalso. apply H. left. symmetry. exact E1.
  - destruct (N.eqb ch shifted) eqn:E2.
    + apply N.eqb_eq in E2. exfalso. apply H. right. left. symmetry. exact E2.
    + apply IH. intro Hin. apply H. right. right. exact Hin.
Qed.

Lemma spec_char_unknown : forall ch, ~ In ch (map (fun e => fst (fst e)) us_qwerty) -> spec_char ch = None.
Proof. intros ch H. apply spec_char_in_unknown. exact H. Qed.

Lemma In_dec_N : forall (x : N) l, {In x l} + {~ In x l}.
Proof. intros. apply in_dec. apply N.eq_dec. Qed.

(* the converter's character table is the US-QWERTY keyboard, for EVERY scalar *)
Lemma char_lookup_is_spec : forall ch, char_lookup ch = spec_char ch.
Proof.
  intro ch. destruct (In_dec_N ch table_chars) as [Hin|Hout].
  - pose proof char_tables_agree_on_known as H. rewrite forallb_forall in H.
    apply opt_bk_eqb_eq. apply H. exact Hin.
  - unfold table_chars in Hout. rewrite char_lookup_unknown, spec_char_unknown; [reflexivity| |];
      intro Hin; apply Hout; apply in_or_app; [right|left]; exact Hin.
Qed.

(* same table as a set of (character, shift, key) triples, 94 entries, no character twice *)
Definition triple_eqb (a b : N * bool * N) : bool :=
  N.eqb (fst (fst a)) (fst (fst b)) && Bool.eqb (snd (fst a)) (snd (fst b)) && N.eqb (snd a) (snd b).

Definition table_subset (a b : list (N * bool * N)) : bool := forallb (fun x => existsb (triple_eqb x) b) a.

Lemma char_table_same_entries :
  table_subset char_table us_qwerty = true /\ table_subset us_qwerty char_table = true
  /\ length char_table = 94%nat /\ nodupb (map (fun e => fst (fst e)) char_table) = true.
Proof. vm_compute. repeat split; reflexivity. Qed.

Lemma triple_eqb_eq : forall a b, triple_eqb a b = true -> a = b.
Proof.
  intros [[a1 a2] a3] [[b1 b2] b3] H. unfold triple_eqb in H. cbn in H.
  apply andb_true_iff in H. destruct H as [H H3]. apply andb_true_iff in H. destruct H as [H1 H2].
  apply N.eqb_eq in H1. apply N.eqb_eq in H3. apply eqb_prop in H2. subst. reflexivity.
Qed.

Lemma table_subset_incl : forall a b, table_subset a b = true -> incl a b.
Proof.
  intros a b H x Hin. unfold table_subset in H. rewrite forallb_forall in H. specialize (H x Hin).
  apply existsb_exists in H. destruct H as [y [Hy E]]. apply triple_eqb_eq in E. subst. exact Hy.
Qed.

Lemma rows_are_spec :
  row_USQuertyGrave = Some spec_row_grave /\ row_USQuerty1 = Some spec_row_1 /\ row_USQuertyQ = Some spec_row_q
  /\ row_USQuertyA = Some spec_row_a /\ row_USQuertyZ = Some spec_row_z.
Proof. vm_compute. repeat split; reflexivity. Qed.

Lemma physical_row_is_spec : forall r, physical_row r = Some (spec_row r).
Proof. destruct rows_are_spec as [H1 [H2 [H3 [H4 H5]]]]. intros []; cbn; assumption. Qed.

Lemma shift_keys_are_spec : RIGHTSHIFT = KEY_RIGHTSHIFT /\ LEFTSHIFT = KEY_LEFTSHIFT.
Proof. vm_compute. split; reflexivity. Qed.

Lemma is_modifier_is_spec_on_table :
  forallb (fun k => Bool.eqb (Modifiers.is_modifier k) (spec_is_modifier k)) (is_modifier_exceptions ++ spec_modifier_keys) = true.
Proof. vm_compute. reflexivity. Qed.

Lemma is_modifier_is_spec : forall k, Modifiers.is_modifier k = spec_is_modifier k.
Proof.
  intro k. destruct (In_dec_N k (is_modifier_exceptions ++ spec_modifier_keys)) as [Hin|Hout].
  - pose proof is_modifier_is_spec_on_table as H. rewrite forallb_forall in H. apply eqb_prop. apply H. exact Hin.
  - unfold Modifiers.is_modifier, spec_is_modifier.
    assert (existsb (N.eqb k) is_modifier_exceptions = false) as E1.
    { destruct (existsb (N.eqb k) is_modifier_exceptions) eqn:E; [|reflexivity].
      apply existsb_exists in E. destruct E as [x [Hx Ex]]. apply N.eqb_eq in Ex. subst.
      exfalso. apply Hout. apply in_or_app. left. exact Hx. }
    assert (existsb (N.eqb k) spec_modifier_keys = false) as E2.
    { destruct (existsb (N.eqb k) spec_modifier_keys) eqn:E; [|reflexivity].
      apply existsb_exists in E. destruct E as [x [Hx Ex]]. apply N.eqb_eq in Ex. subst.
      exfalso. apply Hout. apply in_or_app. right. exact Hx. }
    rewrite E1, E2. reflexivity.
Qed.

(* every key the tables can put into a layout is a key code of the tool *)
Lemma table_keys_known :
  forallb (fun e => known_key (snd e)) char_table = true
  /\ forallb known_key spec_row_grave = true /\ forallb known_key spec_row_q = true
  /\ forallb known_key spec_row_a = true /\ forallb known_key spec_row_z = true
  /\ known_key LEFTSHIFT = true /\ known_key RIGHTSHIFT = true.
Proof. vm_compute. repeat split; reflexivity. Qed.
