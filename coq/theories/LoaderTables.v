(* LoaderTables.v — finite facts about the regenerated character table, rows
   and modifier set (C13), by vm_compute, and their consequences in quantified
   form. *)
From TM Require Import Base Json RustOps Fancy Mapper Parser Convert SpecTables ConvertSpec StrLemmas.
From TMGen Require Import CharTable Rows Modifiers.
From Coq Require Import Lia.

(* ---------- the character table and the rows (C13) ---------- *)

Definition opt_bk_eqb (a b : option (bool * key)) : bool :=
  match a, b with
  | Some (s1, k1), Some (s2, k2) => Bool.eqb s1 s2 && N.eqb k1 k2
  | None, None => true
  | _, _ => false
  end.

Lemma opt_bk_eqb_eq : forall a b, opt_bk_eqb a b = true -> a = b.
Proof.
  intros [[s1 k1]|] [[s2 k2]|] H; cbn in H; try discriminate; try reflexivity.
  apply andb_true_iff in H. destruct H as [H1 H2]. apply eqb_prop in H1. apply N.eqb_eq in H2. subst. reflexivity.
Qed.

(* every character either table knows is typed the same way by both *)
Definition table_chars : list N := map (fun e => fst (fst e)) char_table ++ map (fun e => fst (fst e)) us_qwerty.

Lemma char_tables_agree_on_known : forallb (fun ch => opt_bk_eqb (char_lookup ch) (spec_char ch)) table_chars = true.
Proof. vm_compute. reflexivity. Qed.

Lemma find_none_not_in : forall (l : list (N * bool * N)) ch,
  ~ In ch (map (fun e => fst (fst e)) l) -> find (fun e => N.eqb (fst (fst e)) ch) l = None.
Proof.
  induction l as [|e l IH]; cbn; intros ch H; [reflexivity|].
  destruct (N.eqb (fst (fst e)) ch) eqn:E.
  - apply N.eqb_eq in E. exfalso. apply H. left. exact E.
  - apply IH. intro Hin. apply H. right. exact Hin.
Qed.

Lemma char_lookup_unknown : forall ch, ~ In ch (map (fun e => fst (fst e)) char_table) -> char_lookup ch = None.
Proof.
  intros ch H. unfold char_lookup, char_table_rev. rewrite find_none_not_in; [reflexivity|].
  intro Hin. apply H. rewrite map_rev in Hin. apply in_rev in Hin. exact Hin.
Qed.

Lemma spec_char_in_unknown : forall kb ch,
  ~ In ch (map (fun e => fst (fst e)) (flat_map (fun k => match k with (code, plain, shifted) => [(plain, false, code); (shifted, true, code)] end) kb)) ->
  spec_char_in kb ch = None.
Proof.
  induction kb as [|[[code plain] shifted] kb IH]; cbn; intros ch H; [reflexivity|].
  destruct (N.eqb ch plain) eqn:E1.
  - apply N.eqb_eq in E1. exfalso. apply H. left. symmetry. exact E1.
  - destruct (N.eqb ch shifted) eqn:E2.
    + apply N.eqb_eq in E2. exfalso. apply H. right. left. symmetry. exact E2.
    + apply IH. intro Hin. apply H. right. right. exact Hin.
Qed.

Lemma spec_char_unknown : forall ch, ~ In ch (map (fun e => fst (fst e)) us_qwerty) -> spec_char ch = None.
Proof. intros ch H. apply spec_char_in_unknown. exact H. Qed.

Lemma In_dec_N : forall (x : N) l, {In x l} + {~ In x l}.
Proof. intros. apply in_dec. apply N.eq_dec. Qed.

(* the converter's character table is the US-QWERTY keyboard, for EVERY scalar *)
Lemma char_lookup_is_spec : forall ch, char_lookup ch = spec_char ch.
Proof.
  intro ch. destruct (In_dec_N ch table_chars) as [Hin|Hout].
  - pose proof char_tables_agree_on_known as H. rewrite forallb_forall in H.
    apply opt_bk_eqb_eq. apply H. exact Hin.
  - unfold table_chars in Hout. rewrite char_lookup_unknown, spec_char_unknown; [reflexivity| |];
      intro Hin; apply Hout; apply in_or_app; [right|left]; exact Hin.
Qed.

(* same table as a set of (character, shift, key) triples, 94 entries, no character twice *)
Definition triple_eqb (a b : N * bool * N) : bool :=
  N.eqb (fst (fst a)) (fst (fst b)) && Bool.eqb (snd (fst a)) (snd (fst b)) && N.eqb (snd a) (snd b).

Definition table_subset (a b : list (N * bool * N)) : bool := forallb (fun x => existsb (triple_eqb x) b) a.

Lemma char_table_same_entries :
  table_subset char_table us_qwerty = true /\ table_subset us_qwerty char_table = true
  /\ length char_table = 94%nat /\ nodupb (map (fun e => fst (fst e)) char_table) = true.
Proof. vm_compute. repeat split; reflexivity. Qed.

Lemma triple_eqb_eq : forall a b, triple_eqb a b = true -> a = b.
Proof.
  intros [[a1 a2] a3] [[b1 b2] b3] H. unfold triple_eqb in H. cbn in H.
  apply andb_true_iff in H. destruct H as [H H3]. apply andb_true_iff in H. destruct H as [H1 H2].
  apply N.eqb_eq in H1. apply N.eqb_eq in H3. apply eqb_prop in H2. subst. reflexivity.
Qed.

Lemma table_subset_incl : forall a b, table_subset a b = true -> incl a b.
Proof.
  intros a b H x Hin. unfold table_subset in H. rewrite forallb_forall in H. specialize (H x Hin).
  apply existsb_exists in H. destruct H as [y [Hy E]]. apply triple_eqb_eq in E. subst. exact Hy.
Qed.

Lemma rows_are_spec :
  row_USQuertyGrave = Some spec_row_grave /\ row_USQuerty1 = Some spec_row_1 /\ row_USQuertyQ = Some spec_row_q
  /\ row_USQuertyA = Some spec_row_a /\ row_USQuertyZ = Some spec_row_z.
Proof. vm_compute. repeat split; reflexivity. Qed.

Lemma physical_row_is_spec : forall r, physical_row r = Some (spec_row r).
Proof. destruct rows_are_spec as [H1 [H2 [H3 [H4 H5]]]]. intros []; cbn; assumption. Qed.

Lemma shift_keys_are_spec : RIGHTSHIFT = KEY_RIGHTSHIFT /\ LEFTSHIFT = KEY_LEFTSHIFT.
Proof. vm_compute. split; reflexivity. Qed.

Lemma is_modifier_is_spec_on_table :
  forallb (fun k => Bool.eqb (Modifiers.is_modifier k) (spec_is_modifier k)) (is_modifier_exceptions ++ spec_modifier_keys) = true.
Proof. vm_compute. reflexivity. Qed.

Lemma is_modifier_is_spec : forall k, Modifiers.is_modifier k = spec_is_modifier k.
Proof.
  intro k. destruct (In_dec_N k (is_modifier_exceptions ++ spec_modifier_keys)) as [Hin|Hout].
  - pose proof is_modifier_is_spec_on_table as H. rewrite forallb_forall in H. apply eqb_prop. apply H. exact Hin.
  - unfold Modifiers.is_modifier, spec_is_modifier.
    assert (existsb (N.eqb k) is_modifier_exceptions = false) as E1.
    { destruct (existsb (N.eqb k) is_modifier_exceptions) eqn:E; [|reflexivity].
      apply existsb_exists in E. destruct E as [x [Hx Ex]]. apply N.eqb_eq in Ex. subst.
      exfalso. apply Hout. apply in_or_app. left. exact Hx. }
    assert (existsb (N.eqb k) spec_modifier_keys = false) as E2.
    { destruct (existsb (N.eqb k) spec_modifier_keys) eqn:E; [|reflexivity].
      apply existsb_exists in E. destruct E as [x [Hx Ex]]. apply N.eqb_eq in Ex. subst.
      exfalso. apply Hout. apply in_or_app. right. exact Hx. }
    rewrite E1, E2. reflexivity.
Qed.

