(* ListingLemmas.v — proofs about the keyboard-selection model (property C16). *)
From Coq Require Import List NArith Bool Lia Arith.
From TM Require Import Listing.
Import ListNotations.
Open Scope N_scope.

(* ------------------------------------------------------------------ equality tests *)

Lemma beq_bytes_eq : forall a b, beq_bytes a b = true <-> a = b.
Proof.
  induction a as [|x a IH]; intros [|y b]; cbn [beq_bytes]; split; intro H; try reflexivity; try discriminate.
  - apply andb_true_iff in H. destruct H as [Hx Hab].
    apply N.eqb_eq in Hx. apply IH in Hab. subst. reflexivity.
  - inversion H; subst. apply andb_true_iff. split.
    + apply N.eqb_refl.
    + apply IH. reflexivity.
Qed.

Lemma beq_bytes_refl : forall a, beq_bytes a a = true.
Proof. intro a. apply beq_bytes_eq. reflexivity. Qed.

Lemma beq_bytes_false : forall a b, beq_bytes a b = false <-> a <> b.
Proof.
  intros a b. split.
  - intros H E. apply beq_bytes_eq in E. rewrite E in H. discriminate.
  - intro H. destruct (beq_bytes a b) eqn:E; [|reflexivity].
    apply beq_bytes_eq in E. contradiction.
Qed.

Lemma beq_kdev_refl : forall d, beq_kdev d d = true.
Proof. intros [p n]. unfold beq_kdev. cbn [fst snd]. rewrite !beq_bytes_refl. reflexivity. Qed.

Lemma beq_idev_refl : forall d, beq_idev d d = true.
Proof.
  intros [[p n] k]. unfold beq_idev. cbn [fst snd]. rewrite !beq_bytes_refl.
  destruct k; reflexivity.
Qed.

Lemma beq_list_refl : forall A (eq : A -> A -> bool), (forall x, eq x x = true) ->
  forall l, beq_list eq l l = true.
Proof.
  intros A eq Hr. induction l as [|x l IH]; cbn [beq_list]; [reflexivity|].
  rewrite Hr, IH. reflexivity.
Qed.

Lemma beq_res_refl : forall A (eq : A -> A -> bool), (forall x, eq x x = true) ->
  forall r : res A, beq_res eq r r = true.
Proof. intros A eq Hr [a|s]; cbn [beq_res]; [apply Hr|reflexivity]. Qed.

(* ------------------------------------------------------------------ the loop *)

Section Loop.
  Context {D : Type}.
  Variable step : working -> bytes -> res (working * list D).

  Lemma run_app : forall a b w,
    run step w (a ++ b) =
    match run step w a with
    | Panic s => Panic s
    | Ok (w1, o1) =>
      match run step w1 b with
      | Panic s => Panic s
      | Ok (w2, o2) => Ok (w2, o1 ++ o2)
      end
    end.
  Proof.
    induction a as [|l a IH]; intros b w.
    - cbn [app run]. destruct (run step w b) as [[w2 o2]|s]; reflexivity.
    - cbn [app run]. destruct (step w l) as [[w1 o1]|s]; [|reflexivity].
      rewrite IH. destruct (run step w1 a) as [[w2 o2]|s]; [|reflexivity].
      destruct (run step w2 b) as [[w3 o3]|s]; [|reflexivity].
      rewrite app_assoc. reflexivity.
  Qed.

  (* every "I:" line resets the working fields and emits nothing *)
  Definition resets : Prop :=
    forall w l, is_I_line l = true -> step w l = Ok (w_init, []).

  Hypothesis Hreset : resets.

  Lemma run_entry_any_state : forall e w,
    starts_entry e = true -> run step w e = run step w_init e.
  Proof.
    intros [|l r] w He; [discriminate|].
    cbn [starts_entry] in He. cbn [run].
    rewrite (Hreset w l He), (Hreset w_init l He). reflexivity.
  Qed.

  Lemma outputs_app_entry : forall a e w,
    starts_entry e = true ->
    outputs (run step w (a ++ e)) =
    concat_res [outputs (run step w a); outputs (run step w_init e)].
  Proof.
    intros a e w He. rewrite run_app. cbn [concat_res].
    destruct (run step w a) as [[w1 o1]|s]; cbn [outputs]; [|reflexivity].
    rewrite (run_entry_any_state e w1 He).
    destruct (run step w_init e) as [[w2 o2]|s]; cbn [outputs]; [|reflexivity].
    rewrite app_nil_r. reflexivity.
  Qed.

  Lemma concat_res_cons2 : forall (a b : res (list D)) rest,
    concat_res (concat_res [a; b] :: rest) = concat_res (a :: b :: rest).
  Proof.
    intros [a|s] [b|s2] rest; cbn [concat_res]; try reflexivity.
    - rewrite app_nil_r.
      destruct (concat_res rest) as [c|s3]; [|reflexivity].
      rewrite app_assoc. reflexivity.
  Qed.

  Theorem local_lines : forall es pre w,
    Forall (fun e => starts_entry e = true) es ->
    outputs (run step w (pre ++ concat es)) =
    concat_res (outputs (run step w pre) :: map (fun e => outputs (run step w_init e)) es).
  Proof.
    induction es as [|e es IH]; intros pre w Hes.
    - cbn [concat map]. rewrite app_nil_r. cbn [concat_res].
      destruct (outputs (run step w pre)) as [o|s]; [|reflexivity].
      rewrite app_nil_r. reflexivity.
    - inversion Hes as [|e' es' He Hes']; subst.
      cbn [concat map]. rewrite app_assoc. rewrite (IH (pre ++ e) w Hes').
      rewrite (outputs_app_entry pre e w He). apply concat_res_cons2.
  Qed.
End Loop.

(* ------------------------------------------------------------------ entries *)

Lemma split_entries_concat : forall ls,
  fst (split_entries ls) ++ concat (snd (split_entries ls)) = ls.
Proof.
  induction ls as [|l r IH]; [reflexivity|].
  cbn [split_entries]. destruct (split_entries r) as [pre es] eqn:E. cbn [fst snd] in IH.
  destruct (starts_with p_I l); cbn [fst snd concat app]; rewrite IH; reflexivity.
Qed.

Lemma split_entries_pre_no_I : forall ls,
  forallb (fun x => negb (is_I_line x)) (fst (split_entries ls)) = true.
Proof.
  induction ls as [|l r IH]; [reflexivity|].
  cbn [split_entries]. destruct (split_entries r) as [pre es] eqn:E. cbn [fst] in IH.
  destruct (starts_with p_I l) eqn:El; cbn [fst forallb]; [reflexivity|].
  unfold is_I_line at 1. rewrite El, IH. reflexivity.
Qed.

Lemma split_entries_are_entries : forall ls,
  Forall (fun e => is_entry e = true) (snd (split_entries ls)).
Proof.
  induction ls as [|l r IH]; [constructor|].
  cbn [split_entries]. destruct (split_entries r) as [pre es] eqn:E. cbn [snd] in IH.
  destruct (starts_with p_I l) eqn:El; cbn [snd]; [|exact IH].
  constructor; [|exact IH].
  cbn [is_entry]. unfold is_I_line at 1. rewrite El. cbn [andb].
  pose proof (split_entries_pre_no_I r) as Hp. rewrite E in Hp. exact Hp.
Qed.

Lemma is_entry_starts : forall e, is_entry e = true -> starts_entry e = true.
Proof.
  intros [|l r] H; [discriminate|]. cbn [is_entry] in H. cbn [starts_entry].
  apply andb_true_iff in H. tauto.
Qed.

(* ------------------------------------------------------------------ the two steps *)

Section Steps.
  Variable classify : bytes -> option bytes -> bytes -> res bool.

  Lemma kbd_line_resets : resets (kbd_line classify).
  Proof. intros w l H. unfold is_I_line in H. unfold kbd_line. rewrite H. reflexivity. Qed.

  Lemma dev_line_resets : resets (dev_line classify).
  Proof. intros w l H. unfold is_I_line in H. unfold dev_line. rewrite H. reflexivity. Qed.

  (* one line: the keyboards extractor does what the devices extractor does,
     keeping only the keyboards *)
  Lemma line_agree : forall w l,
    kbd_line classify w l =
    match dev_line classify w l with
    | Ok (w1, o) => Ok (w1, map forget (filter is_kbd o))
    | Panic s => Panic s
    end.
  Proof.
    intros w l. unfold kbd_line, dev_line.
    destruct (starts_with p_I l); [reflexivity|].
    destruct (starts_with p_S l).
    { destruct (slice_from 9 l) as [p|s]; reflexivity. }
    destruct (starts_with p_N l).
    { destruct (parse_name l) as [n|s]; reflexivity. }
    destruct (starts_with p_EV l).
    { destruct (slice_from 6 l) as [m|s]; reflexivity. }
    destruct (starts_with p_KEY l); [|reflexivity].
    destruct (slice_from 7 l) as [k|s]; cbn [bind]; [|reflexivity].
    destruct (classify (working_name w) (w_ev w) k) as [b|s]; cbn [bind]; [|reflexivity].
    destruct (w_sysfs w) as [p|]; destruct b; reflexivity.
  Qed.

  Lemma run_agree : forall ls w,
    run (kbd_line classify) w ls =
    match run (dev_line classify) w ls with
    | Ok (w1, o) => Ok (w1, map forget (filter is_kbd o))
    | Panic s => Panic s
    end.
  Proof.
    induction ls as [|l r IH]; intro w; [reflexivity|].
    cbn [run]. rewrite line_agree.
    destruct (dev_line classify w l) as [[w1 o1]|s]; [|reflexivity].
    rewrite IH. destruct (run (dev_line classify) w1 r) as [[w2 o2]|s]; [|reflexivity].
    rewrite filter_app, map_app. reflexivity.
  Qed.

  Theorem agree_lines : forall ls,
    kbd_lines classify ls =
    match dev_lines classify ls with
    | Ok ds => Ok (map forget (filter is_kbd ds))
    | Panic s => Panic s
    end.
  Proof.
    intro ls. unfold kbd_lines, dev_lines. rewrite run_agree.
    destruct (run (dev_line classify) w_init ls) as [[w1 o]|s]; reflexivity.
  Qed.

  Theorem agree_text : forall t,
    extract_keyboards_with classify t =
    match extract_input_devices_with classify t with
    | Ok ds => Ok (map forget (filter is_kbd ds))
    | Panic s => Panic s
    end.
  Proof. intro t. apply agree_lines. Qed.

  Theorem local_kbd_lines : forall pre es,
    Forall (fun e => starts_entry e = true) es ->
    kbd_lines classify (pre ++ concat es) =
    concat_res (kbd_lines classify pre :: map (kbd_lines classify) es).
  Proof. intros pre es H. apply (local_lines _ kbd_line_resets es pre w_init H). Qed.

  Theorem local_dev_lines : forall pre es,
    Forall (fun e => starts_entry e = true) es ->
    dev_lines classify (pre ++ concat es) =
    concat_res (dev_lines classify pre :: map (dev_lines classify) es).
  Proof. intros pre es H. apply (local_lines _ dev_line_resets es pre w_init H). Qed.

  (* every text decomposes into its preamble and its entries *)
  Theorem local_kbd_text : forall t,
    let pre := fst (split_entries (split_lines t)) in
    let es := snd (split_entries (split_lines t)) in
    pre ++ concat es = split_lines t /\
    forallb (fun x => negb (is_I_line x)) pre = true /\
    Forall (fun e => is_entry e = true) es /\
    extract_keyboards_with classify t =
    concat_res (kbd_lines classify pre :: map (kbd_lines classify) es).
  Proof.
    intro t. cbv zeta.
    split; [apply split_entries_concat|].
    split; [apply split_entries_pre_no_I|].
    split; [apply split_entries_are_entries|].
    unfold extract_keyboards_with.
    rewrite <- (split_entries_concat (split_lines t)) at 1.
    apply local_kbd_lines.
    eapply Forall_impl; [|apply split_entries_are_entries].
    intros e He. apply is_entry_starts. exact He.
  Qed.

  Theorem local_dev_text : forall t,
    let pre := fst (split_entries (split_lines t)) in
    let es := snd (split_entries (split_lines t)) in
    pre ++ concat es = split_lines t /\
    forallb (fun x => negb (is_I_line x)) pre = true /\
    Forall (fun e => is_entry e = true) es /\
    extract_input_devices_with classify t =
    concat_res (dev_lines classify pre :: map (dev_lines classify) es).
  Proof.
    intro t. cbv zeta.
    split; [apply split_entries_concat|].
    split; [apply split_entries_pre_no_I|].
    split; [apply split_entries_are_entries|].
    unfold extract_input_devices_with.
    rewrite <- (split_entries_concat (split_lines t)) at 1.
    apply local_dev_lines.
    eapply Forall_impl; [|apply split_entries_are_entries].
    intros e He. apply is_entry_starts. exact He.
  Qed.
End Steps.

(* ------------------------------------------------------------------ split / join *)

Lemma split_on_none : forall sep l, ~ In sep l -> split_on sep l = [l].
Proof.
  induction l as [|c r IH]; intro H; [reflexivity|].
  cbn [split_on]. destruct (N.eqb c sep) eqn:E.
  - apply N.eqb_eq in E. subst. exfalso. apply H. left. reflexivity.
  - rewrite IH; [reflexivity|]. intro Hin. apply H. right. exact Hin.
Qed.

Lemma split_on_app_sep : forall sep l rest,
  ~ In sep l -> split_on sep (l ++ sep :: rest) = l :: split_on sep rest.
Proof.
  induction l as [|c r IH]; intros rest H.
  - cbn [app split_on]. rewrite N.eqb_refl. reflexivity.
  - cbn [app split_on]. destruct (N.eqb c sep) eqn:E.
    + apply N.eqb_eq in E. subst. exfalso. apply H. left. reflexivity.
    + rewrite IH; [reflexivity|]. intro Hin. apply H. right. exact Hin.
Qed.

Lemma split_on_no_sep : forall sep l, Forall (fun x => ~ In sep x) (split_on sep l).
Proof.
  induction l as [|c r IH]; cbn [split_on].
  - constructor; [intros []|constructor].
  - destruct (N.eqb c sep) eqn:E.
    + constructor; [intros []|exact IH].
    + destruct (split_on sep r) as [|cur rest]; [constructor; [|constructor]|].
      * intros [H|[]]. subst. rewrite N.eqb_refl in E. discriminate.
      * inversion IH as [|x y Hc Hr]; subst. constructor; [|exact Hr].
        intros [H|H]; [subst; rewrite N.eqb_refl in E; discriminate|contradiction].
Qed.

Lemma split_join : forall ls,
  ls <> [] -> Forall (fun x => ~ In 10 x) ls -> split_lines (join_lines ls) = ls.
Proof.
  unfold split_lines.
  induction ls as [|l r IH]; intros Hne Hall; [contradiction|].
  inversion Hall as [|x y Hl Hr]; subst.
  destruct r as [|l2 r2].
  - cbn [join_lines]. apply split_on_none. exact Hl.
  - change (join_lines (l :: l2 :: r2)) with (l ++ 10 :: join_lines (l2 :: r2)).
    rewrite split_on_app_sep; [|exact Hl].
    rewrite IH; [reflexivity|discriminate|exact Hr].
Qed.

Lemma Forall_concat : forall A (P : A -> Prop) (ls : list (list A)),
  Forall P (concat ls) -> Forall (Forall P) ls.
Proof.
  induction ls as [|l r IH]; intro H; [constructor|].
  cbn [concat] in H. apply Forall_app in H. destruct H as [H1 H2].
  constructor; [exact H1|apply IH; exact H2].
Qed.

(* the lines of the preamble and of every entry are newline-free *)
Lemma split_entries_lines_clean : forall t,
  Forall (fun x => ~ In 10 x) (fst (split_entries (split_lines t))) /\
  Forall (Forall (fun x => ~ In 10 x)) (snd (split_entries (split_lines t))).
Proof.
  intro t. pose proof (split_on_no_sep 10 t) as H. fold (split_lines t) in H.
  rewrite <- (split_entries_concat (split_lines t)) in H.
  apply Forall_app in H. destruct H as [H1 H2]. split; [exact H1|].
  apply Forall_concat. exact H2.
Qed.

Section Checkers.
  Variable classify : bytes -> option bytes -> bytes -> res bool.

  (* what the harness does: extract the preamble (if any) and every entry ALONE,
     as texts; the checker applied to the model's own outputs never fires *)
  Definition alone {D} (ex : bytes -> res (list D)) (ls : list bytes) : res (list D) :=
    match ls with
    | [] => Ok []
    | _ => ex (join_lines ls)
    end.

  Lemma alone_kbd : forall ls, Forall (fun x => ~ In 10 x) ls ->
    alone (extract_keyboards_with classify) ls = kbd_lines classify ls.
  Proof.
    intros [|l r] H; [reflexivity|].
    unfold alone, extract_keyboards_with. rewrite split_join; [reflexivity|discriminate|exact H].
  Qed.

  Lemma alone_dev : forall ls, Forall (fun x => ~ In 10 x) ls ->
    alone (extract_input_devices_with classify) ls = dev_lines classify ls.
  Proof.
    intros [|l r] H; [reflexivity|].
    unfold alone, extract_input_devices_with. rewrite split_join; [reflexivity|discriminate|exact H].
  Qed.

  Lemma map_ext_Forall : forall A B (f g : A -> B) (P : A -> Prop) l,
    (forall x, P x -> f x = g x) -> Forall P l -> map f l = map g l.
  Proof.
    intros A B f g P l Hfg. induction 1 as [|x r Hx Hr IH]; [reflexivity|].
    cbn [map]. rewrite (Hfg x Hx), IH. reflexivity.
  Qed.

  Theorem local_checker_kbd : forall t,
    local_ok beq_kdev (extract_keyboards_with classify t)
             (alone (extract_keyboards_with classify) (fst (split_entries (split_lines t))))
             (map (alone (extract_keyboards_with classify)) (snd (split_entries (split_lines t)))) = true.
  Proof.
    intro t. destruct (split_entries_lines_clean t) as [Hp He].
    destruct (local_kbd_text classify t) as [_ [_ [_ Heq]]]. cbv zeta in Heq.
    unfold local_ok. rewrite (alone_kbd _ Hp).
    assert (Hm : map (alone (extract_keyboards_with classify)) (snd (split_entries (split_lines t)))
                 = map (kbd_lines classify) (snd (split_entries (split_lines t)))).
    { apply (map_ext_Forall _ _ _ _ (Forall (fun x => ~ In 10 x))); [apply alone_kbd|exact He]. }
    rewrite Hm, <- Heq. apply beq_res_refl. apply beq_list_refl. apply beq_kdev_refl.
  Qed.

  Theorem local_checker_dev : forall t,
    local_ok beq_idev (extract_input_devices_with classify t)
             (alone (extract_input_devices_with classify) (fst (split_entries (split_lines t))))
             (map (alone (extract_input_devices_with classify)) (snd (split_entries (split_lines t)))) = true.
  Proof.
    intro t. destruct (split_entries_lines_clean t) as [Hp He].
    destruct (local_dev_text classify t) as [_ [_ [_ Heq]]]. cbv zeta in Heq.
    unfold local_ok. rewrite (alone_dev _ Hp).
    assert (Hm : map (alone (extract_input_devices_with classify)) (snd (split_entries (split_lines t)))
                 = map (dev_lines classify) (snd (split_entries (split_lines t)))).
    { apply (map_ext_Forall _ _ _ _ (Forall (fun x => ~ In 10 x))); [apply alone_dev|exact He]. }
    rewrite Hm, <- Heq. apply beq_res_refl. apply beq_list_refl. apply beq_idev_refl.
  Qed.

  Theorem agree_checker : forall t,
    agree_ok (extract_keyboards_with classify t) (extract_input_devices_with classify t) = true.
  Proof.
    intro t. unfold agree_ok. rewrite <- agree_text.
    apply beq_res_refl. apply beq_list_refl. apply beq_kdev_refl.
  Qed.
End Checkers.
