(* StrLemmas.v — equality tests on strings and key lists. *)
From TM Require Import Base Json RustOps Fancy Mapper Parser Convert.
From Coq Require Import Lia.

(* ---------- strings ---------- *)

Lemma str_eqb_refl : forall s, str_eqb s s = true.
Proof. induction s as [|c s IH]; cbn; [reflexivity|]. rewrite N.eqb_refl, IH. reflexivity. Qed.

Lemma str_eqb_eq : forall a b, str_eqb a b = true <-> a = b.
Proof.
  induction a as [|x a IH]; destruct b as [|y b]; cbn; split; intro H; try reflexivity; try discriminate.
  - apply andb_true_iff in H. destruct H as [H1 H2]. apply N.eqb_eq in H1. apply IH in H2. subst. reflexivity.
  - inversion H; subst. rewrite N.eqb_refl. cbn. apply IH. reflexivity.
Qed.

Lemma str_eqb_sym : forall a b, str_eqb a b = str_eqb b a.
Proof.
  intros a b. destruct (str_eqb a b) eqn:E.
  - apply str_eqb_eq in E. subst. symmetry. apply str_eqb_refl.
  - destruct (str_eqb b a) eqn:E2; [|reflexivity]. apply str_eqb_eq in E2. subst.
    rewrite str_eqb_refl in E. discriminate.
Qed.

Lemma keys_eqb_eq : forall a b, keys_eqb a b = true <-> a = b.
Proof.
  induction a as [|x a IH]; destruct b as [|y b]; cbn; split; intro H; try reflexivity; try discriminate.
  - apply andb_true_iff in H. destruct H as [H1 H2]. apply N.eqb_eq in H1. apply IH in H2. subst. reflexivity.
  - inversion H; subst. rewrite N.eqb_refl. cbn. apply IH. reflexivity.
Qed.

Lemma keys_eqb_refl : forall a, keys_eqb a a = true.
Proof. intro a. apply keys_eqb_eq. reflexivity. Qed.

