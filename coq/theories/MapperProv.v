(* MapperProv.v — where the events of a step come from (C05). *)
From TM Require Import Base ListFacts Mapper Monitors Trace TraceLemmas MapperInv MapperProps MapperFire.
From Coq Require Import Lia.

Definition ev_key (e : event) : key := match e with Pressed k | Released k => k end.

Lemma still_used_sub A B x :
  (forall m, In m B -> In m A) -> still_used A x = false -> still_used B x = false.
Proof.
  intros Hsub HA. destruct (still_used B x) eqn:E; [|reflexivity].
  apply still_used_out_of in E. destruct E as [m [Hm Hx]].
  assert (still_used A x = true) by (apply still_used_out_of; exists m; split; [apply Hsub; exact Hm | exact Hx]).
  congruence.
Qed.

Lemma all_released_In evs e : all_released evs -> In e evs -> exists x, e = Released x.
Proof.
  unfold all_released. rewrite forallb_forall. intros H He. specialize (H e He).
  destruct e as [x|x]; [discriminate | exists x; reflexivity].
Qed.

(* ---------- structural facts (no invariant needed) ---------- *)

Lemma remove_mapping_events s i r e :
  In e (fst (remove_mapping s i r)) ->
  exists x, e = Released x /\ In x (mout s) /\ still_used (remove_nth i (act s)) x = false.
Proof.
  unfold remove_mapping. cbn [fst]. intros He. apply in_map_iff in He. destruct He as [x [Ex Hx]].
  apply filter_In in Hx. destruct Hx as [Hx _]. apply filter_In in Hx. destruct Hx as [Hx Hu].
  exists x. split; [symmetry; exact Ex|]. split; [apply in_rev; exact Hx | apply negb_true_iff; exact Hu].
Qed.

Lemma remove_mapping_mout s i r x : In x (mout (snd (remove_mapping s i r))) -> In x (mout s).
Proof. unfold remove_mapping. cbn [snd]. sf. intros H. apply filter_In in H. tauto. Qed.

Lemma remove_mapping_act s i r : act (snd (remove_mapping s i r)) = remove_nth i (act s).
Proof. reflexivity. Qed.

Lemma release_loop_sub k : forall n s,
  (forall m, In m (act (snd (release_loop n k s))) -> In m (act s))
  /\ (forall x, In x (mout (snd (release_loop n k s))) -> In x (mout s)).
Proof.
  induction n as [|i IH]; intros s; cbn [release_loop]; [cbn [snd]; tauto|].
  destruct (nth_error (act s) i) as [m0|]; [|apply IH].
  destruct (fails_when_released (m_from m0) k); [|apply IH].
  pose proof (remove_mapping_mout s i k) as Hm. pose proof (remove_mapping_act s i k) as Ha.
  destruct (remove_mapping s i k) as [e1 s1]. cbn [snd] in *.
  specialize (IH s1). destruct (release_loop i k s1) as [e2 s2]. cbn [snd] in *. destruct IH as [IH1 IH2].
  split.
  - intros m Hin. apply IH1 in Hin. rewrite Ha in Hin. eapply In_remove_nth. exact Hin.
  - intros x Hin. apply Hm. apply IH2. exact Hin.
Qed.

(* ---------- release of one key: scope of the emitted releases (C05) ---------- *)

Lemma release_loop_scope L k : forall n s,
  Inv L s -> (n <= length (act s))%nat ->
  forall e, In e (fst (release_loop n k s)) ->
  exists x, e = Released x
    /\ (exists m, In m (act s) /\ In k (m_from m) /\ In x (m_to m))
    /\ still_used (act (snd (release_loop n k s))) x = false.
Proof.
  induction n as [|i IH]; intros s I Hn e He; cbn [release_loop] in *; [destruct He|].
  destruct (nth_error (act s) i) as [m0|] eqn:Em.
  2:{ apply nth_error_None in Em. lia. }
  unfold fails_when_released in *. destruct (mem k (m_from m0)) eqn:Ek.
  - pose proof (remove_mapping_inv L s i k I) as R. cbn zeta in R.
    pose proof (remove_mapping_events s i k) as Hev.
    destruct (remove_mapping s i k) as [e1 s1]. cbn [fst snd] in *.
    destruct R as [I1 [_ [_ [Hact1 _]]]].
    assert (Hl : (i <= length (act s1))%nat).
    { rewrite Hact1, remove_nth_firstn_skipn, app_length, firstn_length_le, skipn_length by lia. lia. }
    specialize (IH s1 I1 Hl).
    pose proof (release_loop_sub k i s1) as [Hsub _].
    destruct (release_loop i k s1) as [e2 s2]. cbn [fst snd] in *.
    apply in_app_or in He. destruct He as [He|He].
    + destruct (Hev e He) as [x [Ex [Hxm Hxu]]]. exists x. split; [exact Ex|]. split.
      * (* x is in mout, so an active mapping outputs it; none of the others does: it is m0 *)
        destruct (i_mout _ _ I x Hxm) as [m [Hm Hxt]].
        assert (Hm0 : m = m0 \/ In m (remove_nth i (act s))).
        { rewrite remove_nth_firstn_skipn.
          rewrite <- (firstn_skipn i (act s)) in Hm. rewrite (skipn_nth i (act s) m0 Em) in Hm.
          apply in_app_or in Hm. destruct Hm as [Hm|[Hm|Hm]].
          - right. apply in_or_app. left. exact Hm.
          - left. symmetry. exact Hm.
          - right. apply in_or_app. right. exact Hm. }
        destruct Hm0 as [E|Hin].
        -- subst m. exists m0. split; [eapply nth_error_In; exact Em|]. split; [apply mem_In; exact Ek | exact Hxt].
        -- exfalso. assert (still_used (remove_nth i (act s)) x = true) by (apply still_used_out_of; exists m; split; assumption).
           congruence.
      * eapply still_used_sub; [|exact Hxu]. intros m Hm. rewrite <- Hact1. apply Hsub. exact Hm.
    + destruct (IH e He) as [x [Ex [[m [Hm [Hk Hx]]] Hu]]]. exists x. split; [exact Ex|]. split; [|exact Hu].
      exists m. split; [|split; assumption]. rewrite Hact1 in Hm. eapply In_remove_nth. exact Hm.
  - apply IH; [exact I | lia | exact He].
Qed.

Lemma release_core_scope L k s :
  Inv L s ->
  forall e, In e (fst (release_core k s)) ->
  exists x, e = Released x
    /\ (x = k \/ exists m, In m (act s) /\ In k (m_from m) /\ In x (m_to m))
    /\ still_used (act (snd (release_core k s))) x = false.
Proof.
  intros I e He. unfold release_core in *.
  pose proof (release_loop_scope L k (length (act s)) s I (le_n _)) as Hsc.
  pose proof (release_loop_inv L k (length (act s)) s I (le_n _)) as R1. cbn zeta in R1.
  destruct (release_loop (length (act s)) k s) as [e1 s1]. cbn [fst snd] in *.
  destruct R1 as [I1 _].
  unfold release_pass in *. destruct (mem k (pass s1)) eqn:Ep; cbn [fst snd] in *; sf.
  - apply in_app_or in He. destruct He as [He|[He|[]]].
    + destruct (Hsc e He) as [x [Ex [Hm Hu]]]. exists x. split; [exact Ex|]. split; [right; exact Hm | exact Hu].
    + exists k. split; [symmetry; exact He|]. split; [left; reflexivity|].
      destruct (still_used (act s1) k) eqn:Eu; [|reflexivity]. exfalso.
      apply still_used_out_of in Eu. destruct Eu as [m [Hm Hk]].
      apply mem_In in Ep. exact (i_to_pass _ _ I1 m k Hm Hk Ep).
  - rewrite app_nil_r in He. destruct (Hsc e He) as [x [Ex [Hm Hu]]].
    exists x. split; [exact Ex|]. split; [right; exact Hm | exact Hu].
Qed.

Section S.
Variable is_action : key -> bool.

(* C05, release scope: a physical release lifts only the key itself and outputs
   of mappings that have it in their trigger, and never a key that a mapping
   remaining in effect outputs *)
Lemma release_scope L h k x :
  wf_layout L ->
  let s := state_of is_action L h in
  let r := step is_action L s (Released k) in
  In (Released x) (fst (fst r)) ->
  (x = k \/ exists m, In m L /\ In k (m_from m) /\ In x (m_to m))
  /\ still_used (act (snd r)) x = false.
Proof.
  intros Hwf. cbn zeta. destruct (run_facts is_action L h Hwf) as [I _].
  cbn [step]. destruct (mem k (inp (state_of is_action L h))); [|intros []].
  rewrite newly_release_core. cbn [fst snd]. intros He.
  destruct (release_core_scope L k _ I _ He) as [x' [Ex [Hsc Hu]]]. inversion Ex. subst x'.
  split; [|exact Hu]. destruct Hsc as [E|[m [Hm [Hk Hx]]]]; [left; exact E|].
  right. exists m. split; [apply (i_act _ _ I); exact Hm | split; assumption].
Qed.

End S.

(* ---------- provenance of every event of a step (C05, foreign keys) ---------- *)

Definition lay_out (L : layout) (x : key) : Prop := exists m, In m L /\ In x (m_to m).
Definition lay_from (L : layout) (x : key) : Prop := exists m, In m L /\ In x (m_from m).
Definition lay_abs (L : layout) (x : key) : Prop := exists m, In m L /\ In x (m_abs m).

Lemma act_lay_out L s x : Inv L s -> (exists m, In m (act s) /\ In x (m_to m)) -> lay_out L x.
Proof. intros I [m [Hm Hx]]. exists m. split; [apply (i_act _ _ I); exact Hm | exact Hx]. Qed.

Lemma release_absorbed_fold_events L : forall ks evs s,
  Inv L s ->
  forall e, In e (fst (fold_left release_absorbed_one ks (evs, s))) ->
  In e evs \/ exists x, e = Released x /\ (In x ks \/ exists m, In m (act s) /\ In x (m_to m)).
Proof.
  induction ks as [|k t IH]; intros evs s I e He; cbn [fold_left] in He; [left; exact He|].
  rewrite release_absorbed_one_core in He.
  pose proof (release_core_inv L k s I) as R. cbn zeta in R.
  pose proof (release_core_scope L k s I) as Hsc.
  destruct (release_core k s) as [e1 s1]. cbn [fst snd] in *.
  destruct R as [I1 [_ [_ [Hact1 _]]]].
  destruct (IH (evs ++ e1) s1 I1 e He) as [Hin|[x [Ex Hx]]].
  - apply in_app_or in Hin. destruct Hin as [Hin|Hin]; [left; exact Hin|].
    destruct (Hsc e Hin) as [x [Ex [[E|Hm] _]]].
    + right. exists x. split; [exact Ex|]. left. left. symmetry. exact E.
    + right. exists x. split; [exact Ex|]. right. destruct Hm as [m [Hm [_ Hxt]]]. exists m. split; assumption.
  - right. exists x. split; [exact Ex|]. destruct Hx as [Hx|[m [Hm Hxt]]].
    + left. right. exact Hx.
    + right. exists m. split; [|exact Hxt]. rewrite Hact1 in Hm. apply filter_In in Hm. tauto.
Qed.

Lemma release_absorbed_keys_events L s :
  Inv L s ->
  forall e, In e (fst (release_absorbed_keys s)) ->
  exists x, e = Released x /\ (In x (absd s) \/ exists m, In m (act s) /\ In x (m_to m)).
Proof.
  intros I e He. unfold release_absorbed_keys in He.
  destruct (release_absorbed_fold_events L (absd s) [] _ (Inv_set_aux L s [] None I) e He) as [[]|H].
  exact H.
Qed.

Section S2.
Variable is_action : key -> bool.

Lemma ram_events L s :
  Inv L s ->
  forall e, In e (fst (release_action_mappings is_action s)) ->
  exists x, e = Released x /\ exists m, In m (act s) /\ In x (m_to m).
Proof.
  intros I e He. unfold release_action_mappings in He. cbn [fst] in He.
  apply in_map_iff in He. destruct He as [x [Ex Hx]]. exists x. split; [symmetry; exact Ex|].
  apply ram_keys_sub in Hx. exact (i_mout _ _ I x Hx).
Qed.

Lemma flush_events L s k m :
  Inv L s ->
  forall e, In e (fst (flush_for_action is_action s k m)) ->
  exists x, e = Released x /\ (In x (absd s) \/ exists m', In m' (act s) /\ In x (m_to m')).
Proof.
  intros I e He. unfold flush_for_action in He. destruct (is_action_mapping is_action m); [|destruct He].
  pose proof (release_action_mappings_inv is_action L s I) as R1. cbn zeta in R1.
  pose proof (ram_events L s I) as Hev1.
  destruct (release_action_mappings is_action s) as [e1 s1]. cbn [fst snd] in *.
  destruct R1 as [I1 [_ [_ [Hact1 [_ [_ [[A1 _] _]]]]]]].
  destruct (should_absorb s1 k).
  - pose proof (release_absorbed_keys_events L s1 I1) as Hev2.
    destruct (release_absorbed_keys s1) as [e2 s2]. cbn [fst] in *.
    apply in_app_or in He. destruct He as [He|He].
    + destruct (Hev1 e He) as [x [Ex Hx]]. exists x. split; [exact Ex | right; exact Hx].
    + destruct (Hev2 e He) as [x [Ex Hx]]. exists x. split; [exact Ex|]. rewrite A1, Hact1 in Hx. exact Hx.
  - cbn [fst] in He. destruct (Hev1 e He) as [x [Ex Hx]]. exists x. split; [exact Ex | right; exact Hx].
Qed.

Lemma consume_events s m e :
  In e (fst (consume_pass s m)) -> exists x, e = Released x /\ In x (m_from m).
Proof.
  unfold consume_pass. cbn [fst]. intros He. apply in_map_iff in He. destruct He as [x [Ex Hx]].
  exists x. split; [symmetry; exact Ex|]. apply filter_In in Hx. destruct Hx as [_ Hx].
  apply andb_true_iff in Hx. destruct Hx as [Hx Hn]. apply negb_true_iff in Hn. rewrite Hn, orb_false_r in Hx.
  apply mem_In. exact Hx.
Qed.

Lemma press_out_fold_events : forall ts evs s e,
  In e (fst (fold_left (press_out is_action) ts (evs, s))) -> In e evs \/ In (ev_key e) ts.
Proof.
  induction ts as [|t ts IH]; intros evs s e He; cbn [fold_left] in He; [left; exact He|].
  assert (Hone : exists e1 s1, press_out is_action (evs, s) t = (evs ++ e1, s1) /\ forall e', In e' e1 -> ev_key e' = t).
  { unfold press_out. destruct (is_action t).
    - destruct (mem t (mout s)); [|destruct (mem t (pass s))].
      + eexists; eexists; split; [reflexivity|]. intros e' [E|[E|[]]]; subst; reflexivity.
      + eexists; eexists; split; [reflexivity|]. intros e' [E|[E|[]]]; subst; reflexivity.
      + eexists; eexists; split; [reflexivity|]. intros e' [E|[]]; subst; reflexivity.
    - destruct (negb (mem t (mout s)) && negb (mem t (pass s))).
      + eexists; eexists; split; [reflexivity|]. intros e' [E|[]]; subst; reflexivity.
      + exists [], s. rewrite app_nil_r. split; [reflexivity|]. intros e' []. }
  destruct Hone as [e1 [s1 [Eq Hk]]]. rewrite Eq in He.
  destruct (IH _ _ _ He) as [Hin|Hin]; [|right; right; exact Hin].
  apply in_app_or in Hin. destruct Hin as [Hin|Hin]; [left; exact Hin|].
  right. left. symmetry. apply Hk. exact Hin.
Qed.

Lemma raak_events s e :
  In e (fst (release_all_action_keys is_action s)) -> exists x, e = Released x /\ is_action x = true.
Proof.
  unfold release_all_action_keys. cbn [fst]. intros He. apply in_map_iff in He. destruct He as [x [Ex Hx]].
  exists x. split; [symmetry; exact Ex|]. apply in_app_or in Hx. destruct Hx as [Hx|Hx]; apply filter_In in Hx; tauto.
Qed.

Lemma add_new_mapping_events L s k m :
  Inv L s ->
  forall e, In e (fst (fst (add_new_mapping is_action s k m))) ->
  (exists x, e = Released x /\ (In x (absd s) \/ (exists m', In m' (act s) /\ In x (m_to m')) \/ In x (m_from m)))
  \/ In (ev_key e) (m_to m)
  \/ (exists x, e = Released x /\ is_action x = true /\ m_repeat m <> RNormal).
Proof.
  intros I e He. unfold add_new_mapping in He.
  pose proof (flush_events L s k m I) as Hev0.
  destruct (flush_for_action is_action s k m) as [e0 s0].
  pose proof (consume_events s0 m) as Hev1.
  destruct (consume_pass s0 m) as [e1 s1].
  pose proof (press_out_fold_events (m_to m) [] s1) as Hev2.
  destruct (fold_left (press_out is_action) (m_to m) ([], s1)) as [e2 s2]. cbn [fst] in *.
  assert (Hmain : In e (e0 ++ e1 ++ e2) ->
    (exists x, e = Released x /\ (In x (absd s) \/ (exists m', In m' (act s) /\ In x (m_to m')) \/ In x (m_from m)))
    \/ In (ev_key e) (m_to m)).
  { intros H. apply in_app_or in H. destruct H as [H|H].
    - destruct (Hev0 e H) as [x [Ex [Hx|Hx]]]; left; exists x; split; auto.
    - apply in_app_or in H. destruct H as [H|H].
      + destruct (Hev1 e H) as [x [Ex Hx]]. left. exists x. split; auto.
      + destruct (Hev2 e H) as [[]|Hk]. right. exact Hk. }
  destruct (m_repeat m) as [| |ks d iv] eqn:Er; cbn [fst] in He.
  - destruct (Hmain He) as [H|H]; [left; exact H | right; left; exact H].
  - match type of He with context [release_all_action_keys is_action ?S] =>
      pose proof (raak_events S e) as Hr; destruct (release_all_action_keys is_action S) as [e3 s6] end.
    cbn [fst] in *.
    apply in_app_or in He. destruct He as [He|He].
    + destruct (Hmain He) as [H|H]; [left; exact H | right; left; exact H].
    + destruct (Hr He) as [x [Ex Ha]]. right. right. exists x. split; [exact Ex|]. split; [exact Ha | discriminate].
  - match type of He with context [release_all_action_keys is_action ?S] =>
      pose proof (raak_events S e) as Hr; destruct (release_all_action_keys is_action S) as [e3 s6] end.
    cbn [fst] in *.
    apply in_app_or in He. destruct He as [He|He].
    + destruct (Hmain He) as [H|H]; [left; exact H | right; left; exact H].
    + destruct (Hr He) as [x [Ex Ha]]. right. right. exists x. split; [exact Ex|]. split; [exact Ha | discriminate].
Qed.

(* every event of a press step *)
Lemma press_event_class L s k e :
  Inv L s -> mem k (inp s) = false ->
  In e (fst (fst (step is_action L s (Pressed k)))) ->
  match e with
  | Pressed x => x = k \/ lay_out L x
  | Released x =>
    In x (absd s) \/ lay_out L x \/ lay_from L x
    \/ (is_action x = true /\ exists m, fired L s k = Some m /\ m_repeat m <> RNormal)
  end.
Proof.
  intros I Hk He. cbn [step] in He. rewrite Hk in He.
  destruct (fired L s k) as [m|] eqn:Ef.
  - rewrite (newly_press_fired_some is_action L s k m Hk Ef) in He. cbn [fst] in He.
    destruct (fired_some_facts is_action L s k m Hk Ef) as [HmL _].
    pose proof (add_new_mapping_events L (pre_press s k) k m (Inv_pre_press L s k I) e He) as Hc.
    destruct Hc as [[x [Ex Hx]]|[Hto|[x [Ex [Ha Hn]]]]].
    + subst e. destruct Hx as [Hx|[Hx|Hx]].
      * left. unfold pre_press in Hx. sf. apply In_remove_all in Hx. tauto.
      * right. left. eapply act_lay_out; [exact I|]. exact Hx.
      * right. right. left. exists m. split; assumption.
    + destruct e as [x|x]; cbn [ev_key] in Hto.
      * right. exists m. split; assumption.
      * right. left. exists m. split; assumption.
    + subst e. right. right. right. split; [exact Ha|]. exists m. split; [reflexivity | exact Hn].
  - rewrite (fired_spec L s k Hk) in Ef. unfold newly_press in He. cbn zeta in He. fold (pre_press s k) in He.
    rewrite Ef in He.
    change (act (pre_press s k)) with (act s) in He. change (pass (pre_press s k)) with (pass s) in He.
    destruct (existsb (mentions k) (act s)); [destruct He|].
    destruct (mem k (pass s)); [destruct He|].
    destruct (is_action k).
    + pose proof (ram_events L (pre_press s k) (Inv_pre_press L s k I)) as Hev1.
      pose proof (release_action_mappings_inv is_action L _ (Inv_pre_press L s k I)) as R1. cbn zeta in R1.
      destruct (release_action_mappings is_action (pre_press s k)) as [ea sa]. cbn [fst snd] in *.
      destruct R1 as [Ia [_ [_ [Hacta [_ [_ [[Aa _] _]]]]]]].
      pose proof (release_absorbed_keys_events L sa Ia) as Hev2.
      destruct (release_absorbed_keys sa) as [eb sb]. cbn [fst] in *.
      apply in_app_or in He. destruct He as [He|[He|[]]].
      * apply in_app_or in He. destruct He as [He|He].
        -- destruct (Hev1 e He) as [x [Ex Hx]]. subst e. right. left. eapply act_lay_out; [exact I|exact Hx].
        -- destruct (Hev2 e He) as [x [Ex Hx]]. subst e. rewrite Aa, Hacta in Hx. destruct Hx as [Hx|Hx].
           ++ left. unfold pre_press in Hx. sf. apply In_remove_all in Hx. tauto.
           ++ right. left. eapply act_lay_out; [exact I|exact Hx].
      * subst e. left. reflexivity.
    + cbn [fst app] in He. destruct He as [He|[]]. subst e. left. reflexivity.
Qed.

End S2.
