(* LoopSim.v — the extracted transcript checker never fires on the model:
   a simulation between the loop's (point, local state) and the monitor's ghost
   state, preserved by every answered call.

   The ghost mapper is coupled with the loop's mapper by `aeq` (MapperRefire):
   before any tablet event they are equal; after a tablet event the ghost
   restarts from `init` while the loop continues from the state after
   release_all, which is `aeq` to `init`. *)
From TM Require Import Base ListFacts Mapper Monitors Trace TraceLemmas MapperInv MapperProps MapperRefire
                       Loop LoopEnv LoopMonitors LoopSpec LoopLemmas LoopStep LoopSends LoopTablet
                       LoopEnvLemmas LoopTimer.
From Coq Require Import Lia.

Lemma list_eqb_ev_refl : forall l, list_eqb ev_eqb l l = true.
Proof.
  induction l as [|e l IH]; [reflexivity|]. cbn [list_eqb]. rewrite IH.
  destruct e; cbn [ev_eqb]; rewrite N.eqb_refl; reflexivity.
Qed.

Lemma timeout_ok_exact tol last nw :
  (0 <= tol)%Z -> timeout_ok tol last last nw nw (timeout_of nw last) = true.
Proof.
  intros Htol. unfold timeout_ok, timeout_of. destruct (nw <=? last)%Z eqn:E.
  - apply Z.leb_le in E.
    assert (H0 : ((0 <=? ns_per_ms) && (ns_per_ms <=? ns_per_ms))%Z = true) by reflexivity. rewrite H0. cbn [andb].
    assert (H : (nw - tol <=? last)%Z = true) by (apply Z.leb_le; lia). rewrite H. reflexivity.
  - apply Z.leb_gt in E. apply orb_true_iff. right.
    assert (H1 : (last <? nw)%Z = true) by (apply Z.ltb_lt; lia).
    assert (H2 : (nw - last - tol <=? nw - last)%Z = true) by (apply Z.leb_le; lia).
    assert (H3 : (nw - last <=? nw - last + tol)%Z = true) by (apply Z.leb_le; lia).
    rewrite H1, H2, H3. reflexivity.
Qed.

Definition is_clock (c : call) : bool := match c with CNow | CSleep _ => true | _ => false end.

Lemma annotate_cons last c cs r rs :
  annotate last (c :: cs) (r :: rs) =
  if is_clock c then annotate (match c, r with CNow, RNow t => t | _, _ => last end) cs rs
  else mkT c r last last :: annotate last cs rs.
Proof. destruct c, r; reflexivity. Qed.

Lemma annotate_nil_l last rs : annotate last [] rs = [].
Proof. reflexivity. Qed.

Lemma annotate_nil_r last cs : annotate last cs [] = [].
Proof. destruct cs; reflexivity. Qed.

(* ---------- the coupling ---------- *)

Definition gr_of (wr : working_repeat) : option grep :=
  match wr with Idle => None | Repeating ks nw iv => Some (mkGR ks nw nw iv) end.

(* the ghost's pending repeat once an armed repeat is fixed at clock reading `last` *)
Definition eff_rep (last : Z) (g : ghost) : option grep :=
  match g_arm g with
  | Some (ks, d, i) =>
    Some (mkGR ks (last + as_u64 d * ns_per_ms) (last + as_u64 d * ns_per_ms) i)
  | None => g_rep g
  end.

Section S.
Variable is_action : key -> bool.
Variable L : layout.
Variable tol : Z.
Hypothesis Hwf : wf_layout L.
Hypothesis Htol : (0 <= tol)%Z.

Notation resume := (Loop.resume is_action L).
Notation run_from := (Loop.run_from is_action L).
Notation run := (Loop.run is_action L).
Notation step := (Mapper.step is_action L).
Notation release_all := (Mapper.release_all is_action L).
Notation lgo := (LoopStep.lgo is_action L).
Notation gstep := (LoopMonitors.gstep is_action L tol).
Notation gwalk := (LoopMonitors.gwalk is_action L tol).

Definition held_ok (p : point) (st : lstate) (g : ghost) : Prop :=
  match p with
  | PSendStep evs _ _ => tr_ok (g_held g) evs (held_of (l_mapper st))
  | PSendTab evs _ => tr_ok (g_held g) evs (held_of (l_mapper st)) /\ held_of (l_mapper st) = []
  | PSendChord evs =>
    seteq (g_held g) (held_of (l_mapper st)) /\ exists ks, evs = chord_events (l_mapper st) ks
  | _ => seteq (g_held g) (held_of (l_mapper st))
  end.

Definition prev_ok (p : point) (g : ghost) : Prop :=
  match p with
  | PSendStep evs _ _ => g_prev g = PvKey evs
  | PSendTab evs _ => exists on, g_prev g = PvTab false on
  | PSendChord evs => g_prev g = PvTick (Some evs)
  | _ => g_must g = None
  end.

Definition timer_ok (last : Z) (p : point) (st : lstate) (g : ghost) : Prop :=
  match p with
  | PSendStep _ (RRRepeating ks d i) _ | PNowStep ks d i _ => g_arm g = Some (ks, d, i)
  | PSendStep _ RRDisabled _ => g_arm g = None /\ g_rep g = None
  | PSendStep _ RRNoChange _ | PKbd _ => eff_rep last g = gr_of (l_wr st)
  | PSendChord _ => g_arm g = None /\ g_rep g = gr_of (advanced (l_wr st))
  | PPoll to =>
    g_arm g = None /\ g_rep g = gr_of (l_wr st)
    /\ to = match l_wr st with Idle => None | Repeating _ nw _ => Some (timeout_of nw last) end
  | _ => g_arm g = None /\ g_rep g = gr_of (l_wr st)
  end.

Record coupled (last : Z) (p : point) (st : lstate) (g : ghost) : Prop := mkC {
  c_inv_g : Inv L (g_ms g);
  c_inv_l : Inv L (l_mapper st);
  c_aeq : aeq (g_ms g) (l_mapper st);
  c_tab : g_tab g = l_tablet st;
  c_ended : g_ended g = false;
  c_erred : g_erred g = false;
  c_notif : incl (g_notified g) (devs_of p);
  c_tabinp : l_tablet st = true -> inp (l_mapper st) = [];
  c_held : held_ok p st g;
  c_timer : timer_ok last p st g;
  c_prev : prev_ok p g
}.

Lemma coupled_init t0 : coupled t0 PRegister linit ginit.
Proof.
  constructor; cbn.
  - apply Inv_init.
  - apply Inv_init.
  - apply aeq_refl.
  - reflexivity.
  - reflexivity.
  - reflexivity.
  - intros d [].
  - discriminate.
  - apply seteq_refl.
  - split; reflexivity.
  - reflexivity.
Qed.

Ltac gsimpl :=
  cbn [LoopMonitors.gstep resolve_arm with_prev te_call te_resp te_lo te_hi
       g_ms g_since_tab g_tab g_held g_rep g_arm g_prev g_must g_notified g_ended g_erred
       gr_keys gr_wlo gr_whi gr_iv fst snd pending flag app is_nil judge_send].

(* ---------- (A) no clause fires at a coupled state, whatever the answer ---------- *)

Lemma quiet last p st g r :
  coupled last p st g -> is_clock (pending p) = false ->
  snd (gstep g (mkT (pending p) r last last)) = [].
Proof.
  intros HC Hclk.
  destruct g as [ms since tab held rep arm prev must notif ended erred].
  destruct HC as [HIg HIl Haeq Htab Hend Herr Hnot Htabinp Hheld Htimer Hprev].
  cbn [g_ms g_since_tab g_tab g_held g_rep g_arm g_prev g_must g_notified g_ended g_erred] in *.
  subst ended erred.
  destruct p; try discriminate Hclk;
    cbn [pending held_ok prev_ok timer_ok devs_of g_ms g_since_tab g_tab g_held g_rep g_arm g_prev g_must g_notified g_ended g_erred] in *.
  - (* PRegister *) subst must. destruct Htimer as [-> _]. destruct r; reflexivity.
  - (* PPoll *) subst must. destruct Htimer as [-> [-> Hto]].
    apply incl_l_nil in Hnot. subst notif.
    destruct (l_wr st) as [|ks nw iv]; subst timeout; cbn [gr_of].
    + destruct r; reflexivity.
    + assert (E : snd (gstep (mkG ms since tab held (Some (mkGR ks nw nw iv)) None prev None [] false false)
                          (mkT (CPoll (Some (timeout_of nw last))) r last last))
                  = flag (negb (timeout_ok tol last last nw nw (timeout_of nw last))) L_C11_schedule).
      { destruct r; reflexivity. }
      rewrite E. rewrite (timeout_ok_exact tol last nw Htol). reflexivity.
  - (* PSendChord *) destruct Htimer as [-> _]. subst prev.
    assert (E : snd (gstep (mkG ms since tab held rep None (PvTick (Some evs)) must notif false false)
                          (mkT (CSend evs) r last last))
                = flag (negb (list_eqb ev_eqb evs evs)) L_C11_chord).
    { destruct must, r; reflexivity. }
    rewrite E, list_eqb_ev_refl. reflexivity.
  - (* PKbd *) subst must. destruct arm as [[[ks0 d0] i0]|].
    + destruct r as [| | |[| |ev]| |]; try reflexivity. gsimpl. destruct tab; [reflexivity|].
      destruct (step ms ev) as [[out rp] ms']. reflexivity.
    + destruct r as [| | |[| |ev]| |]; try reflexivity. gsimpl. destruct tab; [reflexivity|].
      destruct (step ms ev) as [[out rp] ms']. reflexivity.
  - (* PSendStep *) subst prev.
    assert (E : snd (gstep (mkG ms since tab held rep arm (PvKey evs) must notif false false)
                          (mkT (CSend evs) r last last))
                = flag (negb (list_eqb ev_eqb evs evs))
                       (sends_clause (mkG ms since tab held rep arm (PvKey evs) must notif false false))).
    { destruct arm as [[[ks0 d0] i0]|], must, r; reflexivity. }
    rewrite E, list_eqb_ev_refl. reflexivity.
  - (* PTab *) subst must. destruct Htimer as [-> _].
    destruct r as [| | | |[| |on]|]; reflexivity.
  - (* PSendTab *) destruct Hprev as [on ->]. destruct Htimer as [-> _]. destruct Hheld as [[_ Hs] Hnil].
    rewrite Hnil in Hs. apply seteq_nil_l in Hs.
    assert (E : snd (gstep (mkG ms since tab held rep None (PvTab false on) must notif false false)
                          (mkT (CSend evs) r last last))
                = flag (negb (is_nil (apply_evs held evs)))
                       (if on then L_C12_on_releases_all else L_C12_off_fresh)).
    { destruct must, r; reflexivity. }
    rewrite E, Hs. reflexivity.
Qed.

(* ---------- (B) the coupling is preserved ---------- *)

Lemma In_drop_dev d x l : In d (drop_dev x l) -> In d l /\ d <> x.
Proof.
  unfold drop_dev. intros H. apply filter_In in H. destruct H as [H1 H2]. split; [exact H1|].
  intros ->. destruct x; discriminate.
Qed.

Lemma held_ok_not_send p st g :
  not_send p -> (held_ok p st g <-> seteq (g_held g) (held_of (l_mapper st))).
Proof. destruct p; cbn; intros H; try contradiction; tauto. Qed.

Lemma prev_ok_not_send p g : not_send p -> (prev_ok p g <-> g_must g = None).
Proof. destruct p; cbn; intros H; try contradiction; tauto. Qed.

Definition ghost_same (g g' : ghost) : Prop :=
  g_ms g' = g_ms g /\ g_tab g' = g_tab g /\ g_held g' = g_held g
  /\ g_ended g' = g_ended g /\ g_erred g' = g_erred g.

Definition st_same (st st' : lstate) : Prop :=
  l_mapper st' = l_mapper st /\ l_tablet st' = l_tablet st.

Lemma coupled_same last last' p p' st st' g g' :
  coupled last p st g -> ghost_same g g' -> st_same st st' ->
  incl (g_notified g') (devs_of p') ->
  not_send p -> not_send p' -> g_must g' = None ->
  timer_ok last' p' st' g' ->
  coupled last' p' st' g'.
Proof.
  intros HC [Hms [Htab [Hheld [Hend Herr]]]] [Hm Ht] Hnot Hns Hns' Hmust Htimer.
  destruct HC as [HIg HIl Haeq Htab0 Hend0 Herr0 _ Htabinp Hheld0 _ _].
  constructor.
  - rewrite Hms. exact HIg.
  - rewrite Hm. exact HIl.
  - rewrite Hms, Hm. exact Haeq.
  - rewrite Htab, Ht. exact Htab0.
  - rewrite Hend. exact Hend0.
  - rewrite Herr. exact Herr0.
  - exact Hnot.
  - rewrite Hm, Ht. exact Htabinp.
  - apply (held_ok_not_send p' st' g' Hns'). rewrite Hheld, Hm. apply (held_ok_not_send p st g Hns). exact Hheld0.
  - exact Htimer.
  - apply (prev_ok_not_send p' g' Hns'). exact Hmust.
Qed.

Lemma timer_top last st g p' :
  top_point st p' -> g_arm g = None -> g_rep g = gr_of (l_wr st) -> timer_ok last p' st g.
Proof.
  intros [[Hw ->]|[ks [nw [iv [Hw ->]]]]] Ha Hr; cbn [timer_ok].
  - rewrite Hw in *. repeat split; assumption.
  - split; assumption.
Qed.

Lemma eff_rep_none last g : g_arm g = None -> eff_rep last g = g_rep g.
Proof. unfold eff_rep. intros ->. reflexivity. Qed.

Lemma timer_visit last rest st g p' :
  visit_point rest st p' -> g_arm g = None -> g_rep g = gr_of (l_wr st) -> timer_ok last p' st g.
Proof.
  destruct rest as [|[|] rest]; cbn [visit_point].
  - apply timer_top.
  - intros -> Ha Hr. cbn [timer_ok]. rewrite (eff_rep_none last g Ha). exact Hr.
  - intros -> Ha Hr. cbn [timer_ok]. split; assumption.
Qed.

Lemma timer_adv last st g p' st' :
  adv_next st p' st' -> g_arm g = None -> g_rep g = gr_of (advanced (l_wr st)) -> timer_ok last p' st' g.
Proof.
  unfold adv_next. destruct (l_wr st) as [|ks nw iv] eqn:Hw.
  - intros [Htop ->] Ha Hr. apply timer_top; [exact Htop | exact Ha | rewrite Hw; exact Hr].
  - intros [nw' [Hn [-> ->]]] Ha Hr. cbn [timer_ok l_wr set_wr]. split; [exact Ha|].
    rewrite Hr. cbn [advanced gr_of]. rewrite (instant_add_ms_val _ _ _ Hn). reflexivity.
Qed.

Lemma key_step_facts ms l e evs rp s' :
  Inv L ms -> Inv L l -> aeq ms l -> step l e = (evs, rp, s') ->
  exists ms', step ms e = (evs, rp, ms') /\ Inv L ms' /\ Inv L s' /\ aeq ms' s'
              /\ tr_ok (held_of l) evs (held_of s').
Proof.
  intros HIg HIl Haeq Hs.
  destruct (step_aeq is_action L ms l e Hwf HIg HIl Haeq) as [H1 H2].
  pose proof (step_inv is_action L ms e Hwf HIg) as Rg. cbn zeta in Rg.
  pose proof (step_inv is_action L l e Hwf HIl) as Rl. cbn zeta in Rl.
  rewrite Hs in H1, H2, Rl. cbn [fst snd] in H1, H2, Rl.
  destruct (step ms e) as [[out rp'] ms'] eqn:Eg. cbn [fst snd] in H1, H2, Rg.
  inversion H1; subst out rp'. exists ms'. split; [reflexivity|].
  destruct Rg as [HIg' _]. destruct Rl as [HIl' [T _]].
  split; [exact HIg'|]. split; [exact HIl'|]. split; [exact H2 | exact T].
Qed.

Lemma gstep_key ms since held rep arm prev notif e last evs rp ms' wr :
  step ms e = (evs, rp, ms') ->
  eff_rep last (mkG ms since false held rep arm prev None notif false false) = gr_of wr ->
  exists must',
    fst (gstep (mkG ms since false held rep arm prev None notif false false)
               (mkT CNextKbd (RKbd (NOne e)) last last))
    = mkG ms' since false held
          (match rp with RRNoChange => gr_of wr | _ => None end)
          (match rp with RRRepeating ks d i => Some (ks, d, i) | _ => None end)
          (PvKey evs) must' notif false false
    /\ (evs = [] -> must' = None).
Proof.
  intros Hs He. unfold eff_rep in He. cbn [g_arm g_rep] in He.
  destruct arm as [[[ks0 d0] i0]|]; gsimpl; rewrite Hs; gsimpl; rewrite <- He;
    (eexists; split; [destruct rp; reflexivity | intros ->; reflexivity]).
Qed.

Ltac gproj := cbn [g_ms g_since_tab g_tab g_held g_rep g_arm g_prev g_must g_notified g_ended g_erred].
Ltac gproj_in H := cbn [timer_ok prev_ok held_ok devs_of g_ms g_since_tab g_tab g_held g_rep g_arm g_prev g_must g_notified g_ended g_erred] in H.

Ltac facts HC :=
  pose proof (c_timer _ _ _ _ HC) as Htimer; gproj_in Htimer;
  pose proof (c_prev _ _ _ _ HC) as Hprev; gproj_in Hprev;
  pose proof (c_notif _ _ _ _ HC) as Hnot; gproj_in Hnot;
  pose proof (c_held _ _ _ _ HC) as Hheld; gproj_in Hheld;
  pose proof (c_tab _ _ _ _ HC) as Htab; gproj_in Htab;
  pose proof (c_ended _ _ _ _ HC) as Hend; gproj_in Hend;
  pose proof (c_erred _ _ _ _ HC) as Herr; gproj_in Herr.

Ltac gs := gsimpl; unfold ghost_same; gproj; repeat split; reflexivity.
Ltac ss := unfold st_same; split; reflexivity.

Lemma sim_step last p st g r p' st' :
  coupled last p st g -> lgo p st r p' st' ->
  coupled (match pending p, r with CNow, RNow t => t | _, _ => last end) p' st'
          (if is_clock (pending p) then g else fst (gstep g (mkT (pending p) r last last))).
Proof.
  intros HC Hgo.
  destruct g as [ms since tab held rep arm prev must notif ended erred].
  destruct Hgo as [ st p' Htop | st now ks nw iv Hw | st now Hw | to st p' Hw Htop | to st ks nw iv Hw Ht
                 | to st ks nw iv p' st' Hw Ht Hc Hadv | to st ks nw iv evs Hw Ht Hc Hne
                 | to st p' Hrc Htop | to st ms0 Hrc Hsl | to st ds p' Hvis
                 | evs st p' st' Hadv | ms0 st p' Htop | rest st p' Hvis | rest st e Ht
                 | rest st e rp s' p' st' Ht Hs Hnext | rest st e evs rp s' Ht Hs Hne
                 | evs rp rest st p' st' Hnext | ks d i rest st now nw Hadd
                 | rest st p' Hvis | rest st on s' Hr | rest st on evs s' Hr Hne | evs rest st ];
    cbn [pending is_clock]; facts HC; subst ended erred.
  - (* register *)
    destruct Htimer as [-> Hrep]. subst must.
    eapply coupled_same; [exact HC | gs | ss | | exact I | eapply top_point_not_send; exact Htop | reflexivity | ].
    + gsimpl. rewrite (top_point_devs _ _ Htop). exact Hnot.
    + gsimpl. apply timer_top; [exact Htop | reflexivity | exact Hrep].
  - (* now_poll *)
    destruct Htimer as [-> Hrep]. subst must.
    eapply coupled_same; [exact HC | gs | ss | exact Hnot | exact I | exact I | reflexivity | ].
    cbn [timer_ok g_arm g_rep]. rewrite Hw in *. repeat split; assumption.
  - (* now_poll_idle *)
    destruct Htimer as [-> Hrep]. subst must.
    eapply coupled_same; [exact HC | gs | ss | exact Hnot | exact I | exact I | reflexivity | ].
    cbn [timer_ok g_arm g_rep]. rewrite Hw in *. repeat split; assumption.
  - (* tick_idle *)
    destruct Htimer as [-> [Hrep _]]. subst must. rewrite Hw in Hrep. cbn [gr_of] in Hrep. subst rep.
    eapply coupled_same; [exact HC | gs | ss | | exact I | eapply top_point_not_send; exact Htop | reflexivity | ].
    + gsimpl. rewrite (top_point_devs _ _ Htop). exact Hnot.
    + gsimpl. apply timer_top; [exact Htop | reflexivity | rewrite Hw; reflexivity].
  - (* tick_tablet *)
    destruct Htimer as [-> [Hrep _]]. subst must. rewrite Hw in Hrep. cbn [gr_of] in Hrep. subst rep.
    rewrite Ht in Htab. subst tab.
    eapply coupled_same; [exact HC | gs | ss | | exact I | exact I | reflexivity | ].
    + gsimpl. exact Hnot.
    + gsimpl. cbn [timer_ok l_wr set_wr g_arm g_rep gr_of]. repeat split.
  - (* tick_quiet *)
    destruct Htimer as [-> [Hrep _]]. subst must. rewrite Hw in Hrep. cbn [gr_of] in Hrep. subst rep.
    rewrite Ht in Htab. subst tab.
    assert (Hch : chord_of held ks = []).
    { rewrite <- (chord_events_chord_of (l_mapper st) ks held Hheld). exact Hc. }
    destruct (adv_next_same _ _ _ Hadv) as [Hns' [Hm' Ht']].
    gsimpl. rewrite Hch. gsimpl.
    eapply coupled_same; [exact HC | gs | split; assumption | | exact I | exact Hns' | reflexivity | ].
    + gproj. pose proof Hadv as Hadv'.
      unfold adv_next in Hadv'. rewrite Hw in Hadv'. destruct Hadv' as [nw' [_ [-> _]]]. exact Hnot.
    + apply (timer_adv last st _ p' st' Hadv); gproj; [reflexivity|].
      rewrite Hw. reflexivity.
  - (* tick_chord *)
    destruct Htimer as [-> [Hrep _]]. subst must. rewrite Hw in Hrep. cbn [gr_of] in Hrep. subst rep.
    rewrite Ht in Htab. subst tab.
    assert (Hch : chord_of held ks = evs).
    { rewrite <- (chord_events_chord_of (l_mapper st) ks held Hheld). exact Hc. }
    gsimpl. rewrite Hch.
    destruct HC as [HIg HIl Haeq _ _ _ _ Htabinp _ _ _]. gproj_in HIg. gproj_in Haeq.
    constructor; gproj.
    + exact HIg.
    + exact HIl.
    + exact Haeq.
    + symmetry; exact Ht.
    + reflexivity.
    + reflexivity.
    + exact Hnot.
    + exact Htabinp.
    + cbn [held_ok g_held]. split; [exact Hheld|]. exists ks. symmetry; exact Hc.
    + cbn [timer_ok g_arm g_rep]. rewrite Hw. split; reflexivity.
    + reflexivity.
  - (* intr_first *)
    destruct Htimer as [-> [Hrep _]]. subst must.
    gsimpl.
    eapply coupled_same; [exact HC | gs | ss | | exact I | eapply top_point_not_send; exact Htop | reflexivity | ].
    + gproj. rewrite (top_point_devs _ _ Htop). exact Hnot.
    + apply timer_top; [apply top_point_set_restart; exact Htop | reflexivity | exact Hrep].
  - (* intr_sleep *)
    destruct Htimer as [-> [Hrep _]]. subst must.
    gsimpl.
    eapply coupled_same; [exact HC | gs | ss | exact Hnot | exact I | exact I | reflexivity | ].
    cbn [timer_ok g_arm g_rep l_wr set_restart]. split; [reflexivity | exact Hrep].
  - (* devs *)
    destruct Htimer as [-> [Hrep _]]. subst must.
    gsimpl.
    eapply coupled_same; [exact HC | gs | ss | | exact I | eapply visit_point_not_send; exact Hvis | reflexivity | ].
    + gproj. exact (visit_point_devs _ _ _ Hvis).
    + apply (timer_visit last ds (set_restart st 0%Z)); gproj; [|reflexivity | exact Hrep].
      destruct ds as [|[|] ds]; cbn [visit_point] in *; try assumption.
  - (* chord_sent *)
    destruct Htimer as [-> Hrep]. destruct Hheld as [Hseteq [ks Hevs]].
    destruct (adv_next_same _ _ _ Hadv) as [Hns' [Hm' Ht']].
    assert (Happ : apply_evs held evs = held).
    { rewrite Hevs, (chord_events_chord_of (l_mapper st) ks held Hseteq). apply chord_of_transient. }
    assert (E : fst (gstep (mkG ms since tab held rep None prev must notif false false) (mkT (CSend evs) RUnit last last))
                = mkG ms since tab held rep None PvOther None notif false false).
    { destruct must; gsimpl; rewrite Happ; reflexivity. }
    rewrite E.
    destruct HC as [HIg HIl Haeq _ _ _ _ Htabinp _ _ _]. gproj_in HIg. gproj_in Haeq.
    assert (Hd : devs_of p' = []).
    { unfold adv_next in Hadv. destruct (l_wr st) as [|ks1 nw1 iv1].
      - destruct Hadv as [Htop _]. exact (top_point_devs _ _ Htop).
      - destruct Hadv as [nw' [_ [-> _]]]. reflexivity. }
    constructor; gproj.
    + exact HIg.
    + rewrite Hm'. exact HIl.
    + rewrite Hm'. exact Haeq.
    + rewrite Ht'. exact Htab.
    + reflexivity.
    + reflexivity.
    + rewrite Hd. exact Hnot.
    + rewrite Hm', Ht'. exact Htabinp.
    + apply (held_ok_not_send p' st' _ Hns'). gproj. rewrite Hm'. exact Hseteq.
    + apply (timer_adv last st _ p' st' Hadv); gproj; [reflexivity | exact Hrep].
    + apply (prev_ok_not_send p' _ Hns'). reflexivity.
  - (* slept *)
    destruct Htimer as [-> Hrep]. subst must.
    eapply coupled_same; [exact HC | gs | ss | | exact I | eapply top_point_not_send; exact Htop | reflexivity | ].
    + gproj. rewrite (top_point_devs _ _ Htop). exact Hnot.
    + apply timer_top; [exact Htop | reflexivity | exact Hrep].
  - (* kbd_busy *)
    subst must.
    assert (E : exists rep1,
               fst (gstep (mkG ms since tab held rep arm prev None notif false false) (mkT CNextKbd (RKbd NBusy) last last))
               = mkG ms since tab held rep1 None PvOther None (drop_dev DKbd notif) false false
               /\ rep1 = gr_of (l_wr st)).
    { unfold eff_rep in Htimer. gproj_in Htimer. destruct arm as [[[ks0 d0] i0]|]; eexists; split; try reflexivity; exact Htimer. }
    destruct E as [rep1 [E Hrep]]. rewrite E.
    eapply coupled_same; [exact HC | gs | ss | | exact I | eapply visit_point_not_send; exact Hvis | reflexivity | ].
    + gproj. intros d0 Hd. apply In_drop_dev in Hd. destruct Hd as [Hd Hne].
      apply (visit_point_devs _ _ _ Hvis). destruct (Hnot d0 Hd) as [<-|Hin]; [contradiction | exact Hin].
    + apply (timer_visit last rest st); gproj; [exact Hvis | reflexivity | exact Hrep].
  - (* kbd_tablet *)
    subst must. rewrite Ht in Htab. subst tab.
    assert (E : exists rep1,
               fst (gstep (mkG ms since true held rep arm prev None notif false false) (mkT CNextKbd (RKbd (NOne e)) last last))
               = mkG ms since true held rep1 None PvKeyTab None notif false false
               /\ rep1 = gr_of (l_wr st)).
    { unfold eff_rep in Htimer. gproj_in Htimer. destruct arm as [[[ks0 d0] i0]|]; eexists; split; try reflexivity; exact Htimer. }
    destruct E as [rep1 [E Hrep]]. rewrite E.
    eapply coupled_same; [exact HC | gs | ss | exact Hnot | exact I | exact I | reflexivity | ].
    cbn [timer_ok]. rewrite eff_rep_none; [exact Hrep | reflexivity].
  - (* kbd_quiet *)
    subst must. rewrite Ht in Htab. subst tab.
    destruct HC as [HIg HIl Haeq _ _ _ _ Htabinp _ _ _]. gproj_in HIg. gproj_in Haeq.
    destruct (key_step_facts ms (l_mapper st) e [] rp s' HIg HIl Haeq Hs) as [ms' [Eg [HIg' [HIl' [Haeq' T]]]]].
    destruct (gstep_key ms since held rep arm prev notif e last [] rp ms' (l_wr st) Eg Htimer) as [must' [E Hmust]].
    rewrite E. specialize (Hmust eq_refl). subst must'.
    assert (Hseteq' : seteq held (held_of s')).
    { eapply seteq_trans; [exact Hheld|]. exact (proj2 T). }
    destruct rp; cbn [step_next] in Hnext; destruct Hnext as [-> ->];
      (constructor; gproj; cbn [l_mapper l_tablet l_wr set_mapper set_wr devs_of];
       [ exact HIg' | exact HIl' | exact Haeq' | symmetry; exact Ht | reflexivity | reflexivity | exact Hnot
       | intros Hx; rewrite Ht in Hx; discriminate Hx
       | cbn [held_ok g_held l_mapper set_mapper set_wr]; exact Hseteq'
       | cbn [timer_ok]; unfold eff_rep; gproj; reflexivity
       | reflexivity ]).
  - (* kbd_out *)
    subst must. rewrite Ht in Htab. subst tab.
    destruct HC as [HIg HIl Haeq _ _ _ _ Htabinp _ _ _]. gproj_in HIg. gproj_in Haeq.
    destruct (key_step_facts ms (l_mapper st) e evs rp s' HIg HIl Haeq Hs) as [ms' [Eg [HIg' [HIl' [Haeq' T]]]]].
    destruct (gstep_key ms since held rep arm prev notif e last evs rp ms' (l_wr st) Eg Htimer) as [must' [E _]].
    rewrite E.
    constructor; gproj; cbn [l_mapper l_tablet l_wr set_mapper devs_of].
    + exact HIg'.
    + exact HIl'.
    + exact Haeq'.
    + symmetry; exact Ht.
    + reflexivity.
    + reflexivity.
    + exact Hnot.
    + intros Hx; rewrite Ht in Hx; discriminate Hx.
    + cbn [held_ok g_held l_mapper set_mapper]. eapply tr_ok_seteq_l; [apply seteq_sym; exact Hheld | exact T].
    + destruct rp; cbn [timer_ok]; unfold eff_rep; gproj; try split; reflexivity.
    + reflexivity.
  - (* step_sent *)
    assert (E : fst (gstep (mkG ms since tab held rep arm prev must notif false false) (mkT (CSend evs) RUnit last last))
                = mkG ms since tab (apply_evs held evs) rep arm PvOther None notif false false).
    { destruct arm as [[[ks0 d0] i0]|]; reflexivity. }
    rewrite E.
    destruct HC as [HIg HIl Haeq _ _ _ _ Htabinp _ _ _]. gproj_in HIg. gproj_in Haeq.
    destruct rp; cbn [step_next] in Hnext; destruct Hnext as [-> ->];
      (constructor; gproj; cbn [l_mapper l_tablet l_wr set_wr devs_of];
       [ exact HIg | exact HIl | exact Haeq | exact Htab | reflexivity | reflexivity | exact Hnot | exact Htabinp
       | cbn [held_ok g_held l_mapper set_wr]; exact (proj2 Hheld)
       | idtac
       | reflexivity ]).
    + cbn [timer_ok]. unfold eff_rep. gproj. destruct Htimer as [-> ->]. reflexivity.
    + cbn [timer_ok]. unfold eff_rep in *. gproj_in Htimer. gproj. exact Htimer.
    + cbn [timer_ok g_arm]. exact Htimer.
  - (* now_step *)
    subst must.
    eapply coupled_same; [exact HC | unfold ghost_same; repeat split; reflexivity | ss | exact Hnot | exact I | exact I | reflexivity | ].
    cbn [timer_ok]. unfold eff_rep. gproj. rewrite Htimer. cbn [l_wr set_wr gr_of].
    rewrite (instant_add_ms_val _ _ _ Hadd). reflexivity.
  - (* tab_busy *)
    subst must. destruct Htimer as [-> Hrep].
    gsimpl.
    eapply coupled_same; [exact HC | gs | ss | | exact I | eapply visit_point_not_send; exact Hvis | reflexivity | ].
    + gproj. intros d0 Hd. apply In_drop_dev in Hd. destruct Hd as [Hd Hne].
      apply (visit_point_devs _ _ _ Hvis). destruct (Hnot d0 Hd) as [<-|Hin]; [contradiction | exact Hin].
    + apply (timer_visit last rest st); gproj; [exact Hvis | reflexivity | exact Hrep].
  - (* tab_quiet *)
    subst must. destruct Htimer as [-> Hrep].
    destruct HC as [HIg HIl Haeq _ _ _ _ Htabinp _ _ _]. gproj_in HIg. gproj_in Haeq.
    pose proof (release_all_inv is_action L (l_mapper st) Hwf HIl) as R. cbn zeta in R. rewrite Hr in R.
    cbn [fst snd] in R. destruct R as [I' [T' [_ [Hi [_ [Hpa Hmo]]]]]].
    assert (Hh' : held_of s' = []) by (unfold held_of; rewrite Hpa, Hmo; reflexivity).
    assert (Hheld0 : held = []).
    { apply seteq_nil_l. eapply seteq_trans; [exact Hheld|]. exact (proj2 T'). }
    subst held. gsimpl.
    constructor; gproj; cbn [l_mapper l_tablet l_wr set_mapper set_wr set_tablet devs_of].
    + apply Inv_init.
    + exact I'.
    + exact (rest_aeq_init L s' Hwf I' Hi).
    + reflexivity.
    + reflexivity.
    + reflexivity.
    + exact Hnot.
    + intros _. exact Hi.
    + cbn [held_ok g_held l_mapper set_mapper]. rewrite Hh'. apply seteq_refl.
    + cbn [timer_ok g_arm g_rep l_wr set_mapper set_wr]. split; reflexivity.
    + cbn [prev_ok g_must]. destruct tab; reflexivity.
  - (* tab_out *)
    subst must. destruct Htimer as [-> Hrep].
    pose proof (c_tabinp _ _ _ _ HC) as Htabinp.
    destruct HC as [HIg HIl Haeq _ _ _ _ _ _ _ _]. gproj_in HIg. gproj_in Haeq.
    pose proof (release_all_inv is_action L (l_mapper st) Hwf HIl) as R. cbn zeta in R. rewrite Hr in R.
    cbn [fst snd] in R. destruct R as [I' [T' [_ [Hi [_ [Hpa Hmo]]]]]].
    assert (Hh' : held_of s' = []) by (unfold held_of; rewrite Hpa, Hmo; reflexivity).
    assert (Htf : tab = false).
    { destruct tab; [exfalso | reflexivity]. symmetry in Htab.
      rewrite (release_all_nil is_action L _ (Htabinp Htab)) in Hr. inversion Hr; subst. apply Hne; reflexivity. }
    rewrite Htf in *. gsimpl.
    constructor; gproj; cbn [l_mapper l_tablet l_wr set_mapper set_wr set_tablet devs_of].
    + apply Inv_init.
    + exact I'.
    + exact (rest_aeq_init L s' Hwf I' Hi).
    + reflexivity.
    + reflexivity.
    + reflexivity.
    + exact Hnot.
    + intros _. exact Hi.
    + cbn [held_ok g_held l_mapper set_mapper]. rewrite Hh'. split; [|reflexivity].
      eapply tr_ok_seteq_l; [apply seteq_sym; exact Hheld | exact T'].
    + cbn [timer_ok g_arm g_rep l_wr set_mapper set_wr]. split; reflexivity.
    + cbn [prev_ok g_prev]. exists on. reflexivity.
  - (* tab_sent *)
    destruct Htimer as [-> Hrep]. destruct Hheld as [T Hnil].
    assert (E : fst (gstep (mkG ms since tab held rep None prev must notif false false) (mkT (CSend evs) RUnit last last))
                = mkG ms since tab (apply_evs held evs) rep None PvOther None notif false false).
    { reflexivity. }
    rewrite E.
    destruct HC as [HIg HIl Haeq _ _ _ _ Htabinp _ _ _]. gproj_in HIg. gproj_in Haeq.
    constructor; gproj; cbn [devs_of].
    + exact HIg.
    + exact HIl.
    + exact Haeq.
    + exact Htab.
    + reflexivity.
    + reflexivity.
    + exact Hnot.
    + exact Htabinp.
    + cbn [held_ok g_held]. exact (proj2 T).
    + cbn [timer_ok g_arm g_rep]. split; [reflexivity | exact Hrep].
    + reflexivity.
Qed.

(* ---------- the walk ---------- *)

Lemma sim_walk : forall rs p st g last n,
  coupled last p st g ->
  gwalk g n (annotate last (fst (run_from p st rs)) rs) = [].
Proof.
  induction rs as [|r rs IH]; intros p st g last n HC.
  - rewrite annotate_nil_r. reflexivity.
  - destruct (resume p st r) as [p' st'|o] eqn:E.
    + rewrite (run_from_go _ _ _ _ _ _ _ _ E). cbn [fst]. rewrite annotate_cons.
      pose proof (sim_step last p st g r p' st' HC (resume_go _ _ _ _ _ _ _ E)) as HC'.
      destruct (is_clock (pending p)) eqn:Ec.
      * apply IH. exact HC'.
      * cbn [LoopMonitors.gwalk].
        pose proof (quiet last p st g r HC Ec) as Hq.
        assert (Hlast : (match pending p, r with CNow, RNow t => t | _, _ => last end) = last).
        { destruct (pending p); try reflexivity; discriminate Ec. }
        rewrite Hlast in HC'.
        destruct (gstep g (mkT (pending p) r last last)) as [g' cls]. cbn [fst snd] in *. subst cls.
        cbn [map app]. apply IH. exact HC'.
    + rewrite (run_from_stop _ _ _ _ _ _ _ E). cbn [fst]. rewrite annotate_cons, !annotate_nil_l.
      destruct (is_clock (pending p)) eqn:Ec; [reflexivity|].
      cbn [LoopMonitors.gwalk].
      pose proof (quiet last p st g r HC Ec) as Hq.
      destruct (gstep g (mkT (pending p) r last last)) as [g' cls]. cbn [snd] in Hq. subst cls. reflexivity.
Qed.

(* the extracted checker never fires on the model's own annotated transcript *)
Theorem monitor_never_fires rs cs o t0 :
  run rs = (cs, o) -> check_transcript is_action L tol (annotate t0 cs rs) = [].
Proof.
  intros Hrun. unfold check_transcript.
  pose proof (sim_walk rs PRegister linit ginit t0 0%N (coupled_init t0)) as H.
  fold (run rs) in H. rewrite Hrun in H. exact H.
Qed.

End S.

(* ---------- the outcome checker ---------- *)

Section Outcome.
Variable is_action : key -> bool.
Variable L : layout.

Notation resume := (Loop.resume is_action L).
Notation run_from := (Loop.run_from is_action L).
Notation run := (Loop.run is_action L).

Lemma lgo_resp p st r p' st' :
  lgo is_action L p st r p' st' -> (forall m, r <> RErr m) /\ is_end r = false.
Proof. intros H. destruct H; split; try reflexivity; intros m; discriminate. Qed.

Lemma check_outcome_skip e tr o :
  (forall m, te_resp e <> RErr m) -> is_end (te_resp e) = false ->
  check_outcome (e :: tr) o = check_outcome tr o.
Proof.
  intros H1 H2. unfold check_outcome. cbn [first_err existsb]. rewrite H2. cbn [orb].
  destruct (te_resp e) eqn:Er; try reflexivity. exfalso. exact (H1 msg eq_refl).
Qed.

Lemma outcome_ok : forall rs p st last,
  snd (run_from p st rs) <> Mismatch ->
  check_outcome (annotate last (fst (run_from p st rs)) rs) (snd (run_from p st rs)) = [].
Proof.
  induction rs as [|r rs IH]; intros p st last Hnm.
  - rewrite annotate_nil_r. reflexivity.
  - destruct (resume p st r) as [p' st'|o] eqn:E.
    + rewrite (run_from_go _ _ _ _ _ _ _ _ E) in Hnm |- *. cbn [fst snd] in *. rewrite annotate_cons.
      destruct (is_clock (pending p)); [apply IH; exact Hnm|].
      destruct (lgo_resp _ _ _ _ _ (resume_go _ _ _ _ _ _ _ E)) as [H1 H2].
      rewrite check_outcome_skip; [apply IH; exact Hnm | exact H1 | exact H2].
    + rewrite (run_from_stop _ _ _ _ _ _ _ E) in Hnm |- *. cbn [fst snd] in *.
      rewrite annotate_cons, !annotate_nil_l.
      apply resume_stop in E. destruct E as [p st m Hd | p st r Hw | rest st | rest st | p st r Hw Hr].
      * destruct (pending p); try discriminate Hd; cbn [is_clock check_outcome first_err te_resp];
          rewrite N.eqb_refl; reflexivity.
      * exfalso. apply Hnm. reflexivity.
      * reflexivity.
      * reflexivity.
      * destruct (is_clock (pending p)); [reflexivity|].
        destruct r as [| |[]| | |]; try contradiction; reflexivity.
Qed.

Theorem outcome_monitor_never_fires rs cs o t0 :
  run rs = (cs, o) -> o <> Mismatch -> check_outcome (annotate t0 cs rs) o = [].
Proof.
  intros Hrun Hnm. pose proof (outcome_ok rs PRegister linit t0) as H.
  fold (run rs) in H. rewrite Hrun in H. cbn [fst snd] in H. exact (H Hnm).
Qed.

End Outcome.
