(* Wire.v — executable model of the evdev/uinput wire codec of totalmapper:
     src/struct_ser.rs      StructSerializer::add_u16 / add_i32 / add_i64
     src/dev_input_rw.rs    DevInputWriter::send, DevInputReader::next
     src/key_codes.rs       `k as u16`, FromPrimitive::from_u16 (num_derive)
   Definitions only (lemmas: WireLemmas.v).  Bytes are N (0..255), keys are the
   enum discriminants (N, regenerated into TMGen.KeyTable), i32/i64 values are Z.

   MODEL ASSUMPTIONS (checked at run time by the harness engine `wire`, which
   makes ./check fail loudly when they do not hold on the platform):
     A1  to_ne_bytes / from_ne_bytes are little-endian  (cfg!(target_endian = "little"))
     A2  size_of::<libc::input_event>() = 24, with time at 0 (16 bytes), type_ at
         16, code at 18, value at 20                     (x86_64 / any LP64 Linux)
     A3  write(2) takes the whole buffer in one call (send ignores the count
         returned by write); read(2) delivers min(24, available) bytes and
         fails (EAGAIN) on a drained non-blocking descriptor.  A real evdev
         node only ever delivers whole records. *)
From TM Require Export Base Mapper.
From TMGen Require Import KeyTable.

(* ---------- A2: size_of::<input_event>() ---------- *)
Definition input_event_size : nat := 24.

(* ---------- A1: x.to_ne_bytes() of an n-byte value given by its bit pattern ---------- *)
Fixpoint le_bytes (n : nat) (x : N) : list N :=
  match n with
  | O => []
  | S m => (x mod 256)%N :: le_bytes m (x / 256)%N
  end.

(* two's complement bit patterns of the Rust integer types (casts written out) *)
Definition u16_bits (x : Z) : N := Z.to_N (x mod 65536).
Definition i32_bits (x : Z) : N := Z.to_N (x mod 4294967296).
Definition i64_bits (x : Z) : N := Z.to_N (x mod 18446744073709551616).

(* ---------- struct_ser.rs (sink.push per byte = append) ---------- *)
Definition add_u16 (sink : list N) (x : N) : list N := sink ++ le_bytes 2 x.
Definition add_i32 (sink : list N) (x : Z) : list N := sink ++ le_bytes 4 (i32_bits x).
Definition add_i64 (sink : list N) (x : Z) : list N := sink ++ le_bytes 8 (i64_bits x).

(* ---------- DevInputWriter::send ---------- *)

(* the closure send_type_code_value *)
Definition send_type_code_value (sink : list N) (type_ code : N) (value : Z) : list N :=
  add_i32 (add_u16 (add_u16 (add_i64 (add_i64 sink 0) 0) type_) code) value.

Definition ev_key (e : event) : key := match e with Pressed k => k | Released k => k end.
Definition ev_value (e : event) : Z := match e with Pressed _ => 1%Z | Released _ => 0%Z end.

(* `k as u16` (of the dereferenced key): the #[repr(i32)] discriminant truncated to 16 bits *)
Definition key_as_u16 (k : key) : N := u16_bits (Z.of_N k).

(* body of `for ev in evs` *)
Definition send_event (sink : list N) (e : event) : list N :=
  send_type_code_value sink 1 (key_as_u16 (ev_key e)) (ev_value e).

(* the buffer handed to the single write(2) of send *)
Definition encode_batch (evs : list event) : list N :=
  send_type_code_value (fold_left send_event evs []) 0 0 0.

(* ---------- DevInputReader::next ---------- *)

(* u16::from_ne_bytes([b0, b1]), i32::from_ne_bytes([b0, b1, b2, b3]) *)
Definition u16_from_le (b0 b1 : N) : N := (b0 + 256 * b1)%N.
Definition u32_from_le (b0 b1 b2 b3 : N) : N := (b0 + 256 * (b1 + 256 * (b2 + 256 * b3)))%N.
Definition i32_from_le (b0 b1 b2 b3 : N) : Z :=
  let u := Z.of_N (u32_from_le b0 b1 b2 b3) in
  if (u <? 2147483648)%Z then u else (u - 4294967296)%Z.

(* FromPrimitive::from_u16 as derived by num_derive: the variant whose
   discriminant equals the number (first match in declaration order) *)
Definition key_codes : list key := map (fun e => snd (fst e)) key_table.
Definition from_u16 (code : N) : option key := find (N.eqb code) key_codes.

(* one iteration of the loop body after read(): BPanic = an index buf[i] out of
   bounds (buf has `size` entries, so this needs size < 24) *)
Inductive buf_result := BPanic | BSkip | BEvent (e : event).

Definition decode_buf (buf : list N) : buf_result :=
  match nth_error buf 16, nth_error buf 17, nth_error buf 18, nth_error buf 19,
        nth_error buf 20, nth_error buf 21, nth_error buf 22, nth_error buf 23 with
  | Some b16, Some b17, Some b18, Some b19, Some b20, Some b21, Some b22, Some b23 =>
    let type_ := u16_from_le b16 b17 in
    let code := u16_from_le b18 b19 in
    let value := i32_from_le b20 b21 b22 b23 in
    if (type_ =? 1)%N && ((value =? 0)%Z || (value =? 1)%Z) then
      match from_u16 code with
      | Some k =>
        if (value =? 1)%Z then BEvent (Pressed k)
        else if (value =? 0)%Z then BEvent (Released k)
        else BSkip
      | None => BSkip
      end
    else BSkip
  | _, _, _, _, _, _, _, _ => BPanic
  end.

(* A3: the successive results of read(fd, buf[24]) on a byte stream: full
   24-byte pieces, then the remainder (if any) as a short read *)
Fixpoint reads_aux (missing : nat) (cur : list N) (s : list N) : list (list N) :=
  match s with
  | [] => match cur with [] => [] | _ => [cur] end
  | b :: t =>
    match missing with
    | O => (cur ++ [b]) :: reads_aux (pred input_event_size) [] t
    | S m => reads_aux m (cur ++ [b]) t
    end
  end.
Definition reads_of (s : list N) : list (list N) := reads_aux (pred input_event_size) [] s.

(* `vec![0; size]` overwritten by the bytes read (the count is ignored) *)
Definition fill_buf (got : list N) : list N :=
  got ++ List.repeat 0%N (input_event_size - length got).

(* next(): Ok(event) / Err (read failed: nothing left) / panic, and the reads
   left for later calls.  `loop` = recursion on the pending reads. *)
Inductive next_result := NOk (e : event) | NErr | NPanic.

Fixpoint next (reads : list (list N)) : next_result * list (list N) :=
  match reads with
  | [] => (NErr, [])
  | got :: rest =>
    match decode_buf (fill_buf got) with
    | BPanic => (NPanic, rest)
    | BEvent e => (NOk e, rest)
    | BSkip => next rest
    end
  end.

(* the caller: next() again and again until it does not return Ok *)
Inductive run_end := Drained | Panicked.

Fixpoint next_n (calls : nat) (reads : list (list N)) : list event * run_end :=
  match calls with
  | O => ([], Drained)
  | S c =>
    match next reads with
    | (NOk e, rest) => let (evs, o) := next_n c rest in (e :: evs, o)
    | (NErr, _) => ([], Drained)
    | (NPanic, _) => ([], Panicked)
    end
  end.

(* more calls than reads: the last one hits the drained descriptor *)
Definition decode_run (s : list N) : list event * run_end :=
  let r := reads_of s in next_n (S (length r)) r.

Definition decode_stream (s : list N) : list event := fst (decode_run s).
