(* EscapeLemmas.v — proofs for property C17: the ExecStart line written by
   build_service_text (Escape.v), read back by the independent reading of
   systemd's command-line rules (Systemd.v), yields exactly the arguments
   "--exclude <pattern>" with the pattern's UTF-8 bytes, for every list of
   non-empty patterns over non-NUL scalars, every instance without "$" and
   every environment.

   Structure: (1) tools and UTF-8 facts, (2) hexadecimal formatting and the
   classification of escape_one_char into its five shapes, (3) shape facts and
   the step lemmas of the word splitter, (4) the per-character lemma
   split_char, induction to a pattern and to one "--exclude" chunk, (5) the
   list of chunks, specifier and variable expansion, (6) the whole line:
   exec_roundtrip, (7) the unit file around the line, as systemd reads the file:
   unit_text_exec_starts, (8) the extracted checker: what its answer means on
   any text (check_sound, check_complete) and that it is true on the model.

   Finite auxiliary facts (formatting of the 256 byte values, the 32 C1
   controls, validity of printable ASCII) are decided by vm_compute over an
   explicit range; everything about arbitrary scalars is by case analysis on
   ranges with lia. *)
From Coq Require Import List NArith ZArith Bool Lia String.
From TM Require Import Escape Systemd EscapeSpec.
Import ListNotations.
Open Scope N_scope.

(* lia on N with division and remainder by constants *)
Ltac Zify.zify_post_hook ::= Z.to_euclidean_division_equations.

(* ================================================================ part 1 *)


(* ------------------------------------------------------------ small tools *)

Lemma ltb_t : forall a b, a < b -> (a <? b) = true.
Proof. intros a b H. apply N.ltb_lt. exact H. Qed.
Lemma ltb_f : forall a b, b <= a -> (a <? b) = false.
Proof. intros a b H. apply N.ltb_ge. exact H. Qed.
Lemma leb_t : forall a b, a <= b -> (a <=? b) = true.
Proof. intros a b H. apply N.leb_le. exact H. Qed.
Lemma leb_f : forall a b, b < a -> (a <=? b) = false.
Proof. intros a b H. apply N.leb_gt. exact H. Qed.
Lemma eqb_f : forall a b, a <> b -> (a =? b) = false.
Proof. intros a b H. apply N.eqb_neq. exact H. Qed.

(* finite ranges, for auxiliary facts decided by computation *)
Fixpoint nrange (start : N) (n : nat) : list N :=
  match n with O => [] | S k => start :: nrange (start + 1) k end.

Lemma In_nrange : forall n start c, start <= c < start + N.of_nat n -> In c (nrange start n).
Proof.
  induction n as [|n IH]; intros start c H.
  - cbn in H. lia.
  - cbn [nrange]. destruct (N.eq_dec start c) as [E|NE].
    + left. exact E.
    + right. apply IH. lia.
Qed.

Lemma forallb_nrange : forall (f : N -> bool) start n,
  forallb f (nrange start n) = true -> forall c, start <= c < start + N.of_nat n -> f c = true.
Proof.
  intros f start n H c Hc. rewrite forallb_forall in H. apply H. apply In_nrange. exact Hc.
Qed.

Lemma list_eqb_eq : forall a b, list_eqb a b = true -> a = b.
Proof.
  induction a as [|x a IH]; intros [|y b] H; cbn in H; try discriminate; try reflexivity.
  apply andb_prop in H. destruct H as [H1 H2]. apply N.eqb_eq in H1. subst y. f_equal. apply IH. exact H2.
Qed.

(* ------------------------------------------------------------ UTF-8 *)

Lemma utf8_encode_ascii : forall c, c < 128 -> utf8_encode c = [c].
Proof. intros c H. unfold utf8_encode. rewrite ltb_t by exact H. reflexivity. Qed.

Lemma utf8_encode_high : forall c, 128 <= c -> c < 1114112 ->
  Forall (fun b => 128 <= b < 256) (utf8_encode c).
Proof.
  intros c H1 H2. unfold utf8_encode. rewrite ltb_f by exact H1.
  destruct (N.ltb_spec c 2048) as [L2|L2].
  - repeat constructor; lia.
  - destruct (N.ltb_spec c 65536) as [L3|L3].
    + repeat constructor; lia.
    + repeat constructor; lia.
Qed.

Lemma utf8_encode_nonempty : forall c, utf8_encode c <> [].
Proof.
  intros c. unfold utf8_encode.
  destruct (c <? 128); [discriminate|]. destruct (c <? 2048); [discriminate|].
  destruct (c <? 65536); discriminate.
Qed.

Lemma utf8_app : forall a b, utf8 (a ++ b) = utf8 a ++ utf8 b.
Proof. intros a b. unfold utf8. apply flat_map_app. Qed.

Lemma utf8_ascii : forall l, Forall (fun x => x < 128) l -> utf8 l = l.
Proof.
  induction l as [|x l IH]; intros H.
  - reflexivity.
  - inversion H as [|? ? Hx Hl]; subst. cbn [utf8 flat_map]. rewrite utf8_encode_ascii by exact Hx.
    cbn [app]. f_equal. apply IH. exact Hl.
Qed.

(* a literal scalar systemd's UTF-8 check lets through *)
Definition lit_ok (c : N) : Prop := c <> 0 /\ unichar_is_valid c = true.

Lemma unichar_valid_lt : forall c, unichar_is_valid c = true -> c < 1114112 /\ ~ (55296 <= c <= 57343).
Proof.
  intros c H. unfold unichar_is_valid in H.
  apply andb_prop in H. destruct H as [H H4]. apply andb_prop in H. destruct H as [H H3].
  apply andb_prop in H. destruct H as [H1 H2]. apply N.ltb_lt in H1.
  split; [exact H1|]. intros [A B]. apply N.leb_le in A. apply N.leb_le in B. rewrite A, B in H2. discriminate.
Qed.

Lemma utf8_valid_encode : forall c rest, lit_ok c ->
  utf8_is_valid (utf8_encode c ++ rest) = utf8_is_valid rest.
Proof.
  intros c rest [Hnz Hv]. destruct (unichar_valid_lt c Hv) as [Hlt Hsur].
  unfold utf8_encode.
  destruct (N.ltb_spec c 128) as [L1|L1].
  { cbn [app utf8_is_valid]. rewrite eqb_f by exact Hnz. rewrite ltb_t by exact L1. reflexivity. }
  destruct (N.ltb_spec c 2048) as [L2|L2].
  { cbn [app utf8_is_valid].
    assert (E : (192 + (c / 64) mod 32 - 192) * 64 + (128 + c mod 64 - 128) = c) by lia.
    rewrite E.
    rewrite eqb_f by lia. rewrite (ltb_f _ 128) by lia. rewrite (ltb_f _ 192) by lia.
    rewrite (ltb_t _ 224) by lia.
    unfold is_cont. rewrite leb_t by lia. rewrite (ltb_t _ 192) by lia.
    unfold unichar_len. rewrite (ltb_f c 128) by lia. rewrite (ltb_t c 2048) by lia.
    rewrite Hv. reflexivity. }
  destruct (N.ltb_spec c 65536) as [L3|L3].
  { cbn [app utf8_is_valid].
    assert (E : (224 + (c / 4096) mod 16 - 224) * 4096 + (128 + (c / 64) mod 64 - 128) * 64 + (128 + c mod 64 - 128) = c) by lia.
    rewrite E.
    rewrite eqb_f by lia. rewrite (ltb_f _ 128) by lia. rewrite (ltb_f _ 192) by lia.
    rewrite (ltb_f _ 224) by lia. rewrite (ltb_t _ 240) by lia.
    unfold is_cont. rewrite !leb_t by lia. rewrite !(ltb_t _ 192) by lia.
    unfold unichar_len. rewrite (ltb_f c 128) by lia. rewrite (ltb_f c 2048) by lia. rewrite (ltb_t c 65536) by lia.
    rewrite Hv. reflexivity. }
  { cbn [app utf8_is_valid].
    assert (E : (240 + (c / 262144) mod 8 - 240) * 262144 + (128 + (c / 4096) mod 64 - 128) * 4096
                + (128 + (c / 64) mod 64 - 128) * 64 + (128 + c mod 64 - 128) = c) by lia.
    rewrite E.
    rewrite eqb_f by lia. rewrite (ltb_f _ 128) by lia. rewrite (ltb_f _ 192) by lia.
    rewrite (ltb_f _ 224) by lia. rewrite (ltb_f _ 240) by lia. rewrite (ltb_t _ 248) by lia.
    unfold is_cont. rewrite !leb_t by lia. rewrite !(ltb_t _ 192) by lia.
    unfold unichar_len. rewrite (ltb_f c 128) by lia. rewrite (ltb_f c 2048) by lia. rewrite (ltb_f c 65536) by lia.
    rewrite (ltb_t c 2097152) by lia.
    rewrite Hv. reflexivity. }
Qed.

Lemma utf8_valid_all : forall l rest, Forall lit_ok l ->
  utf8_is_valid (utf8 l ++ rest) = utf8_is_valid rest.
Proof.
  induction l as [|c l IH]; intros rest H.
  - reflexivity.
  - inversion H as [|? ? Hc Hl]; subst. cbn [utf8 flat_map]. rewrite <- app_assoc.
    rewrite utf8_valid_encode by exact Hc. apply IH. exact Hl.
Qed.

(* ================================================================ part 2 *)


(* ------------------------------------------------------------ hexadecimal *)

Lemma hex_digit_range : forall d, d < 16 -> 48 <= hex_digit d <= 57 \/ 97 <= hex_digit d <= 102.
Proof.
  intros d H. unfold hex_digit. destruct (N.ltb_spec d 10); lia.
Qed.

Lemma unhex_hex : forall d, d < 16 -> unhexchar (hex_digit d) = Some d.
Proof.
  intros d H. unfold hex_digit, unhexchar, is_digit.
  destruct (N.ltb_spec d 10) as [L|L].
  - rewrite leb_t by lia. rewrite leb_t by lia. cbn [andb]. f_equal. lia.
  - rewrite leb_t by lia. rewrite (leb_f _ 57) by lia. cbn [andb].
    rewrite leb_t by lia. rewrite leb_t by lia. cbn [andb]. f_equal. lia.
Qed.

(* "{:0>2x}" of a byte and "{:0>4x}" of a scalar below 256: decided on all 256 values *)
Lemma fmt_hex_pad_2 : forall b, b < 256 -> fmt_hex_pad 2 b = [hex_digit (b / 16); hex_digit (b mod 16)].
Proof.
  intros b H. apply list_eqb_eq.
  apply (forallb_nrange (fun b => list_eqb (fmt_hex_pad 2 b) [hex_digit (b / 16); hex_digit (b mod 16)]) 0 256).
  - vm_compute. reflexivity.
  - cbn. lia.
Qed.

Lemma fmt_hex_pad_4 : forall c, c < 256 ->
  fmt_hex_pad 4 c = [48; 48; hex_digit (c / 16); hex_digit (c mod 16)].
Proof.
  intros c H. apply list_eqb_eq.
  apply (forallb_nrange (fun c => list_eqb (fmt_hex_pad 4 c) [48; 48; hex_digit (c / 16); hex_digit (c mod 16)]) 0 256).
  - vm_compute. reflexivity.
  - cbn. lia.
Qed.

(* the "\xHH" text of one byte *)
Definition xesc (b : N) : list N := [92; 120; hex_digit (b / 16); hex_digit (b mod 16)].

(* ------------------------------------------------------------ classes of escape_one_char *)

Definition not_row (c : N) : Prop :=
  c <> 92 /\ c <> 32 /\ c <> 7 /\ c <> 8 /\ c <> 10 /\ c <> 13 /\ c <> 9 /\ c <> 34 /\ c <> 39
  /\ c <> 42 /\ c <> 63 /\ c <> 59 /\ c <> 37 /\ c <> 36.

Definition row_table : list (N * list N) :=
  [(92, [92; 92]); (32, [92; 115]); (7, [92; 97]); (8, [92; 98]); (10, [92; 110]); (13, [92; 114]);
   (9, [92; 116]); (34, [92; 34]); (39, [92; 39]); (42, [92; 120; 50; 97]); (63, [92; 120; 51; 102]);
   (59, [92; 120; 51; 98]); (37, [37; 37]); (36, [36; 36])].

Inductive esc_class (c : N) : Prop :=
| EC_row : In (c, escape_one_char c) row_table -> esc_class c
| EC_nonchar : not_row c -> is_nonchar c = true ->
    escape_one_char c = flat_map xesc (utf8_encode c) -> esc_class c
| EC_ctl_x : not_row c -> is_nonchar c = false -> c < 128 -> is_control c = true ->
    escape_one_char c = xesc c -> esc_class c
| EC_ctl_u : not_row c -> is_nonchar c = false -> 128 <= c <= 159 ->
    escape_one_char c = [92; 117; 48; 48; hex_digit (c / 16); hex_digit (c mod 16)] -> esc_class c
| EC_plain : not_row c -> is_nonchar c = false -> is_control c = false ->
    escape_one_char c = [c] -> esc_class c.

Lemma flat_map_ext_in : forall (A B : Type) (f g : A -> list B) (l : list A),
  (forall a, In a l -> f a = g a) -> flat_map f l = flat_map g l.
Proof.
  intros A B f g l. induction l as [|x l IH]; intros H.
  - reflexivity.
  - cbn [flat_map]. rewrite (H x) by (left; reflexivity). f_equal. apply IH.
    intros a Ha. apply H. right. exact Ha.
Qed.

Lemma utf8_encode_bytes : forall c, c < 1114112 -> Forall (fun b => b < 256) (utf8_encode c).
Proof.
  intros c H. destruct (N.ltb_spec c 128) as [L|L].
  - rewrite utf8_encode_ascii by exact L. repeat constructor. lia.
  - eapply Forall_impl; [|apply utf8_encode_high; assumption]. cbn. intros a Ha. lia.
Qed.

Lemma escape_classes : forall c, c < 1114112 -> esc_class c.
Proof.
  intros c Hlt.
  destruct (N.eqb_spec c 92) as [E|N1]; [subst; apply EC_row; vm_compute; tauto|].
  destruct (N.eqb_spec c 32) as [E|N2]; [subst; apply EC_row; vm_compute; tauto|].
  destruct (N.eqb_spec c 7) as [E|N3]; [subst; apply EC_row; vm_compute; tauto|].
  destruct (N.eqb_spec c 8) as [E|N4]; [subst; apply EC_row; vm_compute; tauto|].
  destruct (N.eqb_spec c 10) as [E|N5]; [subst; apply EC_row; vm_compute; tauto|].
  destruct (N.eqb_spec c 13) as [E|N6]; [subst; apply EC_row; vm_compute; tauto|].
  destruct (N.eqb_spec c 9) as [E|N7]; [subst; apply EC_row; vm_compute; tauto|].
  destruct (N.eqb_spec c 34) as [E|N8]; [subst; apply EC_row; vm_compute; tauto|].
  destruct (N.eqb_spec c 39) as [E|N9]; [subst; apply EC_row; vm_compute; tauto|].
  destruct (N.eqb_spec c 42) as [E|N10]; [subst; apply EC_row; vm_compute; tauto|].
  destruct (N.eqb_spec c 63) as [E|N11]; [subst; apply EC_row; vm_compute; tauto|].
  destruct (N.eqb_spec c 59) as [E|N12]; [subst; apply EC_row; vm_compute; tauto|].
  destruct (N.eqb_spec c 37) as [E|N13]; [subst; apply EC_row; vm_compute; tauto|].
  destruct (N.eqb_spec c 36) as [E|N14]; [subst; apply EC_row; vm_compute; tauto|].
  assert (NR : not_row c) by (unfold not_row; tauto).
  destruct (is_nonchar c) eqn:Hnc.
  { apply EC_nonchar; [exact NR|exact Hnc|].
    assert (Hesc : escape_one_char c = flat_map (fun b => [92; 120] ++ fmt_hex_pad 2 b) (utf8_encode c)).
    { unfold escape_one_char.
      rewrite (eqb_f c 92), (eqb_f c 32), (eqb_f c 7), (eqb_f c 8), (eqb_f c 10), (eqb_f c 13), (eqb_f c 9),
        (eqb_f c 34), (eqb_f c 39), (eqb_f c 42), (eqb_f c 63), (eqb_f c 59), (eqb_f c 37), (eqb_f c 36) by assumption.
      cbv zeta. rewrite Hnc. reflexivity. }
    rewrite Hesc. apply flat_map_ext_in. intros b Hb. unfold xesc.
    pose proof (utf8_encode_bytes c Hlt) as HB. rewrite Forall_forall in HB.
    rewrite fmt_hex_pad_2 by (apply HB; exact Hb). reflexivity. }
  destruct (is_control c) eqn:Hctl.
  { assert (Hc160 : c < 160).
    { unfold is_control in Hctl. apply orb_prop in Hctl. destruct Hctl as [A|A].
      - apply N.ltb_lt in A. lia.
      - apply andb_prop in A. destruct A as [_ A]. apply N.leb_le in A. lia. }
    assert (Hesc : escape_one_char c =
       if c <? 128 then [92; 120] ++ fmt_hex_pad 2 c
       else if c <? 65536 then [92; 117] ++ fmt_hex_pad 4 c else [92; 85] ++ fmt_hex_pad 8 c).
    { unfold escape_one_char.
      rewrite (eqb_f c 92), (eqb_f c 32), (eqb_f c 7), (eqb_f c 8), (eqb_f c 10), (eqb_f c 13), (eqb_f c 9),
        (eqb_f c 34), (eqb_f c 39), (eqb_f c 42), (eqb_f c 63), (eqb_f c 59), (eqb_f c 37), (eqb_f c 36) by assumption.
      cbv zeta. rewrite Hnc, Hctl. reflexivity. }
    destruct (N.ltb_spec c 128) as [L|L].
    - apply EC_ctl_x; [exact NR|exact Hnc|exact L|exact Hctl|].
      rewrite Hesc. rewrite fmt_hex_pad_2 by lia. reflexivity.
    - apply EC_ctl_u; [exact NR|exact Hnc|lia|].
      rewrite Hesc. rewrite (ltb_t c 65536) by lia. rewrite fmt_hex_pad_4 by lia. reflexivity. }
  apply EC_plain; [exact NR|exact Hnc|exact Hctl|].
  unfold escape_one_char.
  rewrite (eqb_f c 92), (eqb_f c 32), (eqb_f c 7), (eqb_f c 8), (eqb_f c 10), (eqb_f c 13), (eqb_f c 9),
    (eqb_f c 34), (eqb_f c 39), (eqb_f c 42), (eqb_f c 63), (eqb_f c 59), (eqb_f c 37), (eqb_f c 36) by assumption.
  cbv zeta. rewrite Hnc, Hctl. reflexivity.
Qed.

(* ================================================================ part 3 *)


Lemma row_table_ind : forall (P : N -> list N -> Prop),
  P 92 [92; 92] -> P 32 [92; 115] -> P 7 [92; 97] -> P 8 [92; 98] -> P 10 [92; 110] -> P 13 [92; 114] ->
  P 9 [92; 116] -> P 34 [92; 34] -> P 39 [92; 39] -> P 42 [92; 120; 50; 97] -> P 63 [92; 120; 51; 102] ->
  P 59 [92; 120; 51; 98] -> P 37 [37; 37] -> P 36 [36; 36] ->
  forall c e, In (c, e) row_table -> P c e.
Proof.
  intros P H1 H2 H3 H4 H5 H6 H7 H8 H9 H10 H11 H12 H13 H14 c e H.
  unfold row_table in H. cbn [In] in H.
  destruct H as [H|[H|[H|[H|[H|[H|[H|[H|[H|[H|[H|[H|[H|[H|H]]]]]]]]]]]]]];
    inversion H; subst; assumption.
Qed.

(* ------------------------------------------------------------ shape of the escape text *)

Definition printable (x : N) : Prop := 33 <= x < 127.

Lemma xesc_printable : forall b, b < 256 -> Forall printable (xesc b).
Proof.
  intros b H. unfold xesc, printable.
  pose proof (hex_digit_range (b / 16)) as A. pose proof (hex_digit_range (b mod 16)) as B.
  repeat constructor; lia.
Qed.

Lemma Forall_flat_map : forall (A B : Type) (P : B -> Prop) (f : A -> list B) (l : list A),
  (forall a, In a l -> Forall P (f a)) -> Forall P (flat_map f l).
Proof.
  intros A B P f l. induction l as [|x l IH]; intros H.
  - constructor.
  - cbn [flat_map]. apply Forall_app. split.
    + apply H. left. reflexivity.
    + apply IH. intros a Ha. apply H. right. exact Ha.
Qed.

Lemma esc_shape : forall c, c < 1114112 ->
  (escape_one_char c = [c] /\ not_row c /\ is_nonchar c = false /\ is_control c = false)
  \/ Forall printable (escape_one_char c).
Proof.
  intros c Hlt. destruct (escape_classes c Hlt) as [Hrow|NR Hnc He|NR Hnc L Hctl He|NR Hnc L He|NR Hnc Hctl He].
  - right. apply (row_table_ind (fun _ e => Forall printable e)) with (c := c); [..|exact Hrow];
      unfold printable; repeat constructor; lia.
  - right. rewrite He. apply Forall_flat_map. intros b Hb. apply xesc_printable.
    pose proof (utf8_encode_bytes c Hlt) as HB. rewrite Forall_forall in HB. apply HB. exact Hb.
  - right. rewrite He. apply xesc_printable. lia.
  - right. rewrite He. unfold printable.
    pose proof (hex_digit_range (c / 16)) as A. pose proof (hex_digit_range (c mod 16)) as B.
    repeat constructor; lia.
  - left. tauto.
Qed.

Lemma printable_lit_ok : forall x, printable x -> lit_ok x.
Proof.
  intros x [A B]. split; [lia|].
  apply (forallb_nrange unichar_is_valid 33 94).
  - vm_compute. reflexivity.
  - cbn. lia.
Qed.

Lemma plain_lit_ok : forall c, 0 < c -> c < 1114112 -> ~ (55296 <= c <= 57343) ->
  is_nonchar c = false -> lit_ok c.
Proof.
  intros c H0 Hlt Hs Hnc. split; [lia|].
  unfold is_nonchar in Hnc. apply orb_false_elim in Hnc. destruct Hnc as [A B].
  unfold unichar_is_valid. rewrite ltb_t by exact Hlt. rewrite A, B. cbn [negb andb].
  destruct (N.leb_spec 55296 c) as [L|L]; [|reflexivity].
  rewrite leb_f by lia. reflexivity.
Qed.

Lemma esc_lit_ok : forall c, 0 < c -> c < 1114112 -> ~ (55296 <= c <= 57343) ->
  Forall lit_ok (escape_one_char c).
Proof.
  intros c H0 Hlt Hs. destruct (esc_shape c Hlt) as [[He [_ [Hnc _]]]|Hp].
  - rewrite He. constructor; [|constructor]. apply plain_lit_ok; assumption.
  - eapply Forall_impl; [|exact Hp]. intros a Ha. apply printable_lit_ok. exact Ha.
Qed.

Lemma printable_utf8 : forall l, Forall printable l -> utf8 l = l.
Proof.
  intros l H. apply utf8_ascii. eapply Forall_impl; [|exact H]. unfold printable. intros a Ha. lia.
Qed.

(* every byte the escaper writes for a non-NUL scalar is above the space: no
   separator, no line break, no NUL can appear inside an escaped pattern *)
Lemma esc_bytes_ge33 : forall c, 0 < c -> c < 1114112 ->
  Forall (fun b => 33 <= b) (utf8 (escape_one_char c)).
Proof.
  intros c H0 Hlt. destruct (esc_shape c Hlt) as [[He [NR [Hnc Hctl]]]|Hp].
  - rewrite He. unfold utf8. cbn [flat_map]. rewrite app_nil_r.
    destruct (N.ltb_spec c 128) as [L|L].
    + rewrite utf8_encode_ascii by exact L. constructor; [|constructor].
      unfold is_control in Hctl. apply orb_false_elim in Hctl. destruct Hctl as [A _].
      apply N.ltb_ge in A. unfold not_row in NR. lia.
    + eapply Forall_impl; [|apply utf8_encode_high; assumption]. cbn. intros a Ha. lia.
  - rewrite printable_utf8 by exact Hp. eapply Forall_impl; [|exact Hp]. unfold printable. intros a Ha. lia.
Qed.

(* ------------------------------------------------------------ the word splitter on prefixes *)

(* split_pre: EscapeSpec.v *)

Lemma split_run_app : forall l1 l2 s,
  split_run s (l1 ++ l2) = match split_pre s l1 with Some s' => split_run s' l2 | None => None end.
Proof.
  induction l1 as [|b l1 IH]; intros l2 s.
  - reflexivity.
  - cbn [app split_run split_pre]. destruct (step s b) as [s'|]; [apply IH|reflexivity].
Qed.

Lemma split_pre_app : forall l1 l2 s,
  split_pre s (l1 ++ l2) = match split_pre s l1 with Some s' => split_pre s' l2 | None => None end.
Proof.
  induction l1 as [|b l1 IH]; intros l2 s.
  - reflexivity.
  - cbn [app split_pre]. destruct (step s b) as [s'|]; [apply IH|reflexivity].
Qed.

Lemma split_pre_step : forall s b r s', step s b = Some s' -> split_pre s (b :: r) = split_pre s' r.
Proof. intros s b r s' H. cbn [split_pre]. rewrite H. reflexivity. Qed.

(* bytes that are copied as they are inside an unquoted word *)
Definition plain_byte (b : N) : Prop := is_ws b = false /\ b <> 39 /\ b <> 34 /\ b <> 92.

Lemma step_plain : forall ws cur b, plain_byte b ->
  step (SWord ws cur 0 ENone) b = Some (SWord ws (b :: cur) 0 ENone).
Proof.
  intros ws cur b [Hw [H1 [H2 H3]]]. cbn [step]. unfold word_char. cbn [N.eqb].
  rewrite Hw. rewrite (eqb_f b 39), (eqb_f b 34), (eqb_f b 92) by assumption. reflexivity.
Qed.

Lemma split_pre_plain : forall bs ws cur, Forall plain_byte bs ->
  split_pre (SWord ws cur 0 ENone) bs = Some (SWord ws (rev bs ++ cur) 0 ENone).
Proof.
  induction bs as [|b bs IH]; intros ws cur H.
  - reflexivity.
  - inversion H as [|? ? Hb Hbs]; subst. cbn [split_pre]. rewrite step_plain by exact Hb.
    rewrite IH by exact Hbs. cbn [rev]. rewrite <- app_assoc. reflexivity.
Qed.

Lemma high_byte_plain : forall b, 128 <= b -> plain_byte b.
Proof.
  intros b H. unfold plain_byte, is_ws.
  rewrite (eqb_f b 32), (eqb_f b 9), (eqb_f b 10), (eqb_f b 13) by lia. repeat split; lia.
Qed.

Lemma step_hex_more : forall ws cur q n acc k d, d < 16 ->
  step (SWord ws cur q (EHex (S (S n)) acc k)) (hex_digit d) = Some (SWord ws cur q (EHex (S n) (acc * 16 + d) k)).
Proof.
  intros ws cur q n acc k d H. cbn [step esc_char]. rewrite unhex_hex by exact H. reflexivity.
Qed.

Lemma step_hex_last : forall ws cur q acc k d, d < 16 ->
  step (SWord ws cur q (EHex 1 acc k)) (hex_digit d) = esc_finish ws cur q k (acc * 16 + d).
Proof.
  intros ws cur q acc k d H. cbn [step esc_char]. rewrite unhex_hex by exact H. reflexivity.
Qed.

(* "\xHH" inside an unquoted word yields the byte HH *)
Lemma split_pre_xesc : forall ws cur b, 0 < b -> b < 256 ->
  split_pre (SWord ws cur 0 ENone) (xesc b) = Some (SWord ws (b :: cur) 0 ENone).
Proof.
  intros ws cur b H0 H. unfold xesc.
  rewrite (split_pre_step _ _ _ (SWord ws cur 0 EStart)) by reflexivity.
  rewrite (split_pre_step _ _ _ (SWord ws cur 0 (EHex 2 0 0))) by reflexivity.
  assert (D1 : b / 16 < 16) by lia. assert (D2 : b mod 16 < 16) by lia.
  rewrite (split_pre_step _ _ _ _ (step_hex_more ws cur 0 0 0 0 (b / 16) D1)).
  cbn [split_pre]. rewrite step_hex_last by exact D2.
  unfold esc_finish. replace (0 * 16 + b / 16) with (b / 16) by lia.
  replace (b / 16 * 16 + b mod 16) with b by lia.
  rewrite eqb_f by lia. reflexivity.
Qed.

Lemma split_pre_xesc_all : forall bs ws cur, Forall (fun b => 0 < b /\ b < 256) bs ->
  split_pre (SWord ws cur 0 ENone) (flat_map xesc bs) = Some (SWord ws (rev bs ++ cur) 0 ENone).
Proof.
  induction bs as [|b bs IH]; intros ws cur H.
  - reflexivity.
  - inversion H as [|? ? [Hb0 Hb] Hbs]; subst. cbn [flat_map]. rewrite split_pre_app.
    rewrite split_pre_xesc by assumption. rewrite IH by exact Hbs.
    cbn [rev]. rewrite <- app_assoc. reflexivity.
Qed.

(* systemd's encoder and Rust's agree on the C1 controls (all 32 decided) *)
Lemma encode_unichar_c1 : forall c, 128 <= c <= 159 -> encode_unichar c = utf8_encode c.
Proof.
  intros c H. apply list_eqb_eq.
  apply (forallb_nrange (fun c => list_eqb (encode_unichar c) (utf8_encode c)) 128 32).
  - vm_compute. reflexivity.
  - cbn. lia.
Qed.

(* "\u00HH" inside an unquoted word yields the UTF-8 bytes of U+00HH *)
Lemma split_pre_uesc : forall ws cur c, 128 <= c <= 159 ->
  split_pre (SWord ws cur 0 ENone) [92; 117; 48; 48; hex_digit (c / 16); hex_digit (c mod 16)]
  = Some (SWord ws (rev (utf8_encode c) ++ cur) 0 ENone).
Proof.
  intros ws cur c H.
  rewrite (split_pre_step _ _ _ (SWord ws cur 0 EStart)) by reflexivity.
  rewrite (split_pre_step _ _ _ (SWord ws cur 0 (EHex 4 0 1))) by reflexivity.
  change 48 with (hex_digit 0).
  assert (D0 : 0 < 16) by lia. assert (D1 : c / 16 < 16) by lia. assert (D2 : c mod 16 < 16) by lia.
  rewrite (split_pre_step _ _ _ _ (step_hex_more ws cur 0 2 0 1 0 D0)).
  rewrite (split_pre_step _ _ _ _ (step_hex_more ws cur 0 1 _ 1 0 D0)).
  rewrite (split_pre_step _ _ _ _ (step_hex_more ws cur 0 0 _ 1 (c / 16) D1)).
  cbn [split_pre]. rewrite step_hex_last by exact D2.
  replace ((((0 * 16 + 0) * 16 + 0) * 16 + c / 16) * 16 + c mod 16) with c by lia.
  unfold esc_finish. rewrite eqb_f by lia. cbn [N.eqb Pos.eqb].
  unfold push_bytes. rewrite encode_unichar_c1 by exact H. reflexivity.
Qed.

(* ================================================================ part 4 *)


(* what a scalar of the pattern looks like after word splitting and
   unescaping: % and $ still doubled, everything else its UTF-8 bytes *)
Definition inter (c : N) : list N :=
  if c =? 37 then [37; 37] else if c =? 36 then [36; 36] else utf8_encode c.
Definition interW (p : list N) : list N := flat_map inter p.

Lemma inter_other : forall c, c <> 37 -> c <> 36 -> inter c = utf8_encode c.
Proof. intros c A B. unfold inter. rewrite (eqb_f c 37), (eqb_f c 36) by assumption. reflexivity. Qed.

Lemma utf8_encode_bytes_pos : forall c, 0 < c -> c < 1114112 ->
  Forall (fun b => 0 < b /\ b < 256) (utf8_encode c).
Proof.
  intros c H0 H. destruct (N.ltb_spec c 128) as [L|L].
  - rewrite utf8_encode_ascii by exact L. repeat constructor; lia.
  - eapply Forall_impl; [|apply utf8_encode_high; assumption]. cbn. intros a Ha. lia.
Qed.

Lemma plain_scalar_bytes : forall c, c < 1114112 -> not_row c -> is_control c = false ->
  Forall plain_byte (utf8_encode c).
Proof.
  intros c Hlt NR Hctl. destruct (N.ltb_spec c 128) as [L|L].
  - rewrite utf8_encode_ascii by exact L. constructor; [|constructor].
    unfold not_row in NR. unfold plain_byte, is_ws.
    rewrite (eqb_f c 32), (eqb_f c 9), (eqb_f c 10), (eqb_f c 13) by tauto. repeat split; tauto.
  - eapply Forall_impl; [|apply utf8_encode_high; assumption]. cbn. intros a Ha. apply high_byte_plain. lia.
Qed.

(* the per-character lemma of the splitter: inside an unquoted word the text
   written for c is read back as (inter c) and the word goes on *)
Lemma split_char : forall c ws cur, scalar_ok c ->
  split_pre (SWord ws cur 0 ENone) (utf8 (escape_one_char c))
  = Some (SWord ws (rev (inter c) ++ cur) 0 ENone).
Proof.
  intros c ws cur [H0 [Hlt Hs]].
  destruct (escape_classes c Hlt) as [Hrow|NR Hnc He|NR Hnc L Hctl He|NR Hnc L He|NR Hnc Hctl He].
  - revert ws cur.
    apply (row_table_ind (fun c e => forall ws cur,
             split_pre (SWord ws cur 0 ENone) (utf8 e) = Some (SWord ws (rev (inter c) ++ cur) 0 ENone)))
      with (c := c); [..|exact Hrow]; intros ws cur; reflexivity.
  - assert (Hi : inter c = utf8_encode c) by (apply inter_other; unfold not_row in NR; tauto).
    rewrite Hi, He. rewrite printable_utf8.
    + apply split_pre_xesc_all. apply utf8_encode_bytes_pos; assumption.
    + apply Forall_flat_map. intros b Hb. apply xesc_printable.
      pose proof (utf8_encode_bytes c Hlt) as HB. rewrite Forall_forall in HB. apply HB. exact Hb.
  - assert (Hi : inter c = [c]).
    { rewrite inter_other by (unfold not_row in NR; tauto). apply utf8_encode_ascii. exact L. }
    rewrite Hi, He. rewrite printable_utf8 by (apply xesc_printable; lia).
    rewrite split_pre_xesc by lia. reflexivity.
  - assert (Hi : inter c = utf8_encode c) by (apply inter_other; unfold not_row in NR; tauto).
    rewrite Hi, He. rewrite printable_utf8.
    + apply split_pre_uesc. exact L.
    + unfold printable. pose proof (hex_digit_range (c / 16)) as A. pose proof (hex_digit_range (c mod 16)) as B.
      repeat constructor; lia.
  - assert (Hi : inter c = utf8_encode c) by (apply inter_other; unfold not_row in NR; tauto).
    rewrite Hi, He. unfold utf8. cbn [flat_map]. rewrite app_nil_r.
    apply split_pre_plain. apply plain_scalar_bytes; assumption.
Qed.

Lemma split_pattern : forall p ws cur, Forall scalar_ok p ->
  split_pre (SWord ws cur 0 ENone) (utf8 (systemd_arg_escape p))
  = Some (SWord ws (rev (interW p) ++ cur) 0 ENone).
Proof.
  induction p as [|c p IH]; intros ws cur H.
  - reflexivity.
  - inversion H as [|? ? Hc Hp]; subst. unfold systemd_arg_escape, interW. cbn [flat_map].
    rewrite utf8_app, split_pre_app. rewrite split_char by exact Hc.
    fold (systemd_arg_escape p). rewrite IH by exact Hp. fold (interW p).
    rewrite rev_app_distr, <- app_assoc. reflexivity.
Qed.

(* ---- the first character of a word: the lone-semicolon and "\;" rules *)

Definition startable (l : list N) : Prop :=
  match l with
  | b0 :: l' => is_ws b0 = false /\ b0 <> 59
                /\ (b0 = 92 -> match l' with b1 :: _ => b1 <> 59 | [] => False end)
  | [] => False
  end.

Lemma split_pre_start : forall l ws, startable l ->
  split_pre (SBetween ws) l = split_pre (SWord ws [] 0 ENone) l.
Proof.
  intros l ws H. destruct l as [|b0 l']; [contradiction|]. destruct H as [Hw [H59 H92]].
  cbn [split_pre step]. rewrite Hw. rewrite (eqb_f b0 59) by exact H59.
  destruct (N.eqb_spec b0 92) as [E|NE].
  - subst b0. destruct l' as [|b1 l'']; [exfalso; apply H92; reflexivity|].
    specialize (H92 eq_refl). cbn [split_pre step]. rewrite (eqb_f b1 59) by exact H92.
    reflexivity.
  - reflexivity.
Qed.

Lemma startable_esc : forall c rest, scalar_ok c -> startable (utf8 (escape_one_char c) ++ rest).
Proof.
  intros c rest [H0 [Hlt Hs]].
  destruct (escape_classes c Hlt) as [Hrow|NR Hnc He|NR Hnc L Hctl He|NR Hnc L He|NR Hnc Hctl He].
  - revert rest.
    apply (row_table_ind (fun c e => forall rest, startable (utf8 e ++ rest))) with (c := c); [..|exact Hrow];
      intros rest; cbn; (split; [reflexivity|split; [lia|intros E; try discriminate E; lia]]).
  - rewrite He. rewrite printable_utf8.
    + destruct (utf8_encode c) as [|b t] eqn:E; [exfalso; exact (utf8_encode_nonempty c E)|].
      cbn. split; [reflexivity|split; [lia|intros _; lia]].
    + apply Forall_flat_map. intros b Hb. apply xesc_printable.
      pose proof (utf8_encode_bytes c Hlt) as HB. rewrite Forall_forall in HB. apply HB. exact Hb.
  - rewrite He. rewrite printable_utf8 by (apply xesc_printable; lia).
    cbn. split; [reflexivity|split; [lia|intros _; lia]].
  - rewrite He. rewrite printable_utf8.
    + cbn. split; [reflexivity|split; [lia|intros _; lia]].
    + unfold printable. pose proof (hex_digit_range (c / 16)) as A. pose proof (hex_digit_range (c mod 16)) as B.
      repeat constructor; lia.
  - rewrite He. unfold utf8. cbn [flat_map]. rewrite app_nil_r.
    pose proof (plain_scalar_bytes c Hlt NR Hctl) as HP.
    destruct (utf8_encode c) as [|b t] eqn:E; [exfalso; exact (utf8_encode_nonempty c E)|].
    inversion HP as [|? ? [Hw [_ [_ H92]]] _]; subst. cbn [app startable].
    split; [exact Hw|]. split.
    + destruct (N.ltb_spec c 128) as [L|L].
      * rewrite utf8_encode_ascii in E by exact L. inversion E; subst. unfold not_row in NR. tauto.
      * pose proof (utf8_encode_high c L Hlt) as HH. rewrite E in HH. inversion HH; subst. lia.
    + intros E92. contradiction.
Qed.

(* ---- one "--exclude <pattern>" chunk, the joined chunks, the whole line *)

(* w_exclude, w_devfile: EscapeSpec.v *)

Lemma split_chunk : forall p ws, p <> [] -> Forall scalar_ok p ->
  split_pre (SBetween ws) (utf8 (str "--exclude " ++ systemd_arg_escape p) ++ [32])
  = Some (SBetween (interW p :: w_exclude :: ws)).
Proof.
  intros p ws Hne Hp. rewrite utf8_app, <- app_assoc, split_pre_app.
  change (split_pre (SBetween ws) (utf8 (str "--exclude "))) with (Some (SBetween (w_exclude :: ws))).
  cbv iota. destruct p as [|c p']; [contradiction|].
  rewrite split_pre_start.
  - rewrite split_pre_app. rewrite split_pattern by exact Hp.
    cbn [split_pre step word_char N.eqb is_ws]. cbn. rewrite app_nil_r, rev_involutive. reflexivity.
  - inversion Hp as [|? ? Hc Hp']; subst. unfold systemd_arg_escape. cbn [flat_map].
    rewrite utf8_app, <- app_assoc. apply startable_esc. exact Hc.
Qed.

(* ================================================================ part 5 *)


Definition pats_ok (pats : list (list N)) : Prop :=
  forall p, In p pats -> p <> [] /\ Forall scalar_ok p.

Lemma pats_ok_cons : forall p pats, pats_ok (p :: pats) -> (p <> [] /\ Forall scalar_ok p) /\ pats_ok pats.
Proof.
  intros p pats H. split.
  - apply H. left. reflexivity.
  - intros q Hq. apply H. right. exact Hq.
Qed.

Definition chunk (p : list N) : list N := str "--exclude " ++ systemd_arg_escape p.

Lemma split_excludes : forall pats ws, pats_ok pats ->
  split_pre (SBetween ws) (utf8 (build_exclude_text pats) ++ [32])
  = Some (SBetween (rev (flat_map (fun p => [w_exclude; interW p]) pats) ++ ws)).
Proof.
  unfold build_exclude_text. fold chunk.
  induction pats as [|p pats IH]; intros ws H.
  - reflexivity.
  - apply pats_ok_cons in H. destruct H as [[Hne Hp] Hrest].
    destruct pats as [|q pats'].
    + cbn [map join flat_map]. unfold chunk. rewrite split_chunk by assumption. reflexivity.
    + change (join [32] (map chunk (p :: q :: pats'))) with (chunk p ++ [32] ++ join [32] (map chunk (q :: pats'))).
      rewrite !utf8_app. change (utf8 [32]) with [32]. rewrite <- !app_assoc.
      rewrite (app_assoc (utf8 (chunk p)) [32]). rewrite split_pre_app.
      unfold chunk at 1. rewrite split_chunk by assumption.
      rewrite IH by exact Hrest.
      cbn [flat_map]. cbn [app]. cbn [rev]. rewrite <- !app_assoc. reflexivity.
Qed.

Definition prefix_text : list N :=
  str "/usr/bin/totalmapper remap --verbose --layout-file /etc/totalmapper.json --only-if-keyboard ".

Lemma exec_line_split : forall pats,
  utf8 (exec_line pats) = utf8 prefix_text ++ (utf8 (build_exclude_text pats) ++ [32]) ++ utf8 (str "--dev-file /%I").
Proof.
  intros pats. unfold exec_line. fold prefix_text.
  change (str " --dev-file /%I") with ([32] ++ str "--dev-file /%I").
  rewrite !utf8_app. change (utf8 [32]) with [32]. rewrite <- !app_assoc. reflexivity.
Qed.

(* the words of the line before specifier and variable expansion *)
Lemma split_exec_line : forall pats, pats_ok pats ->
  split_words (utf8 (exec_line pats))
  = Some (fixed_prefix_words ++ flat_map (fun p => [w_exclude; interW p]) pats ++ [w_devfile; [47; 37; 73]]).
Proof.
  intros pats H. unfold split_words. rewrite exec_line_split.
  rewrite split_run_app.
  change (split_pre (SBetween []) (utf8 prefix_text)) with (Some (SBetween (rev fixed_prefix_words))).
  cbv iota. rewrite split_run_app. rewrite split_excludes by exact H. 
  set (mid := flat_map (fun p => [w_exclude; interW p]) pats).
  change (split_run (SBetween (rev mid ++ rev fixed_prefix_words)) (utf8 (str "--dev-file /%I")))
    with (Some (rev ([47; 37; 73] :: w_devfile :: rev mid ++ rev fixed_prefix_words))).
  f_equal. clearbody mid. cbn [rev]. rewrite rev_app_distr, !rev_involutive.
  rewrite <- !app_assoc. reflexivity.
Qed.

(* ------------------------------------------------------------ specifiers *)

Lemma omap_app_app : forall (a b : list N) x, omap (app a) (omap (app b) x) = omap (app (a ++ b)) x.
Proof. intros a b [x|]; cbn [omap]; [rewrite app_assoc|]; reflexivity. Qed.

Lemma spec_run_lit : forall bs inst r, Forall (fun b => b <> 37) bs ->
  spec_run inst false (bs ++ r) = omap (app bs) (spec_run inst false r).
Proof.
  induction bs as [|b bs IH]; intros inst r H.
  - cbn [app]. destruct (spec_run inst false r); reflexivity.
  - inversion H as [|? ? Hb Hbs]; subst. cbn [app spec_run]. rewrite (eqb_f b 37) by exact Hb.
    rewrite IH by exact Hbs. destruct (spec_run inst false r); reflexivity.
Qed.

Lemma utf8_encode_avoid : forall c x, c < 1114112 -> x < 128 -> c <> x ->
  Forall (fun b => b <> x) (utf8_encode c).
Proof.
  intros c x Hlt Hx Hne. destruct (N.ltb_spec c 128) as [L|L].
  - rewrite utf8_encode_ascii by exact L. constructor; [exact Hne|constructor].
  - eapply Forall_impl; [|apply utf8_encode_high; assumption]. cbn. intros a Ha. lia.
Qed.

(* after specifier expansion: $ still doubled *)
Definition inter2 (c : N) : list N := if c =? 36 then [36; 36] else utf8_encode c.

Lemma spec_inter : forall c inst r, c < 1114112 ->
  spec_run inst false (inter c ++ r) = omap (app (inter2 c)) (spec_run inst false r).
Proof.
  intros c inst r Hlt. unfold inter, inter2.
  destruct (N.eqb_spec c 37) as [E|NE].
  - subst c. cbn [N.eqb Pos.eqb]. change (utf8_encode 37) with [37].
    cbn [app spec_run N.eqb Pos.eqb]. destruct (spec_run inst false r); reflexivity.
  - destruct (N.eqb_spec c 36) as [E|NE2].
    + apply spec_run_lit. repeat constructor; lia.
    + apply spec_run_lit. apply utf8_encode_avoid; [exact Hlt|lia|exact NE].
Qed.

Lemma scalar_ok_lt : forall c, scalar_ok c -> c < 1114112.
Proof. intros c [_ [H _]]. exact H. Qed.

Lemma spec_word : forall p inst, Forall scalar_ok p ->
  spec_run inst false (interW p) = Some (flat_map inter2 p).
Proof.
  induction p as [|c p IH]; intros inst H.
  - reflexivity.
  - inversion H as [|? ? Hc Hp]; subst. unfold interW. cbn [flat_map].
    rewrite spec_inter by (apply scalar_ok_lt; exact Hc). fold (interW p). rewrite IH by exact Hp. reflexivity.
Qed.

Lemma spec_all_app : forall inst a b a' b', spec_all inst a = Some a' -> spec_all inst b = Some b' ->
  spec_all inst (a ++ b) = Some (a' ++ b').
Proof.
  induction a as [|w a IH]; intros b a' b' Ha Hb.
  - cbn in Ha. inversion Ha; subst. exact Hb.
  - cbn [app spec_all] in *. destruct (spec_run inst false w) as [w'|]; [|discriminate].
    destruct (spec_all inst a) as [r'|] eqn:Er; [|discriminate]. inversion Ha; subst.
    rewrite (IH b r' b' eq_refl Hb). reflexivity.
Qed.

Lemma spec_all_excludes : forall pats inst, pats_ok pats ->
  spec_all inst (flat_map (fun p => [w_exclude; interW p]) pats)
  = Some (flat_map (fun p => [w_exclude; flat_map inter2 p]) pats).
Proof.
  induction pats as [|p pats IH]; intros inst H.
  - reflexivity.
  - apply pats_ok_cons in H. destruct H as [[Hne Hp] Hrest]. cbn [flat_map app spec_all].
    change (spec_run inst false w_exclude) with (Some w_exclude).
    rewrite spec_word by exact Hp. rewrite IH by exact Hrest. reflexivity.
Qed.

(* ------------------------------------------------------------ environment *)

Lemma env_run_lit : forall bs env r, Forall (fun b => b <> 36) bs ->
  env_run env VWord (bs ++ r) = bs ++ env_run env VWord r.
Proof.
  induction bs as [|b bs IH]; intros env r H.
  - reflexivity.
  - inversion H as [|? ? Hb Hbs]; subst. cbn [app env_run]. rewrite (eqb_f b 36) by exact Hb.
    rewrite IH by exact Hbs. reflexivity.
Qed.

Lemma env_inter2 : forall c env r, c < 1114112 ->
  env_run env VWord (inter2 c ++ r) = utf8_encode c ++ env_run env VWord r.
Proof.
  intros c env r Hlt. unfold inter2. destruct (N.eqb_spec c 36) as [E|NE].
  - subst c. reflexivity.
  - apply env_run_lit. apply utf8_encode_avoid; [exact Hlt|lia|exact NE].
Qed.

Lemma env_run_word : forall p env, Forall scalar_ok p -> env_run env VWord (flat_map inter2 p) = utf8 p.
Proof.
  induction p as [|c p IH]; intros env H.
  - reflexivity.
  - inversion H as [|? ? Hc Hp]; subst. cbn [flat_map utf8].
    rewrite env_inter2 by (apply scalar_ok_lt; exact Hc). rewrite IH by exact Hp. reflexivity.
Qed.

Lemma env_word_pattern : forall p env, p <> [] -> Forall scalar_ok p ->
  env_word env (flat_map inter2 p) = [utf8 p].
Proof.
  intros p env Hne Hp. rewrite <- (env_run_word p env Hp).
  destruct p as [|c p']; [contradiction|]. inversion Hp as [|? ? Hc Hp']; subst.
  cbn [flat_map]. unfold inter2 at 1 3. destruct (N.eqb_spec c 36) as [E|NE].
  - reflexivity.
  - pose proof (utf8_encode_avoid c 36 (scalar_ok_lt c Hc) ltac:(lia) NE) as HA.
    destruct (utf8_encode c) as [|b t] eqn:E; [exfalso; exact (utf8_encode_nonempty c E)|].
    inversion HA as [|? ? Hb _]; subst. cbn [app]. unfold env_word. rewrite (eqb_f b 36) by exact Hb. reflexivity.
Qed.

Lemma env_excludes : forall pats env, pats_ok pats ->
  flat_map (env_word env) (flat_map (fun p => [w_exclude; flat_map inter2 p]) pats)
  = flat_map (fun p => [w_exclude; utf8 p]) pats.
Proof.
  induction pats as [|p pats IH]; intros env H.
  - reflexivity.
  - apply pats_ok_cons in H. destruct H as [[Hne Hp] Hrest]. cbn [flat_map app].
    change (env_word env w_exclude) with [w_exclude].
    rewrite env_word_pattern by assumption. rewrite IH by exact Hrest. reflexivity.
Qed.

(* ------------------------------------------------------------ the whole line *)


(* ================================================================ part 6 *)


(* ------------------------------------------------------------ properties of every scalar of the line *)

Lemma Forall_join : forall (P : N -> Prop) sep l,
  Forall P sep -> (forall a, In a l -> Forall P a) -> Forall P (join sep l).
Proof.
  intros P sep l Hs. induction l as [|a l IH]; intros H.
  - constructor.
  - cbn [join]. destruct l as [|b l'].
    + apply H. left. reflexivity.
    + apply Forall_app. split; [apply H; left; reflexivity|].
      apply Forall_app. split; [exact Hs|]. apply IH. intros x Hx. apply H. right. exact Hx.
Qed.

Definition ascii_text (l : list N) : bool := forallb (fun x => (32 <=? x) && (x <? 127)) l.

Lemma ascii_text_forall : forall (P : N -> Prop) l, (forall x, 32 <= x < 127 -> P x) ->
  ascii_text l = true -> Forall P l.
Proof.
  intros P l HP H. unfold ascii_text in H. rewrite forallb_forall in H. apply Forall_forall.
  intros x Hx. specialize (H x Hx). apply andb_prop in H. destruct H as [A B].
  apply N.leb_le in A. apply N.ltb_lt in B. apply HP. lia.
Qed.

Lemma exec_line_forall : forall (P : N -> Prop) pats,
  (forall x, 32 <= x < 127 -> P x) ->
  (forall c, scalar_ok c -> Forall P (escape_one_char c)) ->
  pats_ok pats -> Forall P (exec_line pats).
Proof.
  intros P pats HA HE H. unfold exec_line.
  apply Forall_app. split; [apply ascii_text_forall; [exact HA|vm_compute; reflexivity]|].
  apply Forall_app. split; [|apply ascii_text_forall; [exact HA|vm_compute; reflexivity]].
  unfold build_exclude_text. apply Forall_join.
  - constructor; [apply HA; lia|constructor].
  - intros a Ha. apply in_map_iff in Ha. destruct Ha as [p [Ea Hp]]. subst a.
    destruct (H p Hp) as [_ Hok].
    apply Forall_app. split; [apply ascii_text_forall; [exact HA|vm_compute; reflexivity]|].
    unfold systemd_arg_escape. apply Forall_flat_map. intros c Hc. apply HE.
    rewrite Forall_forall in Hok. apply Hok. exact Hc.
Qed.

Lemma ascii_lit_ok : forall x, 32 <= x < 127 -> lit_ok x.
Proof.
  intros x [A B]. split; [lia|].
  apply (forallb_nrange unichar_is_valid 32 95).
  - vm_compute. reflexivity.
  - cbn. lia.
Qed.

Lemma exec_line_valid : forall pats, pats_ok pats -> utf8_is_valid (utf8 (exec_line pats)) = true.
Proof.
  intros pats H. rewrite <- (app_nil_r (utf8 (exec_line pats))). rewrite utf8_valid_all; [reflexivity|].
  apply exec_line_forall; [exact ascii_lit_ok| |exact H].
  intros c [H0 [Hlt Hs]]. apply esc_lit_ok; assumption.
Qed.

(* ------------------------------------------------------------ the main theorem *)

Lemma decode_tail : forall env (ws' : list (list N)) t r, ws' = (47 :: t) :: r ->
  match ws' with
  | (b :: _) :: _ => if b =? 47 then Some (flat_map (env_word env) ws') else None
  | _ => None
  end = Some (flat_map (env_word env) ws').
Proof. intros env ws' t r E. subst ws'. reflexivity. Qed.

Theorem exec_roundtrip : forall (inst : list N) (env : list N -> option (list N)) (pats : list (list N)),
  Forall (fun b => b <> 36) inst ->
  pats_ok pats ->
  decode inst env (utf8 (exec_line pats))
  = Some (fixed_prefix_words ++ flat_map (fun p => [w_exclude; utf8 p]) pats ++ [w_devfile; 47 :: inst]).
Proof.
  intros inst env pats Hinst H. unfold decode.
  rewrite exec_line_valid by exact H. rewrite split_exec_line by exact H.
  assert (S1 : spec_all inst fixed_prefix_words = Some fixed_prefix_words) by reflexivity.
  assert (S3 : spec_all inst [w_devfile; [47; 37; 73]] = Some [w_devfile; 47 :: inst]).
  { cbn [spec_all]. change (spec_run inst false w_devfile) with (Some w_devfile).
    change (spec_run inst false [47; 37; 73]) with (Some (47 :: inst ++ [])). rewrite app_nil_r. reflexivity. }
  rewrite (spec_all_app inst _ _ _ _ S1 (spec_all_app inst _ _ _ _ (spec_all_excludes pats inst H) S3)).
  rewrite (decode_tail env _ (tl (str "/usr/bin/totalmapper"))
             (tl fixed_prefix_words ++ flat_map (fun p => [w_exclude; flat_map inter2 p]) pats ++ [w_devfile; 47 :: inst]))
    by reflexivity.
  f_equal. rewrite !flat_map_app. rewrite env_excludes by exact H.
  change (flat_map (env_word env) fixed_prefix_words) with fixed_prefix_words.
  f_equal. f_equal. cbn [flat_map]. change (env_word env w_devfile) with [w_devfile].
  unfold env_word. cbn [N.eqb Pos.eqb]. change (47 :: inst) with ([47] ++ inst).
  rewrite <- (app_nil_r ([47] ++ inst)) at 1. rewrite <- app_assoc.
  rewrite env_run_lit by (constructor; [lia|constructor]).
  rewrite env_run_lit by exact Hinst. cbn [env_run app]. rewrite app_nil_r. reflexivity.
Qed.

(* ================================================================ part 6b *)

(* ------------------------------------------------------------ any front part instead of the model's *)

(* a UTF-8 clean front part does not change the verdict on what follows *)
Lemma utf8_valid_app_n : forall n P r, (List.length P <= n)%nat -> utf8_is_valid P = true ->
  utf8_is_valid (P ++ r) = utf8_is_valid r.
Proof.
  induction n as [|n IH]; intros P r Hl H.
  - destruct P; [reflexivity|cbn in Hl; lia].
  - destruct P as [|b0 P0]; [reflexivity|]. cbn [List.length] in Hl.
    cbn [app utf8_is_valid] in *.
    destruct (b0 =? 0); [discriminate H|].
    destruct (b0 <? 128); [apply IH; [lia|exact H]|].
    destruct (b0 <? 192); [discriminate H|].
    destruct (b0 <? 224).
    { destruct P0 as [|b1 P1]; [discriminate H|]. cbn [List.length] in Hl. cbn [app]. cbv zeta in *.
      apply andb_prop in H. destruct H as [H HP]. rewrite H. cbn [andb]. apply IH; [lia|exact HP]. }
    destruct (b0 <? 240).
    { destruct P0 as [|b1 [|b2 P2]]; try discriminate H. cbn [List.length] in Hl. cbn [app]. cbv zeta in *.
      apply andb_prop in H. destruct H as [H HP]. rewrite H. cbn [andb]. apply IH; [lia|exact HP]. }
    destruct (b0 <? 248); [|discriminate H].
    destruct P0 as [|b1 [|b2 [|b3 P3]]]; try discriminate H. cbn [List.length] in Hl. cbn [app]. cbv zeta in *.
    apply andb_prop in H. destruct H as [H HP]. rewrite H. cbn [andb]. apply IH; [lia|exact HP].
Qed.

Lemma utf8_valid_app : forall P r, utf8_is_valid P = true -> utf8_is_valid (P ++ r) = utf8_is_valid r.
Proof. intros P r H. apply (utf8_valid_app_n (List.length P)); [lia|exact H]. Qed.

Lemma exec_line_suffix : forall pats, utf8 (exec_line pats) = utf8 prefix_text ++ suffix_text pats.
Proof. intros pats. rewrite exec_line_split. reflexivity. Qed.

Lemma suffix_text_valid : forall pats, pats_ok pats -> utf8_is_valid (suffix_text pats) = true.
Proof.
  intros pats H. rewrite <- (utf8_valid_app (utf8 prefix_text) (suffix_text pats)) by (vm_compute; reflexivity).
  rewrite <- exec_line_suffix. apply exec_line_valid. exact H.
Qed.

(* the words of  P ++ suffix_text pats  before specifier and variable expansion *)
Lemma split_any_line : forall P praw pats, pats_ok pats ->
  split_pre (SBetween []) P = Some (SBetween (rev praw)) ->
  split_words (P ++ suffix_text pats)
  = Some (praw ++ flat_map (fun p => [w_exclude; interW p]) pats ++ [w_devfile; [47; 37; 73]]).
Proof.
  intros P praw pats H HP. unfold split_words, suffix_text.
  rewrite split_run_app. rewrite HP. rewrite split_run_app. rewrite split_excludes by exact H.
  set (mid := flat_map (fun p => [w_exclude; interW p]) pats).
  change (split_run (SBetween (rev mid ++ rev praw)) (utf8 (str "--dev-file /%I")))
    with (Some (rev ([47; 37; 73] :: w_devfile :: rev mid ++ rev praw))).
  f_equal. clearbody mid. cbn [rev]. rewrite rev_app_distr, !rev_involutive.
  rewrite <- !app_assoc. reflexivity.
Qed.

Lemma spec_tail : forall inst, spec_all inst [w_devfile; [47; 37; 73]] = Some [w_devfile; 47 :: inst].
Proof.
  intros inst. cbn [spec_all]. change (spec_run inst false w_devfile) with (Some w_devfile).
  change (spec_run inst false [47; 37; 73]) with (Some (47 :: inst ++ [])). rewrite app_nil_r. reflexivity.
Qed.

Lemma env_tail : forall inst env, Forall (fun b => b <> 36) inst ->
  flat_map (env_word env) [w_devfile; 47 :: inst] = [w_devfile; 47 :: inst].
Proof.
  intros inst env Hinst. cbn [flat_map]. change (env_word env w_devfile) with [w_devfile].
  unfold env_word. cbn [N.eqb Pos.eqb]. cbn [app]. f_equal. f_equal.
  change (47 :: inst) with ([47] ++ inst).
  rewrite <- (app_nil_r ([47] ++ inst)) at 1. rewrite <- app_assoc.
  rewrite env_run_lit by (constructor; [lia|constructor]).
  rewrite env_run_lit by exact Hinst. cbn [env_run app]. rewrite app_nil_r. reflexivity.
Qed.

(* For EVERY front part P that systemd, reading it alone, takes as the complete
   words pre (read_prefix), the line  P ++ <what the escaper writes from the
   exclude region on>  is read as  pre, then "--exclude" <bytes of the pattern>
   for each pattern, then "--dev-file" "/<instance>" *)
Theorem decode_any_prefix : forall (inst : list N) (env : list N -> option (list N)) (P : list N)
    (pre : list (list N)) (pats : list (list N)),
  Forall (fun b => b <> 36) inst ->
  pats_ok pats ->
  read_prefix inst env P = Some pre ->
  decode inst env (P ++ suffix_text pats) = Some (pre ++ exclude_args pats ++ [w_devfile; 47 :: inst]).
Proof.
  intros inst env P pre pats Hinst H HP. unfold read_prefix in HP.
  destruct (utf8_is_valid P) eqn:HV; [|discriminate HP].
  destruct (split_pre (SBetween []) P) as [[ws| | | | |]|] eqn:HS; try discriminate HP.
  destruct (spec_all inst (rev ws)) as [pspec|] eqn:HSp; [|discriminate HP].
  destruct pspec as [|[|b t] r]; try discriminate HP.
  destruct (b =? 47) eqn:Hb; [|discriminate HP].
  inversion HP as [Epre]. clear HP.
  unfold decode. rewrite utf8_valid_app by exact HV. rewrite suffix_text_valid by exact H.
  rewrite (split_any_line P (rev ws) pats H) by (rewrite rev_involutive; exact HS).
  rewrite (spec_all_app inst _ _ _ _ HSp (spec_all_app inst _ _ _ _ (spec_all_excludes pats inst H) (spec_tail inst))).
  cbn [app]. rewrite Hb.
  change ((b :: t) :: r ++ flat_map (fun p => [w_exclude; flat_map inter2 p]) pats ++ [w_devfile; 47 :: inst])
    with (((b :: t) :: r) ++ flat_map (fun p => [w_exclude; flat_map inter2 p]) pats ++ [w_devfile; 47 :: inst]).
  rewrite !flat_map_app. rewrite env_excludes by exact H. rewrite env_tail by exact Hinst. reflexivity.
Qed.

(* the model's own front part is one of them *)
Lemma model_prefix_reads : forall inst env, read_prefix inst env (utf8 prefix_text) = Some fixed_prefix_words.
Proof. intros inst env. reflexivity. Qed.


(* ================================================================ part 7 *)


(* ------------------------------------------------------------ the unit file around the line *)

Definition no_eol (b : N) : Prop := b <> 10 /\ b <> 13 /\ b <> 0.

(* read_line on the last line of a file that ends with one LF *)
Lemma read_lines_last : forall L cur, Forall no_eol L ->
  read_lines cur [] (L ++ [10]) = [rev (rev L ++ cur)].
Proof.
  induction L as [|b L IH]; intros cur H.
  - reflexivity.
  - inversion H as [|? ? [H10 [H13 H0]] HL]; subst. cbn [app read_lines].
    unfold is_eol. rewrite (eqb_f b 10), (eqb_f b 13), (eqb_f b 0) by assumption.
    cbn [memb existsb nonempty orb andb negb].
    rewrite IH by exact HL. cbn [rev]. rewrite <- app_assoc. reflexivity.
Qed.

Lemma exec_line_no_eol : forall pats, pats_ok pats -> Forall no_eol (utf8 (exec_line pats)).
Proof.
  intros pats H. unfold utf8. apply Forall_flat_map. intros c Hc.
  pose proof (exec_line_forall (fun c => Forall no_eol (utf8_encode c)) pats) as F.
  rewrite Forall_forall in F. apply F; [| |exact H|exact Hc].
  - intros x Hx. rewrite utf8_encode_ascii by lia. constructor; [|constructor]. unfold no_eol. lia.
  - intros c0 [H0 [Hlt _]]. pose proof (esc_bytes_ge33 c0 H0 Hlt) as G. unfold utf8 in G.
    apply Forall_forall. intros x Hx.
    apply Forall_forall. intros b Hb. rewrite Forall_forall in G.
    assert (HG : 33 <= b). { apply G. apply in_flat_map. exists x. split; assumption. }
    unfold no_eol. lia.
Qed.

(* a line whose last byte is not a backslash is not continued *)
Lemma ends_escaped_last : forall l e b, b <> 92 -> ends_escaped e (l ++ [b]) = false.
Proof.
  induction l as [|x l IH]; intros e b H.
  - cbn [app ends_escaped]. destruct e; [reflexivity|]. apply eqb_f. exact H.
  - cbn [app ends_escaped]. destruct e; apply IH; exact H.
Qed.

(* strstrip leaves a line alone that begins and ends with a non-blank byte *)
Lemma strstrip_id : forall l b0 t l' x, l = b0 :: t -> l = l' ++ [x] -> is_ws b0 = false -> is_ws x = false ->
  strstrip l = l.
Proof.
  intros l b0 t l' x E1 E2 H0 Hx. unfold strstrip.
  assert (S1 : skip_ws l = l). { rewrite E1. cbn [skip_ws]. rewrite H0. reflexivity. }
  rewrite S1. rewrite E2 at 1. rewrite rev_app_distr. cbn [rev app skip_ws]. rewrite Hx.
  change (x :: rev l') with (rev [x] ++ rev l'). rewrite <- rev_app_distr, rev_involutive. symmetry. exact E2.
Qed.

(* the shape of the model's line: it begins with "/" and ends with "I" *)
Lemma exec_line_ends : forall pats, exists L1 L2,
  utf8 (exec_line pats) = 47 :: L1 /\ utf8 (exec_line pats) = L2 ++ [73].
Proof.
  intros pats. rewrite exec_line_split.
  exists (tl (utf8 prefix_text) ++ (utf8 (build_exclude_text pats) ++ [32]) ++ utf8 (str "--dev-file /%I")).
  exists (utf8 prefix_text ++ (utf8 (build_exclude_text pats) ++ [32]) ++ utf8 (str "--dev-file /%")).
  split.
  - reflexivity.
  - change (utf8 (str "--dev-file /%I")) with (utf8 (str "--dev-file /%") ++ [73]).
    rewrite <- !app_assoc. reflexivity.
Qed.

(* parse_line on the model's ExecStart= line *)
Lemma classify_exec_line : forall pats, pats_ok pats ->
  classify_line (str "ExecStart=" ++ utf8 (exec_line pats)) = LAssign name_exec_start (utf8 (exec_line pats)).
Proof.
  intros pats H. destruct (exec_line_ends pats) as [L1 [L2 [E1 E2]]].
  set (L := utf8 (exec_line pats)) in *.
  unfold classify_line.
  assert (S1 : strstrip (str "ExecStart=" ++ L) = str "ExecStart=" ++ L).
  { apply (strstrip_id _ 69 (tl (str "ExecStart=") ++ L) (str "ExecStart=" ++ L2) 73); try reflexivity.
    rewrite E2 at 1. rewrite app_assoc. reflexivity. }
  rewrite S1.
  assert (V : utf8_is_valid (str "ExecStart=" ++ L) = true).
  { change (str "ExecStart=") with (utf8 (str "ExecStart=")). rewrite utf8_valid_all.
    - apply exec_line_valid. exact H.
    - apply ascii_text_forall; [exact ascii_lit_ok|vm_compute; reflexivity]. }
  change (str "ExecStart=" ++ L) with (69 :: tl (str "ExecStart=") ++ L) at 1.
  cbv iota. rewrite V. cbn [negb].
  change (69 =? 91) with false. cbv iota.
  change (split_assign [] (str "ExecStart=" ++ L)) with (Some (name_exec_start, L)).
  cbv iota. change name_exec_start with (69 :: tl name_exec_start) at 1. cbv iota.
  change (strstrip (69 :: tl name_exec_start)) with name_exec_start.
  assert (S2 : strstrip L = L).
  { apply (strstrip_id _ 47 L1 L2 73); try assumption; reflexivity. }
  rewrite S2. reflexivity.
Qed.

(* What systemd finds in the written unit file: one ExecStart= assignment in
   [Service], and its value is exec_line — no pattern can break the line, start
   a comment or a continuation, or add another assignment *)
Theorem unit_text_exec_starts : forall pats, pats_ok pats ->
  service_exec_starts (utf8 (build_service_text pats)) = Some [utf8 (exec_line pats)].
Proof.
  intros pats H. unfold service_exec_starts, file_lines, build_service_text.
  rewrite !utf8_app. change (utf8 [10]) with [10].
  pose proof (classify_exec_line pats H) as HC.
  pose proof (exec_line_no_eol pats H) as HN.
  destruct (exec_line_ends pats) as [L1 [L2 [E1 E2]]].
  set (L := utf8 (exec_line pats)) in *.
  change (read_lines [] [] (utf8 service_header ++ utf8 (str "ExecStart=") ++ L ++ [10]))
    with (str "[Unit]" :: str "Description=Totalmapper" :: [] :: str "[Service]" :: str "Type=simple"
          :: str "User=totalmapper" :: str "Group=input" :: read_lines (rev (str "ExecStart=")) [] (L ++ [10])).
  rewrite read_lines_last by exact HN.
  rewrite rev_app_distr, !rev_involutive.
  set (EL := str "ExecStart=" ++ L) in *.
  change (unit_run (UState None false false [])
            [str "[Unit]"; str "Description=Totalmapper"; []; str "[Service]"; str "Type=simple";
             str "User=totalmapper"; str "Group=input"; EL])
    with (unit_run (UState None false true []) [EL]).
  cbn [unit_run unit_step].
  assert (C1 : is_comment_line EL = false) by reflexivity.
  assert (C2 : drop_bom false EL = (EL, false)) by reflexivity.
  rewrite C1, C2. cbn [fst snd].
  assert (C3 : ends_escaped false EL = false).
  { unfold EL. rewrite E2. rewrite app_assoc. apply ends_escaped_last. lia. }
  rewrite C3. unfold apply_line. rewrite HC.
  change (true && list_eqb name_exec_start name_exec_start) with true. cbv iota.
  cbn [fst snd unit_finish rev app]. reflexivity.
Qed.


(* ================================================================ part 8 *)

(* ------------------------------------------------------------ the extracted checker: what its answer means *)

Lemma list_eqb_refl : forall a, list_eqb a a = true.
Proof. induction a as [|x a IH]; [reflexivity|]. cbn [list_eqb]. rewrite N.eqb_refl. exact IH. Qed.

Lemma argv_eqb_refl : forall a, argv_eqb a a = true.
Proof. induction a as [|x a IH]; [reflexivity|]. cbn [argv_eqb]. rewrite list_eqb_refl. exact IH. Qed.

Lemma argv_eqb_eq : forall a b, argv_eqb a b = true -> a = b.
Proof.
  induction a as [|x a IH]; intros [|y b] H; cbn [argv_eqb] in H; try discriminate; try reflexivity.
  apply andb_prop in H. destruct H as [H1 H2]. apply list_eqb_eq in H1. subst y. f_equal. apply IH. exact H2.
Qed.

Lemma word_in_In : forall w ws, word_in w ws = true <-> In w ws.
Proof.
  intros w ws. unfold word_in. rewrite existsb_exists. split.
  - intros [x [Hx E]]. apply list_eqb_eq in E. subst x. exact Hx.
  - intros Hw. exists w. split; [exact Hw|apply list_eqb_refl].
Qed.

Lemma word_in_false : forall w ws, word_in w ws = false -> ~ In w ws.
Proof. intros w ws H Hin. apply word_in_In in Hin. rewrite Hin in H. discriminate. Qed.

Lemma layout_and_flag_sound : forall ws before, layout_and_flag before ws = true ->
  exists a v b, ws = a ++ [w_layout_file; v] ++ b
                /\ (In w_only_if_keyboard before \/ In w_only_if_keyboard (a ++ b)).
Proof.
  induction ws as [|w r IH]; intros before H.
  - discriminate H.
  - cbn [layout_and_flag] in H. destruct r as [|v r']; [discriminate H|].
    apply orb_prop in H. destruct H as [H|H].
    + apply andb_prop in H. destruct H as [Hw Hf]. apply list_eqb_eq in Hw. subst w.
      exists [], v, r'. split; [reflexivity|]. cbn [app].
      apply orb_prop in Hf. destruct Hf as [Hf|Hf]; apply word_in_In in Hf; [left|right]; exact Hf.
    + destruct (IH (w :: before) H) as [a [v' [b [E Hin]]]].
      exists (w :: a), v', b. split; [cbn [app]; rewrite E; reflexivity|].
      destruct Hin as [[Hin|Hin]|Hin].
      * right. left. exact Hin.
      * left. exact Hin.
      * right. right. exact Hin.
Qed.

Lemma layout_and_flag_complete : forall a v b before,
  In w_only_if_keyboard before \/ In w_only_if_keyboard (a ++ b) ->
  layout_and_flag before (a ++ [w_layout_file; v] ++ b) = true.
Proof.
  induction a as [|x a IH]; intros v b before H.
  - cbn [app layout_and_flag]. rewrite list_eqb_refl. cbn [andb].
    apply orb_true_intro. left. apply orb_true_intro.
    destruct H as [H|H]; [left|right]; apply word_in_In; exact H.
  - cbn [app layout_and_flag].
    destruct (a ++ w_layout_file :: v :: b) as [|y r'] eqn:E.
    + exfalso. exact (app_cons_not_nil _ _ _ (eq_sym E)).
    + apply orb_true_intro. right. change (y :: r') with ([] ++ y :: r'). cbn [app]. rewrite <- E.
      apply (IH v b (x :: before)). cbn [app] in H.
      destruct H as [H|[H|H]].
      * left. right. exact H.
      * left. left. exact H.
      * right. exact H.
Qed.

Lemma prefix_ok_sound : forall pre, prefix_ok pre = true -> prefix_intact pre.
Proof.
  intros pre H. unfold prefix_ok in H. destruct pre as [|w0 pre']; [discriminate H|].
  apply andb_prop in H. destruct H as [H1 H2].
  split; [discriminate|]. split.
  - apply word_in_false. destruct (word_in w_exclude (w0 :: pre')); [discriminate H1|reflexivity].
  - destruct (layout_and_flag_sound _ _ H2) as [a [v [b [E [Hin|Hin]]]]]; [contradiction|].
    exists a, v, b. split; assumption.
Qed.

Lemma prefix_ok_complete : forall pre, prefix_intact pre -> prefix_ok pre = true.
Proof.
  intros pre [Hne [Hno [a [v [b [E Hin]]]]]]. unfold prefix_ok.
  destruct pre as [|w0 pre']; [contradiction|].
  destruct (word_in w_exclude (w0 :: pre')) eqn:Ew.
  - exfalso. apply Hno. apply word_in_In. exact Ew.
  - cbn [negb andb]. rewrite E. apply layout_and_flag_complete. right. exact Hin.
Qed.

Lemma skipn_length_app : forall (A : Type) (a b : list A), skipn (List.length a) (a ++ b) = b.
Proof. induction a as [|x a IH]; intros b; [reflexivity|]. cbn [List.length app skipn]. apply IH. Qed.

Lemma firstn_length_app : forall (A : Type) (a b : list A), firstn (List.length a) (a ++ b) = a.
Proof. induction a as [|x a IH]; intros b; [reflexivity|]. cbn [List.length app firstn]. f_equal. apply IH. Qed.

Lemma argv_ok_sound : forall inst pats argv, argv_ok inst pats argv = true ->
  exists pre, argv = pre ++ required_suffix inst pats /\ prefix_intact pre.
Proof.
  intros inst pats argv H. unfold argv_ok in H. cbv zeta in H.
  apply andb_prop in H. destruct H as [H1 H2].
  exists (firstn (List.length argv - List.length (required_suffix inst pats)) argv). split.
  - apply argv_eqb_eq in H1.
    transitivity (firstn (List.length argv - List.length (required_suffix inst pats)) argv
                  ++ skipn (List.length argv - List.length (required_suffix inst pats)) argv).
    + symmetry. apply firstn_skipn.
    + f_equal. exact H1.
  - apply prefix_ok_sound. exact H2.
Qed.

Lemma argv_ok_complete : forall inst pats pre, prefix_intact pre ->
  argv_ok inst pats (pre ++ required_suffix inst pats) = true.
Proof.
  intros inst pats pre H. unfold argv_ok. cbv zeta.
  rewrite app_length. rewrite Nat.add_sub.
  rewrite skipn_length_app, firstn_length_app, argv_eqb_refl. cbn [andb].
  apply prefix_ok_complete. exact H.
Qed.

(* A true answer of the checker on ANY text: systemd finds exactly one
   ExecStart= command in [Service] and reads it as an intact prefix, then
   exactly "--exclude" <bytes of the pattern> for each of the user's patterns
   in order, then "--dev-file" "/<instance>" *)
Theorem check_sound : forall inst env pats text,
  c17_check inst env pats text = true -> c17_holds inst env pats text.
Proof.
  intros inst env pats text H. unfold c17_check, read_unit in H.
  destruct (service_exec_starts text) as [[|line [|l2 ls]]|] eqn:ES; try discriminate H.
  destruct (decode inst env line) as [argv|] eqn:ED; [|discriminate H].
  destruct (argv_ok_sound _ _ _ H) as [pre [E Hpre]].
  exists line, argv, pre. split; [exact ES|]. split; [exact ED|]. split; [exact E|exact Hpre].
Qed.

(* ... and a false answer means the text does not have the property *)
Theorem check_complete : forall inst env pats text,
  c17_holds inst env pats text -> c17_check inst env pats text = true.
Proof.
  intros inst env pats text [line [argv [pre [ES [ED [E Hpre]]]]]].
  unfold c17_check, read_unit. rewrite ES, ED. rewrite E. apply (argv_ok_complete inst pats pre Hpre).
Qed.

(* ------------------------------------------------------------ the extracted checker on the model *)

Theorem unit_roundtrip : forall (inst : list N) (env : list N -> option (list N)) (pats : list (list N)),
  Forall (fun b => b <> 36) inst ->
  pats_ok pats ->
  read_unit inst env (utf8 (build_service_text pats)) = Some (expected_argv inst pats).
Proof.
  intros inst env pats Hinst H. unfold read_unit. rewrite unit_text_exec_starts by exact H.
  rewrite exec_roundtrip by assumption. reflexivity.
Qed.

Lemma fixed_prefix_intact : prefix_intact fixed_prefix_words.
Proof. apply prefix_ok_sound. vm_compute. reflexivity. Qed.

Theorem check_on_model : forall (inst : list N) (env : list N -> option (list N)) (pats : list (list N)),
  Forall (fun b => b <> 36) inst ->
  pats_ok pats ->
  c17_check inst env pats (utf8 (build_service_text pats)) = true.
Proof.
  intros inst env pats Hinst H. unfold c17_check. rewrite unit_roundtrip by assumption.
  unfold expected_argv. apply argv_ok_complete. exact fixed_prefix_intact.
Qed.

(* ------------------------------------------------------------ the checker on any unit with such a line *)

(* A unit text in which systemd finds one ExecStart= assignment, whose value is
   a front part P read as an intact prefix followed by what the escaper writes
   from the exclude region on, has the property — whatever else the unit says *)
Theorem check_on_any_prefix : forall (inst : list N) (env : list N -> option (list N)) (pats : list (list N))
    (text P : list N) (pre : list (list N)),
  Forall (fun b => b <> 36) inst ->
  pats_ok pats ->
  service_exec_starts text = Some [P ++ suffix_text pats] ->
  read_prefix inst env P = Some pre ->
  prefix_ok pre = true ->
  c17_check inst env pats text = true.
Proof.
  intros inst env pats text P pre Hinst H ES HP Hok. apply check_complete.
  exists (P ++ suffix_text pats), (pre ++ exclude_args pats ++ [w_devfile; 47 :: inst]), pre.
  split; [exact ES|]. split; [apply decode_any_prefix; assumption|]. split; [reflexivity|].
  apply prefix_ok_sound. exact Hok.
Qed.

(* the comparison of correspondence class TEXT is exactly the hypotheses of
   that theorem: a real unit text that passes it has the property *)
Theorem text_class_ok_check : forall (inst : list N) (env : list N -> option (list N)) (pats : list (list N))
    (text : list N),
  Forall (fun b => b <> 36) inst ->
  pats_ok pats ->
  text_class_ok inst env pats text = true ->
  c17_check inst env pats text = true.
Proof.
  intros inst env pats text Hinst H HT. unfold text_class_ok in HT.
  destruct (service_exec_starts text) as [[|line [|l2 ls]]|] eqn:ES; try discriminate HT.
  cbv zeta in HT. apply andb_prop in HT. destruct HT as [HS HP].
  set (n := (List.length line - List.length (suffix_text pats))%nat) in *.
  destruct (read_prefix inst env (firstn n line)) as [pre|] eqn:HR; [|discriminate HP].
  apply (check_on_any_prefix inst env pats text (firstn n line) pre); try assumption.
  rewrite ES. f_equal. f_equal. apply list_eqb_eq in HS. rewrite <- HS. symmetry. apply firstn_skipn.
Qed.

(* and the model's text passes it *)
Theorem text_class_ok_model : forall (inst : list N) (env : list N -> option (list N)) (pats : list (list N)),
  pats_ok pats ->
  text_class_ok inst env pats (utf8 (build_service_text pats)) = true.
Proof.
  intros inst env pats H. unfold text_class_ok. rewrite unit_text_exec_starts by exact H. cbv zeta.
  rewrite exec_line_suffix. rewrite app_length, Nat.add_sub.
  rewrite skipn_length_app, firstn_length_app, list_eqb_refl. cbn [andb].
  rewrite model_prefix_reads. vm_compute. reflexivity.
Qed.

(* scalar_okb decides scalar_ok *)
Lemma scalar_okb_ok : forall c, scalar_okb c = true -> scalar_ok c.
Proof.
  intros c H. unfold scalar_okb in H. apply andb_prop in H. destruct H as [H H3].
  apply andb_prop in H. destruct H as [H1 H2]. apply N.ltb_lt in H1. apply N.ltb_lt in H2.
  unfold scalar_ok. split; [exact H1|]. split; [exact H2|]. intros [A B].
  apply N.leb_le in A. apply N.leb_le in B. rewrite A, B in H3. discriminate.
Qed.
