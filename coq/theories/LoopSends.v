(* LoopSends.v — what the loop sends (C10 sends, C12, the held-set invariant).

   `mview` is the loop's resumption seen from the mapper: every continuing step
   of the loop either leaves the mapper alone, or feeds it one key event, or
   calls release_all, or starts a timer chord. *)
From TM Require Import Base ListFacts Mapper Monitors Trace TraceLemmas MapperInv MapperProps MapperRepeat
                       Loop LoopEnv LoopMonitors LoopSpec LoopLemmas LoopStep.
From Coq Require Import Lia.

(* ---------- list-level facts about the chord ---------- *)

Lemma apply_evs_press_fresh : forall c h,
  NoDup c -> (forall k, In k c -> ~ In k h) ->
  apply_evs h (map Pressed c) = h ++ c /\ redundant h (map Pressed c) = false.
Proof.
  induction c as [|k c IH]; intros h Hnd Hni.
  - cbn. rewrite app_nil_r. split; reflexivity.
  - inversion Hnd as [|? ? Hk Hnd']; subst. cbn [map].
    assert (Hm : mem k h = false) by (apply mem_false; apply Hni; left; reflexivity).
    destruct (IH (h ++ [k]) Hnd') as [H1 H2].
    { intros x Hx Hin. apply in_app_or in Hin. destruct Hin as [Hin|[E|[]]].
      - exact (Hni x (or_intror Hx) Hin).
      - subst. contradiction. }
    split.
    + unfold apply_evs in *. cbn [fold_left apply_ev]. rewrite Hm. rewrite H1, <- app_assoc. reflexivity.
    + cbn [redundant]. rewrite Hm. exact H2.
Qed.

Lemma remove_all_app k a b : remove_all k (a ++ b) = remove_all k a ++ remove_all k b.
Proof. unfold remove_all. apply filter_app. Qed.

Lemma apply_evs_release_rev : forall c h,
  NoDup c -> (forall k, In k c -> ~ In k h) ->
  apply_evs (h ++ c) (map Released (rev c)) = h /\ redundant (h ++ c) (map Released (rev c)) = false.
Proof.
  intros c. induction c as [|k c IH] using rev_ind; intros h Hnd Hni.
  - cbn. rewrite app_nil_r. split; reflexivity.
  - rewrite rev_app_distr. cbn [rev app map].
    assert (Hnd' : NoDup c) by (apply NoDup_app_l in Hnd; exact Hnd).
    assert (Hkc : ~ In k c).
    { intros Hin. apply (NoDup_app_disj c [k] k Hnd Hin). left. reflexivity. }
    assert (Hkh : ~ In k h) by (apply Hni; apply in_or_app; right; left; reflexivity).
    assert (Hrm : remove_all k (h ++ c ++ [k]) = h ++ c).
    { rewrite !remove_all_app. rewrite (remove_all_notin k h Hkh), (remove_all_notin k c Hkc).
      cbn [remove_all filter]. rewrite N.eqb_refl. cbn [negb]. rewrite app_nil_r. reflexivity. }
    destruct (IH h Hnd') as [H1 H2].
    { intros x Hx. apply Hni. apply in_or_app. left. exact Hx. }
    split.
    + unfold apply_evs in *. cbn [fold_left apply_ev]. rewrite Hrm. exact H1.
    + cbn [redundant]. rewrite Hrm, H2.
      assert (Hm : mem k (h ++ c ++ [k]) = true).
      { apply mem_In. apply in_or_app. right. apply in_or_app. right. left. reflexivity. }
      rewrite Hm. reflexivity.
Qed.

(* a chord over keys that are up leaves the held set EXACTLY as it was and is
   a well-formed trace *)
Lemma chord_transient c h :
  NoDup c -> (forall k, In k c -> ~ In k h) ->
  apply_evs h (map Pressed c ++ map Released (rev c)) = h
  /\ redundant h (map Pressed c ++ map Released (rev c)) = false.
Proof.
  intros Hnd Hni. destruct (apply_evs_press_fresh c h Hnd Hni) as [P1 P2].
  destruct (apply_evs_release_rev c h Hnd Hni) as [R1 R2].
  split.
  - rewrite apply_evs_app, P1. exact R1.
  - rewrite redundant_app, P2. fold (apply_evs h (map Pressed c)). rewrite P1. exact R2.
Qed.

Lemma chord_of_transient held ks :
  apply_evs held (chord_of held ks) = held /\ redundant held (chord_of held ks) = false.
Proof.
  unfold chord_of. apply chord_transient.
  - apply NoDup_dedup.
  - intros k Hk. apply (proj1 (In_dedup _ _)) in Hk. apply filter_In in Hk. destruct Hk as [_ Hk].
    apply negb_true_iff in Hk. apply mem_false. exact Hk.
Qed.

Lemma is_output_held_mem s k : is_output_held s k = mem k (held_of s).
Proof. unfold is_output_held, held_of. rewrite mem_app. reflexivity. Qed.

Lemma chord_events_chord_of s ks held :
  seteq held (held_of s) -> chord_events s ks = chord_of held ks.
Proof.
  intros Hs. unfold chord_events, chord_keys, chord_of.
  assert (E : filter (fun k => negb (is_output_held s k)) ks = filter (fun k => negb (mem k held)) ks).
  { apply filter_ext. intros k. rewrite is_output_held_mem. rewrite (mem_seteq _ _ k Hs). reflexivity. }
  rewrite E. reflexivity.
Qed.

Lemma chord_events_tr_ok s ks h :
  seteq h (held_of s) -> tr_ok h (chord_events s ks) h.
Proof.
  intros Hs. rewrite (chord_events_chord_of s ks h Hs).
  destruct (chord_of_transient h ks) as [H1 H2]. split; [exact H2|]. rewrite H1. apply seteq_refl.
Qed.

(* ---------- transcripts ---------- *)

Lemma minputs_app : forall a b tab,
  minputs tab (a ++ b) = minputs tab a ++ minputs (tab_after tab a) b.
Proof.
  induction a as [|x a IH]; intros b tab; [reflexivity|].
  cbn [app minputs tab_after]. destruct (ekind_of x) as [e|on|].
  - destruct tab; rewrite IH; reflexivity.
  - rewrite IH. reflexivity.
  - apply IH.
Qed.

Lemma tab_after_app : forall a b tab, tab_after tab (a ++ b) = tab_after (tab_after tab a) b.
Proof.
  induction a as [|x a IH]; intros b tab; [reflexivity|].
  cbn [app tab_after]. destruct (ekind_of x); apply IH.
Qed.

Lemma acked_app : forall a b, acked (a ++ b) = acked a ++ acked b.
Proof.
  induction a as [|[c r] a IH]; intros b; [reflexivity|].
  cbn [app acked]. destruct c; try apply IH. destruct r; try apply IH.
  rewrite IH, app_assoc. reflexivity.
Qed.

(* without tablet events the mapper inputs are the key events read *)
Lemma minputs_no_tab : forall tr,
  (forall x, In x tr -> forall b, ekind_of x <> ETab b) ->
  minputs false tr = map IEv (kbd_reads tr) /\ tab_after false tr = false.
Proof.
  induction tr as [|x tr IH]; intros Hno; [split; reflexivity|].
  destruct IH as [IH1 IH2]; [intros y Hy; apply Hno; right; exact Hy|].
  pose proof (Hno x (or_introl eq_refl)) as Hx.
  cbn [minputs tab_after kbd_reads]. destruct x as [c r].
  destruct c; try (split; assumption).
  - destruct r as [| | |n| |]; try (split; assumption). destruct n as [| |e]; try (split; assumption).
    cbn [ekind_of map]. rewrite IH1. split; [reflexivity | exact IH2].
  - destruct r as [| | | |n|]; try (split; assumption). destruct n as [| |b]; try (split; assumption).
    exfalso. exact (Hx b eq_refl).
Qed.

Lemma no_tab_event_transcript (cs : list call) rs :
  no_tab_event rs -> forall x, In x (combine cs rs) -> forall b, ekind_of x <> ETab b.
Proof.
  intros Hno [c r] Hx b E. apply in_combine_r in Hx.
  destruct c; destruct r as [| | |n|n|]; try discriminate E; destruct n as [| |b']; try discriminate E.
  inversion E; subst. exact (Hno b Hx).
Qed.

Section S.
Variable is_action : key -> bool.
Variable L : layout.

Notation resume := (Loop.resume is_action L).
Notation run_from := (Loop.run_from is_action L).
Notation run := (Loop.run is_action L).
Notation confs := (LoopSpec.confs is_action L).
Notation transcript_of := (LoopSpec.transcript_of is_action L).
Notation step := (Mapper.step is_action L).
Notation release_all := (Mapper.release_all is_action L).
Notation mrun := (MapperInv.mrun is_action L).
Notation mstep := (Monitors.mstep is_action L).
Notation lgo := (LoopStep.lgo is_action L).

Lemma mrun_cons s i h :
  mrun s (i :: h) =
  (fst (fst (mstep s i)) :: fst (mrun (snd (mstep s i)) h), snd (mrun (snd (mstep s i)) h)).
Proof.
  cbn [MapperInv.mrun]. destruct (mstep s i) as [[evs rep] s1]. cbn [fst snd].
  destruct (mrun s1 h) as [outs s2]. reflexivity.
Qed.

Lemma mrun_IEv : forall h s,
  fst (mrun s (map IEv h)) = map fst (fst (Mapper.run is_action L s h))
  /\ snd (mrun s (map IEv h)) = snd (Mapper.run is_action L s h).
Proof.
  induction h as [|e h IH]; intros s; [split; reflexivity|].
  cbn [map]. rewrite mrun_cons. cbn [Monitors.mstep Mapper.run].
  destruct (step s e) as [[evs rep] s1]. cbn [fst snd].
  destruct (IH s1) as [H1 H2]. destruct (Mapper.run is_action L s1 h) as [outs s2]. cbn [fst snd map] in *.
  rewrite H1, H2. split; reflexivity.
Qed.

(* ---------- the mapper's view of one resumption ---------- *)

Definition not_send (p : point) : Prop := match pending p with CSend _ => False | _ => True end.

Lemma not_send_pending_send p : not_send p -> pending_send p = [].
Proof. unfold not_send, pending_send. destruct (pending p); try reflexivity. contradiction. Qed.

Lemma top_point_not_send st p : top_point st p -> not_send p.
Proof. intros [[_ ->]|[ks [nw [iv [_ ->]]]]]; exact I. Qed.

Lemma visit_point_not_send rest st p : visit_point rest st p -> not_send p.
Proof.
  destruct rest as [|[|] rest]; cbn [visit_point];
    [apply top_point_not_send | intros ->; exact I | intros ->; exact I].
Qed.

Lemma step_next_same rep rest st p' st' :
  step_next rep rest st p' st' ->
  not_send p' /\ l_mapper st' = l_mapper st /\ l_tablet st' = l_tablet st.
Proof. destruct rep; cbn [step_next]; intros [-> ->]; repeat split. Qed.

Lemma adv_next_same st p' st' :
  adv_next st p' st' -> not_send p' /\ l_mapper st' = l_mapper st /\ l_tablet st' = l_tablet st.
Proof.
  unfold adv_next. destruct (l_wr st) as [|ks nw iv].
  - intros [H ->]. split; [eapply top_point_not_send; exact H | split; reflexivity].
  - intros [nw' [_ [-> ->]]]. repeat split.
Qed.

Inductive mview : point -> lstate -> resp -> point -> lstate -> Prop :=
| MV_same : forall p st r p' st',
    (ekind_of (pending p, r) = EOther \/ (exists e, ekind_of (pending p, r) = EKey e /\ l_tablet st = true)) ->
    l_mapper st' = l_mapper st -> l_tablet st' = l_tablet st -> not_send p' ->
    (not_send p \/ r = RUnit) ->
    mview p st r p' st'
| MV_key : forall rest st e evs rep s' p' st',
    l_tablet st = false -> step (l_mapper st) e = (evs, rep, s') ->
    l_mapper st' = s' -> l_tablet st' = false ->
    (evs = [] /\ not_send p') \/ (evs <> [] /\ p' = PSendStep evs rep rest) ->
    mview (PKbd rest) st (RKbd (NOne e)) p' st'
| MV_tab : forall rest st on evs s' p' st',
    release_all (l_mapper st) = (evs, s') ->
    l_mapper st' = s' -> l_tablet st' = on -> l_wr st' = Idle ->
    (evs = [] /\ p' = PTab rest) \/ (evs <> [] /\ p' = PSendTab evs rest) ->
    mview (PTab rest) st (RTab (NOne on)) p' st'
| MV_chord : forall to st ks nw iv,
    l_wr st = Repeating ks nw iv -> l_tablet st = false -> chord_events (l_mapper st) ks <> [] ->
    mview (PPoll to) st (RPoll PTimedOut) (PSendChord (chord_events (l_mapper st) ks)) st.

Lemma lgo_mview p st r p' st' : lgo p st r p' st' -> mview p st r p' st'.
Proof.
  intros H. destruct H.
  - apply MV_same; [left; reflexivity | reflexivity | reflexivity | eapply top_point_not_send; eassumption | left; exact I].
  - apply MV_same; [left; reflexivity | reflexivity | reflexivity | exact I | left; exact I].
  - apply MV_same; [left; reflexivity | reflexivity | reflexivity | exact I | left; exact I].
  - apply MV_same; [left; reflexivity | reflexivity | reflexivity | eapply top_point_not_send; eassumption | left; exact I].
  - apply MV_same; [left; reflexivity | reflexivity | reflexivity | exact I | left; exact I].
  - destruct (adv_next_same _ _ _ H2) as [A1 [A2 A3]].
    apply MV_same; [left; reflexivity | exact A2 | exact A3 | exact A1 | left; exact I].
  - subst evs. eapply MV_chord; eassumption.
  - apply MV_same; [left; reflexivity | reflexivity | reflexivity | eapply top_point_not_send; eassumption | left; exact I].
  - apply MV_same; [left; reflexivity | reflexivity | reflexivity | exact I | left; exact I].
  - apply MV_same; [left; reflexivity | reflexivity | reflexivity | eapply visit_point_not_send; eassumption | left; exact I].
  - destruct (adv_next_same _ _ _ H) as [A1 [A2 A3]].
    apply MV_same; [left; reflexivity | exact A2 | exact A3 | exact A1 | right; reflexivity].
  - apply MV_same; [left; reflexivity | reflexivity | reflexivity | eapply top_point_not_send; eassumption | left; exact I].
  - apply MV_same; [left; reflexivity | reflexivity | reflexivity | eapply visit_point_not_send; eassumption | left; exact I].
  - apply MV_same; [right; exists e; split; [reflexivity | assumption] | reflexivity | reflexivity | exact I | left; exact I].
  - destruct (step_next_same _ _ _ _ _ H1) as [A1 [A2 A3]].
    eapply MV_key; [eassumption | eassumption | exact A2 | rewrite A3; assumption | left; split; [reflexivity | exact A1]].
  - eapply MV_key; [eassumption | eassumption | reflexivity | assumption | right; split; [assumption | reflexivity]].
  - destruct (step_next_same _ _ _ _ _ H) as [A1 [A2 A3]].
    apply MV_same; [left; reflexivity | exact A2 | exact A3 | exact A1 | right; reflexivity].
  - apply MV_same; [left; reflexivity | reflexivity | reflexivity | exact I | left; exact I].
  - apply MV_same; [left; reflexivity | reflexivity | reflexivity | eapply visit_point_not_send; eassumption | left; exact I].
  - eapply MV_tab; [eassumption | reflexivity | reflexivity | reflexivity | left; split; reflexivity].
  - eapply MV_tab; [eassumption | reflexivity | reflexivity | reflexivity | right; split; [assumption | reflexivity]].
  - apply MV_same; [left; reflexivity | reflexivity | reflexivity | exact I | right; reflexivity].
Qed.

Lemma resume_mview p st r p' st' : resume p st r = Go p' st' -> mview p st r p' st'.
Proof. intros E. apply lgo_mview. apply resume_go. exact E. Qed.

(* ---------- C10: the sends are the step outputs ---------- *)

Definition pend (p : point) : list (list event) :=
  match p with PSendStep evs _ _ | PSendTab evs _ => [evs] | _ => [] end.

Definition flag_ok (b : bool) (p : point) : Prop :=
  match p with
  | PSendChord _ => b = true
  | PSendStep _ _ _ | PSendTab _ _ => b = false
  | _ => True
  end.

Lemma not_send_pend p : not_send p -> pend p = [] /\ forall b, flag_ok b p.
Proof. destruct p; cbn; intros H; try contradiction; split; try reflexivity; intros; exact I. Qed.

Lemma msends_single b p : flag_ok b p ->
  (match pending p with CSend evs => if b then [] else [evs] | _ => [] end) = pend p.
Proof. destruct p; cbn; intros H; try reflexivity; subst b; reflexivity. Qed.

Lemma not_tick_of_ekind c r : ekind_of (c, r) <> EOther -> is_tick c (Some r) = false.
Proof. destruct c; try reflexivity. intros H. exfalso. apply H. reflexivity. Qed.

Lemma msends_from : forall rs p st b,
  flag_ok b p ->
  msends b (fst (run_from p st rs)) rs =
  pend p ++ filter non_nil (fst (mrun (l_mapper st) (minputs (l_tablet st) (combine (fst (run_from p st rs)) rs)))).
Proof.
  induction rs as [|r rs IH]; intros p st b Hb.
  - cbn [Loop.run_from fst combine minputs MapperInv.mrun filter msends]. rewrite (msends_single b p Hb).
    reflexivity.
  - destruct (resume p st r) as [p' st'|o] eqn:E.
    + rewrite (run_from_go _ _ _ _ _ _ _ _ E). cbn [fst combine msends hd_error tl].
      rewrite (msends_single b p Hb). apply resume_mview in E.
      destruct E as [p st r p' st' Hk Hm Ht Hns _ | rest st e evs rep s' p' st' Ht Hs Hm Ht' Hp
                    | rest st on evs s' p' st' Hr Hm Ht' _ Hp | to st ks nw iv Hw Ht Hne].
      * destruct (not_send_pend p' Hns) as [Hp' Hf]. rewrite (IH p' st' _ (Hf _)). rewrite Hp', Hm, Ht.
        cbn [app minputs]. destruct Hk as [Hk|[e [Hk Htab]]]; rewrite Hk; [reflexivity | rewrite Htab; reflexivity].
      * assert (Hf : flag_ok false p' /\ pend p' = filter non_nil [evs]).
        { destruct Hp as [[-> Hns]|[Hne ->]].
          - destruct (not_send_pend p' Hns) as [Hp' Hf]. split; [apply Hf | exact Hp'].
          - split; [reflexivity|]. destruct evs; [contradiction | reflexivity]. }
        destruct Hf as [Hf Hp']. cbn [is_tick pending]. rewrite (IH p' st' false Hf). rewrite Hp', Hm, Ht'.
        cbn [pend app minputs ekind_of pending]. rewrite Ht. rewrite mrun_cons. cbn [Monitors.mstep].
        rewrite Hs. cbn [fst snd filter]. destruct (non_nil evs); reflexivity.
      * assert (Hf : flag_ok false p' /\ pend p' = filter non_nil [evs]).
        { destruct Hp as [[-> ->]|[Hne ->]].
          - split; [exact I | reflexivity].
          - split; [reflexivity|]. destruct evs; [contradiction | reflexivity]. }
        destruct Hf as [Hf Hp']. cbn [is_tick pending]. rewrite (IH p' st' false Hf). rewrite Hp', Hm, Ht'.
        cbn [pend app minputs ekind_of pending]. rewrite mrun_cons. cbn [Monitors.mstep].
        rewrite Hr. cbn [fst snd filter]. destruct (non_nil evs); reflexivity.
      * cbn [is_tick pending]. rewrite (IH (PSendChord (chord_events (l_mapper st) ks)) st true eq_refl). cbn [pend app minputs ekind_of pending].
        reflexivity.
    + rewrite (run_from_stop _ _ _ _ _ _ _ E). cbn [fst combine msends hd_error tl].
      rewrite (msends_single b p Hb). cbn [minputs]. rewrite (stop_ekind _ _ _ _ _ _ E).
      cbn [minputs MapperInv.mrun fst filter]. rewrite !app_nil_r. reflexivity.
Qed.

(* C10: the sends of a run that do not directly follow a time-out are exactly
   the non-empty outputs of the mapper for the key events read while the tablet
   switch is off and the release-all calls at the tablet events, in order *)
Theorem sends_are_mapper_outputs rs cs o :
  run rs = (cs, o) ->
  msends false cs rs = filter non_nil (fst (mrun init (minputs false (combine cs rs)))).
Proof.
  intros Hrun. pose proof (msends_from rs PRegister linit false I) as H.
  fold (run rs) in H. rewrite Hrun in H. cbn [fst] in H. exact H.
Qed.

Theorem sends_are_step_outputs rs cs o :
  run rs = (cs, o) -> no_tab_event rs ->
  msends false cs rs =
  filter non_nil (map fst (fst (Mapper.run is_action L init (kbd_reads (combine cs rs))))).
Proof.
  intros Hrun Hno. rewrite (sends_are_mapper_outputs rs cs o Hrun).
  destruct (minputs_no_tab (combine cs rs) (no_tab_event_transcript cs rs Hno)) as [H _].
  rewrite H. destruct (mrun_IEv (kbd_reads (combine cs rs)) init) as [H1 _]. rewrite H1. reflexivity.
Qed.

(* ---------- the mapper state along a run ---------- *)

Definition since_step (tab : bool) (x : call * resp) : list input :=
  match ekind_of x with
  | EKey e => if tab then [] else [IEv e]
  | ETab _ => [IReleaseAll]
  | EOther => []
  end.

Lemma minputs_snoc tab tr x :
  minputs tab (tr ++ [x]) = minputs tab tr ++ since_step (tab_after tab tr) x.
Proof.
  rewrite minputs_app. unfold since_step. cbn [minputs]. destruct (ekind_of x); [destruct (tab_after tab tr)|..]; reflexivity.
Qed.

Lemma tab_after_snoc tab tr x :
  tab_after tab (tr ++ [x]) = match ekind_of x with ETab b => b | _ => tab_after tab tr end.
Proof. rewrite tab_after_app. cbn [tab_after]. destruct (ekind_of x); reflexivity. Qed.

Definition state_inv (tr : list (call * resp)) (p : point) (st : lstate) : Prop :=
  l_mapper st = state_of is_action L (minputs false tr) /\ l_tablet st = tab_after false tr.

Lemma state_inv_step tr p st r p' st' :
  state_inv tr p st -> resume p st r = Go p' st' -> state_inv (tr ++ [(pending p, r)]) p' st'.
Proof.
  intros [Hm Ht] E. apply resume_mview in E. unfold state_inv.
  rewrite minputs_snoc, tab_after_snoc. unfold since_step. rewrite <- Ht.
  destruct E as [p st r p' st' Hk Hm' Ht' Hns _ | rest st e evs rep s' p' st' Htf Hs Hm' Ht' Hp
                | rest st on evs s' p' st' Hr Hm' Ht' _ Hp | to st ks nw iv Hw Htf Hne].
  - destruct Hk as [Hk|[e [Hk Htab]]]; rewrite Hk; [|rewrite Htab]; rewrite app_nil_r; split; congruence.
  - cbn [ekind_of pending]. rewrite Htf. rewrite state_of_snoc. cbn [Monitors.mstep]. rewrite <- Hm, Hs.
    cbn [snd]. split; congruence.
  - cbn [ekind_of pending]. rewrite state_of_snoc. cbn [Monitors.mstep]. rewrite <- Hm, Hr.
    cbn [snd]. split; congruence.
  - cbn [ekind_of pending]. rewrite app_nil_r. split; [assumption | reflexivity].
Qed.

(* the mapper state and the tablet flag in the k-th configuration are determined
   by the transcript before it *)
Theorem state_at rs cs o k x :
  run rs = (cs, o) -> conf_at is_action L rs k = Some x ->
  l_mapper (c_state x) = state_of is_action L (minputs false (firstn k (combine cs rs)))
  /\ l_tablet (c_state x) = tab_after false (firstn k (combine cs rs)).
Proof.
  intros Hrun Hx. rewrite (run_transcript is_action L rs cs o Hrun).
  exact (confs_ind_tr is_action L state_inv state_inv_step rs PRegister linit []
           (conj eq_refl eq_refl) k x Hx).
Qed.

(* ---------- the held-set invariant ---------- *)

Hypothesis Hwf : wf_layout L.

(* Inv of the mapper; everything acknowledged so far plus the send being waited
   on is a well-formed trace from nothing held to the mapper's held set; in
   tablet mode the mapper considers no key held on the input *)
Definition held_inv (tr : list (call * resp)) (p : point) (st : lstate) : Prop :=
  Inv L (l_mapper st)
  /\ tr_ok [] (acked tr ++ pending_send p) (held_of (l_mapper st))
  /\ (l_tablet st = true -> inp (l_mapper st) = []).

Lemma acked_snoc_go tr p st r p' st' :
  mview p st r p' st' -> acked (tr ++ [(pending p, r)]) = acked tr ++ pending_send p.
Proof.
  intros H. rewrite acked_app. f_equal.
  destruct H as [p st r p' st' _ _ _ _ Hs | | | ].
  - destruct Hs as [Hs| ->].
    + rewrite (not_send_pending_send p Hs). unfold not_send in Hs. cbn [acked].
      destruct (pending p); try reflexivity. contradiction.
    + unfold pending_send. cbn [acked]. destruct (pending p); try reflexivity. rewrite app_nil_r. reflexivity.
  - reflexivity.
  - reflexivity.
  - reflexivity.
Qed.

Lemma release_all_nil s : inp s = [] -> release_all s = ([], s).
Proof. intros H. unfold Mapper.release_all. rewrite H. reflexivity. Qed.

Lemma held_inv_step tr p st r p' st' :
  held_inv tr p st -> resume p st r = Go p' st' -> held_inv (tr ++ [(pending p, r)]) p' st'.
Proof.
  intros [HI [HT Htab]] E. pose proof E as E0. apply resume_mview in E. unfold held_inv.
  rewrite (acked_snoc_go tr p st r p' st' E).
  destruct E as [p st r p' st' Hk Hm' Ht' Hns _ | rest st e evs rep s' p' st' Htf Hs Hm' Ht' Hp
                | rest st on evs s' p' st' Hr Hm' Ht' Hwr Hp | to st ks nw iv Hw Htf Hne].
  - rewrite Hm', Ht', (not_send_pending_send p' Hns), app_nil_r. split; [exact HI|]. split; [exact HT|].
    exact Htab.
  - pose proof (step_inv is_action L (l_mapper st) e Hwf HI) as R. cbn zeta in R. rewrite Hs in R.
    cbn [fst snd] in R. destruct R as [I' [T' _]]. cbn [pending_send pending] in HT. rewrite app_nil_r in HT.
    rewrite Hm'. split; [exact I'|]. split.
    + cbn [pending_send pending]. rewrite app_nil_r.
      destruct Hp as [[-> Hns]|[Hne ->]].
      * rewrite (not_send_pending_send p' Hns), !app_nil_r.
        pose proof (tr_ok_app _ _ _ _ _ HT T') as X. rewrite app_nil_r in X. exact X.
      * cbn [pending_send pending]. eapply tr_ok_app; eassumption.
    + intros Hon. congruence.
  - pose proof (release_all_inv is_action L (l_mapper st) Hwf HI) as R. cbn zeta in R. rewrite Hr in R.
    cbn [fst snd] in R. destruct R as [I' [T' [_ [Hi [Ha [Hpa Hmo]]]]]].
    cbn [pending_send pending] in HT. rewrite app_nil_r in HT.
    rewrite Hm'. split; [exact I'|]. split.
    + cbn [pending_send pending]. rewrite app_nil_r. unfold held_of. rewrite Hpa, Hmo. cbn [app].
      destruct Hp as [[-> ->]|[Hne ->]]; cbn [pending_send pending].
      * rewrite !app_nil_r. pose proof (tr_ok_app _ _ _ _ _ HT T') as X. rewrite app_nil_r in X. exact X.
      * eapply tr_ok_app; eassumption.
    + intros _. exact Hi.
  - cbn [pending_send pending] in HT |- *. rewrite app_nil_r in HT |- *. split; [exact HI|]. split.
    + eapply tr_ok_app; [exact HT|]. apply chord_events_tr_ok. apply seteq_refl.
    + exact Htab.
Qed.

Lemma held_inv_init : held_inv [] PRegister linit.
Proof.
  split; [apply Inv_init|]. split; [apply tr_ok_nil; apply seteq_refl | discriminate].
Qed.

Theorem held_at rs cs o k x :
  run rs = (cs, o) -> conf_at is_action L rs k = Some x ->
  held_inv (firstn k (combine cs rs)) (c_point x) (c_state x).
Proof.
  intros Hrun Hx. rewrite (run_transcript is_action L rs cs o Hrun).
  exact (confs_ind_tr is_action L held_inv held_inv_step rs PRegister linit [] held_inv_init k x Hx).
Qed.

End S.
