(* Loop.v — executable model of do_remapping_loop_one_device
   (src/remapping_loop.rs), definitions only.

   The loop is a resumption over the calls it makes: every call of the
   `Driver` trait, every reading of `Instant::now()` (the code reads the clock
   itself; here the clock is an input stream) and every `thread::sleep` is a
   `call` that is answered by exactly one `resp`.  `run` is ONE structural
   recursion on the list of responses; every recursive call consumes exactly
   one response.  Between two responses the code is straight-line: `resume`
   is that straight-line code, written once per place where the Rust function
   waits for an answer (the `point`s below name those places).

   Units: clock readings and time-outs are NANOSECONDS (Z); a reading is the
   CLOCK_MONOTONIC timespec that `Instant` wraps on Linux (tv_sec*10^9+tv_nsec).
   `CSleep` carries MILLISECONDS (the argument of Duration::from_millis).

   Partial operations of the Rust that are visible as outcome `Panicked`:
   * `Instant + Duration` (two sites): std panics when tv_sec leaves i64, i.e.
     when the sum reaches 2^63 * 10^9 ns.  NOTE: `delay_ms as u64` of a
     negative i32 is about 1.8e19 ms = 1.8e16 s, which does NOT overflow a
     fresh Instant; about 500 such additions are needed (checked against
     rustc 1.95: 499 additions of (-1i32) as u64 ms succeed, the 500th panics).
   * `1000 * (1 << restart_count)` in u64 with restart_count : i32.  ASSUMPTION:
     overflow checks are ON (debug profile; the harness is built with
     overflow-checks = true): `1 << n` panics for n >= 64, the product panics
     for n >= 55.  A release build wraps instead; reaching n = 55 needs 55
     consecutive `Interrupted` results and 2^55 s of sleeping before it, so
     the difference is not observable.  `restart_count += 1` cannot overflow
     i32 before that. *)
From TM Require Export Mapper.

Inductive device := DKbd | DTab.

Inductive poll_result :=
| PDeviceEvent (ds : list device)
| PTimedOut
| PInterrupted.

Inductive next (A : Type) :=
| NEnd
| NBusy
| NOne (a : A).
Arguments NEnd {A}.
Arguments NBusy {A}.
Arguments NOne {A} a.

Inductive call :=
| CRegister                       (* driver.register_poll() *)
| CNow                            (* Instant::now() *)
| CPoll (timeout : option Z)      (* driver.poll(timeout); nanoseconds *)
| CNextKbd                        (* driver.next_keyboard() *)
| CNextTab                        (* driver.next_tablet() *)
| CSend (evs : list event)        (* driver.send(evs) *)
| CSleep (ms : Z).                (* thread::sleep(Duration::from_millis(ms)) *)

Inductive resp :=
| RUnit                           (* Ok(()) of register_poll / send; return of sleep *)
| RNow (t : Z)                    (* a clock reading, ns *)
| RPoll (r : poll_result)
| RKbd (n : next event)
| RTab (n : next bool)            (* true = TableModeEvent::On *)
| RErr (msg : N).                 (* Err(msg) of any Driver call *)

Inductive outcome :=
| Returned_ok
| Returned_err (msg : N)
| Starved                         (* script exhausted: the last call is unanswered *)
| Mismatch                        (* response of the wrong kind for the last call *)
| Panicked.                       (* arithmetic panic, see the header *)

(* enum WorkingRepeat *)
Inductive working_repeat :=
| Idle
| Repeating (keys : list key) (next_wakeup : Z) (interval_ms : Z).

(* the loop-local variables *)
Record lstate := mkL {
  l_mapper : state;
  l_wr : working_repeat;
  l_tablet : bool;         (* in_tablet_mode *)
  l_restart : Z            (* restart_count *)
}.

Definition set_mapper st v := mkL v (l_wr st) (l_tablet st) (l_restart st).
Definition set_wr st v := mkL (l_mapper st) v (l_tablet st) (l_restart st).
Definition set_tablet st v := mkL (l_mapper st) (l_wr st) v (l_restart st).
Definition set_restart st v := mkL (l_mapper st) (l_wr st) (l_tablet st) v.

Definition linit : lstate := mkL init Idle false 0.

(* ---------- arithmetic of the Rust, written out ---------- *)

Definition ns_per_ms : Z := 1000000.
Definition two64 : Z := 18446744073709551616.
(* first value (ns) that an Instant cannot hold: tv_sec = 2^63 *)
Definition instant_limit : Z := 9223372036854775808 * 1000000000.

(* `x as u64` for x : i32 *)
Definition as_u64 (x : Z) : Z := if (x <? 0)%Z then (x + two64)%Z else x.

(* `t + Duration::from_millis(ms as u64)`; None = panic *)
Definition instant_add_ms (t ms : Z) : option Z :=
  let r := (t + as_u64 ms * ns_per_ms)%Z in
  if (r <? instant_limit)%Z then Some r else None.

(* the time-out of poll while Repeating, given the reading `now` *)
Definition timeout_of (next_wakeup now : Z) : Z :=
  if (next_wakeup <=? now)%Z then ns_per_ms else (next_wakeup - now)%Z.

(* `1000 * (1 << rc)` in u64 with overflow checks; None = panic *)
Definition sleep_ms (rc : Z) : option Z :=
  if (rc <? 0)%Z || (64 <=? rc)%Z then None
  else let v := (1000 * 2 ^ rc)%Z in
       if (v <? two64)%Z then Some v else None.

(* Mapper::is_output_held *)
Definition is_output_held (s : state) (k : key) : bool := mem k (pass s) || mem k (mout s).

(* the keys of the repeat chord that are not held, each once, in order *)
Definition chord_keys (s : state) (keys : list key) : list key :=
  dedup (filter (fun k => negb (is_output_held s k)) keys).

Definition chord_events (s : state) (keys : list key) : list event :=
  let c := chord_keys s keys in map Pressed c ++ map Released (rev c).

(* ---------- the places where the function waits for an answer ---------- *)

Inductive point :=
| PRegister                               (* let mut poll = driver.register_poll()?; *)
| PNowPoll                                (* let now = Instant::now();  (Repeating only) *)
| PPoll (timeout : option Z)              (* driver.poll(&mut poll, timeout)? *)
| PSendChord (evs : list event)           (* driver.send(&repeat_send)?  in the TimedOut arm *)
| PSleep (ms : Z)                         (* thread::sleep(..) in the Interrupted arm *)
| PKbd (rest : list device)               (* driver.next_keyboard()?  (rest = devices of this wake-up still to visit) *)
| PSendStep (evs : list event) (rep : rrepeat) (rest : list device)
                                          (* driver.send(&evs_out)?  after mapper.step *)
| PNowStep (keys : list key) (delay_ms interval_ms : Z) (rest : list device)
                                          (* Instant::now() + Duration::from_millis(delay_ms as u64) *)
| PTab (rest : list device)               (* driver.next_tablet()? *)
| PSendTab (evs : list event) (rest : list device).
                                          (* driver.send(&release_events)?  after On / Off *)

Definition pending (p : point) : call :=
  match p with
  | PRegister => CRegister
  | PNowPoll => CNow
  | PPoll t => CPoll t
  | PSendChord evs => CSend evs
  | PSleep ms => CSleep ms
  | PKbd _ => CNextKbd
  | PSendStep evs _ _ => CSend evs
  | PNowStep _ _ _ _ => CNow
  | PTab _ => CNextTab
  | PSendTab evs _ => CSend evs
  end.

Inductive result :=
| Go (p : point) (st : lstate)
| Stop (o : outcome).

Section WithModifiers.
Variable is_action : key -> bool.
Variable L : layout.

(* top of `loop { loop {`: the match that computes `timeout` *)
Definition at_top (st : lstate) : result :=
  match l_wr st with
  | Idle => Go (PPoll None) st
  | Repeating _ _ _ => Go PNowPoll st
  end.

(* `for dev_ev in dev_evs` *)
Definition visit (rest : list device) (st : lstate) : result :=
  match rest with
  | [] => at_top st
  | DKbd :: rest' => Go (PKbd rest') st
  | DTab :: rest' => Go (PTab rest') st
  end.

(* `working_repeat = match step_out.repeat { .. }` up to the clock reading *)
Definition after_step_send (rep : rrepeat) (rest : list device) (st : lstate) : result :=
  match rep with
  | RRRepeating keys d i => Go (PNowStep keys d i rest) st
  | RRDisabled => Go (PKbd rest) (set_wr st Idle)
  | RRNoChange => Go (PKbd rest) st
  end.

(* `next_wakeup: next_wakeup + Duration::from_millis(interval_ms as u64)` after a tick *)
Definition advance_wakeup (st : lstate) : result :=
  match l_wr st with
  | Idle => at_top st    (* not reachable: PSendChord is entered from Repeating only *)
  | Repeating keys nw iv =>
    match instant_add_ms nw iv with
    | Some nw' => at_top (set_wr st (Repeating keys nw' iv))
    | None => Stop Panicked
    end
  end.

(* the answer r arrives while the function waits at p *)
Definition resume (p : point) (st : lstate) (r : resp) : result :=
  match p, r with
  (* `?` on a Driver call *)
  | PRegister, RErr m | PPoll _, RErr m | PSendChord _, RErr m | PKbd _, RErr m
  | PSendStep _ _ _, RErr m | PTab _, RErr m | PSendTab _ _, RErr m => Stop (Returned_err m)

  | PRegister, RUnit => at_top st

  | PNowPoll, RNow now =>
    match l_wr st with
    | Repeating _ nw _ => Go (PPoll (Some (timeout_of nw now))) st
    | Idle => Go (PPoll None) st   (* not reachable *)
    end

  | PPoll _, RPoll PTimedOut =>
    match l_wr st with
    | Idle => at_top st
    | Repeating keys nw iv =>
      if l_tablet st then at_top (set_wr st Idle)
      else
        match chord_events (l_mapper st) keys with
        | [] => advance_wakeup st
        | evs => Go (PSendChord evs) st
        end
    end
  | PPoll _, RPoll PInterrupted =>
    let rc := (l_restart st + 1)%Z in
    let st1 := set_restart st rc in
    if (1 <? rc)%Z then
      match sleep_ms rc with
      | Some ms => Go (PSleep ms) st1
      | None => Stop Panicked
      end
    else at_top st1
  | PPoll _, RPoll (PDeviceEvent ds) => visit ds (set_restart st 0%Z)

  | PSendChord _, RUnit => advance_wakeup st

  | PSleep _, RUnit => at_top st

  | PKbd rest, RKbd NBusy => visit rest st
  | PKbd rest, RKbd NEnd => Stop Returned_ok
  | PKbd rest, RKbd (NOne e) =>
    if l_tablet st then Go (PKbd rest) st
    else
      let '(evs, rep, s') := step is_action L (l_mapper st) e in
      let st1 := set_mapper st s' in
      match evs with
      | [] => after_step_send rep rest st1
      | _ => Go (PSendStep evs rep rest) st1
      end

  | PSendStep _ rep rest, RUnit => after_step_send rep rest st

  | PNowStep keys d i rest, RNow now =>
    match instant_add_ms now d with
    | Some nw => Go (PKbd rest) (set_wr st (Repeating keys nw i))
    | None => Stop Panicked
    end

  | PTab rest, RTab NBusy => visit rest st
  | PTab rest, RTab NEnd => Stop Returned_ok
  | PTab rest, RTab (NOne on) =>
    let '(evs, s') := release_all is_action L (l_mapper st) in
    let st1 := set_mapper (set_wr (set_tablet st on) Idle) s' in
    match evs with
    | [] => Go (PTab rest) st1
    | _ => Go (PSendTab evs rest) st1
    end

  | PSendTab _ rest, RUnit => Go (PTab rest) st

  | _, _ => Stop Mismatch
  end.

(* the loop from point p: the calls made and how it ends *)
Fixpoint run_from (p : point) (st : lstate) (rs : list resp) : list call * outcome :=
  match rs with
  | [] => ([pending p], Starved)
  | r :: rs' =>
    match resume p st r with
    | Stop o => ([pending p], o)
    | Go p' st' => let '(cs, o) := run_from p' st' rs' in (pending p :: cs, o)
    end
  end.

Definition run (rs : list resp) : list call * outcome := run_from PRegister linit rs.

End WithModifiers.
