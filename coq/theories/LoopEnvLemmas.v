(* LoopEnvLemmas.v — the loop against the edge-triggered environment (C10):
   it polls only when every device it was notified about has been read down to
   Busy, so no event is ever left unread without a pending readiness edge; and
   the key events read are a prefix of the keyboard history, in order. *)
From TM Require Import Base ListFacts Mapper Monitors Loop LoopEnv LoopSpec LoopLemmas LoopStep.
From Coq Require Import Lia.

(* nothing to read from d, and d is still there *)
Definition drained (e : env) (d : device) : Prop :=
  match d with
  | DKbd => d_queue (e_kbd e) = [] /\ d_gone (e_kbd e) = false
  | DTab => d_queue (e_tab e) = [] /\ d_gone (e_tab e) = false
  end.

(* d will be announced by the next poll, or has nothing to announce *)
Definition fresh (e : env) (d : device) : Prop := ready_of e d = true \/ drained e d.

Lemma fresh_not_stale e d : fresh e d -> ~ stale e d.
Proof.
  unfold fresh, stale, drained. intros [H|H] [Hr Hs]; [congruence|].
  destruct d; destruct H as [H1 H2]; destruct Hs as [Hs|Hs]; congruence.
Qed.

(* the devices of the current wake-up that the loop still has to read to Busy *)
Definition devs_of (p : point) : list device :=
  match p with
  | PKbd rest | PSendStep _ _ rest | PNowStep _ _ _ rest => DKbd :: rest
  | PTab rest | PSendTab _ rest => DTab :: rest
  | _ => []
  end.

Definition env_inv (p : point) (e : env) : Prop := forall d, fresh e d \/ In d (devs_of p).

Lemma dev_arrive_ready {A} (d d' : dev A) : dev_arrive d d' -> d_ready d' = true.
Proof. intros H. destruct H; reflexivity. Qed.

Lemma arrive_inv p : forall e e1, arrive e e1 -> env_inv p e -> env_inv p e1.
Proof.
  intros e e1 H. induction H as [e | e k' e' Hd Ha IH | e t' e' Hd Ha IH]; intros HI; [exact HI| |].
  - apply IH. intros d. destruct d.
    + left. left. cbn [ready_of e_kbd]. exact (dev_arrive_ready _ _ Hd).
    + destruct (HI DTab) as [H|H]; [left | right; exact H]. exact H.
  - apply IH. intros d. destruct d.
    + destruct (HI DKbd) as [H|H]; [left | right; exact H]. exact H.
    + left. left. cbn [ready_of e_tab]. exact (dev_arrive_ready _ _ Hd).
Qed.

(* what an answer does to the devices *)
Definition same_devs (e e' : env) : Prop := e_kbd e' = e_kbd e /\ e_tab e' = e_tab e.

Lemma fresh_same e e' d : same_devs e e' -> fresh e d -> fresh e' d.
Proof.
  intros [H1 H2]. unfold fresh, drained, ready_of. destruct d; [rewrite H1 | rewrite H2]; tauto.
Qed.

Lemma env_inv_mono p p' e e' :
  same_devs e e' -> incl (devs_of p) (devs_of p') -> env_inv p e -> env_inv p' e'.
Proof.
  intros Hs Hi HI d. destruct (HI d) as [H|H]; [left; exact (fresh_same e e' d Hs H) | right; apply Hi; exact H].
Qed.

Inductive answer_view (e : env) : call -> resp -> env -> Prop :=
| AV_same : forall c r e', same_devs e e' ->
    match c, r with
    | CPoll _, RPoll (PDeviceEvent _) => False
    | CNextKbd, RKbd _ => False
    | CNextTab, RTab _ => False
    | _, _ => True
    end -> answer_view e c r e'
| AV_devs : forall to ds,
    (forall d, ready_of e d = true -> In d ds) ->
    answer_view e (CPoll to) (RPoll (PDeviceEvent ds))
                (mkEnv (clear_ready (e_kbd e)) (clear_ready (e_tab e)) (e_clock e))
| AV_kbd : answer_view e CNextKbd (RKbd (fst (read (e_kbd e))))
                       (mkEnv (snd (read (e_kbd e))) (e_tab e) (e_clock e))
| AV_tab : answer_view e CNextTab (RTab (fst (read (e_tab e))))
                       (mkEnv (e_kbd e) (snd (read (e_tab e))) (e_clock e)).

Lemma answer_answer_view e c r e' : answer e c r e' -> answer_view e c r e'.
Proof.
  intros H. destruct H.
  - apply AV_same; [split; reflexivity|]. destruct c; try exact I.
  - apply AV_same; [split; reflexivity | exact I].
  - apply AV_same; [split; reflexivity | exact I].
  - apply AV_same; [split; reflexivity | exact I].
  - apply AV_same; [split; reflexivity | exact I].
  - apply AV_devs. assumption.
  - apply AV_same; [split; reflexivity | exact I].
  - apply AV_same; [split; reflexivity | exact I].
  - apply AV_kbd.
  - apply AV_tab.
Qed.

Lemma av_kbd e n e' :
  answer_view e CNextKbd (RKbd n) e' ->
  fst (read (e_kbd e)) = n /\ e' = mkEnv (snd (read (e_kbd e))) (e_tab e) (e_clock e).
Proof. intros H. inversion H; subst; [contradiction | split; reflexivity]. Qed.

Lemma av_tab e n e' :
  answer_view e CNextTab (RTab n) e' ->
  fst (read (e_tab e)) = n /\ e' = mkEnv (e_kbd e) (snd (read (e_tab e))) (e_clock e).
Proof. intros H. inversion H; subst; [contradiction | split; reflexivity]. Qed.

Lemma av_devs e to ds e' :
  answer_view e (CPoll to) (RPoll (PDeviceEvent ds)) e' ->
  (forall d, ready_of e d = true -> In d ds)
  /\ e' = mkEnv (clear_ready (e_kbd e)) (clear_ready (e_tab e)) (e_clock e).
Proof. intros H. inversion H; subst; [contradiction | split; [assumption | reflexivity]]. Qed.

Lemma read_busy {A} (d : dev A) : fst (read d) = NBusy -> d_queue d = [] /\ d_gone d = false /\ snd (read d) = d.
Proof.
  unfold read. destruct (d_gone d) eqn:G; [discriminate|]. destruct (d_queue d); [|discriminate].
  intros _. repeat split.
Qed.

Lemma visit_point_devs rest st p' : visit_point rest st p' -> incl rest (devs_of p').
Proof.
  destruct rest as [|[|] rest]; cbn [visit_point].
  - intros _ d [].
  - intros ->. apply incl_refl.
  - intros ->. apply incl_refl.
Qed.

Lemma top_point_devs st p' : top_point st p' -> devs_of p' = [].
Proof. intros [[_ ->]|[ks [nw [iv [_ ->]]]]]; reflexivity. Qed.

Lemma step_next_devs rep rest st p' st' : step_next rep rest st p' st' -> devs_of p' = DKbd :: rest.
Proof. destruct rep; cbn [step_next]; intros [-> _]; reflexivity. Qed.

Ltac same_case HI Ha :=
  let Hs := fresh "Hs" in let Hm := fresh "Hm" in
  inversion Ha as [? ? ? Hs Hm | | | ]; subst; eapply env_inv_mono; [exact Hs | | exact HI]; cbn [devs_of].

Section S.
Variable is_action : key -> bool.
Variable L : layout.

Notation resume := (Loop.resume is_action L).
Notation run := (Loop.run is_action L).
Notation confs := (LoopSpec.confs is_action L).
Notation transcript_of := (LoopSpec.transcript_of is_action L).
Notation lgo := (LoopStep.lgo is_action L).

Lemma env_inv_step p st r p' st' e e' :
  lgo p st r p' st' -> answer e (pending p) r e' -> env_inv p e -> env_inv p' e'.
Proof.
  intros Hgo Ha HI. apply answer_answer_view in Ha.
  destruct Hgo; cbn [pending] in Ha.
  - same_case HI Ha. intros d0 [].
  - same_case HI Ha. intros d0 [].
  - same_case HI Ha. intros d0 [].
  - same_case HI Ha. intros d0 [].
  - same_case HI Ha. intros d0 [].
  - same_case HI Ha. intros d0 [].
  - same_case HI Ha. intros d0 [].
  - same_case HI Ha. intros d0 [].
  - same_case HI Ha. intros d0 [].
  - (* devs *)
    destruct (av_devs _ _ _ _ Ha) as [Hready ->].
    intros d. destruct (HI d) as [[Hr|Hd]|[]].
    + right. apply (visit_point_devs _ _ _ H). apply Hready. exact Hr.
    + left. right. destruct d; exact Hd.
  - same_case HI Ha. intros d0 [].
  - same_case HI Ha. intros d0 [].
  - (* kbd_busy *)
    destruct (av_kbd _ _ _ Ha) as [Hn ->]. destruct (read_busy _ Hn) as [Hq [Hg Hsame]]. rewrite Hsame.
    intros d. destruct (HI d) as [Hf|[<-|Hin]].
    + left. destruct e as [k t c]. exact Hf.
    + left. right. split; assumption.
    + right. apply (visit_point_devs _ _ _ H). exact Hin.
  - (* kbd_tablet *)
    destruct (av_kbd _ _ _ Ha) as [Hn ->].
    intros d. destruct d; [right; left; reflexivity|]. destruct (HI DTab) as [Hf|Hin]; [left; exact Hf | right; exact Hin].
  - (* kbd_quiet *)
    destruct (av_kbd _ _ _ Ha) as [Hn ->].
    unfold env_inv. rewrite (step_next_devs _ _ _ _ _ H1).
    intros d. destruct d; [right; left; reflexivity|]. destruct (HI DTab) as [Hf|Hin]; [left; exact Hf | right; exact Hin].
  - (* kbd_out *)
    destruct (av_kbd _ _ _ Ha) as [Hn ->].
    intros d. destruct d; [right; left; reflexivity|]. destruct (HI DTab) as [Hf|Hin]; [left; exact Hf | right; exact Hin].
  - same_case HI Ha. rewrite (step_next_devs _ _ _ _ _ H). apply incl_refl.
  - same_case HI Ha. apply incl_refl.
  - (* tab_busy *)
    destruct (av_tab _ _ _ Ha) as [Hn ->]. destruct (read_busy _ Hn) as [Hq [Hg Hsame]]. rewrite Hsame.
    intros d. destruct (HI d) as [Hf|[<-|Hin]].
    + left. destruct e as [k t c]. exact Hf.
    + left. right. split; assumption.
    + right. apply (visit_point_devs _ _ _ H). exact Hin.
  - (* tab_quiet *)
    destruct (av_tab _ _ _ Ha) as [Hn ->].
    intros d. destruct d; [|right; left; reflexivity]. destruct (HI DKbd) as [Hf|Hin]; [left; exact Hf | right; exact Hin].
  - (* tab_out *)
    destruct (av_tab _ _ _ Ha) as [Hn ->].
    intros d. destruct d; [|right; left; reflexivity]. destruct (HI DKbd) as [Hf|Hin]; [left; exact Hf | right; exact Hin].
  - same_case HI Ha. apply incl_refl.
Qed.

Lemma env_inv_poll p e to : pending p = CPoll to -> env_inv p e -> forall d, ~ stale e d.
Proof.
  intros Hp HI d. apply fresh_not_stale. destruct (HI d) as [H|H]; [exact H|].
  destruct p; try discriminate Hp. contradiction.
Qed.

Lemma epath_polls : forall rs p st e e',
  env_inv p e -> epath e (transcript_of p st rs) e' ->
  epathP polls_find_nothing_unread e (transcript_of p st rs) e'.
Proof.
  unfold LoopSpec.transcript_of.
  induction rs as [|r rs IH]; intros p st e e' HI Hp.
  - cbn [LoopSpec.confs map] in *. inversion Hp; subst. apply EPP_nil.
  - cbn [LoopSpec.confs map] in *. unfold entry_of at 1 in Hp. cbn [c_point c_resp fst snd] in Hp.
    unfold entry_of at 1. cbn [c_point c_resp fst snd].
    inversion Hp as [|? e1 e2 ? ? ? ? Harr Hans Hrest]; subst.
    pose proof (arrive_inv p e e1 Harr HI) as HI1.
    eapply EPP_cons; [exact Harr | | exact Hans |].
    + unfold polls_find_nothing_unread. destruct (pending p) eqn:Ec; try exact I.
      exact (env_inv_poll p e1 _ Ec HI1).
    + destruct (resume p st r) as [p' st'|o] eqn:E.
      * apply IH; [|exact Hrest]. apply resume_go in E. exact (env_inv_step _ _ _ _ _ _ _ E Hans HI1).
      * cbn [map] in *. inversion Hrest; subst. apply EPP_nil.
Qed.

Lemma env_inv_init h kends tb tends t0 : env_inv PRegister (env0 h kends tb tends t0).
Proof. intros d. left. right. destruct d; split; reflexivity. Qed.

(* C10: in every admissible transcript of a run, at every poll the environment
   holds no device with unread data (or gone) and no pending readiness edge *)
Theorem no_wait_with_unread rs cs o h kends tb tends t0 e' :
  run rs = (cs, o) ->
  epath (env0 h kends tb tends t0) (combine cs rs) e' ->
  epathP polls_find_nothing_unread (env0 h kends tb tends t0) (combine cs rs) e'.
Proof.
  intros Hrun Hp. rewrite (run_transcript is_action L rs cs o Hrun) in *.
  apply epath_polls; [apply env_inv_init | exact Hp].
Qed.

End S.

(* ---------- the environment alone: reads come out in history order ---------- *)

Definition kbd_pending (e : env) : list event := d_queue (e_kbd e) ++ d_future (e_kbd e).

Lemma dev_arrive_pending {A} (d d' : dev A) :
  dev_arrive d d' -> d_queue d' ++ d_future d' = d_queue d ++ d_future d.
Proof.
  intros H. destruct H as [d a f _ Hf _ | d _ Hf _]; cbn [d_queue d_future].
  - rewrite Hf, app_assoc. reflexivity.
  - rewrite Hf. reflexivity.
Qed.

Lemma arrive_pending e e1 : arrive e e1 -> kbd_pending e1 = kbd_pending e.
Proof.
  intros H. induction H as [e | e k' e' Hd Ha IH | e t' e' Hd Ha IH]; [reflexivity| |].
  - rewrite IH. unfold kbd_pending. cbn [e_kbd]. apply dev_arrive_pending. exact Hd.
  - rewrite IH. reflexivity.
Qed.

Definition one_of {A} (n : next A) : list A := match n with NOne x => [x] | _ => [] end.

Lemma read_pending {A} (d : dev A) :
  d_queue d ++ d_future d = one_of (fst (read d)) ++ d_queue (snd (read d)) ++ d_future (snd (read d)).
Proof.
  unfold read. destruct (d_gone d); [reflexivity|].
  destruct (d_queue d) as [|x q] eqn:Q; cbn [fst snd one_of d_queue d_future app]; rewrite ?Q; reflexivity.
Qed.

Lemma kbd_reads_kbd n tr : kbd_reads ((CNextKbd, RKbd n) :: tr) = one_of n ++ kbd_reads tr.
Proof. destruct n; reflexivity. Qed.

Lemma epath_reads : forall e tr e', epath e tr e' -> kbd_pending e = kbd_reads tr ++ kbd_pending e'.
Proof.
  intros e tr e' H. induction H as [e | e e1 e2 e3 c r tr Harr Hans Hrest IH]; [reflexivity|].
  rewrite <- (arrive_pending e e1 Harr).
  destruct Hans; try (cbn [kbd_reads]; exact IH);
    try (destruct c; cbn [kbd_reads]; exact IH).
  - (* An_kbd *) rewrite kbd_reads_kbd, <- app_assoc, <- IH. unfold kbd_pending. cbn [e_kbd].
    apply read_pending.
Qed.

(* the key events read in an admissible transcript are a prefix of the history *)
Theorem reads_are_history_prefix h kends tb tends t0 tr e' :
  epath (env0 h kends tb tends t0) tr e' -> exists rest, h = kbd_reads tr ++ rest.
Proof.
  intros H. apply epath_reads in H. unfold kbd_pending at 1 in H. cbn in H.
  exists (kbd_pending e'). exact H.
Qed.
