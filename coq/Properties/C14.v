(* C14 — Any layout file is either rejected with a message or runs without crashing.
   Statements only; proofs are in TM.ParserLemmas, TM.OdometerLemmas, TM.ConvertLemmas. *)
From TM Require Import Base Json RustOps Fancy Mapper Parser Convert RustOpsLemmas ParserLemmas OdometerLemmas ExpandLemmas.

(* Loading (parse_layout_from_json, then convert) returns Ok or Err on EVERY
   serde_json::Value: every modelled panic site of the parser and of the
   converter (indexing, slicing, `len()-1`, `quantities[i]-1`, unwrap, the
   from_table indices of adjust_repeats, the model's loop fuel) is unreachable. *)
Theorem C14_loader_total : forall (j : json) (site : string), load j <> Panic site.
Proof. exact load_total. Qed.
Print Assumptions C14_loader_total.

(* The converter alone never panics, on EVERY fancy layout (not only those the
   parser can return). *)
Theorem C14_converter_total : forall (f : fancy_layout) (site : string), convert f <> Panic site.
Proof. exact convert_total. Qed.
Print Assumptions C14_converter_total.

(* parse_layout_from_json returns Ok or Err on EVERY serde_json::Value: each of
   its indexing, slicing, `len()-1` and unwrap sites is guarded. *)
Theorem C14_parser_total : forall (j : json) (site : string), parse_layout j <> Panic site.
Proof. exact parse_layout_total. Qed.
Print Assumptions C14_parser_total.

(* MultiplyIter: when every quantity is at least 1 the combination loop is a
   plain loop over the cartesian product (no `quantities[i]-1` underflow, no
   index out of range, terminates). *)
Theorem C14_odometer_total :
  forall (St : Type) (c : combos) (body : list nat -> St -> res St) (s : St),
    Forall (fun q => (0 < q)%nat) (c_quant c) ->
    for_combinations c body s = fold_res (fun s t => body t s) (tuples (c_quant c)) s.
Proof. intros St. exact (@for_combinations_spec St). Qed.
Print Assumptions C14_odometer_total.

Example C14_example :
  tuples [2; 3]%nat = [[0; 0]; [1; 0]; [0; 1]; [1; 1]; [0; 2]; [1; 2]]%nat
  /\ parse_layout (JObj [(lit "mappings", JArr [JObj [(lit "from", JArr []); (lit "to", JNull)]])]) = Err.
Proof. vm_compute. split; reflexivity. Qed.
