(* C14 — Any layout file is either rejected with a message or runs without crashing.
   Statements only; proofs are in TM.ParserLemmas, TM.OdometerLemmas, TM.ConvertLemmas. *)
From TM Require Import Base Json RustOps Fancy Mapper Parser Convert RustOpsLemmas ParserLemmas OdometerLemmas.

(* FULL STATEMENT (in progress, see C14_loader_total below when present):
     forall j site, load j <> Panic site
   Proved so far: the parser half, for every JSON value, and the odometer. *)

(* parse_layout_from_json returns Ok or Err on EVERY serde_json::Value: each of
   its indexing, slicing, `len()-1` and unwrap sites is guarded. *)
Theorem C14_parser_total_partial : forall (j : json) (site : string), parse_layout j <> Panic site.
Proof. exact parse_layout_total. Qed.
Print Assumptions C14_parser_total_partial.

(* MultiplyIter: when every quantity is at least 1 the combination loop is a
   plain loop over the cartesian product (no `quantities[i]-1` underflow, no
   index out of range, terminates). *)
Theorem C14_odometer_total_partial :
  forall (St : Type) (c : combos) (body : list nat -> St -> res St) (s : St),
    Forall (fun q => (0 < q)%nat) (c_quant c) ->
    for_combinations c body s = fold_res (fun s t => body t s) (tuples (c_quant c)) s.
Proof. intros St. exact (@for_combinations_spec St). Qed.
Print Assumptions C14_odometer_total_partial.

Example C14_example :
  tuples [2; 3]%nat = [[0; 0]; [1; 0]; [0; 1]; [1; 1]; [0; 2]; [1; 2]]%nat
  /\ parse_layout (JObj [(lit "mappings", JArr [JObj [(lit "from", JArr []); (lit "to", JNull)]])]) = Err.
Proof. vm_compute. split; reflexivity. Qed.
