(* C14 — Any layout file is either rejected with a message or runs without crashing.
   Statements only; proofs are in TM.ParserLemmas, TM.OdometerLemmas, TM.ConvertLemmas,
   TM.ExpandLemmas and TM.LoadedWf. *)
From TM Require BuiltinFacts LoopNoPanic Loop.
From TMGen Require Builtins.
From TM Require Import Base Json RustOps Fancy Mapper Parser Convert RustOpsLemmas ParserLemmas OdometerLemmas ExpandLemmas LoadedWf.
From TM Require Import MapperTotal.

(* Loading (parse_layout_from_json, then convert) returns Ok or Err on EVERY
   serde_json::Value: every modelled panic site of the parser and of the
   converter (indexing, slicing, `len()-1`, `quantities[i]-1`, unwrap, the
   from_table indices of adjust_repeats, the model's loop fuel) is unreachable. *)
Theorem C14_loader_total : forall (j : json) (site : string), load j <> Panic site.
Proof. exact load_total. Qed.
Print Assumptions C14_loader_total.

(* The converter alone never panics, on EVERY fancy layout (not only those the
   parser can return). *)
Theorem C14_converter_total : forall (f : fancy_layout) (site : string), convert f <> Panic site.
Proof. exact convert_total. Qed.
Print Assumptions C14_converter_total.

(* Every layout that loading accepts satisfies what Mapper::for_layout needs in
   order not to panic (Mapper.for_layout_ok: every trigger non-empty, no
   duplicate key inside one `from` or one `to`).  [C14_mapper_total : for_layout_ok
   L -> no reachable state and event make the mapper panic]: see the mapper half
   below (C14_mapper_constructor_total, C14_mapper_index_loops_in_range). *)
Theorem C14_accepted_is_wf : forall (j : json) (L : layout), load j = Ok L -> for_layout_ok L = true.
Proof. exact accepted_is_wf. Qed.
Print Assumptions C14_accepted_is_wf.

(* Mapper half (lemmas in TM.MapperTotal).  The constructor Mapper::for_layout
   panics exactly when a trigger is empty or a key is repeated inside one
   trigger / one output: for_layout_ok is the negation of those conditions ... *)
Theorem C14_mapper_constructor_total :
  forall L, for_layout_ok L = true <-> (forall m, In m L -> m_from m <> [] /\ NoDup (m_from m) /\ NoDup (m_to m)).
Proof. exact for_layout_ok_spec. Qed.
Print Assumptions C14_mapper_constructor_total.

(* ... and in EVERY mapper state (reachable or not) and for EVERY key, the two
   "i from len-1 down to 0, remove_mapping(i)" loops of key_transforms.rs (the
   model's release_loop, started at the current length by newly_release and
   release_absorbed_keys) never index active_mappings out of range, although
   remove_mapping shortens the vector inside the loop.  (All other operations of
   the mapper model are total: filters, appends, reverse loops that remove at
   the current index.)  Together with C14_accepted_is_wf this gives "every
   accepted layout can be installed and driven without panicking". *)
Theorem C14_mapper_index_loops_in_range :
  forall (k : key) (s : state), release_loop_oob (length (act s)) k s = false.
Proof. exact release_loop_calls_in_range. Qed.
Print Assumptions C14_mapper_index_loops_in_range.

(* parse_layout_from_json returns Ok or Err on EVERY serde_json::Value: each of
   its indexing, slicing, `len()-1` and unwrap sites is guarded. *)
Theorem C14_parser_total : forall (j : json) (site : string), parse_layout j <> Panic site.
Proof. exact parse_layout_total. Qed.
Print Assumptions C14_parser_total.

(* MultiplyIter: when every quantity is at least 1 the combination loop is a
   plain loop over the cartesian product (no `quantities[i]-1` underflow, no
   index out of range, terminates). *)
Theorem C14_odometer_total :
  forall (St : Type) (c : combos) (body : list nat -> St -> res St) (s : St),
    Forall (fun q => (0 < q)%nat) (c_quant c) ->
    for_combinations c body s = fold_res (fun s t => body t s) (tuples (c_quant c)) s.
Proof. intros St. exact (@for_combinations_spec St). Qed.
Print Assumptions C14_odometer_total.

(* The five built-in layouts (regenerated from default_fancy_layouts.rs on every
   run, as serde_json parses them) load and can be installed. *)
Theorem C14_builtin_layouts_load_and_install :
  forall (n : string) (j : json), In (n, j) TMGen.Builtins.builtin_layouts ->
    exists L, load j = Ok L /\ for_layout_ok L = true.
Proof.
  intros n j H. destruct (BuiltinFacts.builtins_ok n j H) as [L [H1 [H2 _]]]. exists L. split; assumption.
Qed.
Print Assumptions C14_builtin_layouts_load_and_install.

(* Beyond the property's letter (it speaks of the mapper): the per-device EVENT
   LOOP around the mapper does not panic either - for EVERY layout whose Special
   repeats have 0 <= delay_ms, interval_ms, EVERY answer script with fewer than
   54 interrupted polls and clock readings that leave room below the end of
   Instant's range for the length of the run (T + (length + 2) * 2^31 ms) ... *)
Theorem C14_event_loop_does_not_panic :
  forall (is_action : key -> bool) (L : layout) (T : Z) (rs : list Loop.resp),
    LoopNoPanic.timings_ok L = true ->
    (forall t, In (Loop.RNow t) rs -> (t <= T)%Z) ->
    (T + (Z.of_nat (length rs) + 2) * LoopNoPanic.bns <= Loop.instant_limit)%Z ->
    (LoopNoPanic.interrupts rs <= 53)%Z ->
    snd (Loop.run is_action L rs) <> Loop.Panicked.
Proof. intros ia L T rs Ht. exact (LoopNoPanic.loop_does_not_panic ia L T Ht rs). Qed.
Print Assumptions C14_event_loop_does_not_panic.

(* ... and the guard on the timings is needed (recorded in DESIGN.md 8.7: the
   parser accepts negative delay/interval; this is outside the letter of C14 and
   of C11, whose theorems carry the same guard): interval_ms = -1 panics after
   about 500 ticks of the repeat timer. *)
Theorem C14_event_loop_panics_with_negative_interval :
  LoopNoPanic.timings_ok LoopNoPanic.neg_layout = false
  /\ LoopNoPanic.interrupts (LoopNoPanic.neg_script 520) = 0%Z
  /\ snd (Loop.run (fun _ => true) LoopNoPanic.neg_layout (LoopNoPanic.neg_script 520)) = Loop.Panicked.
Proof. exact LoopNoPanic.no_panic_needs_nonneg. Qed.
Print Assumptions C14_event_loop_panics_with_negative_interval.

Example C14_example :
  tuples [2; 3]%nat = [[0; 0]; [1; 0]; [0; 1]; [1; 1]; [0; 2]; [1; 2]]%nat
  /\ parse_layout (JObj [(lit "mappings", JArr [JObj [(lit "from", JArr []); (lit "to", JNull)]])]) = Err.
Proof. vm_compute. split; reflexivity. Qed.

(* an accepted layout: {"from":"LEFTSHIFT","to":"@s"}, {"from":"RIGHTSHIFT","to":"@s"},
   {"from":["@s",{"row":"A"}],"to":{"letters":"aB"}}; and a rejected one (finding
   8.6 before the repair): {"from":["A","A"],"to":"B"} *)
Example C14_accepted_example :
  let j := JObj [(lit "mappings", JArr [
             JObj [(lit "from", JStr (lit "LEFTSHIFT")); (lit "to", JStr (lit "@s"))];
             JObj [(lit "from", JStr (lit "RIGHTSHIFT")); (lit "to", JStr (lit "@s"))];
             JObj [(lit "from", JArr [JStr (lit "@s"); JObj [(lit "row", JStr (lit "A"))]]);
                   (lit "to", JObj [(lit "letters", JStr (lit "aB"))])]])] in
  load j = Ok [ mkMapping [42; 30]%N [30]%N RNormal []; mkMapping [42; 31]%N [42; 48]%N RNormal [];
                mkMapping [54; 30]%N [30]%N RNormal []; mkMapping [54; 31]%N [54; 48]%N RNormal [] ]
  /\ load (JObj [(lit "mappings", JArr [JObj [(lit "from", JArr [JStr (lit "A"); JStr (lit "A")]); (lit "to", JStr (lit "B"))]])]) = Err.
Proof. vm_compute. split; reflexivity. Qed.
