(* C15 — The layout saved for the systemd service reloads as the same layout.
   Statements only; proofs are in TM.KeyNames (finite facts, vm_compute over
   the regenerated key table), TM.RoundtripLemmas (Value level: Serde.to_json,
   then Parser + Convert) and TM.JsonTextLemmas (text level: the bytes
   serde_json::to_writer_pretty writes into /etc/totalmapper.json, read back
   by serde_json::from_reader as load_layout_from_file does — JsonText.v models
   serde_json's PrettyFormatter/CompactFormatter printer and its reader into
   Value: whitespace, literals, numbers with the i64/u64/float split, strings
   with every escape, surrogate pairs and UTF-8 validation, arrays, objects as
   BTreeMap (sorted, last duplicate wins), the recursion limit 128, trailing
   characters). *)
From TM Require Import Base Json RustOps Mapper Parser Convert Serde LoaderCheck StrLemmas KeyNames RoundtripLemmas LoadedWf JsonText JsonTextLemmas.
From TMGen Require Import KeyTable.

(* Writing a basic layout in the derive(Serialize) form and loading that value
   the way the service does (parse_layout_from_json, then convert) yields
   exactly the same layout: same mappings in the same order, same triggers,
   outputs, repeat settings and absorbing lists.  For EVERY basic layout L with
   wf_basic L (LoaderCheck.v): every trigger non-empty, no key twice in one
   trigger or one output, every key a key code of the tool's table (known_key:
   serde has a name for it), Special delays/intervals in the i32 range, and
   absorbing keys among the trigger's modifiers — any length, any repeat
   (Special with empty or multi-key chords), empty outputs included.
   C15_loaded_is_wf_basic below shows that every layout the loader returns
   satisfies wf_basic, so "every layout the converter can produce" is covered. *)
Theorem C15_roundtrip : forall L : layout, wf_basic L = true -> load (to_json L) = Ok L.
Proof. exact roundtrip. Qed.
Print Assumptions C15_roundtrip.

Example C15_roundtrip_example :
  let L := [ mkMapping [58; 30]%N [] (RSpecial [] (-5) 2147483647) [58]%N;
             mkMapping [42; 56; 16]%N [29; 42; 2]%N (RSpecial [42; 3]%N 180 30) [56; 42]%N;
             mkMapping [1]%N [1]%N RDisabled [] ] in
  wf_basic L = true /\ load (to_json L) = Ok L.
Proof. vm_compute. split; reflexivity. Qed.

(* The guard of C15_roundtrip is what the loader guarantees: every layout that
   loading (parser + converter) returns, for any JSON value, satisfies wf_basic.
   Hence a layout obtained from any layout file, saved and reloaded, is
   unchanged (C15_saved_layout_reloads). *)
Theorem C15_loaded_is_wf_basic : forall (j : json) (L : layout), load j = Ok L -> wf_basic L = true.
Proof. exact loaded_is_wf_basic. Qed.
Print Assumptions C15_loaded_is_wf_basic.

Theorem C15_saved_layout_reloads : forall (j : json) (L : layout), load j = Ok L -> load (to_json L) = Ok L.
Proof. exact saved_layout_reloads. Qed.
Print Assumptions C15_saved_layout_reloads.

(* ---------- the same at the level of the file's TEXT ----------

   save_text L (JsonText.v) is the byte sequence serde_json::to_writer_pretty
   writes for a keys::Layout: derive(Serialize) emits the struct fields in
   declaration order (from, to, repeat, absorbing; keys, delay_ms, interval_ms)
   and PrettyFormatter lays them out with two-space indentation.  load_text t
   is load_layout_from_file on a file with content t: serde_json::from_reader
   into a Value (parse_text: None = any serde_json error), then
   parse_layout_from_json and convert.  The saved bytes reload as the same
   layout, for every basic layout with wf_basic — in particular for every
   layout that was itself loaded from a Value or from a text. *)
Theorem C15_saved_text_reloads : forall L : layout, wf_basic L = true -> load_text (save_text L) = Ok L.
Proof. exact saved_text_reloads. Qed.
Print Assumptions C15_saved_text_reloads.

Theorem C15_loaded_then_saved_text_reloads :
  forall (j : json) (L : layout), load j = Ok L -> load_text (save_text L) = Ok L.
Proof. exact loaded_then_saved_text_reloads. Qed.
Print Assumptions C15_loaded_then_saved_text_reloads.

Theorem C15_loaded_text_then_saved_text_reloads :
  forall (t : list N) (L : layout), load_text t = Ok L -> load_text (save_text L) = Ok L.
Proof. exact loaded_text_then_saved_text_reloads. Qed.
Print Assumptions C15_loaded_text_then_saved_text_reloads.

Example C15_saved_text_example :
  let L := [ mkMapping [58; 30]%N [] (RSpecial [] (-5) 2147483647) [58]%N;
             mkMapping [42; 56; 16]%N [29; 42; 2]%N (RSpecial [42; 3]%N (-2147483648) 30) [56; 42]%N;
             mkMapping [1]%N [1]%N RDisabled [] ] in
  wf_basic L = true
  /\ firstn 39 (save_text L) = lit "{
  ""mappings"": [
    {
      ""from"": ["
  /\ parse_text (save_text L) = Some (to_json L)
  /\ load_text (save_text L) = Ok L.
Proof. vm_compute. repeat split; reflexivity. Qed.

(* The text layer on its own, for ANY printable value (not only saved layouts):
   what serde_json's pretty (or compact) printer writes for a tree of values —
   numbers within i64, strings and keys of Unicode scalar values, nesting below
   the reader's recursion limit — serde_json's reader reads back as the
   canonical form of that tree: objects sorted by key, of equal keys the last
   one kept (canon; the identity on a Value, C15_canonical_value_is_fixed).
   The reader accepts the same tree under any whitespace-only formatter
   (C15_text_roundtrip_any_whitespace). *)
Theorem C15_text_roundtrip_any_value :
  forall v : json, printable v = true -> (depth v < 128)%nat ->
    parse_text (print_pretty v) = Some (canon v) /\ parse_text (print_compact v) = Some (canon v).
Proof. intros v Hp Hd. split; [exact (parse_print_pretty v Hp Hd)|exact (parse_print_compact v Hp Hd)]. Qed.
Print Assumptions C15_text_roundtrip_any_value.

Theorem C15_text_roundtrip_any_whitespace :
  forall (sp : nat -> list N) (colon : list N),
    (forall k, forallb is_ws (sp k) = true) -> forallb is_ws colon = true ->
    forall v : json, printable v = true -> (depth v < 128)%nat ->
      parse_text (print_at sp colon 0 v) = Some (canon v).
Proof. exact parse_print_at. Qed.
Print Assumptions C15_text_roundtrip_any_whitespace.

Theorem C15_canonical_value_is_fixed :
  (forall v : json, canonical v = true -> canon v = v)
  /\ (forall L : layout, canonical (to_json L) = true /\ canon (ser_layout L) = to_json L).
Proof.
  split; [exact canon_canonical|]. intro L. split; [exact (canonical_to_json L)|exact (canon_ser_layout L)].
Qed.
Print Assumptions C15_canonical_value_is_fixed.

Example C15_text_roundtrip_example :
  (* a string with a quote, a backslash, control characters, DEL, a 2-byte and a 4-byte scalar; a
     negative number and the i64 limits; empty containers; keys out of order with a duplicate *)
  let v := JObj [ (lit "s", JStr [120; 34; 92; 8; 10; 1; 31; 127; 233; 128512]%N);
                  (lit "n", JArr [JNum (Some (-5)%Z); JNum (Some 9223372036854775807%Z); JNum (Some (-9223372036854775808)%Z)]);
                  (lit "e", JArr [JArr []; JObj []; JNull; JBool true; JBool false]);
                  (lit "n", JNum (Some 0%Z)) ] in
  printable v = true /\ depth v = 3%nat
  /\ print_compact v = lit "{""s"":""x\""\\\b\n\u0001\u001f" ++ [127; 195; 169; 240; 159; 152; 128]%N
                       ++ lit """,""n"":[-5,9223372036854775807,-9223372036854775808],""e"":[[],{},null,true,false],""n"":0}"
  /\ parse_text (print_pretty v)
     = Some (JObj [ (lit "e", JArr [JArr []; JObj []; JNull; JBool true; JBool false]);
                    (lit "n", JNum (Some 0%Z));
                    (lit "s", JStr [120; 34; 92; 8; 10; 1; 31; 127; 233; 128512]%N) ])
  /\ parse_text (print_compact v) = parse_text (print_pretty v)
  (* the reader beyond the printer's language: escapes, a surrogate pair, a lone surrogate, the
     number classes, the recursion limit, trailing characters *)
  /\ parse_text (lit " [ ""é😀\/"" , 1.5e3 , 18446744073709551615 , -0 ] ")
     = Some (JArr [JStr [233; 128512; 47]%N; JNum None; JNum None; JNum None])
  /\ parse_text (lit """\ud83d""") = None
  /\ parse_text (lit "1e999") = None
  /\ parse_text (lit "[1,]") = None
  /\ parse_text (lit "null x") = None
  /\ parse_text (List.repeat 91%N 127 ++ List.repeat 93%N 127) <> None
  /\ parse_text (List.repeat 91%N 128 ++ List.repeat 93%N 128) = None.
Proof. vm_compute. repeat split; try reflexivity. discriminate. Qed.

(* Every key name the tool can write is read back as the same key, for all key
   codes of the regenerated table (484 at the pinned commit): the serde name
   (variant name or #[serde(rename)]) parses to the key's code, so does the
   variant name itself, serde writes exactly that name for the code, and no
   variant name could be mistaken for an alias (leading @) or a digit key. *)
Theorem C15_key_names :
  (forall e, In e key_table ->
     parse_key_code (lit (sname_of e)) = Ok (code_of e)
     /\ parse_key_code (lit (ident_of e)) = Ok (code_of e)
     /\ serde_name (code_of e) = Some (lit (sname_of e))
     /\ starts_with_at (lit (ident_of e)) = false
     /\ is_digit_string (lit (ident_of e)) = false)
  /\ NoDup (map (fun e => lit (ident_of e)) key_table)
  /\ NoDup (map (fun e => lit (sname_of e)) key_table).
Proof.
  split; [exact key_names_roundtrip|].
  split; apply nodup_str_NoDup; [exact key_idents_nodup|exact key_snames_nodup].
Qed.
Print Assumptions C15_key_names.

Example C15_key_names_example :
  parse_key_code (lit "1") = Ok 2%N /\ serde_name 2%N = Some (lit "1") /\ parse_key_code (lit "K1") = Ok 2%N
  /\ length key_table = 484%nat.
Proof. vm_compute. repeat split; reflexivity. Qed.
