(* C15 — The layout saved for the systemd service reloads as the same layout.
   Statements only; proofs are in TM.KeyNames (finite facts, vm_compute over
   the regenerated key table) and TM.RoundtripLemmas. *)
From TM Require Import Base Json RustOps Mapper Parser Convert Serde LoaderCheck StrLemmas KeyNames.
From TMGen Require Import KeyTable.

(* Every key name the tool can write is read back as the same key, for all key
   codes of the regenerated table (484 at the pinned commit): the serde name
   (variant name or #[serde(rename)]) parses to the key's code, so does the
   variant name itself, serde writes exactly that name for the code, and no
   variant name could be mistaken for an alias (leading @) or a digit key. *)
Theorem C15_key_names :
  (forall e, In e key_table ->
     parse_key_code (lit (sname_of e)) = Ok (code_of e)
     /\ parse_key_code (lit (ident_of e)) = Ok (code_of e)
     /\ serde_name (code_of e) = Some (lit (sname_of e))
     /\ starts_with_at (lit (ident_of e)) = false
     /\ is_digit_string (lit (ident_of e)) = false)
  /\ NoDup (map (fun e => lit (ident_of e)) key_table)
  /\ NoDup (map (fun e => lit (sname_of e)) key_table).
Proof.
  split; [exact key_names_roundtrip|].
  split; apply nodup_str_NoDup; [exact key_idents_nodup|exact key_snames_nodup].
Qed.
Print Assumptions C15_key_names.

Example C15_key_names_example :
  parse_key_code (lit "1") = Ok 2%N /\ serde_name 2%N = Some (lit "1") /\ parse_key_code (lit "K1") = Ok 2%N
  /\ length key_table = 484%nat.
Proof. vm_compute. repeat split; reflexivity. Qed.
