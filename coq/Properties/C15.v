(* C15 — The layout saved for the systemd service reloads as the same layout.
   Statements only; proofs are in TM.KeyNames (finite facts, vm_compute over
   the regenerated key table) and TM.RoundtripLemmas. *)
From TM Require Import Base Json RustOps Mapper Parser Convert Serde LoaderCheck StrLemmas KeyNames RoundtripLemmas LoadedWf.
From TMGen Require Import KeyTable.

(* Writing a basic layout in the derive(Serialize) form and loading that value
   the way the service does (parse_layout_from_json, then convert) yields
   exactly the same layout: same mappings in the same order, same triggers,
   outputs, repeat settings and absorbing lists.  For EVERY basic layout L with
   wf_basic L (LoaderCheck.v): every trigger non-empty, no key twice in one
   trigger or one output, every key a key code of the tool's table (known_key:
   serde has a name for it), Special delays/intervals in the i32 range, and
   absorbing keys among the trigger's modifiers — any length, any repeat
   (Special with empty or multi-key chords), empty outputs included.
   C15_loaded_is_wf_basic below shows that every layout the loader returns
   satisfies wf_basic, so "every layout the converter can produce" is covered. *)
Theorem C15_roundtrip : forall L : layout, wf_basic L = true -> load (to_json L) = Ok L.
Proof. exact roundtrip. Qed.
Print Assumptions C15_roundtrip.

Example C15_roundtrip_example :
  let L := [ mkMapping [58; 30]%N [] (RSpecial [] (-5) 2147483647) [58]%N;
             mkMapping [42; 56; 16]%N [29; 42; 2]%N (RSpecial [42; 3]%N 180 30) [56; 42]%N;
             mkMapping [1]%N [1]%N RDisabled [] ] in
  wf_basic L = true /\ load (to_json L) = Ok L.
Proof. vm_compute. split; reflexivity. Qed.

(* The guard of C15_roundtrip is what the loader guarantees: every layout that
   loading (parser + converter) returns, for any JSON value, satisfies wf_basic.
   Hence a layout obtained from any layout file, saved and reloaded, is
   unchanged (C15_saved_layout_reloads). *)
Theorem C15_loaded_is_wf_basic : forall (j : json) (L : layout), load j = Ok L -> wf_basic L = true.
Proof. exact loaded_is_wf_basic. Qed.
Print Assumptions C15_loaded_is_wf_basic.

Theorem C15_saved_layout_reloads : forall (j : json) (L : layout), load j = Ok L -> load (to_json L) = Ok L.
Proof. exact saved_layout_reloads. Qed.
Print Assumptions C15_saved_layout_reloads.

(* Every key name the tool can write is read back as the same key, for all key
   codes of the regenerated table (484 at the pinned commit): the serde name
   (variant name or #[serde(rename)]) parses to the key's code, so does the
   variant name itself, serde writes exactly that name for the code, and no
   variant name could be mistaken for an alias (leading @) or a digit key. *)
Theorem C15_key_names :
  (forall e, In e key_table ->
     parse_key_code (lit (sname_of e)) = Ok (code_of e)
     /\ parse_key_code (lit (ident_of e)) = Ok (code_of e)
     /\ serde_name (code_of e) = Some (lit (sname_of e))
     /\ starts_with_at (lit (ident_of e)) = false
     /\ is_digit_string (lit (ident_of e)) = false)
  /\ NoDup (map (fun e => lit (ident_of e)) key_table)
  /\ NoDup (map (fun e => lit (sname_of e)) key_table).
Proof.
  split; [exact key_names_roundtrip|].
  split; apply nodup_str_NoDup; [exact key_idents_nodup|exact key_snames_nodup].
Qed.
Print Assumptions C15_key_names.

Example C15_key_names_example :
  parse_key_code (lit "1") = Ok 2%N /\ serde_name 2%N = Some (lit "1") /\ parse_key_code (lit "K1") = Ok 2%N
  /\ length key_table = 484%nat.
Proof. vm_compute. repeat split; reflexivity. Qed.
