(* C19 — The output stream contains no redundant events.  Statements only. *)
From TM Require Import Base Mapper Monitors Trace MapperInv MapperProps.

(* For EVERY classification of keys into modifiers/ordinary keys, EVERY layout
   that Mapper::for_layout accepts (non-empty duplicate-free triggers,
   duplicate-free outputs) and EVERY finite history of key events (well-formed
   or not) and release-all calls, of any length: folding the concatenated
   outputs from the empty held set, no press of a held key and no release of an
   up key ever occurs. *)
Theorem C19_no_redundant :
  forall (is_action : key -> bool) (L : layout) (h : list input),
    for_layout_ok L = true ->
    redundant [] (out_all is_action L h) = false.
Proof. intros a L h H. apply no_redundant. apply for_layout_ok_wf. exact H. Qed.
Print Assumptions C19_no_redundant.

(* ... and the mapper's own bookkeeping (what Mapper::is_output_held answers:
   pass-through keys + mapped output keys) is exactly the set of keys held on
   the device. *)
Theorem C19_bookkeeping_matches_device :
  forall (is_action : key -> bool) (L : layout) (h : list input),
    for_layout_ok L = true ->
    forall k, In k (held_all is_action L h) <-> In k (held_of (state_of is_action L h)).
Proof. intros a L h H. apply held_all_seteq. apply for_layout_ok_wf. exact H. Qed.
Print Assumptions C19_bookkeeping_matches_device.

(* Non-vacuity: the layout of finding 8.1 (two key-producing mappings sharing
   LEFTSHIFT) is accepted, and on the history A-down B-down C-down the model
   emits a single release of LEFTSHIFT. *)
Example C19_example :
  let ia := fun k => negb (N.eqb k 42) in
  let L := [mkMapping [30%N] [42%N; 45%N] RNormal []; mkMapping [48%N] [42%N; 21%N] RNormal []] in
  for_layout_ok L = true /\
  out_all ia L [IEv (Pressed 30%N); IEv (Pressed 48%N); IEv (Pressed 46%N)]
  = [Pressed 42%N; Pressed 45%N; Released 45%N; Released 42%N; Pressed 42%N; Pressed 21%N;
     Released 42%N; Released 21%N; Pressed 46%N].
Proof. vm_compute. split; reflexivity. Qed.
