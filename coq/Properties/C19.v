(* C19 — The output stream contains no redundant events.  Statements only.
   C19_no_redundant is about the events the mapper returns; the theorems at the
   end carry it through the event loop to what is WRITTEN to the virtual
   keyboard, timer chords included (TM.LoopDevice, proofs in
   TM.LoopDeviceLemmas; the extracted monitor runs on the transcripts of the
   REAL loop, clause C19.device). *)
From TM Require MonitorsSilent.
From TM Require Import Base Mapper Monitors Trace MapperInv MapperProps.
From TM Require Loop LoopSpec LoopDevice LoopDeviceLemmas.

(* For EVERY classification of keys into modifiers/ordinary keys, EVERY layout
   that Mapper::for_layout accepts (non-empty duplicate-free triggers,
   duplicate-free outputs) and EVERY finite history of key events (well-formed
   or not) and release-all calls, of any length: folding the concatenated
   outputs from the empty held set, no press of a held key and no release of an
   up key ever occurs. *)
Theorem C19_no_redundant :
  forall (is_action : key -> bool) (L : layout) (h : list input),
    for_layout_ok L = true ->
    redundant [] (out_all is_action L h) = false.
Proof. intros a L h H. apply no_redundant. apply for_layout_ok_wf. exact H. Qed.
Print Assumptions C19_no_redundant.

(* ... and the mapper's own bookkeeping (what Mapper::is_output_held answers:
   pass-through keys + mapped output keys) is exactly the set of keys held on
   the device. *)
Theorem C19_bookkeeping_matches_device :
  forall (is_action : key -> bool) (L : layout) (h : list input),
    for_layout_ok L = true ->
    forall k, In k (held_all is_action L h) <-> In k (held_of (state_of is_action L h)).
Proof. intros a L h H. apply held_all_seteq. apply for_layout_ok_wf. exact H. Qed.
Print Assumptions C19_bookkeeping_matches_device.

(* The extracted step checker Monitors.check_step (applied by the mapper engine
   to the outputs of the REAL mapper on every explored transition: specification
   state before and after, keys physically held and keys held on the virtual
   keyboard before the step, the input, the observed events; its clause K_C19 -
   folding the observed events of the step from the keys held on the virtual
   keyboard before it, a held key is pressed or a key that is up is released - is
   reported as C19) never fires on the model: for EVERY classification, EVERY
   accepted layout, EVERY history h and EVERY next input i, applied to the
   model's own events for i it returns no clause at all, in particular not K_C19.
   A run on which it fires: MonitorsSilent.check_step_fires. *)
Theorem C19_checker_silent_on_model :
  forall (is_action : key -> bool) (L : layout) (h : list input) (i : input),
    for_layout_ok L = true ->
    let chk := check_step is_action L (state_of is_action L h) (state_of is_action L (h ++ [i]))
                 (phys_of h) (held_all is_action L h) i
                 (fst (fst (mstep is_action L (state_of is_action L h) i))) in
    chk = [] /\ ~ In K_C19 chk.
Proof.
  intros a L h i H. cbn zeta.
  assert (Hwf : wf_layout L) by (apply for_layout_ok_wf; exact H).
  repeat split.
  - apply MonitorsSilent.check_step_silent. exact Hwf.
  - apply MonitorsSilent.check_step_clause_silent. exact Hwf.
Qed.
Print Assumptions C19_checker_silent_on_model.

(* Non-vacuity: the layout of finding 8.1 (two key-producing mappings sharing
   LEFTSHIFT) is accepted, and on the history A-down B-down C-down the model
   emits a single release of LEFTSHIFT. *)
Example C19_example :
  let ia := fun k => negb (N.eqb k 42) in
  let L := [mkMapping [30%N] [42%N; 45%N] RNormal []; mkMapping [48%N] [42%N; 21%N] RNormal []] in
  for_layout_ok L = true /\
  out_all ia L [IEv (Pressed 30%N); IEv (Pressed 48%N); IEv (Pressed 46%N)]
  = [Pressed 42%N; Pressed 45%N; Released 45%N; Released 42%N; Pressed 42%N; Pressed 21%N;
     Released 42%N; Released 21%N; Pressed 46%N].
Proof. vm_compute. split; reflexivity. Qed.

(* ---------- at the device: through the event loop ---------- *)

(* In EVERY configuration of EVERY run of the per-device loop (any answer
   script: batching, time-outs with their timer chords, tablet events, errors),
   layout accepted by Mapper::for_layout: the events of all acknowledged sends
   followed by the send being waited on, folded from the empty held set, never
   press a held key and never release a key that is up. *)
Theorem C19_loop_no_redundant_event_written :
  forall (is_action : key -> bool) (L : layout),
    for_layout_ok L = true ->
    forall (rs : list Loop.resp) (cs : list Loop.call) (o : Loop.outcome) (k : nat) (x : LoopSpec.conf),
    Loop.run is_action L rs = (cs, o) -> LoopSpec.conf_at is_action L rs k = Some x ->
    redundant [] (LoopDeviceLemmas.written_at cs rs k x) = false.
Proof. intros ia L Hok rs cs o k x. exact (LoopDeviceLemmas.loop_device_no_redundant ia L rs cs o k x Hok). Qed.
Print Assumptions C19_loop_no_redundant_event_written.

(* The extracted one-pass monitor LoopDevice.device_check (applied by the loop
   engine to every transcript of the REAL loop; clause D_redundant is reported
   as C19.device) never fires on a transcript of the model, for ALL answer
   scripts.  What a hit means: C01_device_monitor_hit_means; a transcript on
   which it fires: C01_example_device_monitor (Properties/C01.v). *)
Theorem C19_loop_device_no_redundant_event :
  forall (is_action : key -> bool) (L : layout),
    for_layout_ok L = true ->
    forall (rs : list Loop.resp) (cs : list Loop.call) (o : Loop.outcome),
    Loop.run is_action L rs = (cs, o) ->
    LoopDevice.device_check is_action L (combine cs rs) = []
    /\ forall n : N, ~ In (n, LoopDevice.D_redundant) (LoopDevice.device_check is_action L (combine cs rs)).
Proof.
  intros ia L Hok rs cs o Hrun. split.
  - exact (LoopDeviceLemmas.device_check_silent ia L rs cs o Hok Hrun).
  - intros n. exact (LoopDeviceLemmas.device_clause_silent ia L rs cs o Hok Hrun n LoopDevice.D_redundant).
Qed.
Print Assumptions C19_loop_device_no_redundant_event.
