(* C03 — Pressing a chord fires exactly the last-listed satisfied mapping.
   Statements only. *)
From TM Require ModifierSpec SpecTables.
From TMGen Require Modifiers.
From TM Require MonitorsSilent.
From TM Require Import Base Mapper Monitors Trace MapperInv MapperProps MapperFire MapperNoAbs MapperChoice.

(* For EVERY accepted layout WITHOUT absorbing mappings, EVERY history h (so:
   from every reachable state) and EVERY key k that is not physically held after
   h: let m be the LAST-listed mapping whose final trigger key is k and whose
   other trigger keys are all physically held (spec_choice, a `find` over the
   reversed layout).
   - If there is such an m, it takes effect (it becomes the newest mapping in
     effect, the others in effect were in effect before); every non-modifier
     output key of m is pressed by an event of that step; every modifier output
     key of m is held at the end of the step; with normal repeat all output keys
     of m are held at the end of the step.
   - If there is none: when a mapping in effect mentions k nothing is emitted,
     otherwise the step's last event is the press of k itself. *)
Theorem C03_last_listed_satisfied_mapping_fires :
  forall (is_action : key -> bool) (L : layout) (h : list input) (k : key),
    for_layout_ok L = true -> has_absorbing L = false ->
    mem k (phys_of h) = false ->
    let s := state_of is_action L h in
    let r := step is_action L s (Pressed k) in
    let held' := held_all is_action L (h ++ [IEv (Pressed k)]) in
    match spec_choice L (phys_of h) k with
    | Some m =>
      (exists A, act (snd r) = A ++ [m] /\ forall m', In m' A -> In m' (act s))
      /\ (forall t, In t (m_to m) -> is_action t = true -> In (Pressed t) (fst (fst r)))
      /\ (forall t, In t (m_to m) -> is_action t = false -> In t held')
      /\ (m_repeat m = RNormal -> forall t, In t (m_to m) -> In t held')
    | None =>
      if existsb (mentions k) (act s) then fst (fst r) = []
      else last_opt (fst (fst r)) = Some (Pressed k)
    end.
Proof.
  intros a L h k H1 H2. apply choice_fires; [apply for_layout_ok_wf; exact H1 | apply has_absorbing_noabs; exact H2].
Qed.
Print Assumptions C03_last_listed_satisfied_mapping_fires.

(* The mapping the model's step function fires IS the declarative choice. *)
Theorem C03_fired_is_spec_choice :
  forall (is_action : key -> bool) (L : layout) (h : list input) (k : key),
    for_layout_ok L = true -> has_absorbing L = false ->
    mem k (phys_of h) = false ->
    fired L (state_of is_action L h) k = spec_choice L (phys_of h) k.
Proof.
  intros a L h k H1 H2 Hk.
  assert (Hwf : wf_layout L) by (apply for_layout_ok_wf; exact H1).
  assert (Hna : noabs L) by (apply has_absorbing_noabs; exact H2).
  destruct (noabs_state a L h Hwf Hna) as [Hc Hse].
  exact (fired_eq_choice L _ k _ Hwf Hc Hse Hk).
Qed.
Print Assumptions C03_fired_is_spec_choice.

(* The extracted step checker Monitors.check_step (applied by the mapper engine
   to the outputs of the REAL mapper on every explored transition: specification
   state before and after, keys physically held and keys held on the virtual
   keyboard before the step, the input, the observed events) states the theorem
   above on one observed press of a key that is not physically held, in a layout
   without absorbing mappings (the class of this property; it evaluates these
   clauses under `has_absorbing L = false` only): K_C03_fire (there is a
   spec_choice m and: a non-modifier output key of m has no press event in the
   step, or a modifier output key of m is neither held after the step nor pressed
   in it, or m has normal repeat and an output key of m is not held after the
   step, or m is key-producing and its final output key is never pressed),
   K_C03_pass (there is no spec_choice and: a mapping in effect mentions k but
   events were emitted, or none mentions k and the last event is not the press of
   k); reported as C03.fire, C03.pass.  It never fires on the model: for EVERY
   classification, EVERY accepted layout, EVERY history h and EVERY next input i,
   applied to the model's own events for i it returns no clause at all, in
   particular neither of these two.  Runs on which these clauses fire:
   MonitorsSilent.check_step_fires, MonitorsSilent.check_step_fires_every_clause. *)
Theorem C03_checkers_silent_on_model :
  forall (is_action : key -> bool) (L : layout) (h : list input) (i : input),
    for_layout_ok L = true ->
    let chk := check_step is_action L (state_of is_action L h) (state_of is_action L (h ++ [i]))
                 (phys_of h) (held_all is_action L h) i
                 (fst (fst (mstep is_action L (state_of is_action L h) i))) in
    chk = [] /\ ~ In K_C03_fire chk /\ ~ In K_C03_pass chk.
Proof.
  intros a L h i H. cbn zeta.
  assert (Hwf : wf_layout L) by (apply for_layout_ok_wf; exact H).
  repeat split.
  - apply MonitorsSilent.check_step_silent. exact Hwf.
  - apply MonitorsSilent.check_step_clause_silent. exact Hwf.
  - apply MonitorsSilent.check_step_clause_silent. exact Hwf.
Qed.
Print Assumptions C03_checkers_silent_on_model.

(* "Modifier" in this property means one of the eight standard modifiers
   (SpecTables.spec_modifier_keys: left/right Shift, Ctrl, Alt, Meta): the
   classification the code uses (is_action_key, regenerated from /repo on every
   run) is exactly that one.  (The theorems above hold for every classification.) *)
Theorem C03_modifiers_are_the_standard_ones :
  forall k : N, TMGen.Modifiers.is_action_key k = negb (SpecTables.spec_is_modifier k).
Proof. exact ModifierSpec.is_action_key_is_spec. Qed.
Print Assumptions C03_modifiers_are_the_standard_ones.

(* Non-vacuity: two mappings end in J; with CAPSLOCK and LEFTSHIFT held the
   last-listed satisfied one ([CAPSLOCK, LEFTSHIFT, J] -> HOME) fires, with only
   CAPSLOCK held the other one ([CAPSLOCK, J] -> LEFT). *)
Example C03_example :
  let ia := fun k => negb (N.eqb k 42) in
  let m1 := mkMapping [58%N; 36%N] [105%N] RNormal [] in
  let m2 := mkMapping [58%N; 42%N; 36%N] [102%N] RNormal [] in
  let L := [mkMapping [58%N] [] RNormal []; m1; m2] in
  for_layout_ok L = true /\ has_absorbing L = false
  /\ spec_choice L (phys_of [IEv (Pressed 58%N); IEv (Pressed 42%N)]) 36%N = Some m2
  /\ spec_choice L (phys_of [IEv (Pressed 58%N)]) 36%N = Some m1
  /\ fst (fst (step ia L (state_of ia L [IEv (Pressed 58%N); IEv (Pressed 42%N)]) (Pressed 36%N)))
     = [Released 42%N; Pressed 102%N].
Proof. vm_compute. repeat split; reflexivity. Qed.
