(* C20 — An I/O failure stops the per-device loop at once.  Statements only;
   proofs are in TM.LoopLemmas (shape of Loop.run) and TM.LoopSim (monitor). *)
From TM Require Import Base Mapper Monitors MapperInv Trace Loop LoopEnv LoopMonitors LoopSpec LoopLemmas LoopSends
                       LoopTablet LoopSim LoopProps.

(* For EVERY key classification, EVERY layout and EVERY script of answers (any
   length, any answers, an Err at any position and to any call): if the
   transcript of the run (the calls paired with the answers they received)
   contains an Err answer, that entry is the LAST entry, the loop makes NO
   further call of any kind (so no further send), and — the failed call being a
   Driver call (poll, read, send, register) — the loop returns exactly that
   error.  (`Instant::now()` and `thread::sleep` are not Driver calls and cannot
   fail; a script that answers them with Err is ill-typed and the run ends as
   `Mismatch`, also without a further call.) *)
Theorem C20_error_stops :
  forall (is_action : key -> bool) (L : layout) (rs : list resp) (cs : list call) (o : outcome)
         (pre : list (call * resp)) (c : call) (m : N) (post : list (call * resp)),
    Loop.run is_action L rs = (cs, o) ->
    combine cs rs = pre ++ (c, RErr m) :: post ->
    post = [] /\ length cs = S (length pre)
    /\ o = (if is_driver_call c then Returned_err m else Mismatch).
Proof. exact error_stops. Qed.
Print Assumptions C20_error_stops.

(* Conversely the loop returns an error ONLY when its last call was a Driver
   call answered by that error. *)
Theorem C20_error_only_then :
  forall (is_action : key -> bool) (L : layout) (rs : list resp) (cs : list call) (m : N),
    Loop.run is_action L rs = (cs, Returned_err m) ->
    exists pre c, combine cs rs = pre ++ [(c, RErr m)] /\ is_driver_call c = true
                  /\ length cs = S (length pre).
Proof.
  intros ia L rs cs m H.
  pose proof (returned_err_only_then ia L rs PRegister linit m) as R.
  fold (Loop.run ia L rs) in R. rewrite H in R. exact (R eq_refl).
Qed.
Print Assumptions C20_error_only_then.

(* Up to the failure the loop is the error-free loop: if the script rs1 is
   exhausted while a Driver call is pending, then with an Err injected at that
   call (whatever follows in the script) the loop makes EXACTLY the same calls —
   in particular everything sent is what the error-free run sent — and returns
   the error.  Hence no send is ever made from a state that differs from the
   error-free one. *)
Theorem C20_same_calls_up_to_the_error :
  forall (is_action : key -> bool) (L : layout) (rs1 : list resp) (m : N) (rs2 : list resp) (cs : list call),
    Loop.run is_action L rs1 = (cs, Starved) ->
    is_driver_call (last cs CNow) = true ->
    Loop.run is_action L (rs1 ++ RErr m :: rs2) = (cs, Returned_err m).
Proof. exact error_injected_same_calls. Qed.
Print Assumptions C20_same_calls_up_to_the_error.

(* Determinism in the script: a run that ended ignores the rest of the script,
   and the calls of a run are a prefix of the calls of the run on any longer
   script. *)
Theorem C20_finished_run_ignores_rest :
  forall (is_action : key -> bool) (L : layout) (rs1 rs2 : list resp),
    snd (Loop.run is_action L rs1) <> Starved ->
    Loop.run is_action L (rs1 ++ rs2) = Loop.run is_action L rs1.
Proof. intros ia L rs1 rs2 H. exact (run_from_app_done ia L rs1 rs2 PRegister linit H). Qed.
Print Assumptions C20_finished_run_ignores_rest.

Theorem C20_calls_prefix :
  forall (is_action : key -> bool) (L : layout) (rs1 rs2 : list resp),
    exists more, fst (Loop.run is_action L (rs1 ++ rs2)) = fst (Loop.run is_action L rs1) ++ more.
Proof. intros ia L rs1 rs2. exact (run_from_app_prefix ia L rs1 rs2 PRegister linit). Qed.
Print Assumptions C20_calls_prefix.

(* It never continues with a mapper state that no longer matches what was
   actually written: in EVERY configuration of EVERY run (layout accepted by
   Mapper::for_layout), the events of all ACKNOWLEDGED sends so far, followed by
   the send the loop is waiting on (if any), form a trace without redundant
   events from the empty held set to exactly the mapper's own held set
   (`tr_ok`); so a send that failed — which by C20_error_stops ends the run — is
   never followed by a write computed from the bookkeeping of the failed one. *)
Theorem C20_writes_match_mapper_state :
  forall (is_action : key -> bool) (L : layout),
    for_layout_ok L = true ->
    forall (rs : list resp) (cs : list call) (o : outcome) (k : nat) (x : conf),
    Loop.run is_action L rs = (cs, o) -> conf_at is_action L rs k = Some x ->
    tr_ok [] (acked (firstn k (combine cs rs)) ++ pending_send (c_point x))
          (held_of (l_mapper (c_state x))).
Proof.
  intros ia L Hok rs cs o k x Hrun Hx.
  exact (proj1 (proj2 (held_at ia L (proj1 (for_layout_ok_wf L) Hok) rs cs o k x Hrun Hx))).
Qed.
Print Assumptions C20_writes_match_mapper_state.

(* The extracted checkers (what the loop engine applies to the real loop with
   an Err injected at every call index) never report the C20 clause on the
   model's own annotated transcript: no call after an Err answer, and the
   return value is that error. *)
Theorem C20_monitor_never_fires :
  forall (is_action : key -> bool) (L : layout),
    for_layout_ok L = true ->
    forall (rs : list resp) (cs : list call) (o : outcome) (t0 tol : Z) (n : N),
    (0 <= tol)%Z -> Loop.run is_action L rs = (cs, o) ->
    ~ In (n, L_C20_stops) (check_transcript is_action L tol (annotate t0 cs rs)).
Proof. intros ia L Hok rs cs o t0 tol n Htol Hrun. exact (monitors_silent_clause ia L Hok rs cs o t0 tol n L_C20_stops Htol Hrun). Qed.
Print Assumptions C20_monitor_never_fires.

(* `o <> Mismatch`: the script answers every call with an answer of the call's
   type (always so for a real Driver). *)
Theorem C20_outcome_monitor_never_fires :
  forall (is_action : key -> bool) (L : layout) (rs : list resp) (cs : list call) (o : outcome) (t0 : Z),
    Loop.run is_action L rs = (cs, o) -> o <> Mismatch ->
    check_outcome (annotate t0 cs rs) o = [].
Proof. exact LoopSim.outcome_monitor_never_fires. Qed.
Print Assumptions C20_outcome_monitor_never_fires.

(* Non-vacuity: A -> B on a concrete script; an Err at the 5th call (the send of
   the step output) ends the run there although the script goes on. *)
Example C20_example :
  let ia := fun k => negb (N.eqb k 42) in
  let L := [mkMapping [30%N] [48%N] RNormal []] in
  let rs := [RUnit; RPoll (PDeviceEvent [DKbd]); RKbd (NOne (Pressed 30%N)); RUnit;
             RKbd (NOne (Released 30%N)); RErr 7%N; RKbd NBusy; RPoll PTimedOut] in
  Loop.run ia L rs =
  ([CRegister; CPoll None; CNextKbd; CSend [Pressed 48%N]; CNextKbd; CSend [Released 48%N]],
   Returned_err 7%N)
  /\ Loop.run ia L (firstn 5 rs) =
     ([CRegister; CPoll None; CNextKbd; CSend [Pressed 48%N]; CNextKbd; CSend [Released 48%N]], Starved).
Proof. vm_compute. split; reflexivity. Qed.
