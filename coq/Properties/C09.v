(* C09 — Custom-repeat requests are issued and cancelled at exactly the right steps.
   Statements only; proofs are in TM.MapperRepeat. *)
From TM Require Import Mapper Monitors MapperRepeat.

(* For EVERY layout, EVERY state (reachable or not) and EVERY event, the repeat
   request of the step is: Repeating with exactly the fired mapping's keys,
   delay and interval iff the mapping the step fires has a Special repeat;
   Disabled for every other event the mapper acts on; NoChange for an event it
   ignores (press of a key it considers held, release of one it does not). *)
Theorem C09_repeat_exact :
  forall (is_action : key -> bool) (L : layout) (s : state) (e : event),
    snd (fst (step is_action L s e)) = expected_repeat L s e.
Proof. exact step_repeat. Qed.
Print Assumptions C09_repeat_exact.

(* An ignored event leaves the whole mapper state unchanged and emits nothing. *)
Theorem C09_ignored_event_is_noop :
  forall (is_action : key -> bool) (L : layout) (s : state) (e : event),
    (match e with Pressed k => mem k (inp s) = true | Released k => mem k (inp s) = false end) ->
    step is_action L s e = ([], RRNoChange, s).
Proof. exact step_ignored. Qed.
Print Assumptions C09_ignored_event_is_noop.

(* "asks the event loop to start repeating EXACTLY WHEN the mapping it fired has
   a Special repeat, and then with exactly that mapping's repeat keys, delay
   and interval": both directions, for every layout, state and event.  In
   particular a Normal mapping that merely overlaps a Special one never starts
   a repeat, and no release ever does. *)
Theorem C09_repeating_iff_special_mapping_fired :
  forall (is_action : key -> bool) (L : layout) (s : state) (e : event)
         (ks : list key) (d i : Z),
    snd (fst (step is_action L s e)) = RRRepeating ks d i <->
    exists k m, e = Pressed k /\ fired L s k = Some m /\ m_repeat m = RSpecial ks d i.
Proof. exact step_repeating_iff. Qed.
Print Assumptions C09_repeating_iff_special_mapping_fired.

(* A repeat never survives the release of its trigger (nor of any other key the
   mapper considers held). *)
Theorem C09_release_of_held_key_cancels :
  forall (is_action : key -> bool) (L : layout) (s : state) (k : key),
    mem k (inp s) = true ->
    snd (fst (step is_action L s (Released k))) = RRDisabled.
Proof. exact step_release_cancels. Qed.
Print Assumptions C09_release_of_held_key_cancels.

(* A press the mapper acts on that fires nothing, or a mapping whose repeat is
   not Special, cancels repeating. *)
Theorem C09_press_without_special_cancels :
  forall (is_action : key -> bool) (L : layout) (s : state) (k : key),
    mem k (inp s) = false ->
    (forall m ks d i, fired L s k = Some m -> m_repeat m <> RSpecial ks d i) ->
    snd (fst (step is_action L s (Pressed k))) = RRDisabled.
Proof. exact step_press_non_special_cancels. Qed.
Print Assumptions C09_press_without_special_cancels.

(* NoChange is the answer to ignored events and to nothing else: a duplicate
   press does not cancel, and nothing the mapper acts on leaves the repeat
   state as it was. *)
Theorem C09_nochange_iff_ignored :
  forall (is_action : key -> bool) (L : layout) (s : state) (e : event),
    snd (fst (step is_action L s e)) = RRNoChange <->
    (match e with Pressed k => mem k (inp s) = true | Released k => mem k (inp s) = false end).
Proof. exact step_nochange_iff. Qed.
Print Assumptions C09_nochange_iff_ignored.

(* Non-vacuity of the cancel theorems: with the Special mapping's trigger held,
   its release is acted on and answers Disabled; pressing an unmapped key too. *)
Example C09_example_cancel :
  let L := [mkMapping [30%N] [48%N] (RSpecial [190%N] 200 30) []] in
  let ia := fun k => negb (N.eqb k 42) in
  let s1 := snd (step ia L init (Pressed 30%N)) in
  mem 30%N (inp s1) = true /\
  snd (fst (step ia L s1 (Released 30%N))) = RRDisabled /\
  snd (fst (step ia L s1 (Pressed 31%N))) = RRDisabled /\
  snd (fst (step ia L s1 (Pressed 30%N))) = RRNoChange.
Proof. vm_compute. repeat split; reflexivity. Qed.

(* Non-vacuity: a Special mapping on a concrete layout does request repeating. *)
Example C09_example :
  snd (fst (step (fun k => negb (N.eqb k 42)) 
       [mkMapping [30%N] [48%N] (RSpecial [190%N] 200 30) []] init (Pressed 30%N)))
  = RRRepeating [190%N] 200 30.
Proof. vm_compute. reflexivity. Qed.
