(* C09 — Custom-repeat requests are issued and cancelled at exactly the right steps.
   Statements only; proofs are in TM.MapperRepeat. *)
From TM Require Import Mapper Monitors MapperRepeat.

(* For EVERY layout, EVERY state (reachable or not) and EVERY event, the repeat
   request of the step is: Repeating with exactly the fired mapping's keys,
   delay and interval iff the mapping the step fires has a Special repeat;
   Disabled for every other event the mapper acts on; NoChange for an event it
   ignores (press of a key it considers held, release of one it does not). *)
Theorem C09_repeat_exact :
  forall (is_action : key -> bool) (L : layout) (s : state) (e : event),
    snd (fst (step is_action L s e)) = expected_repeat L s e.
Proof. exact step_repeat. Qed.
Print Assumptions C09_repeat_exact.

(* An ignored event leaves the whole mapper state unchanged and emits nothing. *)
Theorem C09_ignored_event_is_noop :
  forall (is_action : key -> bool) (L : layout) (s : state) (e : event),
    (match e with Pressed k => mem k (inp s) = true | Released k => mem k (inp s) = false end) ->
    step is_action L s e = ([], RRNoChange, s).
Proof. exact step_ignored. Qed.
Print Assumptions C09_ignored_event_is_noop.

(* Non-vacuity: a Special mapping on a concrete layout does request repeating. *)
Example C09_example :
  snd (fst (step (fun k => negb (N.eqb k 42)) 
       [mkMapping [30%N] [48%N] (RSpecial [190%N] 200 30) []] init (Pressed 30%N)))
  = RRRepeating [190%N] 200 30.
Proof. vm_compute. reflexivity. Qed.
