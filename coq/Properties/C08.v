(* C08 — An absorbed modifier applies to one keystroke only.
   Statements only; proofs in TM.MapperAbsorb (invariant J between the history
   ghost of TM.Absorb and the mapper state), witnesses in TM.Findings.

   The ghost (TM.Absorb) is computed from the history alone:
     ag_abs    (M, t): a mapping absorbing M fired on trigger t and M has been
               neither released nor pressed again since
     ag_counts keys pressed again and not absorbed, released or reset since
     ag_last   the last absorbing firing, while only t itself moved since
   `victims g phys x` = the pairs (M, t) of ag_abs with M physically held,
   t <> x and M <> x: what clauses (a), (b) speak about at a press of x.

   The theorems hold for EVERY accepted layout in the class K1 /\ K2 (every
   absorbing mapping is key-producing; a mapping whose output does not end in a
   non-modifier outputs only modifiers), EVERY history and EVERY later press -
   not only the next one.  Outside the class the property is FALSE on the code:
   C08a_refuted_outside_K1, C08b_refuted_outside_K2 (recorded findings 8.3, 8.4
   of DESIGN.md, open entries of KNOWN_FINDINGS.txt). *)
From TM Require BuiltinFacts Json RustOps Convert ConvertSpec ExpandLemmas.
From TMGen Require Builtins.
From TM Require Import Base Mapper Monitors Trace MapperInv MapperProps Absorb MapperAbsorb Findings.

(* (a) no press of a key other than the one that triggered it fires a mapping
   requiring the absorbed M *)
Theorem C08a_absorbed_modifier_is_not_used :
  forall (is_action : key -> bool) (L : layout) (h : list input) (x M t : key) (m' : mapping),
    for_layout_ok L = true -> K1 is_action L = true ->
    let s := state_of is_action L h in
    mem x (inp s) = false ->
    In (M, t) (victims (ghost_of is_action L h) (phys_of h) x) ->
    fired L s x = Some m' -> ~ In M (m_from m').
Proof.
  intros a L h x M t m' H1 H2. apply absorbed_not_required; [apply for_layout_ok_wf; exact H1 | apply K1_K1P; exact H2].
Qed.
Print Assumptions C08a_absorbed_modifier_is_not_used.

(* (b) whenever such a press puts a non-modifier on the virtual keyboard, M is
   not down there at that instant unless a mapping in effect outputs M *)
Theorem C08b_absorbed_modifier_is_not_down :
  forall (is_action : key -> bool) (L : layout) (h : list input) (x M t : key) (hs : list key),
    for_layout_ok L = true -> K1 is_action L = true -> K2 is_action L = true ->
    let s := state_of is_action L h in
    let r := step is_action L s (Pressed x) in
    mem x (inp s) = false ->
    In (M, t) (victims (ghost_of is_action L h) (phys_of h) x) ->
    In hs (held_at_action_presses is_action (held_all is_action L h) (fst (fst r))) ->
    In M hs -> still_used (act (snd r)) M = true.
Proof.
  intros a L h x M t hs H1 H2 H3.
  apply absorbed_not_down; [apply for_layout_ok_wf; exact H1 | apply K1_K1P; exact H2 | apply K2_K2P; exact H3].
Qed.
Print Assumptions C08b_absorbed_modifier_is_not_down.

(* (c) pressing the same trigger key again before any other key fires the same
   mapping again *)
Theorem C08c_same_trigger_fires_again :
  forall (is_action : key -> bool) (L : layout) (h : list input) (m : mapping) (t : key) (P : list key),
    for_layout_ok L = true -> K1 is_action L = true ->
    let s := state_of is_action L h in
    ag_last (ghost_of is_action L h) = Some (m, t, P) -> mem t (inp s) = false ->
    fired L s t = Some m.
Proof.
  intros a L h m t P H1 H2. apply refire_same; [apply for_layout_ok_wf; exact H1 | apply K1_K1P; exact H2].
Qed.
Print Assumptions C08c_same_trigger_fires_again.

(* (d) M counts again once it has been released and pressed again: from its
   acted press until a mapping absorbing it fires, it is released or release-all
   happens, it is in the list of keys the firing rule (C03) counts as held and
   not in the absorbed list *)
Theorem C08d_counts_again :
  forall (is_action : key -> bool) (L : layout) (h : list input) (c : key),
    for_layout_ok L = true -> K1 is_action L = true ->
    In c (ag_counts (ghost_of is_action L h)) ->
    In c (inp (state_of is_action L h)) /\ ~ In c (absd (state_of is_action L h)).
Proof.
  intros a L h c H1 H2. apply counts_again; [apply for_layout_ok_wf; exact H1 | apply K1_K1P; exact H2].
Qed.
Print Assumptions C08d_counts_again.

(* the extracted checker c08_check (applied by the mapper engine to the REAL
   outputs) never fires on the model, for every history and every next input *)
Theorem C08_checker_silent_on_model :
  forall (is_action : key -> bool) (L : layout) (h : list input) (i : input),
    for_layout_ok L = true -> K1 is_action L = true -> K2 is_action L = true ->
    c08_check is_action L (state_of is_action L h) (state_of is_action L (h ++ [i]))
              (phys_of h) (held_all is_action L h) (ghost_of is_action L h) i
              (fst (fst (mstep is_action L (state_of is_action L h) i))) = [].
Proof.
  intros a L h i H1 H2 H3.
  apply c08_check_silent; [apply for_layout_ok_wf; exact H1 | apply K1_K1P; exact H2 | apply K2_K2P; exact H3].
Qed.
Print Assumptions C08_checker_silent_on_model.

(* the known class is exactly the complement of the theorems' guard *)
Theorem C08a_refuted_outside_K1 :
  exists L h x M t m',
    for_layout_ok L = true /\ K1 std_is_action L = false
    /\ mem x (inp (state_of std_is_action L h)) = false
    /\ In (M, t) (victims (ghost_of std_is_action L h) (phys_of h) x)
    /\ fired L (state_of std_is_action L h) x = Some m' /\ In M (m_from m').
Proof.
  exists L83, h83, 48%N, 42%N, 30%N, (mkMapping [42; 48] [21] RNormal [])%N.
  vm_compute. repeat split; try reflexivity; left; reflexivity.
Qed.
Print Assumptions C08a_refuted_outside_K1.

Theorem C08b_refuted_outside_K2 :
  exists L h x M t hs,
    for_layout_ok L = true /\ K1 std_is_action L = true /\ K2 std_is_action L = false
    /\ mem x (inp (state_of std_is_action L h)) = false
    /\ In (M, t) (victims (ghost_of std_is_action L h) (phys_of h) x)
    /\ In hs (held_at_action_presses std_is_action (held_all std_is_action L h)
                (fst (fst (step std_is_action L (state_of std_is_action L h) (Pressed x)))))
    /\ In M hs
    /\ still_used (act (snd (step std_is_action L (state_of std_is_action L h) (Pressed x)))) M = false.
Proof.
  exists L84, h84, 46%N, 29%N, 48%N, [29; 48]%N.
  vm_compute. repeat split; try reflexivity; try (left; reflexivity); auto.
Qed.
Print Assumptions C08b_refuted_outside_K2.

(* The five built-in layouts are inside the class (with the standard eight
   modifiers): the recorded findings do not concern the shipped layouts. *)
Theorem C08_builtin_layouts_in_class :
  forall (n : String.string) (j : Json.json), In (n, j) TMGen.Builtins.builtin_layouts ->
    exists L, Convert.load j = RustOps.Ok L /\ for_layout_ok L = true
              /\ K1 BuiltinFacts.spec_is_action L = true /\ K2 BuiltinFacts.spec_is_action L = true.
Proof. exact BuiltinFacts.builtins_ok. Qed.
Print Assumptions C08_builtin_layouts_in_class.

(* C08 starts from the layout the mapper is given.  The conversion of the
   shorthand layout hands the mapper exactly the `absorbing` lists the written-
   out expansion specifies (ConvertSpec.expand: the alias/row choice of the
   trigger side substituted into the written `absorbing` entry, also for
   mappings whose repeat mode is set by a later repeat-only entry); the loader
   engine compares the real conversion's lists with the specification's
   (clause C08.absorbing_converted). *)
Theorem C08_conversion_hands_over_the_specified_absorbing_lists :
  forall (f : Fancy.fancy_layout) (L : layout),
    Convert.convert f = RustOps.Ok L ->
    ConvertSpec.expand f = RustOps.Ok L
    /\ forall Ls, ConvertSpec.expand f = RustOps.Ok Ls -> map m_abs L = map m_abs Ls.
Proof.
  intros f L H. rewrite <- ExpandLemmas.convert_refines_spec. split; [exact H|].
  intros Ls Hs. rewrite H in Hs. inversion Hs. reflexivity.
Qed.
Print Assumptions C08_conversion_hands_over_the_specified_absorbing_lists.

(* Non-vacuity inside the class: [LEFTSHIFT,A]->[X] abs[LEFTSHIFT], [LEFTSHIFT,B]->[Y];
   LEFTSHIFT A down/up: LEFTSHIFT is absorbed (a victim for B); B passes through
   unmapped and LEFTSHIFT is released first; re-pressing A instead fires the same
   mapping; after LEFTSHIFT up/down B is mapped to Y again. *)
Example C08_example :
  let ia := std_is_action in
  let L := [mkMapping [42; 30] [45] RNormal [42]; mkMapping [42; 48] [21] RNormal []]%N in
  let h := [IEv (Pressed 42); IEv (Pressed 30); IEv (Released 30)]%N in
  for_layout_ok L = true /\ K1 ia L = true /\ K2 ia L = true
  /\ victims (ghost_of ia L h) (phys_of h) 48%N = [(42%N, 30%N)]
  /\ fired L (state_of ia L h) 48%N = None
  /\ fst (fst (step ia L (state_of ia L h) (Pressed 48%N))) = [Pressed 48%N]
  /\ fired L (state_of ia L h) 30%N = Some (mkMapping [42; 30] [45] RNormal [42])%N
  /\ fired L (state_of ia L (h ++ [IEv (Released 42); IEv (Pressed 42)]%N)) 48%N
     = Some (mkMapping [42; 48] [21] RNormal [])%N.
Proof. vm_compute. repeat split; reflexivity. Qed.
