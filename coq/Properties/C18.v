(* C18 — Events written to uinput are well-formed kernel input_event records.
   Statements only; proofs are in TM.WireLemmas.  Model: TM.Wire (struct_ser.rs,
   DevInputWriter::send, DevInputReader::next); specification and checkers:
   TM.WireSpec; kernel numbering: TM.SpecKernelKeys (pinned).
   Model assumptions A1-A3 (little-endian, 24-byte input_event with fields at
   16/18/20, whole writes and min(24, available) reads) are stated at the top of
   Wire.v and CHECKED on the platform by the `wire` harness engine.
   Whole-pipeline theorems (proofs in TM.Pipeline) are at the end:
   C18_concatenated_batches_decode, C18_reader_returns_only_known_keys,
   C18_virtual_keyboard_sees_mapper_outputs, C18_no_stuck_keys_through_the_codec. *)
From TM Require LoopEndToEnd Loop LoopEnv LoadedWf MapperProv.
From TM Require Pipeline MapperProps Serde.
From TM Require EndToEnd Base Json RustOps Mapper Monitors MapperInv Convert LoaderCheck.
From TM Require Import Wire WireSpec WireLemmas SpecKernelKeys.
From TMGen Require Import KeyTable.
From Coq Require Import String.

(* For EVERY batch (any length, empty included) of events whose key codes fit
   16 bits — in particular every batch over the keys the tool knows, see
   C18_known_keys_fit — the buffer handed to write(2) is one 24-byte record per
   event, in order, each = 16 zero bytes of time, type 1 (EV_KEY), the key's
   code low byte / high byte, value 1 (press) or 0 (release) as 4 bytes;
   followed by exactly one all-zero SYN_REPORT record and nothing else.  The
   extracted checker that judges the REAL writer's bytes accepts it. *)
Theorem C18_wellformed :
  forall evs : list event,
    fits_u16 evs = true ->
    encode_batch evs = List.concat (map spec_record evs) ++ syn_record
    /\ (forall e : event,
           spec_record e =
           List.repeat 0%N 16 ++ [1; 0]%N ++ [spec_key e mod 256; spec_key e / 256]%N
           ++ [match e with Pressed _ => 1 | Released _ => 0 end; 0; 0; 0]%N
           /\ List.length (spec_record e) = 24%nat)
    /\ syn_record = List.repeat 0%N 24
    /\ List.length (encode_batch evs) = (24 * S (List.length evs))%nat
    /\ check_bytes evs (encode_batch evs) = true.
Proof. exact wellformed_full. Qed.
Print Assumptions C18_wellformed.

(* every batch over known keys satisfies the guard of C18_wellformed *)
Theorem C18_known_keys_fit :
  forall evs : list event, known_batch evs = true -> fits_u16 evs = true.
Proof. exact known_batch_fits. Qed.
Print Assumptions C18_known_keys_fit.

(* Decoding the written bytes with the tool's own reader (next() called until
   the descriptor is drained) returns the same events, and no index panics. *)
Theorem C18_roundtrip :
  forall evs : list event,
    known_batch evs = true ->
    decode_stream (encode_batch evs) = evs
    /\ decode_run (encode_batch evs) = (evs, Drained).
Proof. exact roundtrip_full. Qed.
Print Assumptions C18_roundtrip.

(* EVERY interleaving: a stream is any list of items, `inr e` = the writer's
   record for a known-key event, `inl r` = a foreign record r (any 16 time
   bytes, type and code any u16, value any i32) that is not a key press/release
   of a known key: type <> 1, or value not in {0,1} (auto-repeat 2, negative,
   ...), or unknown code.  The reader returns exactly the events, in order. *)
Theorem C18_reader_filters :
  forall items : list (raw + event),
    (forall i, In i items ->
       match i with
       | inl r => raw_wf r = true
                  /\ (r_type r <> 1%N \/ (r_value r <> 0 /\ r_value r <> 1)%Z
                      \/ known_code (r_code r) = false)
       | inr e => known_code (spec_key e) = true
       end) ->
    decode_stream (items_stream items) = items_events items
    /\ decode_run (items_stream items) = (items_events items, Drained).
Proof. exact reader_filters_full. Qed.
Print Assumptions C18_reader_filters.

(* The same for arbitrary device records (any timestamps on every record): the
   reader delivers exactly the records that are EV_KEY with value 1/0 and a
   known code, as Pressed/Released of that code, in order, skipping the rest. *)
Theorem C18_reader_exact :
  forall rs : list raw,
    (forall r, In r rs -> raw_wf r = true) ->
    decode_run (raw_stream rs) = (raw_events rs, Drained).
Proof. exact decode_run_raw. Qed.
Print Assumptions C18_reader_exact.

(* On ANY byte stream (garbage, truncated) no call of next() panics. *)
Theorem C18_reader_never_panics :
  forall s : list N, snd (decode_run s) = Drained.
Proof. exact decode_run_no_panic. Qed.
Print Assumptions C18_reader_never_panics.

(* The regenerated key table: every code fits 16 bits (so `k as u16` is the
   code), codes are pairwise distinct, and every variant whose name exists in
   the kernel's header (KEY_<ident>, K<digit>.. -> KEY_<digit>..) carries the
   kernel's number.  Variants without a kernel counterpart are reported by the
   engine (WireSpec.unmatched_idents), not failed on. *)
Theorem C18_codes_are_kernel_codes :
  (forall (id : String.string) (c : N) (s : String.string),
      In (id, c, s) key_table ->
      (c < 65536)%N
      /\ (forall kc, kernel_code (kernel_name id) = Some kc -> kc = c))
  /\ NoDup (map (fun e : String.string * N * String.string => snd (fst e)) key_table).
Proof. exact codes_full. Qed.
Print Assumptions C18_codes_are_kernel_codes.

(* ---------- non-vacuity ---------- *)

(* the guards are satisfiable on a non-trivial batch, and the bytes are what
   one expects: A down, KBD_LCD_MENU5 (700 = 0x02bc) up *)

(* The guard `known_batch` of the theorems above is met by everything the
   tool can ever write from the mapper: for EVERY layout file the loader accepts,
   EVERY key classification and EVERY history (any length; key events of known
   keys, well-formed or not, and release-all calls), each batch of events the
   mapper emits consists of keys of the key table, fits the record format and is
   read back by the tool's own reader as exactly that batch.  (Loader C13-C15,
   mapper C02/C19 and codec C18 composed: TM.EndToEnd.) *)
Theorem C18_every_mapper_output_is_encodable :
  forall (is_action : Base.key -> bool) (j : Json.json) (L : Mapper.layout) (h : list Monitors.input),
    Convert.load j = RustOps.Ok L ->
    (forall k, In k (EndToEnd.input_keys h) -> LoaderCheck.known_key k = true) ->
    forall batch, In batch (fst (MapperInv.mrun is_action L Mapper.init h)) ->
      known_batch batch = true /\ fits_u16 batch = true /\ decode_stream (encode_batch batch) = batch.
Proof. exact EndToEnd.loaded_layout_outputs_are_encodable. Qed.
Print Assumptions C18_every_mapper_output_is_encodable.


(* ... and by everything the event loop writes: in EVERY run of the per-device
   loop (any answer script: batching, time-outs, tablet events, errors) on a
   layout the loader accepted, with key events of known keys read, EVERY send -
   step output, release-all batch or timer chord - is a batch of known keys, so
   it is written as well-formed records and read back identically. *)
Theorem C18_every_loop_write_is_encodable :
  forall (is_action : Base.key -> bool) (j : Json.json) (L : Mapper.layout)
         (rs : list Loop.resp) (cs : list Loop.call) (o : Loop.outcome) (k : nat) (evs : list event),
    Convert.load j = RustOps.Ok L ->
    Loop.run is_action L rs = (cs, o) ->
    (forall e, In e (LoopEnv.kbd_reads (combine cs rs)) -> LoaderCheck.known_key (MapperProv.ev_key e) = true) ->
    nth_error cs (S k) = Some (Loop.CSend evs) ->
    known_batch evs = true /\ fits_u16 evs = true /\ decode_stream (encode_batch evs) = evs.
Proof.
  intros ia j L rs cs o k evs Hload Hrun Hkeys Hsend.
  assert (Hk : known_batch evs = true).
  { eapply (LoopEndToEnd.loop_sends_are_known_batches ia L);
      [eapply LoadedWf.loaded_is_wf_basic; exact Hload | eapply LoadedWf.accepted_is_wf; exact Hload
      | exact Hrun | exact Hkeys | exact Hsend]. }
  split; [exact Hk|]. split; [apply known_batch_fits; exact Hk | apply (proj1 (roundtrip_full evs Hk))].
Qed.
Print Assumptions C18_every_loop_write_is_encodable.

Example C18_example_batch :
  known_batch [Pressed 30%N; Released 700%N] = true
  /\ encode_batch [Pressed 30%N; Released 700%N] =
     [0;0;0;0;0;0;0;0; 0;0;0;0;0;0;0;0; 1;0; 30;0; 1;0;0;0;
      0;0;0;0;0;0;0;0; 0;0;0;0;0;0;0;0; 1;0; 188;2; 0;0;0;0;
      0;0;0;0;0;0;0;0; 0;0;0;0;0;0;0;0; 0;0; 0;0; 0;0;0;0]%N
  /\ decode_stream (encode_batch [Pressed 30%N; Released 700%N]) = [Pressed 30%N; Released 700%N].
Proof. vm_compute. repeat split. Qed.

(* a stream with every kind of foreign record between and around two events *)
Example C18_example_interleaving :
  let items : list (raw + event) :=
    [inl (mk_raw 5 6 0 0 0);            (* SYN_REPORT *)
     inr (Pressed 30%N);
     inl (mk_raw 5 7 4 4 458756);       (* EV_MSC / MSC_SCAN *)
     inl (mk_raw 5 8 1 30 2);           (* auto-repeat of a known key *)
     inl (mk_raw 5 9 1 600 1);          (* unknown code *)
     inl (mk_raw 5 9 1 0 1);            (* KEY_RESERVED *)
     inl (mk_raw 5 9 1 65535 0);
     inl (mk_raw (-1) 9 1 30 (-1));     (* negative value *)
     inr (Released 30%N);
     inl (mk_raw 5 10 0 0 0)] in
  forallb item_ok items = true
  /\ decode_run (items_stream items) = ([Pressed 30%N; Released 30%N], Drained).
Proof. vm_compute. split; reflexivity. Qed.

(* the comparison with the kernel's numbering is not vacuous *)
Example C18_example_kernel :
  kernel_code (kernel_name "A"%string) = Some 30%N
  /\ kernel_code (kernel_name "K0"%string) = Some 11%N
  /\ kernel_name "K102ND"%string = "KEY_102ND"%string
  /\ (100 <=? matched_count)%nat = true.
Proof. vm_compute. repeat split. Qed.

(* ---------- the whole pipeline (TM.Pipeline) ---------- *)

(* The output descriptor carries MANY batches one after the other.  For EVERY
   list of batches of known keys (any number, empty batches included): the
   tool's reader run on the concatenation of the written buffers returns exactly
   the events of the batches, in order, skipping every SYN_REPORT, and no index
   panics. *)
Theorem C18_concatenated_batches_decode :
  forall batches : list (list event),
    (forall b, In b batches -> known_batch b = true) ->
    decode_stream (List.concat (map encode_batch batches)) = List.concat batches
    /\ decode_run (List.concat (map encode_batch batches)) = (List.concat batches, Drained).
Proof. exact Pipeline.decode_concat_batches. Qed.
Print Assumptions C18_concatenated_batches_decode.

(* On ANY byte stream (garbage, truncated) the reader only returns keys of the
   key table - so what it feeds to the mapper always meets the guard "key events
   of known keys" of C18_every_mapper_output_is_encodable /
   C18_every_loop_write_is_encodable.  (`known_code` and LoaderCheck.known_key
   are the same predicate: Pipeline.known_code_iff_key.) *)
Theorem C18_reader_returns_only_known_keys :
  forall (s : list N) (e : event),
    In e (decode_stream s) ->
    known_code (spec_key e) = true /\ LoaderCheck.known_key (spec_key e) = true.
Proof.
  intros s e H. split; [exact (Pipeline.decode_stream_keys_known s e H) | exact (Pipeline.decode_stream_known_keys s e H)].
Qed.
Print Assumptions C18_reader_returns_only_known_keys.

(* Bytes in -> bytes out -> events: for EVERY layout file the loader accepts,
   EVERY key classification and EVERY byte stream s arriving on the keyboard
   descriptor (no hypothesis on s), a program that reads the virtual keyboard
   with the same reader sees exactly the mapper's event sequence for the key
   events of s.  `Pipeline.device_bytes_out is_action L s` =
   concat (map encode_batch (filter non_nil (map fst (fst (Mapper.run is_action L
   init (decode_stream s)))))) (C10_device_bytes_out_is); that these are the
   bytes the event loop writes whatever the chunking is
   C10_bytes_out_depend_only_on_events_read. *)
Theorem C18_virtual_keyboard_sees_mapper_outputs :
  forall (is_action : Base.key -> bool) (j : Json.json) (L : Mapper.layout) (s : list N),
    Convert.load j = RustOps.Ok L ->
    decode_stream (Pipeline.device_bytes_out is_action L s)
    = List.concat (map fst (fst (Mapper.run is_action L Mapper.init (decode_stream s))))
    /\ decode_run (Pipeline.device_bytes_out is_action L s)
       = (List.concat (map fst (fst (Mapper.run is_action L Mapper.init (decode_stream s)))), Drained).
Proof. exact Pipeline.virtual_keyboard_sees_mapper_outputs. Qed.
Print Assumptions C18_virtual_keyboard_sees_mapper_outputs.

(* C01 carried through the codec: if the key events of s leave no key
   physically held, the events read back from the written bytes leave no key
   held on the virtual keyboard. *)
Theorem C18_no_stuck_keys_through_the_codec :
  forall (is_action : Base.key -> bool) (j : Json.json) (L : Mapper.layout) (s : list N),
    Convert.load j = RustOps.Ok L ->
    MapperProps.phys_of (map Monitors.IEv (decode_stream s)) = [] ->
    Monitors.apply_evs [] (decode_stream (Pipeline.device_bytes_out is_action L s)) = [].
Proof. exact Pipeline.no_stuck_keys_at_the_device. Qed.
Print Assumptions C18_no_stuck_keys_through_the_codec.

(* Non-vacuity: three batches (one empty) written one after the other are read
   back as their five events. *)
Example C18_example_concatenated :
  let batches := [[Pressed 30%N; Released 700%N]; []; [Pressed 42%N; Pressed 105%N; Released 30%N]] in
  forallb known_batch batches = true
  /\ List.length (List.concat (map encode_batch batches)) = 192%nat
  /\ decode_run (List.concat (map encode_batch batches))
     = ([Pressed 30%N; Released 700%N; Pressed 42%N; Pressed 105%N; Released 30%N], Drained).
Proof. vm_compute. repeat split; reflexivity. Qed.

(* Non-vacuity of the pipeline theorems: a CAPSLOCK-layer layout the loader
   accepts; input bytes with SYN_REPORT and MSC_SCAN records, an auto-repeat
   record, a record with an unknown code and a torn tail between and around four
   key events; 144 bytes (two batches of two events, each with its SYN_REPORT)
   come out, and read back they are the mapper's four events; nothing stays
   held at the end, two keys are held after the first 96 input bytes. *)
Example C18_example_pipeline :
  let ia := fun k => negb (N.eqb k 42) in
  let L := [Mapper.mkMapping [58%N] [] Mapper.RNormal []; Mapper.mkMapping [58%N; 36%N] [42%N; 105%N] Mapper.RNormal []] in
  let s := raw_stream
             [mk_raw 5 6 1 58 1; mk_raw 5 6 0 0 0; mk_raw 5 7 4 4 458788; mk_raw 5 7 1 36 1; mk_raw 5 7 0 0 0;
              mk_raw 5 8 1 36 2; mk_raw 5 9 1 58 0; mk_raw 5 9 1 600 1; mk_raw 6 0 1 36 0]
           ++ [7; 7; 7]%N in
  Convert.load (Serde.to_json L) = RustOps.Ok L
  /\ decode_stream s = [Pressed 58%N; Pressed 36%N; Released 58%N; Released 36%N]
  /\ map fst (fst (Mapper.run ia L Mapper.init (decode_stream s)))
     = [[]; [Pressed 42%N; Pressed 105%N]; [Released 105%N; Released 42%N]; []]
  /\ Pipeline.device_bytes_out ia L s
     = encode_batch [Pressed 42%N; Pressed 105%N] ++ encode_batch [Released 105%N; Released 42%N]
  /\ List.length (Pipeline.device_bytes_out ia L s) = 144%nat
  /\ decode_stream (Pipeline.device_bytes_out ia L s)
     = [Pressed 42%N; Pressed 105%N; Released 105%N; Released 42%N]
  /\ MapperProps.phys_of (map Monitors.IEv (decode_stream s)) = []
  /\ Monitors.apply_evs [] (decode_stream (Pipeline.device_bytes_out ia L s)) = []
  /\ Monitors.apply_evs [] (decode_stream (Pipeline.device_bytes_out ia L (firstn 96 s))) = [42%N; 105%N].
Proof. vm_compute. repeat split; reflexivity. Qed.
