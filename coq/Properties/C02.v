(* C02 — Every key held on the output is justified by what is held on the input.
   Statements only.  The theorems about `held_all` concern the events the mapper
   returns; C02_loop_device_held_is_mapper_held / C02_loop_device_in_step at the
   end carry them through the event loop to what is WRITTEN to the virtual
   keyboard (TM.LoopDevice, proofs in TM.LoopDeviceLemmas; the extracted monitor
   runs on the transcripts of the REAL loop, clause C02.device). *)
From TM Require MonitorsSilent.
From TM Require Import Base Mapper Monitors Trace MapperInv MapperProps.
From TM Require Loop LoopSpec LoopDevice LoopDeviceLemmas.

(* Clause 1.  After EVERY history (hence at every prefix of every history), each
   key held on the virtual keyboard is physically held, or is an output key of a
   mapping of the layout all of whose trigger keys are physically held. *)
Theorem C02_justified :
  forall (is_action : key -> bool) (L : layout) (h : list input) (k : key),
    for_layout_ok L = true ->
    In k (held_all is_action L h) ->
    justified L (phys_of h) k = true.
Proof. intros a L h k H. apply held_justified. apply for_layout_ok_wf. exact H. Qed.
Print Assumptions C02_justified.

(* Clause 2.  A key that has a single-key mapping and occurs in no mapping's
   output is never held on the virtual keyboard. *)
Theorem C02_silenced_key :
  forall (is_action : key -> bool) (L : layout) (h : list input) (k : key),
    for_layout_ok L = true ->
    silenced L k = true ->
    ~ In k (held_all is_action L h).
Proof. intros a L h k H. apply silenced_never_held. apply for_layout_ok_wf. exact H. Qed.
Print Assumptions C02_silenced_key.

(* Clause 3.  From ANY mapper state, a key release (acted on or ignored) and a
   release-all produce only release events. *)
Theorem C02_release_never_presses :
  forall (is_action : key -> bool) (L : layout) (s : state) (i : input),
    match i with
    | IEv (Pressed _) => True
    | _ => forallb (fun e => negb (is_pressed e)) (fst (fst (mstep is_action L s i))) = true
    end.
Proof. exact release_never_presses. Qed.
Print Assumptions C02_release_never_presses.

(* Clause 4.  While a mapping is in effect (it is in the specification state's
   list of active mappings: it fired and none of its trigger keys has been
   released or force-released since), a trigger key of it is held on the
   virtual keyboard only if some mapping in effect outputs it. *)
Theorem C02_trigger_consumed :
  forall (is_action : key -> bool) (L : layout) (h : list input) (m : mapping) (f : key),
    for_layout_ok L = true ->
    In m (act (state_of is_action L h)) -> In f (m_from m) ->
    In f (held_all is_action L h) ->
    still_used (act (state_of is_action L h)) f = true.
Proof. intros a L h m f H. apply trigger_consumed. apply for_layout_ok_wf. exact H. Qed.
Print Assumptions C02_trigger_consumed.

(* The extracted step checker Monitors.check_step (applied by the mapper engine
   to the outputs of the REAL mapper on every explored transition: specification
   state before and after, keys physically held and keys held on the virtual
   keyboard before the step, the input, the observed events) states the four
   clauses above on one observed step: K_C02_justified (a key held after the step
   is not justified by the keys physically held after it), K_C02_silenced (a
   silenced key is held), K_C02_release_presses (a release or release-all
   produced a press), K_C02_trigger (a trigger key of a mapping in effect after
   the step is held and no mapping in effect outputs it); reported as
   C02.justified, C02.silenced, C02.release_presses, C02.trigger.  It never
   fires on the model: for EVERY classification, EVERY accepted layout, EVERY
   history h and EVERY next input i, applied to the model's own events for i it
   returns no clause at all, in particular none of these four.  Runs on which
   these clauses fire: MonitorsSilent.check_step_fires,
   MonitorsSilent.check_step_fires_every_clause. *)
Theorem C02_checkers_silent_on_model :
  forall (is_action : key -> bool) (L : layout) (h : list input) (i : input),
    for_layout_ok L = true ->
    let chk := check_step is_action L (state_of is_action L h) (state_of is_action L (h ++ [i]))
                 (phys_of h) (held_all is_action L h) i
                 (fst (fst (mstep is_action L (state_of is_action L h) i))) in
    chk = [] /\ ~ In K_C02_justified chk /\ ~ In K_C02_silenced chk /\ ~ In K_C02_release_presses chk /\ ~ In K_C02_trigger chk.
Proof.
  intros a L h i H. cbn zeta.
  assert (Hwf : wf_layout L) by (apply for_layout_ok_wf; exact H).
  repeat split.
  - apply MonitorsSilent.check_step_silent. exact Hwf.
  - apply MonitorsSilent.check_step_clause_silent. exact Hwf.
  - apply MonitorsSilent.check_step_clause_silent. exact Hwf.
  - apply MonitorsSilent.check_step_clause_silent. exact Hwf.
  - apply MonitorsSilent.check_step_clause_silent. exact Hwf.
Qed.
Print Assumptions C02_checkers_silent_on_model.

(* Non-vacuity: the absorbing layout of finding 8.2 (witness 1); after
   C CAPSLOCK A B down the mapping [C,B] is in effect, C is physically held and
   NOT held on the virtual keyboard. *)
Example C02_example :
  let ia := fun k => negb (N.eqb k 42) in
  let L := [mkMapping [46%N; 48%N] [58%N] RNormal [46%N]; mkMapping [58%N; 30%N] [46%N] RNormal [58%N]] in
  let h := [IEv (Pressed 46%N); IEv (Pressed 58%N); IEv (Pressed 30%N); IEv (Pressed 48%N)] in
  for_layout_ok L = true
  /\ existsb (fun m => mem 46%N (m_from m)) (act (state_of ia L h)) = true
  /\ mem 46%N (phys_of h) = true
  /\ mem 46%N (held_all ia L h) = false.
Proof. vm_compute. repeat split; reflexivity. Qed.

(* ---------- at the device: through the event loop ---------- *)

(* In EVERY configuration of EVERY run of the per-device loop (any answer
   script), layout accepted by Mapper::for_layout: the keys held on the device
   by the events of all acknowledged sends followed by the send being waited on
   are exactly `held_all` of the inputs the transcript implies for the mapper so
   far - the set that C02_justified, C02_silenced_key and C02_trigger_consumed
   speak about.  So every key down on the real virtual keyboard is justified. *)
Theorem C02_loop_device_held_is_mapper_held :
  forall (is_action : key -> bool) (L : layout),
    for_layout_ok L = true ->
    forall (rs : list Loop.resp) (cs : list Loop.call) (o : Loop.outcome) (k : nat) (x : LoopSpec.conf),
    Loop.run is_action L rs = (cs, o) -> LoopSpec.conf_at is_action L rs k = Some x ->
    forall key : key,
      In key (apply_evs [] (LoopDeviceLemmas.written_at cs rs k x))
      <-> In key (held_all is_action L (LoopSpec.minputs false (firstn k (combine cs rs)))).
Proof. intros ia L Hok rs cs o k x. exact (LoopDeviceLemmas.loop_device_held_is_mapper_held ia L rs cs o k x Hok). Qed.
Print Assumptions C02_loop_device_held_is_mapper_held.

(* The extracted one-pass monitor LoopDevice.device_check (applied by the loop
   engine to every transcript of the REAL loop; clause D_step - the device's
   held set differs from the specification mapper's - is reported as
   C02.device) never fires on a transcript of the model, for ALL answer
   scripts.  What a hit means: C01_device_monitor_hit_means; a transcript on
   which it fires: C01_example_device_monitor (Properties/C01.v). *)
Theorem C02_loop_device_in_step :
  forall (is_action : key -> bool) (L : layout),
    for_layout_ok L = true ->
    forall (rs : list Loop.resp) (cs : list Loop.call) (o : Loop.outcome),
    Loop.run is_action L rs = (cs, o) ->
    LoopDevice.device_check is_action L (combine cs rs) = []
    /\ forall n : N, ~ In (n, LoopDevice.D_step) (LoopDevice.device_check is_action L (combine cs rs)).
Proof.
  intros ia L Hok rs cs o Hrun. split.
  - exact (LoopDeviceLemmas.device_check_silent ia L rs cs o Hok Hrun).
  - intros n. exact (LoopDeviceLemmas.device_clause_silent ia L rs cs o Hok Hrun n LoopDevice.D_step).
Qed.
Print Assumptions C02_loop_device_in_step.
