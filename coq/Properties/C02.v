(* C02 — Every key held on the output is justified by what is held on the input.
   Statements only. *)
From TM Require Import Base Mapper Monitors Trace MapperInv MapperProps.

(* Clause 1.  After EVERY history (hence at every prefix of every history), each
   key held on the virtual keyboard is physically held, or is an output key of a
   mapping of the layout all of whose trigger keys are physically held. *)
Theorem C02_justified :
  forall (is_action : key -> bool) (L : layout) (h : list input) (k : key),
    for_layout_ok L = true ->
    In k (held_all is_action L h) ->
    justified L (phys_of h) k = true.
Proof. intros a L h k H. apply held_justified. apply for_layout_ok_wf. exact H. Qed.
Print Assumptions C02_justified.

(* Clause 2.  A key that has a single-key mapping and occurs in no mapping's
   output is never held on the virtual keyboard. *)
Theorem C02_silenced_key :
  forall (is_action : key -> bool) (L : layout) (h : list input) (k : key),
    for_layout_ok L = true ->
    silenced L k = true ->
    ~ In k (held_all is_action L h).
Proof. intros a L h k H. apply silenced_never_held. apply for_layout_ok_wf. exact H. Qed.
Print Assumptions C02_silenced_key.

(* Clause 3.  From ANY mapper state, a key release (acted on or ignored) and a
   release-all produce only release events. *)
Theorem C02_release_never_presses :
  forall (is_action : key -> bool) (L : layout) (s : state) (i : input),
    match i with
    | IEv (Pressed _) => True
    | _ => forallb (fun e => negb (is_pressed e)) (fst (fst (mstep is_action L s i))) = true
    end.
Proof. exact release_never_presses. Qed.
Print Assumptions C02_release_never_presses.

(* Clause 4.  While a mapping is in effect (it is in the specification state's
   list of active mappings: it fired and none of its trigger keys has been
   released or force-released since), a trigger key of it is held on the
   virtual keyboard only if some mapping in effect outputs it. *)
Theorem C02_trigger_consumed :
  forall (is_action : key -> bool) (L : layout) (h : list input) (m : mapping) (f : key),
    for_layout_ok L = true ->
    In m (act (state_of is_action L h)) -> In f (m_from m) ->
    In f (held_all is_action L h) ->
    still_used (act (state_of is_action L h)) f = true.
Proof. intros a L h m f H. apply trigger_consumed. apply for_layout_ok_wf. exact H. Qed.
Print Assumptions C02_trigger_consumed.

(* Non-vacuity: the absorbing layout of finding 8.2 (witness 1); after
   C CAPSLOCK A B down the mapping [C,B] is in effect, C is physically held and
   NOT held on the virtual keyboard. *)
Example C02_example :
  let ia := fun k => negb (N.eqb k 42) in
  let L := [mkMapping [46%N; 48%N] [58%N] RNormal [46%N]; mkMapping [58%N; 30%N] [46%N] RNormal [58%N]] in
  let h := [IEv (Pressed 46%N); IEv (Pressed 58%N); IEv (Pressed 30%N); IEv (Pressed 48%N)] in
  for_layout_ok L = true
  /\ existsb (fun m => mem 46%N (m_from m)) (act (state_of ia L h)) = true
  /\ mem 46%N (phys_of h) = true
  /\ mem 46%N (held_all ia L h) = false.
Proof. vm_compute. repeat split; reflexivity. Qed.
