(* C05 — Non-interference: uninvolved keys and mappings are left alone.
   Statements only; proofs in TM.MapperForeign, TM.MapperEmpty, TM.MapperProv,
   TM.MapperStay. *)
From TM Require ModifierSpec SpecTables.
From TMGen Require Modifiers.
From TM Require Loop LoopSpec LoopDevice LoopDeviceLemmas.
From TM Require MonitorsSilent.
From TM Require Import Base Mapper Monitors Trace MapperInv MapperProps MapperFire MapperNoAbs
                       MapperProv MapperForeign MapperEmpty MapperStay.

(* ---- a key x that appears nowhere in the layout (foreign L x: in no trigger,
   output, absorbing list or repeat chord).  For EVERY accepted layout, EVERY
   history h (key events, well-formed or not, and release-all calls) and EVERY
   next input i: an event of x among the outputs of the step is
   - a press only if i is the physical press of x and the mapper acts on it;
   - a release only if i is the physical release of x, a release-all, or - for
     a non-modifier x - a press that fires a mapping with Disabled/Special repeat. *)
Theorem C05_foreign_key_events :
  forall (is_action : key -> bool) (L : layout) (h : list input) (i : input) (x : key) (e : event),
    for_layout_ok L = true -> foreign L x = true ->
    let s := state_of is_action L h in
    In e (fst (fst (mstep is_action L s i))) -> ev_key e = x ->
    match e with
    | Pressed _ => i = IEv (Pressed x) /\ mem x (inp s) = false
    | Released _ =>
      i = IEv (Released x) \/ i = IReleaseAll
      \/ (is_action x = true /\ exists k m, i = IEv (Pressed k) /\ fired L s k = Some m /\ m_repeat m <> RNormal)
    end.
Proof. intros a L h i x e H. apply foreign_events. apply for_layout_ok_wf. exact H. Qed.
Print Assumptions C05_foreign_key_events.

(* ... it IS pressed when it is physically pressed: the step's events are
   releases followed by exactly one press of x, as the last event ... *)
Theorem C05_foreign_key_pressed :
  forall (is_action : key -> bool) (L : layout) (h : list input) (x : key),
    for_layout_ok L = true -> foreign L x = true -> mem x (phys_of h) = false ->
    exists e1, fst (fst (step is_action L (state_of is_action L h) (Pressed x))) = e1 ++ [Pressed x]
               /\ forallb (fun e => negb (is_pressed e)) e1 = true.
Proof. intros a L h x H. apply foreign_press_once. apply for_layout_ok_wf. exact H. Qed.
Print Assumptions C05_foreign_key_pressed.

(* ... and it is up after its physical release. *)
Theorem C05_foreign_key_up_after_release :
  forall (is_action : key -> bool) (L : layout) (h : list input) (x : key),
    for_layout_ok L = true -> foreign L x = true ->
    ~ In x (held_all is_action L (h ++ [IEv (Released x)])).
Proof. intros a L h x H. apply foreign_up_after_release. apply for_layout_ok_wf. exact H. Qed.
Print Assumptions C05_foreign_key_up_after_release.

(* ---- with an empty layout the output stream is the input stream (events the
   mapper ignores - press of a held key, release of a key that is up - removed;
   release-all releases what is held), for EVERY history. *)
Theorem C05_empty_layout :
  forall (is_action : key -> bool) (h : list input), out_all is_action [] h = echo [] h.
Proof. exact empty_layout_echo. Qed.
Print Assumptions C05_empty_layout.

(* ---- releasing a physical key lifts only that key itself and outputs of
   mappings that have it in their trigger, and never a key that a mapping
   remaining in effect outputs.  EVERY accepted layout (absorbing included),
   EVERY history, EVERY release. *)
Theorem C05_release_scope :
  forall (is_action : key -> bool) (L : layout) (h : list input) (k x : key),
    for_layout_ok L = true ->
    let s := state_of is_action L h in
    let r := step is_action L s (Released k) in
    In (Released x) (fst (fst r)) ->
    (x = k \/ exists m, In m L /\ In k (m_from m) /\ In x (m_to m))
    /\ still_used (act (snd r)) x = false.
Proof. intros a L h k x H. apply release_scope. apply for_layout_ok_wf. exact H. Qed.
Print Assumptions C05_release_scope.

(* ---- while a mapping m stays in effect (in effect before and after the step),
   a step of any key does not release an output key t of m that no other mapping
   of the layout outputs, when t is a modifier of a modifier-remapping (output
   ends in a modifier), or m has normal repeat and no modifier in its output and
   the step does not fire a Disabled/Special mapping.  Layouts without absorbing,
   EVERY history, EVERY event. *)
Theorem C05_in_effect_outputs_stay :
  forall (is_action : key -> bool) (L : layout) (h : list input) (e : event) (m : mapping) (t : key),
    for_layout_ok L = true -> has_absorbing L = false ->
    let s := state_of is_action L h in
    let r := step is_action L s e in
    In m (act s) -> In m (act (snd r)) -> In t (m_to m) ->
    protected is_action L s e m t = true ->
    ~ In (Released t) (fst (fst r)).
Proof.
  intros a L h e m t H1 H2. apply outputs_stay; [apply for_layout_ok_wf; exact H1 | apply has_absorbing_noabs; exact H2].
Qed.
Print Assumptions C05_in_effect_outputs_stay.

(* The extracted step checker Monitors.check_step (applied by the mapper engine
   to the outputs of the REAL mapper on every explored transition: specification
   state before and after, keys physically held and keys held on the virtual
   keyboard before the step, the input, the observed events) states the theorems
   above on one observed step: K_C05_foreign (the physical press of a foreign key
   that is not physically held does not produce exactly one press of it; or an
   event of a foreign key x occurs that is a press and the input is not the
   press of x with x not physically held, or a release and the input is neither
   the release of x, nor a release-all, nor - x a non-modifier - a press that
   fires a Disabled/Special mapping; or a foreign key is held after its
   release), K_C05_empty (empty layout: the events are not the echo of the
   input), K_C05_scope (at the release of k, a released key is neither k nor an
   output of a mapping with k in its trigger, or a mapping in effect after the
   step outputs it), K_C05_stay (layouts without absorbing mappings, the class
   of that theorem: a protected output key of a mapping in effect before and
   after the step is released); reported as C05.foreign, C05.empty, C05.scope,
   C05.stay.  It never fires on the model: for EVERY classification, EVERY
   accepted layout, EVERY history h and EVERY next input i, applied to the
   model's own events for i it returns no clause at all, in particular none of
   these four.  Runs on which these clauses fire:
   MonitorsSilent.check_step_fires_every_clause. *)
Theorem C05_checkers_silent_on_model :
  forall (is_action : key -> bool) (L : layout) (h : list input) (i : input),
    for_layout_ok L = true ->
    let chk := check_step is_action L (state_of is_action L h) (state_of is_action L (h ++ [i]))
                 (phys_of h) (held_all is_action L h) i
                 (fst (fst (mstep is_action L (state_of is_action L h) i))) in
    chk = [] /\ ~ In K_C05_foreign chk /\ ~ In K_C05_empty chk /\ ~ In K_C05_scope chk /\ ~ In K_C05_stay chk.
Proof.
  intros a L h i H. cbn zeta.
  assert (Hwf : wf_layout L) by (apply for_layout_ok_wf; exact H).
  repeat split.
  - apply MonitorsSilent.check_step_silent. exact Hwf.
  - apply MonitorsSilent.check_step_clause_silent. exact Hwf.
  - apply MonitorsSilent.check_step_clause_silent. exact Hwf.
  - apply MonitorsSilent.check_step_clause_silent. exact Hwf.
  - apply MonitorsSilent.check_step_clause_silent. exact Hwf.
Qed.
Print Assumptions C05_checkers_silent_on_model.

(* At the device.  The theorems above are about the events the mapper returns.
   The event loop adds writes of its own (the custom-repeat chords) and decides
   when batches are written; in EVERY configuration of EVERY run of the loop the
   keys down on the virtual keyboard (acknowledged writes + the one waited on)
   are exactly the mapper's held set for the inputs read so far - so no write of
   the loop (a chord, a release-all, a batch written twice or not at all) lifts
   an output of a mapping that remains in effect, or a foreign key that is
   still held.  The extracted monitor LoopDevice.device_check runs on the real
   loop's transcripts; its clause D_step (reported as C02.device) is listened
   to by this property as well. *)
Theorem C05_loop_writes_leave_the_mapper_held_set :
  forall (is_action : key -> bool) (L : layout),
    for_layout_ok L = true ->
    forall (rs : list Loop.resp) (cs : list Loop.call) (o : Loop.outcome) (k : nat) (x : LoopSpec.conf),
    Loop.run is_action L rs = (cs, o) -> LoopSpec.conf_at is_action L rs k = Some x ->
    forall key : key,
      In key (apply_evs [] (LoopDeviceLemmas.written_at cs rs k x))
      <-> In key (held_all is_action L (LoopSpec.minputs false (firstn k (combine cs rs)))).
Proof. intros ia L Hok rs cs o k x. exact (LoopDeviceLemmas.loop_device_held_is_mapper_held ia L rs cs o k x Hok). Qed.
Print Assumptions C05_loop_writes_leave_the_mapper_held_set.

(* "Modifier" in this property means one of the eight standard modifiers
   (SpecTables.spec_modifier_keys: left/right Shift, Ctrl, Alt, Meta): the
   classification the code uses (is_action_key, regenerated from /repo on every
   run) is exactly that one.  (The theorems above hold for every classification.) *)
Theorem C05_modifiers_are_the_standard_ones :
  forall k : N, TMGen.Modifiers.is_action_key k = negb (SpecTables.spec_is_modifier k).
Proof. exact ModifierSpec.is_action_key_is_spec. Qed.
Print Assumptions C05_modifiers_are_the_standard_ones.

(* Non-vacuity: CAPSLOCK+J -> LEFT with CAPSLOCK silenced, LEFTSHIFT -> LEFTCTRL
   (a modifier-remapping); X (45) is foreign.  While LEFTSHIFT is held (LEFTCTRL
   down), X is pressed, the chord fires and is released, X is released: X is echoed
   exactly, LEFTCTRL stays down throughout. *)
Example C05_example :
  let ia := fun k => negb (N.eqb k 42 || N.eqb k 29) in
  let L := [mkMapping [58%N] [] RNormal []; mkMapping [58%N; 36%N] [105%N] RNormal [];
            mkMapping [42%N] [29%N] RNormal []] in
  let h := [IEv (Pressed 42%N); IEv (Pressed 45%N); IEv (Pressed 58%N); IEv (Pressed 36%N);
            IEv (Released 36%N); IEv (Released 45%N)] in
  for_layout_ok L = true /\ has_absorbing L = false /\ foreign L 45%N = true
  /\ out_all ia L h = [Pressed 29%N; Pressed 45%N; Pressed 105%N; Released 105%N; Released 45%N]
  /\ protected ia L (state_of ia L (firstn 3 h)) (Pressed 36%N) (mkMapping [42%N] [29%N] RNormal []) 29%N = true
  /\ echo [] [IEv (Pressed 30%N); IEv (Pressed 30%N); IEv (Released 31%N); IEv (Released 30%N)]
     = [Pressed 30%N; Released 30%N].
Proof. vm_compute. repeat split; reflexivity. Qed.
