(* C07 — A no-repeat mapping never leaves a repeatable key held.  Statements only. *)
From TM Require ModifierSpec SpecTables.
From TMGen Require Modifiers.
From TM Require MonitorsSilent.
From TM Require Import Base Mapper Monitors Trace MapperInv MapperProps MapperFire MapperNoRepeat.

(* For EVERY accepted layout and EVERY history h: if the mapper acts on a press
   of k after h and the mapping m it fires there (the specification's `fired`,
   C03) has repeat mode Disabled or Special, then after that step no
   non-modifier key is held on the virtual keyboard, and every non-modifier
   output key of m was pressed by an event of that step. *)
Theorem C07_no_repeatable_key_held :
  forall (is_action : key -> bool) (L : layout) (h : list input) (k : key) (m : mapping),
    for_layout_ok L = true ->
    mem k (inp (state_of is_action L h)) = false ->
    fired L (state_of is_action L h) k = Some m ->
    m_repeat m <> RNormal ->
    (forall x, In x (held_all is_action L (h ++ [IEv (Pressed k)])) -> is_action x = false)
    /\ (forall t, In t (m_to m) -> is_action t = true ->
          In (Pressed t) (fst (fst (step is_action L (state_of is_action L h) (Pressed k))))).
Proof. intros a L h k m H. apply norepeat_fire. apply for_layout_ok_wf. exact H. Qed.
Print Assumptions C07_no_repeatable_key_held.

(* The extracted step checker Monitors.check_step (applied by the mapper engine
   to the outputs of the REAL mapper on every explored transition: specification
   state before and after, keys physically held and keys held on the virtual
   keyboard before the step, the input, the observed events) states the theorem
   above on one observed press of a key that is not physically held and fires a
   Disabled/Special mapping m (the specification's `fired`): K_C07_held (a
   non-modifier is held on the virtual keyboard after the step), K_C07_pressed (a
   non-modifier output key of m has no press event in the step); reported as
   C07.held, C07.pressed.  It never fires on the model: for EVERY classification,
   EVERY accepted layout, EVERY history h and EVERY next input i, applied to the
   model's own events for i it returns no clause at all, in particular neither of
   these two.  Runs on which these clauses fire:
   MonitorsSilent.check_step_fires_every_clause. *)
Theorem C07_checkers_silent_on_model :
  forall (is_action : key -> bool) (L : layout) (h : list input) (i : input),
    for_layout_ok L = true ->
    let chk := check_step is_action L (state_of is_action L h) (state_of is_action L (h ++ [i]))
                 (phys_of h) (held_all is_action L h) i
                 (fst (fst (mstep is_action L (state_of is_action L h) i))) in
    chk = [] /\ ~ In K_C07_held chk /\ ~ In K_C07_pressed chk.
Proof.
  intros a L h i H. cbn zeta.
  assert (Hwf : wf_layout L) by (apply for_layout_ok_wf; exact H).
  repeat split.
  - apply MonitorsSilent.check_step_silent. exact Hwf.
  - apply MonitorsSilent.check_step_clause_silent. exact Hwf.
  - apply MonitorsSilent.check_step_clause_silent. exact Hwf.
Qed.
Print Assumptions C07_checkers_silent_on_model.

(* "No later release event makes a key held again": from ANY state, releases and
   release-all emit only release events (same lemma as C02, clause 3). *)
Theorem C07_releases_only_release :
  forall (is_action : key -> bool) (L : layout) (s : state) (i : input),
    match i with
    | IEv (Pressed _) => True
    | _ => forallb (fun e => negb (is_pressed e)) (fst (fst (mstep is_action L s i))) = true
    end.
Proof. exact release_never_presses. Qed.
Print Assumptions C07_releases_only_release.

(* The same at the level of the held set: for EVERY layout, EVERY history h (so
   from every reachable state) and EVERY release input or release-all, every key
   held on the virtual keyboard afterwards was held before - no later release
   makes a key held again, in particular not a non-modifier after a
   Disabled/Special mapping fired. *)
Theorem C07_release_holds_nothing_new :
  forall (is_action : key -> bool) (L : layout) (h : list input) (i : input),
    match i with
    | IEv (Pressed _) => True
    | _ => forall x, In x (held_all is_action L (h ++ [i])) -> In x (held_all is_action L h)
    end.
Proof. exact release_holds_nothing_new. Qed.
Print Assumptions C07_release_holds_nothing_new.

(* "Modifier" in this property means one of the eight standard modifiers
   (SpecTables.spec_modifier_keys: left/right Shift, Ctrl, Alt, Meta): the
   classification the code uses (is_action_key, regenerated from /repo on every
   run) is exactly that one.  (The theorems above hold for every classification.) *)
Theorem C07_modifiers_are_the_standard_ones :
  forall k : N, TMGen.Modifiers.is_action_key k = negb (SpecTables.spec_is_modifier k).
Proof. exact ModifierSpec.is_action_key_is_spec. Qed.
Print Assumptions C07_modifiers_are_the_standard_ones.

(* Non-vacuity: SEMICOLON -> S with a Special repeat; SPACE is held and passed
   through; pressing SEMICOLON fires the mapping, presses S and lifts both. *)
Example C07_example :
  let ia := fun k => negb (N.eqb k 42) in
  let L := [mkMapping [39%N] [42%N; 31%N] (RSpecial [191%N] 180 30) []] in
  let h := [IEv (Pressed 57%N)] in
  for_layout_ok L = true
  /\ mem 39%N (inp (state_of ia L h)) = false
  /\ fired L (state_of ia L h) 39%N = Some (mkMapping [39%N] [42%N; 31%N] (RSpecial [191%N] 180 30) [])
  /\ held_all ia L (h ++ [IEv (Pressed 39%N)]) = [42%N]
  /\ fst (fst (step ia L (state_of ia L h) (Pressed 39%N)))
     = [Pressed 42%N; Pressed 31%N; Released 57%N; Released 31%N].
Proof. vm_compute. repeat split; reflexivity. Qed.
