(* C17 — Exclude patterns reach the service's command line unchanged.
   Statements only; proofs are in TM.EscapeLemmas.

   Escape.v   : model of udev_utils.rs (escape_one_char, systemd_arg_escape,
                build_exclude_text, build_service_text; exec_line = the value
                of the ExecStart= assignment), strings as lists of scalars.
   Systemd.v  : independent reading of systemd 252's rules for an ExecStart=
                value, on bytes: UTF-8 cleanliness, word splitting, quote
                removal, C-style unescaping, the lone-semicolon rule, %
                specifiers, $ variables (decode); service_exec_starts reads a
                unit FILE as systemd does (lines, continuation, comments,
                sections) up to the ExecStart= values of [Service].
   EscapeSpec.v : the checker c17_check (extracted, applied to the real text)
                and the proposition it decides.
   utf8       : String::as_bytes. *)
From Coq Require Import List NArith Bool String.
From TM Require Import Escape Systemd EscapeSpec EscapeLemmas.
Import ListNotations.
Open Scope N_scope.

(* For EVERY list of patterns, each non-empty and made of Unicode scalar values
   other than NUL (no bound on their number or length), EVERY instance name
   that contains no "$" byte, and EVERY environment of the service: the
   ExecStart line that is written, read back by systemd's rules, is exactly one
   command whose arguments are the fixed ones, then "--exclude" and the UTF-8
   bytes of each pattern, byte for byte and in order, then "--dev-file" and "/"
   followed by the instance.
   (The instance must not contain "$" because systemd applies variable
   expansion to the result of %I as well; that is a property of the template's
   own "/%I", not of the patterns.) *)
Theorem C17_exec_roundtrip :
  forall (inst : list N) (env : list N -> option (list N)) (pats : list (list N)),
    Forall (fun b => b <> 36) inst ->
    (forall p, In p pats -> p <> [] /\ Forall scalar_ok p) ->
    decode inst env (utf8 (exec_line pats))
    = Some ([str "/usr/bin/totalmapper"; str "remap"; str "--verbose"; str "--layout-file";
             str "/etc/totalmapper.json"; str "--only-if-keyboard"]
            ++ flat_map (fun p => [utf8 (str "--exclude"); utf8 p]) pats
            ++ [utf8 (str "--dev-file"); utf8 (str "/") ++ inst]).
Proof. exact exec_roundtrip. Qed.
Print Assumptions C17_exec_roundtrip.

(* How systemd reads the written unit FILE (Systemd.service_exec_starts: lines,
   line continuation, comments, sections, key=value, "ExecStart=" in [Service]
   only): it finds exactly one ExecStart= assignment, and its value is
   exec_line — no pattern can break the line, start a comment or a continued
   line, or add another assignment. *)
Theorem C17_unit_file_shape :
  forall (pats : list (list N)),
    (forall p, In p pats -> p <> [] /\ Forall scalar_ok p) ->
    service_exec_starts (utf8 (build_service_text pats)) = Some [utf8 (exec_line pats)].
Proof. exact unit_text_exec_starts. Qed.
Print Assumptions C17_unit_file_shape.

(* Both together, from the bytes of the unit file to the argument vector. *)
Theorem C17_unit_roundtrip :
  forall (inst : list N) (env : list N -> option (list N)) (pats : list (list N)),
    Forall (fun b => b <> 36) inst ->
    (forall p, In p pats -> p <> [] /\ Forall scalar_ok p) ->
    read_unit inst env (utf8 (build_service_text pats))
    = Some ([str "/usr/bin/totalmapper"; str "remap"; str "--verbose"; str "--layout-file";
             str "/etc/totalmapper.json"; str "--only-if-keyboard"]
            ++ flat_map (fun p => [str "--exclude"; utf8 p]) pats
            ++ [str "--dev-file"; 47 :: inst]).
Proof. exact unit_roundtrip. Qed.
Print Assumptions C17_unit_roundtrip.

(* The extracted checker c17_check (the one ocaml/escape_check.ml applies to the
   REAL unit text) never fires on the model. *)
Theorem C17_check_on_model :
  forall (inst : list N) (env : list N -> option (list N)) (pats : list (list N)),
    Forall (fun b => b <> 36) inst ->
    (forall p, In p pats -> p <> [] /\ Forall scalar_ok p) ->
    c17_check inst env pats (utf8 (build_service_text pats)) = true.
Proof. exact check_on_model. Qed.
Print Assumptions C17_check_on_model.

(* What a `true` answer of the checker MEANS, on an arbitrary unit file text
   (nothing is assumed about the text, the patterns, the instance or the
   environment): systemd finds exactly one ExecStart= assignment in [Service];
   its reading of that line is an argument vector  pre ++ excl ++ tail  where
   excl is exactly "--exclude" <UTF-8 bytes of the pattern> for each of the
   user's patterns, in order, tail is "--dev-file" "/<instance>", and pre — the
   surrounding arguments — is not empty (the program), contains no word
   "--exclude", contains "--layout-file" followed by a word, and contains
   "--only-if-keyboard" somewhere other than in the place of that word.
   Nothing else is demanded: not the other lines of the unit, not the program
   path, not --verbose, not the layout path. *)
Theorem C17_check_sound :
  forall (inst : list N) (env : list N -> option (list N)) (pats : list (list N)) (text : list N),
    c17_check inst env pats text = true ->
    exists (line : list N) (argv pre : list (list N)),
      service_exec_starts text = Some [line]
      /\ decode inst env line = Some argv
      /\ argv = pre ++ flat_map (fun p => [str "--exclude"; utf8 p]) pats ++ [str "--dev-file"; 47 :: inst]
      /\ pre <> []
      /\ ~ In (str "--exclude") pre
      /\ exists a v b, pre = a ++ [str "--layout-file"; v] ++ b /\ In (str "--only-if-keyboard") (a ++ b).
Proof. exact check_sound. Qed.
Print Assumptions C17_check_sound.

(* ... and a `false` answer means the text does not have that property: the
   checker decides it. *)
Theorem C17_check_complete :
  forall (inst : list N) (env : list N -> option (list N)) (pats : list (list N)) (text : list N),
    (exists (line : list N) (argv pre : list (list N)),
      service_exec_starts text = Some [line]
      /\ decode inst env line = Some argv
      /\ argv = pre ++ flat_map (fun p => [str "--exclude"; utf8 p]) pats ++ [str "--dev-file"; 47 :: inst]
      /\ pre <> []
      /\ ~ In (str "--exclude") pre
      /\ exists a v b, pre = a ++ [str "--layout-file"; v] ++ b /\ In (str "--only-if-keyboard") (a ++ b)) ->
    c17_check inst env pats text = true.
Proof. exact check_complete. Qed.
Print Assumptions C17_check_complete.

(* The same for ANY front part of the line instead of the model's
   "/usr/bin/totalmapper remap --verbose --layout-file /etc/totalmapper.json
   --only-if-keyboard ": if systemd, reading the front part P alone, takes it as
   the complete words pre (UTF-8 clean, ends between two words, specifiers and
   variables expanded, an absolute program path), then P followed by what the
   escaper writes from the exclude region on is read as pre, the exclude
   arguments byte for byte, "--dev-file" "/<instance>".  The round trip of the
   patterns does not depend on the program path, --verbose or the layout path. *)
Theorem C17_any_prefix :
  forall (inst : list N) (env : list N -> option (list N)) (P : list N) (pre : list (list N))
         (pats : list (list N)),
    Forall (fun b => b <> 36) inst ->
    (forall p, In p pats -> p <> [] /\ Forall scalar_ok p) ->
    read_prefix inst env P = Some pre ->
    decode inst env (P ++ (utf8 (build_exclude_text pats) ++ [32]) ++ utf8 (str "--dev-file /%I"))
    = Some (pre ++ flat_map (fun p => [str "--exclude"; utf8 p]) pats ++ [str "--dev-file"; 47 :: inst]).
Proof. exact decode_any_prefix. Qed.
Print Assumptions C17_any_prefix.

(* What correspondence class TEXT compares between the real unit text and the
   model (text_class_ok, extracted): systemd finds one ExecStart= assignment in
   [Service]; its value ends with the model's text from the exclude region on,
   byte for byte; the part in front of that, read alone, is an intact prefix.
   The model's text passes, and ANY text that passes has the property — so the
   theorems above speak about every real text the comparison accepts, whatever
   its other lines and its front part are. *)
Theorem C17_text_class_on_model :
  forall (inst : list N) (env : list N -> option (list N)) (pats : list (list N)),
    (forall p, In p pats -> p <> [] /\ Forall scalar_ok p) ->
    text_class_ok inst env pats (utf8 (build_service_text pats)) = true.
Proof. exact text_class_ok_model. Qed.
Print Assumptions C17_text_class_on_model.

Theorem C17_text_class_implies_check :
  forall (inst : list N) (env : list N -> option (list N)) (pats : list (list N)) (text : list N),
    Forall (fun b => b <> 36) inst ->
    (forall p, In p pats -> p <> [] /\ Forall scalar_ok p) ->
    text_class_ok inst env pats text = true ->
    c17_check inst env pats text = true.
Proof. exact text_class_ok_check. Qed.
Print Assumptions C17_text_class_implies_check.

(* The per-character core: inside an unquoted word, whatever state the word is
   in, the text written for one scalar is read back by the word splitter as the
   scalar's UTF-8 bytes (with % and $ still doubled, undone by the two later
   passes) and the word continues. *)
Theorem C17_per_character :
  forall (c : N) (ws : list (list N)) (cur : list N),
    scalar_ok c ->
    split_pre (SWord ws cur 0 ENone) (utf8 (escape_one_char c))
    = Some (SWord ws (rev (if c =? 37 then [37; 37] else if c =? 36 then [36; 36] else utf8_encode c) ++ cur) 0 ENone).
Proof. exact split_char. Qed.
Print Assumptions C17_per_character.

(* Non-vacuity: a list of two patterns with a space, quotes, a backslash, a
   lone ";" pattern, "%i", "${HOME}", ESC, a C1 control, a noncharacter and an
   astral scalar satisfies the hypotheses and decodes to itself, in an
   environment where every variable is set. *)
Definition example_pats : list (list N) :=
  [ [59];
    str "a b'c" ++ [34; 92] ++ str "%i${HOME}$$*?" ++ [27; 133; 65534; 64976; 1114111; 128512] ].

Example C17_example_hypotheses :
  forallb (fun p => negb (list_eqb p []) && forallb scalar_okb p) example_pats = true.
Proof. vm_compute. reflexivity. Qed.

Example C17_example_roundtrip :
  read_unit (str "dev/input/event3") (fun _ => Some (str "X Y")) (utf8 (build_service_text example_pats))
  = Some (expected_argv (str "dev/input/event3") example_pats).
Proof. vm_compute. reflexivity. Qed.

(* The oracle is not trivially satisfied: the line the code wrote before commit
   851bd68 for the pattern "%i" (no doubling) is read back as the instance
   name, and the one for "'" (bare apostrophe) is refused. *)
Example C17_oracle_discriminates_percent :
  decode (str "dev/input/event3") (fun _ => None) (utf8 (str "/usr/bin/totalmapper --exclude %i"))
  = Some [str "/usr/bin/totalmapper"; str "--exclude"; str "dev/input/event3"].
Proof. vm_compute. reflexivity. Qed.

Example C17_oracle_discriminates_apostrophe :
  decode (str "dev/input/event3") (fun _ => None) (utf8 (str "/usr/bin/totalmapper --exclude ' --dev-file /%I"))
  = None.
Proof. vm_compute. reflexivity. Qed.

(* ---------------------------------------------------------------- the checker, on examples *)

Definition inst3 : list N := str "dev/input/event3".
Definition env_none : list N -> option (list N) := fun _ => None.
Definition env_all_set : list N -> option (list N) := fun _ => Some (str "X Y").

(* a unit file from its lines *)
Definition unit_of_lines (ls : list (list N)) : list N := flat_map (fun l => l ++ [10]) ls.

(* (a) the patterns  a b  '  %i  $X  é : what the model writes for them, and
   the checker's answer on it under both environments *)
Definition pats_a : list (list N) := [str "a b"; str "'"; str "%i"; str "$X"; [233]].

Example C17_example_a_line :
  exec_line pats_a
  = str "/usr/bin/totalmapper remap --verbose --layout-file /etc/totalmapper.json --only-if-keyboard --exclude a\sb --exclude \' --exclude %%i --exclude $$X --exclude "
    ++ [233] ++ str " --dev-file /%I".
Proof. vm_compute. reflexivity. Qed.

Example C17_example_a_check :
  c17_check inst3 env_none pats_a (utf8 (build_service_text pats_a)) = true
  /\ c17_check inst3 env_all_set pats_a (utf8 (build_service_text pats_a)) = true.
Proof. vm_compute. split; reflexivity. Qed.

(* (b) a unit that differs from the model's in everything the property does not
   speak about — another Description, a blank line less, Restart=on-failure,
   another program path, no --verbose, an [Install] section, a comment — and
   has the same exclude arguments: the checker accepts it *)
Definition unit_b : list N :=
  unit_of_lines
    [str "# installed by totalmapper"; str "[Unit]"; str "Description=Totalmapper keyboard remapper"; str "[Service]";
     str "Type=simple"; str "Restart=on-failure"; str "User=totalmapper"; str "Group=input";
     str "ExecStart=/usr/local/bin/totalmapper remap --layout-file /etc/totalmapper.json --only-if-keyboard --exclude a\sb --exclude \' --exclude %%i --exclude $$X --exclude "
       ++ [195; 169] ++ str " --dev-file /%I";
     []; str "[Install]"; str "WantedBy=multi-user.target"].

Example C17_example_b_other_lines_do_not_matter :
  c17_check inst3 env_none pats_a unit_b = true /\ c17_check inst3 env_all_set pats_a unit_b = true.
Proof. vm_compute. split; reflexivity. Qed.

(* a long ExecStart= folded with backslash-newline between words is read as one
   line (the backslash becomes a space) *)
Definition unit_head : list (list N) :=
  [str "[Unit]"; str "Description=Totalmapper"; []; str "[Service]"; str "Type=simple"; str "User=totalmapper"; str "Group=input"].

Definition pats_hash : list (list N) := [str "x"; str "#y"].

Example C17_example_folded_line_ok :
  c17_check inst3 env_none pats_hash
    (unit_of_lines (unit_head ++
       [str "ExecStart=/usr/bin/totalmapper remap --verbose --layout-file /etc/totalmapper.json --only-if-keyboard --exclude x \";
        str "    --exclude #y --dev-file /%I"]))
  = true.
Proof. vm_compute. reflexivity. Qed.

(* (c) units that do NOT have the property: the checker answers false *)

(* the same fold one word later: the line that begins with "#y" is a comment
   for systemd, also inside a continued line, and is dropped; what is left is
   "... --exclude x --exclude" (regression seeded/C17-r5m1) *)
Example C17_example_hash_pattern_swallowed :
  let text := unit_of_lines (unit_head ++
       [str "ExecStart=/usr/bin/totalmapper remap --verbose --layout-file /etc/totalmapper.json --only-if-keyboard --exclude x --exclude \";
        str "    #y --dev-file /%I"]) in
  c17_check inst3 env_none pats_hash text = false
  /\ read_unit inst3 env_none text
     = Some [str "/usr/bin/totalmapper"; str "remap"; str "--verbose"; str "--layout-file"; str "/etc/totalmapper.json";
             str "--only-if-keyboard"; str "--exclude"; str "x"; str "--exclude"].
Proof. vm_compute. split; reflexivity. Qed.

Definition unit_with_exec (l : list N) : list N := unit_of_lines (unit_head ++ [str "ExecStart=" ++ l]).

(* a pattern with a space written without escape arrives as two arguments *)
Example C17_example_pattern_split_in_two :
  c17_check inst3 env_none [str "a b"]
    (unit_with_exec (str "/usr/bin/totalmapper remap --verbose --layout-file /etc/totalmapper.json --only-if-keyboard --exclude a b --dev-file /%I"))
  = false.
Proof. vm_compute. reflexivity. Qed.

(* a second ExecStart= line (a pattern that smuggled a line break in, say) *)
Example C17_example_second_exec_start :
  c17_check inst3 env_none [str "x"]
    (unit_of_lines (unit_head ++
       [str "ExecStart=/usr/bin/totalmapper remap --verbose --layout-file /etc/totalmapper.json --only-if-keyboard --exclude x --dev-file /%I";
        str "ExecStart=/bin/evil"]))
  = false.
Proof. vm_compute. reflexivity. Qed.

(* the right line in the wrong place: in [Unit] it is not the service's command *)
Example C17_example_exec_start_before_service :
  c17_check inst3 env_none [str "x"]
    (unit_of_lines
       [str "[Unit]"; str "Description=Totalmapper";
        str "ExecStart=/usr/bin/totalmapper remap --verbose --layout-file /etc/totalmapper.json --only-if-keyboard --exclude x --dev-file /%I";
        str "[Service]"; str "Type=simple"; str "User=totalmapper"; str "Group=input"])
  = false.
Proof. vm_compute. reflexivity. Qed.

(* a surrounding argument lost *)
Example C17_example_only_if_keyboard_missing :
  c17_check inst3 env_none [str "x"]
    (unit_with_exec (str "/usr/bin/totalmapper remap --verbose --layout-file /etc/totalmapper.json --exclude x --dev-file /%I"))
  = false.
Proof. vm_compute. reflexivity. Qed.

Example C17_example_layout_file_value_missing :
  c17_check inst3 env_none [str "x"]
    (unit_with_exec (str "/usr/bin/totalmapper remap --verbose --layout-file --only-if-keyboard --exclude x --dev-file /%I"))
  = false.
Proof. vm_compute. reflexivity. Qed.

(* a bare apostrophe opens a quote that swallows "--dev-file /%I": systemd
   refuses the line *)
Example C17_example_dev_file_swallowed_by_quote :
  c17_check inst3 env_none [str "'"]
    (unit_with_exec (str "/usr/bin/totalmapper remap --verbose --layout-file /etc/totalmapper.json --only-if-keyboard --exclude ' --dev-file /%I"))
  = false.
Proof. vm_compute. reflexivity. Qed.

(* the wrong pattern, or the patterns in the wrong order *)
Example C17_example_wrong_order :
  c17_check inst3 env_none [str "x"; str "y"]
    (unit_with_exec (str "/usr/bin/totalmapper remap --verbose --layout-file /etc/totalmapper.json --only-if-keyboard --exclude y --exclude x --dev-file /%I"))
  = false.
Proof. vm_compute. reflexivity. Qed.

(* correspondence class TEXT on the examples: unit_b (other lines, another
   program path, no --verbose) passes; a unit whose exclude region is written
   differently from the model (quotes instead of backslash escapes) has the
   property and is accepted by the checker, but is a TEXT difference *)
Example C17_example_text_class_b : text_class_ok inst3 env_none pats_a unit_b = true.
Proof. vm_compute. reflexivity. Qed.

Example C17_example_text_class_other_escaping :
  let text := unit_with_exec (str "/usr/bin/totalmapper remap --verbose --layout-file /etc/totalmapper.json --only-if-keyboard --exclude 'a b' --dev-file /%I") in
  c17_check inst3 env_none [str "a b"] text = true /\ text_class_ok inst3 env_none [str "a b"] text = false.
Proof. vm_compute. split; reflexivity. Qed.
