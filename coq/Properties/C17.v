(* C17 — Exclude patterns reach the service's command line unchanged.
   Statements only; proofs are in TM.EscapeLemmas.

   Escape.v   : model of udev_utils.rs (escape_one_char, systemd_arg_escape,
                build_exclude_text, build_service_text; exec_line = the value
                of the ExecStart= assignment), strings as lists of scalars.
   Systemd.v  : independent reading of systemd 252's rules for an ExecStart=
                value, on bytes: UTF-8 cleanliness, word splitting, quote
                removal, C-style unescaping, the lone-semicolon rule, %
                specifiers, $ variables (decode); unit_exec_start finds the
                ExecStart= line of a unit file.
   utf8       : String::as_bytes. *)
From Coq Require Import List NArith Bool String.
From TM Require Import Escape Systemd EscapeSpec EscapeLemmas.
Import ListNotations.
Open Scope N_scope.

(* For EVERY list of patterns, each non-empty and made of Unicode scalar values
   other than NUL (no bound on their number or length), EVERY instance name
   that contains no "$" byte, and EVERY environment of the service: the
   ExecStart line that is written, read back by systemd's rules, is exactly one
   command whose arguments are the fixed ones, then "--exclude" and the UTF-8
   bytes of each pattern, byte for byte and in order, then "--dev-file" and "/"
   followed by the instance.
   (The instance must not contain "$" because systemd applies variable
   expansion to the result of %I as well; that is a property of the template's
   own "/%I", not of the patterns.) *)
Theorem C17_exec_roundtrip :
  forall (inst : list N) (env : list N -> option (list N)) (pats : list (list N)),
    Forall (fun b => b <> 36) inst ->
    (forall p, In p pats -> p <> [] /\ Forall scalar_ok p) ->
    decode inst env (utf8 (exec_line pats))
    = Some ([str "/usr/bin/totalmapper"; str "remap"; str "--verbose"; str "--layout-file";
             str "/etc/totalmapper.json"; str "--only-if-keyboard"]
            ++ flat_map (fun p => [utf8 (str "--exclude"); utf8 p]) pats
            ++ [utf8 (str "--dev-file"); utf8 (str "/") ++ inst]).
Proof. exact exec_roundtrip. Qed.
Print Assumptions C17_exec_roundtrip.

(* The written unit file consists of the six fixed header lines and exactly one
   more line, "ExecStart=" followed by exec_line: no pattern can break the line
   or add another assignment. *)
Theorem C17_unit_file_shape :
  forall (pats : list (list N)),
    (forall p, In p pats -> p <> [] /\ Forall scalar_ok p) ->
    unit_exec_start [str "[Unit]"; str "Description=Totalmapper"; str "[Service]"; str "Type=simple";
                     str "User=totalmapper"; str "Group=input"]
                    (utf8 (build_service_text pats))
    = Some (utf8 (exec_line pats)).
Proof. exact unit_text_exec_start. Qed.
Print Assumptions C17_unit_file_shape.

(* Both together, from the bytes of the unit file to the argument vector; and
   the extracted checker c17_check (the one ocaml/escape_check.ml applies to the
   REAL unit text) never fires on the model. *)
Theorem C17_unit_roundtrip :
  forall (inst : list N) (env : list N -> option (list N)) (pats : list (list N)),
    Forall (fun b => b <> 36) inst ->
    (forall p, In p pats -> p <> [] /\ Forall scalar_ok p) ->
    read_back inst env (utf8 (build_service_text pats)) = Some (expected_argv inst pats).
Proof. exact unit_roundtrip. Qed.
Print Assumptions C17_unit_roundtrip.

Theorem C17_check_on_model :
  forall (inst : list N) (env : list N -> option (list N)) (pats : list (list N)),
    Forall (fun b => b <> 36) inst ->
    (forall p, In p pats -> p <> [] /\ Forall scalar_ok p) ->
    c17_check inst env pats (utf8 (build_service_text pats)) = true.
Proof. exact check_on_model. Qed.
Print Assumptions C17_check_on_model.

(* The per-character core: inside an unquoted word, whatever state the word is
   in, the text written for one scalar is read back by the word splitter as the
   scalar's UTF-8 bytes (with % and $ still doubled, undone by the two later
   passes) and the word continues. *)
Theorem C17_per_character :
  forall (c : N) (ws : list (list N)) (cur : list N),
    scalar_ok c ->
    split_pre (SWord ws cur 0 ENone) (utf8 (escape_one_char c))
    = Some (SWord ws (rev (if c =? 37 then [37; 37] else if c =? 36 then [36; 36] else utf8_encode c) ++ cur) 0 ENone).
Proof. exact split_char. Qed.
Print Assumptions C17_per_character.

(* Non-vacuity: a list of two patterns with a space, quotes, a backslash, a
   lone ";" pattern, "%i", "${HOME}", ESC, a C1 control, a noncharacter and an
   astral scalar satisfies the hypotheses and decodes to itself, in an
   environment where every variable is set. *)
Definition example_pats : list (list N) :=
  [ [59];
    str "a b'c" ++ [34; 92] ++ str "%i${HOME}$$*?" ++ [27; 133; 65534; 64976; 1114111; 128512] ].

Example C17_example_hypotheses :
  forallb (fun p => negb (list_eqb p []) && forallb scalar_okb p) example_pats = true.
Proof. vm_compute. reflexivity. Qed.

Example C17_example_roundtrip :
  read_back (str "dev/input/event3") (fun _ => Some (str "X Y")) (utf8 (build_service_text example_pats))
  = Some (expected_argv (str "dev/input/event3") example_pats).
Proof. vm_compute. reflexivity. Qed.

(* The oracle is not trivially satisfied: the line the code wrote before commit
   851bd68 for the pattern "%i" (no doubling) is read back as the instance
   name, and the one for "'" (bare apostrophe) is refused. *)
Example C17_oracle_discriminates_percent :
  decode (str "dev/input/event3") (fun _ => None) (utf8 (str "/usr/bin/totalmapper --exclude %i"))
  = Some [str "/usr/bin/totalmapper"; str "--exclude"; str "dev/input/event3"].
Proof. vm_compute. reflexivity. Qed.

Example C17_oracle_discriminates_apostrophe :
  decode (str "dev/input/event3") (fun _ => None) (utf8 (str "/usr/bin/totalmapper --exclude ' --dev-file /%I"))
  = None.
Proof. vm_compute. reflexivity. Qed.
