(* C16 — Only real, non-excluded keyboards are selected, whichever way they are named.
   Statements only; proofs are in TM.ListingLemmas, TM.ListingSelection, TM.ListingNoPanic.

   Text is the list of the UTF-8 BYTES of the Rust string (see TM.Listing).
   `classify` is the verdict computed at a `B: KEY=` line from the fields seen so
   far in the entry; locality and agreement hold for EVERY classification, in
   particular for the code's heuristic `keyboard_like`
   (extract_keyboards = extract_keyboards_with keyboard_like, by definition).
   Results are `Ok list | Panic site`; a panic anywhere is a panic of the whole
   (concat_res), and C16_no_panic shows there is none on well-formed text. *)
From Coq Require Import List NArith Bool.
From TM Require Import Listing ListingLemmas ListingSelection ListingNoPanic.
Import ListNotations.
Open Scope N_scope.

(* ---- locality.  An entry is a block of lines that starts with an "I:" line
   (DESIGN 9.3).  For EVERY list of lines `pre` and EVERY list of such blocks,
   extracting the whole equals extracting `pre` and each block separately, from
   the initial state: nothing of a neighbouring entry is used. *)
Theorem C16_local_kbd :
  forall (classify : bytes -> option bytes -> bytes -> res bool) (pre : list bytes) (es : list (list bytes)),
    Forall (fun e => starts_entry e = true) es ->
    kbd_lines classify (pre ++ concat es) =
    concat_res (kbd_lines classify pre :: map (kbd_lines classify) es).
Proof. exact local_kbd_lines. Qed.
Print Assumptions C16_local_kbd.

Theorem C16_local_dev :
  forall (classify : bytes -> option bytes -> bytes -> res bool) (pre : list bytes) (es : list (list bytes)),
    Forall (fun e => starts_entry e = true) es ->
    dev_lines classify (pre ++ concat es) =
    concat_res (dev_lines classify pre :: map (dev_lines classify) es).
Proof. exact local_dev_lines. Qed.
Print Assumptions C16_local_dev.

(* ... and EVERY text decomposes that way, with entries that contain exactly one
   "I:" line (their first): no well-formedness assumption on the device list. *)
Theorem C16_local_kbd_text :
  forall (classify : bytes -> option bytes -> bytes -> res bool) (t : bytes),
    let pre := fst (split_entries (split_lines t)) in
    let es := snd (split_entries (split_lines t)) in
    pre ++ concat es = split_lines t /\
    forallb (fun x => negb (is_I_line x)) pre = true /\
    Forall (fun e => is_entry e = true) es /\
    extract_keyboards_with classify t =
    concat_res (kbd_lines classify pre :: map (kbd_lines classify) es).
Proof. exact local_kbd_text. Qed.
Print Assumptions C16_local_kbd_text.

Theorem C16_local_dev_text :
  forall (classify : bytes -> option bytes -> bytes -> res bool) (t : bytes),
    let pre := fst (split_entries (split_lines t)) in
    let es := snd (split_entries (split_lines t)) in
    pre ++ concat es = split_lines t /\
    forallb (fun x => negb (is_I_line x)) pre = true /\
    Forall (fun e => is_entry e = true) es /\
    extract_input_devices_with classify t =
    concat_res (dev_lines classify pre :: map (dev_lines classify) es).
Proof. exact local_dev_text. Qed.
Print Assumptions C16_local_dev_text.

(* the checker the engine applies to the REAL extractors (re-extract the preamble
   and every entry alone, as texts, and compare) never fires on the model *)
Theorem C16_local_checker_kbd :
  forall (classify : bytes -> option bytes -> bytes -> res bool) (t : bytes),
    local_ok beq_kdev (extract_keyboards_with classify t)
             (alone (extract_keyboards_with classify) (fst (split_entries (split_lines t))))
             (map (alone (extract_keyboards_with classify)) (snd (split_entries (split_lines t)))) = true.
Proof. exact local_checker_kbd. Qed.
Print Assumptions C16_local_checker_kbd.

Theorem C16_local_checker_dev :
  forall (classify : bytes -> option bytes -> bytes -> res bool) (t : bytes),
    local_ok beq_idev (extract_input_devices_with classify t)
             (alone (extract_input_devices_with classify) (fst (split_entries (split_lines t))))
             (map (alone (extract_input_devices_with classify)) (snd (split_entries (split_lines t)))) = true.
Proof. exact local_checker_dev. Qed.
Print Assumptions C16_local_checker_dev.

(* ---- agreement of the two extractors, for every text *)
Theorem C16_agree :
  forall (classify : bytes -> option bytes -> bytes -> res bool) (t : bytes),
    extract_keyboards_with classify t =
    match extract_input_devices_with classify t with
    | Ok ds => Ok (map forget (filter is_kbd ds))
    | Panic s => Panic s
    end.
Proof. exact agree_text. Qed.
Print Assumptions C16_agree.

Theorem C16_agree_checker :
  forall (classify : bytes -> option bytes -> bytes -> res bool) (t : bytes),
    agree_ok (extract_keyboards_with classify t) (extract_input_devices_with classify t) = true.
Proof. exact agree_checker. Qed.
Print Assumptions C16_agree_checker.

(* ---- selection, for arbitrary oracles
     glob_match  p name  = WildMatch::new(p).matches(name)
     sys_devnode sysfs   = dev_path_for_sysfs_name (io error | no node | node)
     canon       path    = canonicalize(path) as a UTF-8 string, if any.

   --all-keyboards.  If no /sys lookup of a non-virtual keyboard entry fails
   with an io error (otherwise the code returns Err and selects nothing), the
   selected device nodes are exactly, in order, those of the entries d with
   is_keyboard, a sysfs path not under /devices/virtual/input/, a device node,
   and a name matching no exclude pattern. *)
Theorem C16_selection_all :
  forall (glob_match : bytes -> bytes -> bool) (sys_devnode : bytes -> io (option bytes))
         (t : bytes) (excludes : list bytes) (ds : list idev),
    extract_input_devices t = Ok ds ->
    lookups_ok sys_devnode true ds ->
    select_all_keyboards glob_match sys_devnode t excludes = OOk (spec_all glob_match sys_devnode excludes ds)
    /\ forall n, In n (spec_all glob_match sys_devnode excludes ds) <->
                 exists d, In d ds /\ selectable glob_match sys_devnode excludes d n.
Proof. exact selection_all. Qed.
Print Assumptions C16_selection_all.

(* --dev-file d.. --only-if-keyboard.  Guards: no /sys lookup of ANY non-virtual
   entry fails (list_input_devices looks all of them up), canonical paths
   contain no "//" (the lookup key is rewritten with replace("//","/"), the
   stored key is not), and no two listed devices share a canonical node path
   (the HashMap keeps only the LAST entry per canonical path — see
   C16_dev_file_overwrite_example for what happens otherwise).  Then the
   selected arguments are exactly, in order, the given paths whose canonical
   path is that of a node that --all-keyboards selects. *)
Theorem C16_selection_dev_file :
  forall (glob_match : bytes -> bytes -> bool) (sys_devnode : bytes -> io (option bytes))
         (canon : bytes -> option bytes)
         (t : bytes) (excludes : list bytes) (ds : list idev) (devices : list bytes),
    extract_input_devices t = Ok ds ->
    lookups_ok sys_devnode false ds ->
    canon_clean canon ->
    NoDup (canon_keys sys_devnode canon ds) ->
    filter_devices glob_match sys_devnode canon t devices true excludes
    = OOk (spec_dev_file glob_match sys_devnode canon excludes ds devices)
    /\ forall s, In s (spec_dev_file glob_match sys_devnode canon excludes ds devices) <->
                 In s devices /\
                 exists c n, canon s = Some c /\ canon n = Some c /\
                             In n (spec_all glob_match sys_devnode excludes ds).
Proof. exact selection_dev_file. Qed.
Print Assumptions C16_selection_dev_file.

(* the computable guards used by the engine's checkers imply the guards above *)
Theorem C16_guards_sound :
  forall (sys_devnode : bytes -> io (option bytes)) (canon : bytes -> option bytes) (ds : list idev),
    (forall only, lookups_ok_b sys_devnode only ds = true -> lookups_ok sys_devnode only ds) /\
    (canon_distinct_b sys_devnode canon ds = true -> NoDup (canon_keys sys_devnode canon ds)).
Proof. exact guards_sound. Qed.
Print Assumptions C16_guards_sound.

(* ---- no panic: on every (loosely) well-formed UTF-8 text shorter than 32 MiB
   both extractors return normally (and then agree, by C16_agree). *)
Theorem C16_no_panic :
  forall t : bytes,
    utf8_loose t -> short t = true ->
    exists ds, extract_input_devices t = Ok ds /\
               extract_keyboards t = Ok (map forget (filter is_kbd ds)).
Proof. exact no_panic_text. Qed.
Print Assumptions C16_no_panic.

(* ------------------------------------------------------------------ non-vacuity *)

From Coq Require Import String.
Local Open Scope string_scope.
Definition nl : string := String (Ascii.ascii_of_nat 10) EmptyString.
Definition b (s : string) : bytes := bytes_of_string s.

(* an AT keyboard, a PS/2 mouse, totalmapper's own virtual device, and an entry
   without a name following a mouse (nothing leaks) *)
Definition ex_text : bytes := b (
  "I: Bus=0011 Vendor=0001 Product=0001 Version=ab41" ++ nl ++
  "N: Name=""AT Translated Set 2 keyboard""" ++ nl ++
  "S: Sysfs=/devices/platform/i8042/serio0/input/input2" ++ nl ++
  "B: EV=120013" ++ nl ++
  "B: KEY=1100f02902000 8380307cf910f001 feffffdfffefffff fffffffffffffffe" ++ nl ++ nl ++
  "I: Bus=0011 Vendor=0002 Product=0001 Version=0000" ++ nl ++
  "N: Name=""PS/2 Generic Mouse""" ++ nl ++
  "S: Sysfs=/devices/platform/i8042/serio1/input/input4" ++ nl ++
  "B: EV=7" ++ nl ++
  "B: KEY=70000 0 0 0 0" ++ nl ++ nl ++
  "I: Bus=0003 Vendor=0000 Product=0000 Version=0000" ++ nl ++
  "S: Sysfs=/devices/pci0000:00/usb1/1-3/input/input9" ++ nl ++
  "B: EV=120013" ++ nl ++
  "B: KEY=1000000000007 ff9f207ac14057ff febeffdfffefffff fffffffffffffffe" ++ nl ++ nl ++
  "I: Bus=0003 Vendor=0000 Product=0000 Version=0000" ++ nl ++
  "N: Name=""totalmapper""" ++ nl ++
  "S: Sysfs=/devices/virtual/input/input40" ++ nl ++
  "B: EV=120013" ++ nl ++
  "B: KEY=1000000000007 ff9f207ac14057ff febeffdfffefffff fffffffffffffffe" ++ nl).

Definition ex_devs : list idev :=
  [ (b "/devices/platform/i8042/serio0/input/input2", b "AT Translated Set 2 keyboard", true);
    (b "/devices/platform/i8042/serio1/input/input4", b "PS/2 Generic Mouse", false);
    (b "/devices/pci0000:00/usb1/1-3/input/input9", b "", true);
    (b "/devices/virtual/input/input40", b "totalmapper", true) ].

Example C16_example_extract :
  extract_input_devices ex_text = Ok ex_devs /\
  extract_keyboards ex_text = Ok (map forget (filter is_kbd ex_devs)) /\
  List.length (snd (split_entries (split_lines ex_text))) = 4%nat.
Proof. vm_compute. repeat split; reflexivity. Qed.

(* toy oracles: every sysfs path "…/inputN" has the node "/dev/input/eventN" … *)
Definition ex_sys (p : bytes) : io (option bytes) :=
  if beq_bytes p (b "/devices/platform/i8042/serio0/input/input2") then IoOk (Some (b "/dev/input/event2"))
  else if beq_bytes p (b "/devices/platform/i8042/serio1/input/input4") then IoOk (Some (b "/dev/input/event4"))
  else if beq_bytes p (b "/devices/pci0000:00/usb1/1-3/input/input9") then IoOk (Some (b "/dev/input/event9"))
  else if beq_bytes p (b "/devices/virtual/input/input40") then IoOk (Some (b "/dev/input/event40"))
  else IoErr.
(* … a glob that is literal equality, and a canonicalize that resolves one symlink *)
Definition ex_glob (p name : bytes) : bool := beq_bytes p name.
Definition ex_canon (p : bytes) : option bytes :=
  if beq_bytes p (b "/dev/input/by-id/usb-kbd") then Some (b "/dev/input/event9")
  else if beq_bytes p (b "/dev/input/missing") then None
  else Some p.

(* hypotheses of both selection theorems hold, and the selections are what they should be *)
Example C16_example_selection :
  lookups_ok_b ex_sys false ex_devs = true /\
  canon_distinct_b ex_sys ex_canon ex_devs = true /\
  select_all_keyboards ex_glob ex_sys ex_text [] = OOk [b "/dev/input/event2"; b "/dev/input/event9"] /\
  select_all_keyboards ex_glob ex_sys ex_text [b "AT Translated Set 2 keyboard"] = OOk [b "/dev/input/event9"] /\
  filter_devices ex_glob ex_sys ex_canon ex_text
    [b "/dev/input/event40"; b "/dev/input/by-id/usb-kbd"; b "/dev/input/event4"; b "/dev/input/missing"; b "/dev/input/event2"]
    true [] = OOk [b "/dev/input/by-id/usb-kbd"; b "/dev/input/event2"].
Proof. vm_compute. repeat split; reflexivity. Qed.

(* Why the distinctness guard is needed: ONE device whose entry carries two
   B: KEY= lines (the kernel never prints that) is pushed twice with the same
   node; --all-keyboards takes the first verdict into account, --dev-file only
   the last (HashMap overwrite).  Here the two ways of naming the device disagree. *)
Definition ex_dup_text : bytes := b (
  "I: Bus=0003" ++ nl ++
  "N: Name=""USB Keyboard""" ++ nl ++
  "S: Sysfs=/devices/pci0000:00/usb1/1-3/input/input9" ++ nl ++
  "B: EV=120013" ++ nl ++
  "B: KEY=1000000000007 ff9f207ac14057ff febeffdfffefffff fffffffffffffffe" ++ nl ++
  "B: KEY=70000 0 0 0 0" ++ nl).

Example C16_dev_file_overwrite_example :
  select_all_keyboards ex_glob ex_sys ex_dup_text [] = OOk [b "/dev/input/event9"] /\
  filter_devices ex_glob ex_sys ex_canon ex_dup_text [b "/dev/input/event9"] true [] = OOk [] /\
  (exists ds, extract_input_devices ex_dup_text = Ok ds /\ canon_distinct_b ex_sys ex_canon ds = false).
Proof.
  vm_compute. split; [reflexivity|]. split; [reflexivity|].
  eexists. split; reflexivity.
Qed.

(* a byte-offset slice that would not be on a char boundary is a panic of the
   model (it cannot happen on UTF-8: C16_no_panic) *)
Example C16_example_panic_visible :
  (exists s, extract_keyboards (List.app (b "S: Sysfs=") [169%N]) = Panic s) /\
  utf8_loose ex_text /\ short ex_text = true.
Proof.
  split; [vm_compute; eexists; reflexivity|].
  split; [|vm_compute; reflexivity].
  unfold ex_text. vm_compute.
  repeat (apply u_1; [reflexivity|]). apply u_nil.
Qed.
