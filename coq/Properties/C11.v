(* C11 — Timer repeats.  Statements only; proofs are in TM.LoopTimer,
   TM.LoopSends, TM.LoopTablet, TM.LoopSim, TM.LoopProps.

   Units: clock readings and time-outs in ns, delay_ms/interval_ms in ms
   (`ns_per_ms` = 10^6); `as_u64 x = x` for `0 <= x` (`x as u64` of the Rust).
   `conf_at rs k = Some x`: x = (place where the loop waits, its local variables,
   the answer) at the k-th call of `Loop.run rs`; `l_wr` is `working_repeat`. *)
From TM Require Import Base Mapper Monitors MapperInv MapperProps Loop LoopEnv LoopMonitors LoopSpec
                       LoopLemmas LoopSends LoopTablet LoopTimer LoopProps.

(* How `working_repeat` evolves, in EVERY run (every layout, every script): from
   one configuration to the next it is `wr_after` of the former — it is ARMED
   with next_wakeup = (the clock reading taken right after the step that
   requested the repeat) + delay; it ADVANCES by exactly interval at a time-out
   outside tablet mode (after the chord is sent, if there is one): next_wakeup
   is never recomputed from a later clock reading, so there is no drift; it
   becomes Idle at every tablet event, at a time-out in tablet mode, and at a key
   event the mapper acts on with repeat = Disabled (after its output is sent);
   NOTHING else changes it. *)
Theorem C11_timer_evolution :
  forall (is_action : key -> bool) (L : layout) (rs : list resp) (k : nat) (x y : conf),
    conf_at is_action L rs k = Some x -> conf_at is_action L rs (S k) = Some y ->
    l_wr (c_state y) = wr_after is_action L x.
Proof. exact timer_evolution. Qed.
Print Assumptions C11_timer_evolution.

(* The time-out requested while a repeat is pending: after the clock reading
   `now`, the next call is poll with next_wakeup - now, or 1 ms when that is not
   positive (`timeout_of`). *)
Theorem C11_timeout_requested :
  forall (is_action : key -> bool) (L : layout) (rs : list resp) (cs : list call) (o : outcome)
         (k : nat) (x : conf) (now : Z) (ks : list key) (nw iv : Z),
    Loop.run is_action L rs = (cs, o) -> conf_at is_action L rs k = Some x ->
    c_point x = PNowPoll -> c_resp x = RNow now -> l_wr (c_state x) = Repeating ks nw iv ->
    nth_error cs (S k) = Some (CPoll (Some (timeout_of nw now))).
Proof. exact timeout_requested. Qed.
Print Assumptions C11_timeout_requested.

(* A poll carries a time-out exactly when a repeat is pending (so a cancelled
   repeat means the next poll waits without time-out). *)
Theorem C11_poll_timeout_iff_repeating :
  forall (is_action : key -> bool) (L : layout) (rs : list resp) (k : nat) (x : conf) (to : option Z),
    conf_at is_action L rs k = Some x -> c_point x = PPoll to ->
    (to = None <-> l_wr (c_state x) = Idle).
Proof. exact poll_timeout_iff_repeating. Qed.
Print Assumptions C11_poll_timeout_iff_repeating.

(* At a time-out while repeating outside tablet mode the chord is sent at once,
   unless it is empty. *)
Theorem C11_tick_sends_chord :
  forall (is_action : key -> bool) (L : layout) (rs : list resp) (cs : list call) (o : outcome)
         (k : nat) (x : conf) (to : option Z) (ks : list key) (nw iv : Z),
    Loop.run is_action L rs = (cs, o) -> conf_at is_action L rs k = Some x ->
    c_point x = PPoll to -> c_resp x = RPoll PTimedOut ->
    l_wr (c_state x) = Repeating ks nw iv -> l_tablet (c_state x) = false ->
    let chord := chord_events (l_mapper (c_state x)) ks in
    (chord <> [] -> nth_error cs (S k) = Some (CSend chord))
    /\ (chord = [] -> ~ is_send (nth_error cs (S k))).
Proof. exact tick_sends_chord. Qed.
Print Assumptions C11_tick_sends_chord.

(* Closed form of the schedule.  From the clock reading t0 that arms a repeat
   (keys ks, delay d >= 0, interval i >= 0; the keyboard then reports Busy), for
   EVERY number of time-outs in a row and EVERY clock readings `nows` at them,
   as long as the Instant does not overflow: the calls are exactly
   now, next_keyboard, then per time-out j = 0,1,..: now, poll with
   timeout_of (t0 + d + j*i) now_j, send chord (if non-empty) — the wake-up
   times do not depend on the readings. *)
Theorem C11_schedule :
  forall (is_action : key -> bool) (L : layout) (st : lstate) (ks : list key) (d i t0 : Z) (nows : list Z),
    l_tablet st = false -> (0 <= d)%Z -> (0 <= i)%Z ->
    (t0 + d * ns_per_ms + Z.of_nat (length nows) * (i * ns_per_ms) < instant_limit)%Z ->
    let chord := chord_events (l_mapper st) ks in
    Loop.run_from is_action L (PNowStep ks d i []) st
                  (RNow t0 :: RKbd NBusy :: tick_script (non_nil chord) nows)
    = (CNow :: CNextKbd :: tick_calls chord (t0 + d * ns_per_ms) (i * ns_per_ms) nows, Starved).
Proof. exact schedule_closed_form. Qed.
Print Assumptions C11_schedule.

(* the j-th time-out of `tick_calls` is requested against next_wakeup + j*interval *)
Theorem C11_schedule_no_drift :
  forall (nows : list Z) (chord : list event) (nw step : Z) (j : nat) (now : Z),
    nth_error nows j = Some now ->
    In (CPoll (Some (timeout_of (nw + Z.of_nat j * step) now))) (tick_calls chord nw step nows).
Proof. exact tick_calls_nth. Qed.
Print Assumptions C11_schedule_no_drift.

(* No repeat chord at any other time: C10_every_send_explained (every send is a
   step output right after its key read, a release-all batch right after a
   tablet event, or the chord right after a TimedOut while repeating and not in
   tablet mode).  Shape and transience of the chord: for EVERY layout accepted by
   Mapper::for_layout and EVERY run, a send directly after a TimedOut answer is
   — with `held` the set of keys held on the virtual keyboard according to all
   acknowledged sends so far — the keys of the pending repeat that are not in
   `held`, each once, pressed in listed order and released in reverse; it
   contains no redundant event and leaves `held` EXACTLY as it was. *)
Theorem C11_chord_shape_and_transience :
  forall (is_action : key -> bool) (L : layout),
    for_layout_ok L = true ->
    forall (rs : list resp) (cs : list call) (o : outcome) (k : nat) (to : option Z) (evs : list event),
    Loop.run is_action L rs = (cs, o) ->
    nth_error (combine cs rs) k = Some (CPoll to, RPoll PTimedOut) ->
    nth_error cs (S k) = Some (CSend evs) ->
    let held := apply_evs [] (acked (firstn k (combine cs rs))) in
    exists x ks nw iv,
      conf_at is_action L rs k = Some x /\ l_wr (c_state x) = Repeating ks nw iv
      /\ l_tablet (c_state x) = false
      /\ let c := dedup (filter (fun key => negb (mem key held)) ks) in
         evs = map Pressed c ++ map Released (rev c)
         /\ NoDup c /\ (forall key, In key c <-> In key ks /\ ~ In key held)
         /\ apply_evs held evs = held /\ redundant held evs = false.
Proof. exact chord_shape_and_transience. Qed.
Print Assumptions C11_chord_shape_and_transience.

(* Cancellation: any tablet event leaves the loop idle; *)
Theorem C11_cancel_on_tablet_event :
  forall (is_action : key -> bool) (L : layout) (rs : list resp) (k : nat) (x y : conf)
         (rest : list device) (on : bool),
    conf_at is_action L rs k = Some x -> conf_at is_action L rs (S k) = Some y ->
    c_point x = PTab rest -> c_resp x = RTab (NOne on) -> l_wr (c_state y) = Idle.
Proof. exact cancel_on_tablet_event. Qed.
Print Assumptions C11_cancel_on_tablet_event.

(* a key event the mapper acts on without requesting a repeat leaves the loop
   idle — at once when it has no output, else as soon as its output is sent.
   (By C09 the request is Disabled for every event the mapper acts on that does
   not fire a Special mapping, Repeating — a new schedule — when it does, and
   NoChange only for ignored events.) *)
Theorem C11_cancel_on_key_event :
  forall (is_action : key -> bool) (L : layout) (rs : list resp) (k : nat) (x y : conf)
         (rest : list device) (e : event) (evs : list event) (s' : state),
    conf_at is_action L rs k = Some x -> conf_at is_action L rs (S k) = Some y ->
    c_point x = PKbd rest -> c_resp x = RKbd (NOne e) -> l_tablet (c_state x) = false ->
    step is_action L (l_mapper (c_state x)) e = (evs, RRDisabled, s') ->
    (evs = [] -> l_wr (c_state y) = Idle)
    /\ (evs <> [] -> c_point y = PSendStep evs RRDisabled rest
                    /\ forall z, conf_at is_action L rs (S (S k)) = Some z -> l_wr (c_state z) = Idle).
Proof. exact cancel_on_key_event. Qed.
Print Assumptions C11_cancel_on_key_event.

(* The extracted transcript checker never reports a C11 clause on the model's
   own annotated transcript (exact clock windows, any tolerance >= 0), for ALL
   scripts. *)
Theorem C11_monitor_never_fires :
  forall (is_action : key -> bool) (L : layout),
    for_layout_ok L = true ->
    forall (rs : list resp) (cs : list call) (o : outcome) (t0 tol : Z) (n : N) (c : lclause),
    (0 <= tol)%Z -> Loop.run is_action L rs = (cs, o) ->
    In c [L_C11_only_then; L_C11_chord; L_C11_schedule; L_C11_cancel] ->
    ~ In (n, c) (check_transcript is_action L tol (annotate t0 cs rs)).
Proof. intros ia L Hok rs cs o t0 tol n c Htol Hrun _. exact (monitors_silent_clause ia L Hok rs cs o t0 tol n c Htol Hrun). Qed.
Print Assumptions C11_monitor_never_fires.

(* Non-vacuity: A -> LEFTSHIFT+B with repeat keys [F20; LEFTSHIFT; F20], delay
   200 ms, interval 30 ms.  LEFTSHIFT stays held, so the chord is F20 alone,
   once.  Armed at t0 = 1000 ns: first wake-up 200001000; the first poll (clock
   5000) waits 199996000 ns; the tick comes late (clock 200001500) — the next
   wait is 230001000 - 200001500 = 29999500, not a full interval; the third
   reading is past the wake-up: 1 ms. *)
Example C11_example :
  let ia := fun k => negb (N.eqb k 42) in
  let L := [mkMapping [30%N] [42%N; 48%N] (RSpecial [190%N; 42%N; 190%N] 200 30) []] in
  let rs := [RUnit; RPoll (PDeviceEvent [DKbd]); RKbd (NOne (Pressed 30%N)); RUnit; RNow 1000%Z;
             RKbd NBusy; RNow 5000%Z; RPoll PTimedOut; RUnit; RNow 200001500%Z; RPoll PTimedOut; RUnit;
             RNow 300000000%Z] in
  for_layout_ok L = true
  /\ Loop.run ia L rs =
     ([CRegister; CPoll None; CNextKbd; CSend [Pressed 42%N; Pressed 48%N; Released 48%N]; CNow;
       CNextKbd; CNow; CPoll (Some 199996000%Z); CSend [Pressed 190%N; Released 190%N]; CNow;
       CPoll (Some 29999500%Z); CSend [Pressed 190%N; Released 190%N]; CNow; CPoll (Some 1000000%Z)],
      Starved)
  /\ check_transcript ia L 0 (annotate 0 (fst (Loop.run ia L rs)) rs) = [].
Proof. vm_compute. repeat split; reflexivity. Qed.
