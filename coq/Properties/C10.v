(* C10 — Chunking independence.  Statements only; proofs are in TM.LoopSends,
   TM.LoopTablet, TM.LoopEnvLemmas, TM.LoopLemmas, TM.LoopSim, TM.LoopProps.

   Vocabulary (TM.LoopSpec, TM.LoopEnv): for `(cs, o) = Loop.run is_action L rs`,
   `combine cs rs` is the transcript (each answered call with its answer);
   `kbd_reads tr` the key events read in it; `minputs false tr` the inputs the
   transcript implies for the mapper (`IEv e` for a key event read while the
   tablet switch is off, `IReleaseAll` for each tablet event);
   `msends false cs rs` the payloads of the `send` calls that do NOT directly
   follow a poll answered TimedOut (those are the timer chords of C11);
   `epath e tr e'`: tr is admissible for the edge-triggered environment. *)
From TM Require Import Base Mapper Monitors MapperInv MapperProps Loop LoopEnv LoopMonitors LoopSpec
                       LoopLemmas LoopSends LoopTablet LoopEnvLemmas LoopProps.

(* For EVERY key classification, EVERY layout and EVERY script of answers (any
   length; any batching into wake-ups, device order, spurious time-outs,
   interruptions, tablet events, End or Err anywhere, even ill-typed answers):
   the sends of the run that do not directly follow a time-out are EXACTLY the
   non-empty outputs of the mapper, one send per step and in order, for the key
   events read while the tablet switch is off and a release-all per tablet
   event.  (The last send may be unanswered if the script ends there.) *)
Theorem C10_sends_are_mapper_outputs :
  forall (is_action : key -> bool) (L : layout) (rs : list resp) (cs : list call) (o : outcome),
    Loop.run is_action L rs = (cs, o) ->
    msends false cs rs
    = filter non_nil (fst (mrun is_action L init (minputs false (combine cs rs)))).
Proof. exact sends_are_mapper_outputs. Qed.
Print Assumptions C10_sends_are_mapper_outputs.

(* Without tablet events: the per-step outputs of `Mapper.run` on the key
   events read. *)
Theorem C10_sends_are_step_outputs :
  forall (is_action : key -> bool) (L : layout) (rs : list resp) (cs : list call) (o : outcome),
    Loop.run is_action L rs = (cs, o) -> no_tab_event rs ->
    msends false cs rs
    = filter non_nil (map fst (fst (Mapper.run is_action L init (kbd_reads (combine cs rs))))).
Proof. exact sends_are_step_outputs. Qed.
Print Assumptions C10_sends_are_step_outputs.

(* Chunking independence proper: for EVERY keyboard history h and EVERY
   admissible transcript of the run against the edge-triggered environment
   started with h (events arriving in any batches at any moments, any device
   lists, time-outs, interruptions, end of device or errors anywhere), the key
   events read are a prefix of h in order and the sends are the mapper's step
   outputs for exactly that prefix. *)
Theorem C10_chunking_independence :
  forall (is_action : key -> bool) (L : layout) (rs : list resp) (cs : list call) (o : outcome)
         (h : list event) (kends : bool) (tb : list bool) (tends : bool) (t0 : Z) (e' : env),
    Loop.run is_action L rs = (cs, o) -> no_tab_event rs ->
    epath (env0 h kends tb tends t0) (combine cs rs) e' ->
    exists unread,
      h = kbd_reads (combine cs rs) ++ unread
      /\ msends false cs rs
         = filter non_nil (map fst (fst (Mapper.run is_action L init (kbd_reads (combine cs rs))))).
Proof. exact chunking_independence. Qed.
Print Assumptions C10_chunking_independence.

(* Each step output is sent AT ONCE: the call directly after the read of a key
   event (k-th entry of the transcript) is the send of the mapper's output for
   it when that is non-empty, and is not a send when it is empty or when the
   tablet switch is on.  The mapper state is the one after the inputs implied by
   the transcript before the read. *)
Theorem C10_step_output_sent_at_once :
  forall (is_action : key -> bool) (L : layout) (rs : list resp) (cs : list call) (o : outcome)
         (k : nat) (e : event),
    Loop.run is_action L rs = (cs, o) ->
    nth_error (combine cs rs) k = Some (CNextKbd, RKbd (NOne e)) ->
    let pre := firstn k (combine cs rs) in
    if tab_after false pre then ~ is_send (nth_error cs (S k))
    else let out := fst (fst (step is_action L (state_of is_action L (minputs false pre)) e)) in
         (out <> [] -> nth_error cs (S k) = Some (CSend out))
         /\ (out = [] -> ~ is_send (nth_error cs (S k))).
Proof. exact key_read_then_send. Qed.
Print Assumptions C10_step_output_sent_at_once.

(* EVERY send of EVERY run is non-empty and is exactly one of: the step output
   directly after its key read / the repeat chord directly after a TimedOut
   while a repeat is pending / the release-all batch directly after a tablet
   event; in all three cases the tablet switch was off before that entry. *)
Theorem C10_every_send_explained :
  forall (is_action : key -> bool) (L : layout),
    for_layout_ok L = true ->
    forall (rs : list resp) (cs : list call) (o : outcome) (k : nat) (evs : list event),
    Loop.run is_action L rs = (cs, o) -> nth_error cs (S k) = Some (CSend evs) ->
    evs <> []
    /\ exists c r, nth_error (combine cs rs) k = Some (c, r)
       /\ let pre := firstn k (combine cs rs) in
          let s := state_of is_action L (minputs false pre) in
          tab_after false pre = false
          /\ ((exists e, c = CNextKbd /\ r = RKbd (NOne e) /\ evs = fst (fst (step is_action L s e)))
              \/ (exists to x ks nw iv,
                     c = CPoll to /\ r = RPoll PTimedOut /\ conf_at is_action L rs k = Some x
                     /\ l_wr (c_state x) = Repeating ks nw iv /\ evs = chord_events s ks)
              \/ (exists on, c = CNextTab /\ r = RTab (NOne on)
                             /\ evs = fst (release_all is_action L s))).
Proof. exact send_explained. Qed.
Print Assumptions C10_every_send_explained.

(* The loop never goes back to waiting while something it was notified about is
   unread: in EVERY admissible transcript, at EVERY poll, the environment has no
   device that has queued data (or is gone) without a pending readiness edge
   (`stale`).  `epathP P` is `epath` with P required of the environment in
   which each call is answered. *)
Theorem C10_no_wait_with_unread :
  forall (is_action : key -> bool) (L : layout) (rs : list resp) (cs : list call) (o : outcome)
         (h : list event) (kends : bool) (tb : list bool) (tends : bool) (t0 : Z) (e' : env),
    Loop.run is_action L rs = (cs, o) ->
    epath (env0 h kends tb tends t0) (combine cs rs) e' ->
    epathP polls_find_nothing_unread (env0 h kends tb tends t0) (combine cs rs) e'.
Proof. exact no_wait_with_unread. Qed.
Print Assumptions C10_no_wait_with_unread.

(* End of device: an End answer to a read is the last entry, no further call is
   made (in particular no write), and the loop returns Ok. *)
Theorem C10_end_stops :
  forall (is_action : key -> bool) (L : layout) (rs : list resp) (cs : list call) (o : outcome)
         (pre : list (call * resp)) (c : call) (r : resp) (post : list (call * resp)),
    Loop.run is_action L rs = (cs, o) ->
    (c, r) = (CNextKbd, RKbd NEnd) \/ (c, r) = (CNextTab, RTab NEnd) ->
    combine cs rs = pre ++ (c, r) :: post ->
    post = [] /\ length cs = S (length pre) /\ o = Returned_ok.
Proof. exact end_stops. Qed.
Print Assumptions C10_end_stops.

(* The extracted transcript checker (what the loop engine applies to the real
   loop) never reports a C10 clause on the model's own annotated transcript,
   for ALL scripts; nor does the outcome checker, for well-typed scripts. *)
Theorem C10_monitor_never_fires :
  forall (is_action : key -> bool) (L : layout),
    for_layout_ok L = true ->
    forall (rs : list resp) (cs : list call) (o : outcome) (t0 tol : Z) (n : N) (c : lclause),
    (0 <= tol)%Z -> Loop.run is_action L rs = (cs, o) ->
    In c [L_C10_sends; L_C10_unread; L_C10_end] ->
    ~ In (n, c) (check_transcript is_action L tol (annotate t0 cs rs)).
Proof. intros ia L Hok rs cs o t0 tol n c Htol Hrun _. exact (monitors_silent_clause ia L Hok rs cs o t0 tol n c Htol Hrun). Qed.
Print Assumptions C10_monitor_never_fires.

Theorem C10_outcome_monitor_never_fires :
  forall (is_action : key -> bool) (L : layout) (rs : list resp) (cs : list call) (o : outcome) (t0 : Z),
    Loop.run is_action L rs = (cs, o) -> o <> Mismatch ->
    check_outcome (annotate t0 cs rs) o = [].
Proof. exact LoopSim.outcome_monitor_never_fires. Qed.
Print Assumptions C10_outcome_monitor_never_fires.

(* Non-vacuity: the same three key events delivered in one wake-up, or in three
   with a spurious time-out, an interruption and a spurious tablet notification
   in between, produce the same three sends. *)
Example C10_example :
  let ia := fun k => negb (N.eqb k 42) in
  let L := [mkMapping [30%N] [48%N] RNormal []] in
  let rsA := [RUnit; RPoll (PDeviceEvent [DKbd]); RKbd (NOne (Pressed 30%N)); RUnit;
              RKbd (NOne (Released 30%N)); RUnit; RKbd (NOne (Pressed 31%N)); RUnit; RKbd NBusy] in
  let rsB := [RUnit; RPoll (PDeviceEvent [DKbd]); RKbd (NOne (Pressed 30%N)); RUnit; RKbd NBusy;
              RPoll PTimedOut; RPoll PInterrupted; RPoll (PDeviceEvent [DTab; DKbd]); RTab NBusy;
              RKbd (NOne (Released 30%N)); RUnit; RKbd NBusy; RPoll (PDeviceEvent [DKbd]);
              RKbd (NOne (Pressed 31%N)); RUnit; RKbd NBusy] in
  for_layout_ok L = true
  /\ msends false (fst (Loop.run ia L rsA)) rsA = [[Pressed 48%N]; [Released 48%N]; [Pressed 31%N]]
  /\ msends false (fst (Loop.run ia L rsB)) rsB = [[Pressed 48%N]; [Released 48%N]; [Pressed 31%N]]
  /\ kbd_reads (combine (fst (Loop.run ia L rsB)) rsB) = [Pressed 30%N; Released 30%N; Pressed 31%N]
  /\ fst (Loop.run ia L rsB)
     = [CRegister; CPoll None; CNextKbd; CSend [Pressed 48%N]; CNextKbd; CPoll None; CPoll None;
        CPoll None; CNextTab; CNextKbd; CSend [Released 48%N]; CNextKbd; CPoll None; CNextKbd;
        CSend [Pressed 31%N]; CNextKbd; CPoll None].
Proof. vm_compute. repeat split; reflexivity. Qed.
