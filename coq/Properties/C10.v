(* C10 — Chunking independence.  Statements only; proofs are in TM.LoopSends,
   TM.LoopTablet, TM.LoopEnvLemmas, TM.LoopLemmas, TM.LoopSim, TM.LoopProps, and
   TM.Pipeline for the whole-pipeline theorems at the end (bytes that arrive on
   the keyboard descriptor -> bytes written to the virtual keyboard:
   C10_device_bytes_out_is, C10_bytes_out_depend_only_on_events_read,
   C10_bytes_out_with_tablet_events, C10_bytes_out_after_a_tablet_event,
   C10_no_stuck_keys_at_the_device,
   C10_no_stuck_keys_at_the_device_with_tablet_events,
   C10_every_write_keeps_the_device_in_step).

   Vocabulary (TM.LoopSpec, TM.LoopEnv): for `(cs, o) = Loop.run is_action L rs`,
   `combine cs rs` is the transcript (each answered call with its answer);
   `kbd_reads tr` the key events read in it; `minputs false tr` the inputs the
   transcript implies for the mapper (`IEv e` for a key event read while the
   tablet switch is off, `IReleaseAll` for each tablet event);
   `msends false cs rs` the payloads of the `send` calls that do NOT directly
   follow a poll answered TimedOut (those are the timer chords of C11);
   `epath e tr e'`: tr is admissible for the edge-triggered environment. *)
From TM Require Import Base Mapper Monitors MapperInv MapperProps Loop LoopEnv LoopMonitors LoopSpec
                       LoopLemmas LoopSends LoopTablet LoopEnvLemmas LoopProps.
From TM Require Json RustOps Convert Serde Trace Wire WireSpec Pipeline.

(* For EVERY key classification, EVERY layout and EVERY script of answers (any
   length; any batching into wake-ups, device order, spurious time-outs,
   interruptions, tablet events, End or Err anywhere, even ill-typed answers):
   the sends of the run that do not directly follow a time-out are EXACTLY the
   non-empty outputs of the mapper, one send per step and in order, for the key
   events read while the tablet switch is off and a release-all per tablet
   event.  (The last send may be unanswered if the script ends there.) *)
Theorem C10_sends_are_mapper_outputs :
  forall (is_action : key -> bool) (L : layout) (rs : list resp) (cs : list call) (o : outcome),
    Loop.run is_action L rs = (cs, o) ->
    msends false cs rs
    = filter non_nil (fst (mrun is_action L init (minputs false (combine cs rs)))).
Proof. exact sends_are_mapper_outputs. Qed.
Print Assumptions C10_sends_are_mapper_outputs.

(* Without tablet events: the per-step outputs of `Mapper.run` on the key
   events read. *)
Theorem C10_sends_are_step_outputs :
  forall (is_action : key -> bool) (L : layout) (rs : list resp) (cs : list call) (o : outcome),
    Loop.run is_action L rs = (cs, o) -> no_tab_event rs ->
    msends false cs rs
    = filter non_nil (map fst (fst (Mapper.run is_action L init (kbd_reads (combine cs rs))))).
Proof. exact sends_are_step_outputs. Qed.
Print Assumptions C10_sends_are_step_outputs.

(* Chunking independence proper: for EVERY keyboard history h and EVERY
   admissible transcript of the run against the edge-triggered environment
   started with h (events arriving in any batches at any moments, any device
   lists, time-outs, interruptions, end of device or errors anywhere), the key
   events read are a prefix of h in order and the sends are the mapper's step
   outputs for exactly that prefix. *)
Theorem C10_chunking_independence :
  forall (is_action : key -> bool) (L : layout) (rs : list resp) (cs : list call) (o : outcome)
         (h : list event) (kends : bool) (tb : list bool) (tends : bool) (t0 : Z) (e' : env),
    Loop.run is_action L rs = (cs, o) -> no_tab_event rs ->
    epath (env0 h kends tb tends t0) (combine cs rs) e' ->
    exists unread,
      h = kbd_reads (combine cs rs) ++ unread
      /\ msends false cs rs
         = filter non_nil (map fst (fst (Mapper.run is_action L init (kbd_reads (combine cs rs))))).
Proof. exact chunking_independence. Qed.
Print Assumptions C10_chunking_independence.

(* Each step output is sent AT ONCE: the call directly after the read of a key
   event (k-th entry of the transcript) is the send of the mapper's output for
   it when that is non-empty, and is not a send when it is empty or when the
   tablet switch is on.  The mapper state is the one after the inputs implied by
   the transcript before the read. *)
Theorem C10_step_output_sent_at_once :
  forall (is_action : key -> bool) (L : layout) (rs : list resp) (cs : list call) (o : outcome)
         (k : nat) (e : event),
    Loop.run is_action L rs = (cs, o) ->
    nth_error (combine cs rs) k = Some (CNextKbd, RKbd (NOne e)) ->
    let pre := firstn k (combine cs rs) in
    if tab_after false pre then ~ is_send (nth_error cs (S k))
    else let out := fst (fst (step is_action L (state_of is_action L (minputs false pre)) e)) in
         (out <> [] -> nth_error cs (S k) = Some (CSend out))
         /\ (out = [] -> ~ is_send (nth_error cs (S k))).
Proof. exact key_read_then_send. Qed.
Print Assumptions C10_step_output_sent_at_once.

(* EVERY send of EVERY run is non-empty and is exactly one of: the step output
   directly after its key read / the repeat chord directly after a TimedOut
   while a repeat is pending / the release-all batch directly after a tablet
   event; in all three cases the tablet switch was off before that entry. *)
Theorem C10_every_send_explained :
  forall (is_action : key -> bool) (L : layout),
    for_layout_ok L = true ->
    forall (rs : list resp) (cs : list call) (o : outcome) (k : nat) (evs : list event),
    Loop.run is_action L rs = (cs, o) -> nth_error cs (S k) = Some (CSend evs) ->
    evs <> []
    /\ exists c r, nth_error (combine cs rs) k = Some (c, r)
       /\ let pre := firstn k (combine cs rs) in
          let s := state_of is_action L (minputs false pre) in
          tab_after false pre = false
          /\ ((exists e, c = CNextKbd /\ r = RKbd (NOne e) /\ evs = fst (fst (step is_action L s e)))
              \/ (exists to x ks nw iv,
                     c = CPoll to /\ r = RPoll PTimedOut /\ conf_at is_action L rs k = Some x
                     /\ l_wr (c_state x) = Repeating ks nw iv /\ evs = chord_events s ks)
              \/ (exists on, c = CNextTab /\ r = RTab (NOne on)
                             /\ evs = fst (release_all is_action L s))).
Proof. exact send_explained. Qed.
Print Assumptions C10_every_send_explained.

(* The loop never goes back to waiting while something it was notified about is
   unread: in EVERY admissible transcript, at EVERY poll, the environment has no
   device that has queued data (or is gone) without a pending readiness edge
   (`stale`).  `epathP P` is `epath` with P required of the environment in
   which each call is answered. *)
Theorem C10_no_wait_with_unread :
  forall (is_action : key -> bool) (L : layout) (rs : list resp) (cs : list call) (o : outcome)
         (h : list event) (kends : bool) (tb : list bool) (tends : bool) (t0 : Z) (e' : env),
    Loop.run is_action L rs = (cs, o) ->
    epath (env0 h kends tb tends t0) (combine cs rs) e' ->
    epathP polls_find_nothing_unread (env0 h kends tb tends t0) (combine cs rs) e'.
Proof. exact no_wait_with_unread. Qed.
Print Assumptions C10_no_wait_with_unread.

(* End of device: an End answer to a read is the last entry, no further call is
   made (in particular no write), and the loop returns Ok. *)
Theorem C10_end_stops :
  forall (is_action : key -> bool) (L : layout) (rs : list resp) (cs : list call) (o : outcome)
         (pre : list (call * resp)) (c : call) (r : resp) (post : list (call * resp)),
    Loop.run is_action L rs = (cs, o) ->
    (c, r) = (CNextKbd, RKbd NEnd) \/ (c, r) = (CNextTab, RTab NEnd) ->
    combine cs rs = pre ++ (c, r) :: post ->
    post = [] /\ length cs = S (length pre) /\ o = Returned_ok.
Proof. exact end_stops. Qed.
Print Assumptions C10_end_stops.

(* The extracted transcript checker (what the loop engine applies to the real
   loop) never reports a C10 clause on the model's own annotated transcript,
   for ALL scripts; nor does the outcome checker, for well-typed scripts. *)
Theorem C10_monitor_never_fires :
  forall (is_action : key -> bool) (L : layout),
    for_layout_ok L = true ->
    forall (rs : list resp) (cs : list call) (o : outcome) (t0 tol : Z) (n : N) (c : lclause),
    (0 <= tol)%Z -> Loop.run is_action L rs = (cs, o) ->
    In c [L_C10_sends; L_C10_unread; L_C10_end] ->
    ~ In (n, c) (check_transcript is_action L tol (annotate t0 cs rs)).
Proof. intros ia L Hok rs cs o t0 tol n c Htol Hrun _. exact (monitors_silent_clause ia L Hok rs cs o t0 tol n c Htol Hrun). Qed.
Print Assumptions C10_monitor_never_fires.

Theorem C10_outcome_monitor_never_fires :
  forall (is_action : key -> bool) (L : layout) (rs : list resp) (cs : list call) (o : outcome) (t0 : Z),
    Loop.run is_action L rs = (cs, o) -> o <> Mismatch ->
    check_outcome (annotate t0 cs rs) o = [].
Proof. exact LoopSim.outcome_monitor_never_fires. Qed.
Print Assumptions C10_outcome_monitor_never_fires.

(* Non-vacuity: the same three key events delivered in one wake-up, or in three
   with a spurious time-out, an interruption and a spurious tablet notification
   in between, produce the same three sends. *)
Example C10_example :
  let ia := fun k => negb (N.eqb k 42) in
  let L := [mkMapping [30%N] [48%N] RNormal []] in
  let rsA := [RUnit; RPoll (PDeviceEvent [DKbd]); RKbd (NOne (Pressed 30%N)); RUnit;
              RKbd (NOne (Released 30%N)); RUnit; RKbd (NOne (Pressed 31%N)); RUnit; RKbd NBusy] in
  let rsB := [RUnit; RPoll (PDeviceEvent [DKbd]); RKbd (NOne (Pressed 30%N)); RUnit; RKbd NBusy;
              RPoll PTimedOut; RPoll PInterrupted; RPoll (PDeviceEvent [DTab; DKbd]); RTab NBusy;
              RKbd (NOne (Released 30%N)); RUnit; RKbd NBusy; RPoll (PDeviceEvent [DKbd]);
              RKbd (NOne (Pressed 31%N)); RUnit; RKbd NBusy] in
  for_layout_ok L = true
  /\ msends false (fst (Loop.run ia L rsA)) rsA = [[Pressed 48%N]; [Released 48%N]; [Pressed 31%N]]
  /\ msends false (fst (Loop.run ia L rsB)) rsB = [[Pressed 48%N]; [Released 48%N]; [Pressed 31%N]]
  /\ kbd_reads (combine (fst (Loop.run ia L rsB)) rsB) = [Pressed 30%N; Released 30%N; Pressed 31%N]
  /\ fst (Loop.run ia L rsB)
     = [CRegister; CPoll None; CNextKbd; CSend [Pressed 48%N]; CNextKbd; CPoll None; CPoll None;
        CPoll None; CNextTab; CNextKbd; CSend [Released 48%N]; CNextKbd; CPoll None; CNextKbd;
        CSend [Pressed 31%N]; CNextKbd; CPoll None].
Proof. vm_compute. repeat split; reflexivity. Qed.

(* ---------- the whole pipeline: bytes in -> bytes out (TM.Pipeline) ---------- *)

(* `Pipeline.device_bytes_out` is ONE function from the layout and the bytes
   that arrive on the keyboard descriptor to the bytes written to the virtual
   keyboard: the tool's reader (C18), the mapper on the key events it returns,
   one write(2) of `encode_batch` (C18_wellformed) per non-empty step output. *)
Theorem C10_device_bytes_out_is :
  forall (is_action : key -> bool) (L : layout) (s : list N),
    Pipeline.device_bytes_out is_action L s
    = concat (map Wire.encode_batch
                (filter non_nil (map fst (fst (Mapper.run is_action L init (Wire.decode_stream s)))))).
Proof. reflexivity. Qed.
Print Assumptions C10_device_bytes_out_is.

(* For EVERY key classification, layout, byte stream s arriving on the keyboard
   descriptor and EVERY admissible transcript of the run against the
   edge-triggered environment that delivers the key events of s (in any batches
   at any moments, with time-outs, interruptions, end of device or errors
   anywhere): the bytes written by the sends that do not directly follow a
   time-out (those are the timer chords of C11; none occur without a time-out
   answer) are `device_bytes_out` of a PREFIX s1 of the bytes that arrived - the
   prefix whose key events were read - and of all of s once everything that
   arrived has been read.  Never a function of how the events were chunked. *)
Theorem C10_bytes_out_depend_only_on_events_read :
  forall (is_action : key -> bool) (L : layout) (rs : list resp) (cs : list call) (o : outcome)
         (s : list N) (kends : bool) (tb : list bool) (tends : bool) (t0 : Z) (e' : env),
    Loop.run is_action L rs = (cs, o) -> no_tab_event rs ->
    epath (env0 (Wire.decode_stream s) kends tb tends t0) (combine cs rs) e' ->
    (exists s1 s2 : list N,
        s = s1 ++ s2
        /\ kbd_reads (combine cs rs) = Wire.decode_stream s1
        /\ concat (map Wire.encode_batch (msends false cs rs)) = Pipeline.device_bytes_out is_action L s1)
    /\ (kbd_reads (combine cs rs) = Wire.decode_stream s ->
        concat (map Wire.encode_batch (msends false cs rs)) = Pipeline.device_bytes_out is_action L s).
Proof. exact Pipeline.bytes_out_depend_only_on_events_read. Qed.
Print Assumptions C10_bytes_out_depend_only_on_events_read.

(* With tablet events, for EVERY answer script: the same bytes are the encoded
   non-empty mapper outputs for the inputs the transcript implies (key events
   read while the switch is off, a release-all per tablet event). *)
Theorem C10_bytes_out_with_tablet_events :
  forall (is_action : key -> bool) (L : layout) (rs : list resp) (cs : list call) (o : outcome),
    Loop.run is_action L rs = (cs, o) ->
    concat (map Wire.encode_batch (msends false cs rs))
    = concat (map Wire.encode_batch
                (filter non_nil (fst (mrun is_action L init (minputs false (combine cs rs)))))).
Proof. exact Pipeline.loop_bytes_are_bytes_of_inputs. Qed.
Print Assumptions C10_bytes_out_with_tablet_events.

(* In particular, a tablet event after the key events of s: the bytes are
   `device_bytes_out` followed by `device_bytes_tablet_on` = the encoded
   release-all batch from the mapper state after those key events (nothing when
   it is empty).  These two functions, extracted, are what the `realloop` engine
   compares with the bytes written by the real loop with the real driver. *)
Theorem C10_bytes_out_after_a_tablet_event :
  forall (is_action : key -> bool) (L : layout) (rs : list resp) (cs : list call) (o : outcome) (s : list N),
    Loop.run is_action L rs = (cs, o) ->
    minputs false (combine cs rs) = map IEv (Wire.decode_stream s) ++ [IReleaseAll] ->
    concat (map Wire.encode_batch (msends false cs rs))
    = Pipeline.device_bytes_out is_action L s ++ Pipeline.device_bytes_tablet_on is_action L s.
Proof. exact Pipeline.pipeline_bytes_then_tablet_event. Qed.
Print Assumptions C10_bytes_out_after_a_tablet_event.

(* No stuck keys AT THE DEVICE, whatever the chunking: for EVERY layout file
   the loader accepts, under the hypotheses above with everything that arrived
   read: if the key events of s leave no key physically held (C01's notion;
   `phys_of (map IEv h)` is the held-set fold `apply_evs [] h`:
   Pipeline.phys_of_key_events), then a program that reads the written bytes with
   the same reader and folds them into a held set ends with NO key held. *)
Theorem C10_no_stuck_keys_at_the_device :
  forall (is_action : key -> bool) (j : Json.json) (L : layout) (rs : list resp) (cs : list call)
         (o : outcome) (s : list N) (kends : bool) (tb : list bool) (tends : bool) (t0 : Z) (e' : env),
    Convert.load j = RustOps.Ok L ->
    Loop.run is_action L rs = (cs, o) -> no_tab_event rs ->
    epath (env0 (Wire.decode_stream s) kends tb tends t0) (combine cs rs) e' ->
    kbd_reads (combine cs rs) = Wire.decode_stream s ->
    phys_of (map IEv (Wire.decode_stream s)) = [] ->
    apply_evs [] (Wire.decode_stream (concat (map Wire.encode_batch (msends false cs rs)))) = [].
Proof. exact Pipeline.loop_no_stuck_keys_at_the_device. Qed.
Print Assumptions C10_no_stuck_keys_at_the_device.

(* The same with tablet events and without asking that everything was read: the
   inputs the transcript implies for the mapper (release-all at each tablet
   event) leave no key physically held. *)
Theorem C10_no_stuck_keys_at_the_device_with_tablet_events :
  forall (is_action : key -> bool) (j : Json.json) (L : layout) (rs : list resp) (cs : list call)
         (o : outcome) (s : list N) (kends : bool) (tb : list bool) (tends : bool) (t0 : Z) (e' : env),
    Convert.load j = RustOps.Ok L ->
    Loop.run is_action L rs = (cs, o) ->
    epath (env0 (Wire.decode_stream s) kends tb tends t0) (combine cs rs) e' ->
    phys_of (minputs false (combine cs rs)) = [] ->
    apply_evs [] (Wire.decode_stream (concat (map Wire.encode_batch (msends false cs rs)))) = [].
Proof. exact Pipeline.loop_no_stuck_keys_tablet. Qed.
Print Assumptions C10_no_stuck_keys_at_the_device_with_tablet_events.

(* ALL the bytes, timer chords included, at EVERY moment of EVERY run: in the
   configuration in which the k-th call is answered, the bytes of all sends
   acknowledged so far (`Pipeline.acked_sends`: one batch per send answered
   RUnit) followed by the send being waited on (`Pipeline.pending_sends`), read
   back with the tool's reader, are exactly those events; they press no held key
   and release no key that is up; the held set they leave is the mapper's own
   held set; and it is EMPTY whenever the mapper inputs so far leave no key
   physically held. *)
Theorem C10_every_write_keeps_the_device_in_step :
  forall (is_action : key -> bool) (j : Json.json) (L : layout) (rs : list resp) (cs : list call)
         (o : outcome) (s : list N) (kends : bool) (tb : list bool) (tends : bool) (t0 : Z) (e' : env)
         (k : nat) (x : conf),
    Convert.load j = RustOps.Ok L ->
    Loop.run is_action L rs = (cs, o) ->
    epath (env0 (Wire.decode_stream s) kends tb tends t0) (combine cs rs) e' ->
    conf_at is_action L rs k = Some x ->
    let batches := Pipeline.acked_sends (firstn k (combine cs rs)) ++ Pipeline.pending_sends (c_point x) in
    Wire.decode_stream (Pipeline.bytes_of_sends batches) = concat batches
    /\ redundant [] (Wire.decode_stream (Pipeline.bytes_of_sends batches)) = false
    /\ Trace.seteq (apply_evs [] (Wire.decode_stream (Pipeline.bytes_of_sends batches)))
                   (Trace.held_of (l_mapper (c_state x)))
    /\ (phys_of (minputs false (firstn k (combine cs rs))) = [] ->
        apply_evs [] (Wire.decode_stream (Pipeline.bytes_of_sends batches)) = []).
Proof. exact Pipeline.loop_device_in_step. Qed.
Print Assumptions C10_every_write_keeps_the_device_in_step.

(* Non-vacuity.  A CAPSLOCK-layer layout that the loader accepts; a byte stream
   with SYN_REPORT and MSC_SCAN records, an auto-repeat record, a record with an
   unknown code and a torn tail between and around four key events; the loop
   reading them in one wake-up (rsA) or in three with a spurious time-out and an
   interruption in between (rsB) writes the same 144 bytes = device_bytes_out;
   read back they are the mapper's four events and leave nothing held, while
   after the first 96 bytes of input two keys are held. *)
Example C10_example_bytes :
  let ia := fun k => negb (N.eqb k 42) in
  let L := [mkMapping [58%N] [] RNormal []; mkMapping [58%N; 36%N] [42%N; 105%N] RNormal []] in
  let s := WireSpec.raw_stream
             [WireSpec.mk_raw 5 6 1 58 1; WireSpec.mk_raw 5 6 0 0 0; WireSpec.mk_raw 5 7 4 4 458788;
              WireSpec.mk_raw 5 7 1 36 1; WireSpec.mk_raw 5 7 0 0 0; WireSpec.mk_raw 5 8 1 36 2;
              WireSpec.mk_raw 5 9 1 58 0; WireSpec.mk_raw 5 9 1 600 1; WireSpec.mk_raw 6 0 1 36 0]
           ++ [7; 7; 7]%N in
  let rsA := [RUnit; RPoll (PDeviceEvent [DKbd]); RKbd (NOne (Pressed 58%N)); RKbd (NOne (Pressed 36%N)); RUnit;
              RKbd (NOne (Released 58%N)); RUnit; RKbd (NOne (Released 36%N)); RKbd NBusy] in
  let rsB := [RUnit; RPoll (PDeviceEvent [DKbd]); RKbd (NOne (Pressed 58%N)); RKbd NBusy;
              RPoll PTimedOut; RPoll PInterrupted; RPoll (PDeviceEvent [DTab; DKbd]); RTab NBusy;
              RKbd (NOne (Pressed 36%N)); RUnit; RKbd (NOne (Released 58%N)); RUnit; RKbd NBusy;
              RPoll (PDeviceEvent [DKbd]); RKbd (NOne (Released 36%N)); RKbd NBusy] in
  let out := fun rs => concat (map Wire.encode_batch (msends false (fst (Loop.run ia L rs)) rs)) in
  Convert.load (Serde.to_json L) = RustOps.Ok L
  /\ Wire.decode_stream s = [Pressed 58%N; Pressed 36%N; Released 58%N; Released 36%N]
  /\ kbd_reads (combine (fst (Loop.run ia L rsA)) rsA) = Wire.decode_stream s
  /\ kbd_reads (combine (fst (Loop.run ia L rsB)) rsB) = Wire.decode_stream s
  /\ out rsA = Pipeline.device_bytes_out ia L s
  /\ out rsB = Pipeline.device_bytes_out ia L s
  /\ length (Pipeline.device_bytes_out ia L s) = 144%nat
  /\ Wire.decode_stream (out rsB) = [Pressed 42%N; Pressed 105%N; Released 105%N; Released 42%N]
  /\ phys_of (map IEv (Wire.decode_stream s)) = []
  /\ apply_evs [] (Wire.decode_stream (out rsB)) = []
  /\ apply_evs [] (Wire.decode_stream (Pipeline.device_bytes_out ia L (firstn 96 s))) = [42%N; 105%N].
Proof. vm_compute. repeat split; reflexivity. Qed.

(* Non-vacuity of the tablet-event theorems: two keys of the same layout go
   down (with a SYN_REPORT and an MSC_SCAN record in between), then the tablet
   switch turns on; the written bytes are device_bytes_out followed by the
   release-all batch, and read back they leave nothing held although the
   keyboard never reported a release. *)
Example C10_example_tablet_event :
  let ia := fun k => negb (N.eqb k 42) in
  let L := [mkMapping [58%N] [] RNormal []; mkMapping [58%N; 36%N] [42%N; 105%N] RNormal []] in
  let s := WireSpec.raw_stream
             [WireSpec.mk_raw 5 6 1 58 1; WireSpec.mk_raw 5 6 0 0 0; WireSpec.mk_raw 5 7 4 4 458788;
              WireSpec.mk_raw 5 7 1 36 1] in
  let rs := [RUnit; RPoll (PDeviceEvent [DKbd]); RKbd (NOne (Pressed 58%N)); RKbd (NOne (Pressed 36%N)); RUnit;
             RKbd NBusy; RPoll (PDeviceEvent [DTab]); RTab (NOne true); RUnit; RTab NBusy] in
  let cs := fst (Loop.run ia L rs) in
  let out := concat (map Wire.encode_batch (msends false cs rs)) in
  minputs false (combine cs rs) = map IEv (Wire.decode_stream s) ++ [IReleaseAll]
  /\ out = Pipeline.device_bytes_out ia L s ++ Pipeline.device_bytes_tablet_on ia L s
  /\ Wire.decode_stream (Pipeline.device_bytes_out ia L s) = [Pressed 42%N; Pressed 105%N]
  /\ Wire.decode_stream (Pipeline.device_bytes_tablet_on ia L s) = [Released 105%N; Released 42%N]
  /\ phys_of (map IEv (Wire.decode_stream s)) = [58%N; 36%N]
  /\ phys_of (minputs false (combine cs rs)) = []
  /\ apply_evs [] (Wire.decode_stream out) = [].
Proof. vm_compute. repeat split; reflexivity. Qed.

(* Non-vacuity of C10_every_write_keeps_the_device_in_step with a timer chord:
   the mapping fired by 58+36 repeats key 105; the send at index 9 directly
   follows a TimedOut and is the chord.  When the 10th call is answered the
   acknowledged batches are the step output and the chord, and 42 is held; when
   the last call is answered, all three batches read back leave nothing held. *)
Example C10_example_all_writes :
  let ia := fun k => negb (N.eqb k 42) in
  let L := [mkMapping [58%N; 36%N] [42%N; 105%N] (RSpecial [105%N] 180 30) []; mkMapping [58%N] [] RNormal []] in
  let rs := [RUnit; RPoll (PDeviceEvent [DKbd]); RKbd (NOne (Pressed 58%N)); RKbd (NOne (Pressed 36%N)); RUnit;
             RNow 1000; RKbd NBusy; RNow 2000; RPoll PTimedOut; RUnit; RNow 3000; RPoll (PDeviceEvent [DKbd]);
             RKbd (NOne (Released 58%N)); RUnit; RKbd (NOne (Released 36%N)); RKbd NBusy] in
  let cs := fst (Loop.run ia L rs) in
  let batches := fun k =>
    match conf_at ia L rs k with
    | Some x => Pipeline.acked_sends (firstn k (combine cs rs)) ++ Pipeline.pending_sends (c_point x)
    | None => []
    end in
  Convert.load (Serde.to_json L) = RustOps.Ok L
  /\ nth_error cs 8 = Some (CPoll (Some 179999000%Z))
  /\ nth_error cs 9 = Some (CSend [Pressed 105%N; Released 105%N])
  /\ msends false cs rs = [[Pressed 42%N; Pressed 105%N; Released 105%N]; [Released 42%N]]
  /\ batches 10%nat = [[Pressed 42%N; Pressed 105%N; Released 105%N]; [Pressed 105%N; Released 105%N]]
  /\ apply_evs [] (Wire.decode_stream (Pipeline.bytes_of_sends (batches 10%nat))) = [42%N]
  /\ batches 15%nat = [[Pressed 42%N; Pressed 105%N; Released 105%N]; [Pressed 105%N; Released 105%N];
                       [Released 42%N]]
  /\ phys_of (minputs false (firstn 15 (combine cs rs))) = []
  /\ apply_evs [] (Wire.decode_stream (Pipeline.bytes_of_sends (batches 15%nat))) = [].
Proof. vm_compute. repeat split; reflexivity. Qed.
