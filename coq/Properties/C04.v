(* C04 — Output modifiers are exact when a mapped key goes down (no stale
   modifiers).  Statements only; proof in TM.MapperStale.

   Reading (DESIGN.md 9.1): the property speaks of key-producing mappings (the
   final output key is a non-modifier); for a mapping whose output ends in a
   modifier the code deliberately leaves other mappings' outputs alone (C05). *)
From TM Require ModifierSpec SpecTables.
From TMGen Require Modifiers.
From TM Require MonitorsSilent.
From TM Require Import Base Mapper Monitors Trace MapperInv MapperProps MapperNoAbs MapperStale.

(* For EVERY accepted layout without absorbing mappings, EVERY history h (so:
   from every reachable state) and EVERY key k not physically held after h:
   if the mapping m that takes effect (C03: the last-listed satisfied one) is
   key-producing with final output key t, then the step presses t, and at the
   instant of that press (the held set `at_press` after the step's events up
   to and including the first `Pressed t`)
   - every output key of m - in particular every modifier of it - is down, and
   - any other modifier d that is down is physically held and not part of m's
     trigger, or is an output key of a mapping of the layout whose output ends
     in a modifier and whose trigger keys are all physically held
     (c04_ok_other); in particular the modifiers pressed by earlier
     key-producing mappings have been released before. *)
Theorem C04_no_stale_modifiers :
  forall (is_action : key -> bool) (L : layout) (h : list input) (k : key) (m : mapping) (t : key),
    for_layout_ok L = true -> has_absorbing L = false ->
    mem k (phys_of h) = false ->
    spec_choice L (phys_of h) k = Some m ->
    is_action_mapping is_action m = true -> last_opt (m_to m) = Some t ->
    exists pre,
      upto_press t (fst (fst (step is_action L (state_of is_action L h) (Pressed k)))) = Some pre
      /\ let at_press := apply_evs (held_all is_action L h) pre in
         (forall d, In d (m_to m) -> In d at_press)
         /\ (forall d, In d at_press -> is_action d = false -> ~ In d (m_to m) ->
               c04_ok_other is_action L (phys_of (h ++ [IEv (Pressed k)])) m d = true).
Proof.
  intros a L h k m t H1 H2. apply no_stale_modifiers; [apply for_layout_ok_wf; exact H1 | apply has_absorbing_noabs; exact H2].
Qed.
Print Assumptions C04_no_stale_modifiers.

(* The extracted step checker Monitors.check_step (applied by the mapper engine
   to the outputs of the REAL mapper on every explored transition: specification
   state before and after, keys physically held and keys held on the virtual
   keyboard before the step, the input, the observed events) states the theorem
   above on one observed press of a key that is not physically held, in a layout
   without absorbing mappings (the class of this property; it evaluates these
   clauses under `has_absorbing L = false` only), when the spec_choice m is
   key-producing: it folds the observed events up to and including the first
   press of the final output key of m over the keys held before the step
   (at_press); K_C04_missing: an output key of m that is a modifier is not in
   at_press; K_C04_stale: a modifier in at_press is not an output key of m and
   not c04_ok_other (when that press is missing altogether the hit is
   K_C03_fire); reported as C04.missing, C04.stale.  It never fires on the model:
   for EVERY classification, EVERY accepted layout, EVERY history h and EVERY next
   input i, applied to the model's own events for i it returns no clause at all,
   in particular neither of these two.  Runs on which these clauses fire:
   MonitorsSilent.check_step_fires, MonitorsSilent.check_step_fires_every_clause. *)
Theorem C04_checkers_silent_on_model :
  forall (is_action : key -> bool) (L : layout) (h : list input) (i : input),
    for_layout_ok L = true ->
    let chk := check_step is_action L (state_of is_action L h) (state_of is_action L (h ++ [i]))
                 (phys_of h) (held_all is_action L h) i
                 (fst (fst (mstep is_action L (state_of is_action L h) i))) in
    chk = [] /\ ~ In K_C04_missing chk /\ ~ In K_C04_stale chk.
Proof.
  intros a L h i H. cbn zeta.
  assert (Hwf : wf_layout L) by (apply for_layout_ok_wf; exact H).
  repeat split.
  - apply MonitorsSilent.check_step_silent. exact Hwf.
  - apply MonitorsSilent.check_step_clause_silent. exact Hwf.
  - apply MonitorsSilent.check_step_clause_silent. exact Hwf.
Qed.
Print Assumptions C04_checkers_silent_on_model.

(* "Modifier" in this property means one of the eight standard modifiers
   (SpecTables.spec_modifier_keys: left/right Shift, Ctrl, Alt, Meta): the
   classification the code uses (is_action_key, regenerated from /repo on every
   run) is exactly that one.  (The theorems above hold for every classification.) *)
Theorem C04_modifiers_are_the_standard_ones :
  forall k : N, TMGen.Modifiers.is_action_key k = negb (SpecTables.spec_is_modifier k).
Proof. exact ModifierSpec.is_action_key_is_spec. Qed.
Print Assumptions C04_modifiers_are_the_standard_ones.

(* Non-vacuity: A -> [LEFTSHIFT, B], C -> [LEFTCTRL, D], E -> [F], CAPSLOCK -> [LEFTALT]
   (a modifier-remapping).  With CAPSLOCK, A and C held (LEFTALT down, LEFTCTRL and D
   down from C's mapping), pressing E releases D and LEFTCTRL before F goes down;
   LEFTALT legitimately stays down. *)
Example C04_example :
  let ia := fun k => negb (N.eqb k 42 || N.eqb k 29 || N.eqb k 56) in
  let L := [mkMapping [30%N] [42%N; 48%N] RNormal []; mkMapping [46%N] [29%N; 32%N] RNormal [];
            mkMapping [18%N] [33%N] RNormal []; mkMapping [58%N] [56%N] RNormal []] in
  let h := [IEv (Pressed 58%N); IEv (Pressed 30%N); IEv (Pressed 46%N)] in
  for_layout_ok L = true /\ has_absorbing L = false
  /\ spec_choice L (phys_of h) 18%N = Some (mkMapping [18%N] [33%N] RNormal [])
  /\ held_all ia L h = [56%N; 29%N; 32%N]
  /\ fst (fst (step ia L (state_of ia L h) (Pressed 18%N))) = [Released 32%N; Released 29%N; Pressed 33%N]
  /\ apply_evs (held_all ia L h) [Released 32%N; Released 29%N; Pressed 33%N] = [56%N; 33%N]
  /\ c04_ok_other ia L (phys_of (h ++ [IEv (Pressed 18%N)])) (mkMapping [18%N] [33%N] RNormal []) 56%N = true.
Proof. vm_compute. repeat split; reflexivity. Qed.
