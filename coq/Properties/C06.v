(* C06 — Releasing everything (or a tablet-mode reset) returns the mapper to
   fresh state.  Statements only; proofs in TM.MapperRefire (bisimulation `aeq`:
   the absorbed-key list matters only through the absorbed keys still held on
   the input, the absorbing trigger only while there is such a key, the repeat
   trigger never). *)
From TM Require Import Base Mapper Monitors Trace MapperInv MapperProps MapperRefire Loop LoopEnv LoopMonitors
                       LoopSpec LoopLemmas LoopSends LoopTablet LoopTimer LoopProps.

(* mresp L s h2 = the responses (output events AND repeat instruction) of every
   step of h2 from mapper state s; inputs are key events (well-formed or not)
   and release-all calls.

   For EVERY key classification, EVERY accepted layout, EVERY history h1 after
   which no key is physically held and EVERY continuation h2 (no bound on
   lengths or on keys held): nothing is held on the virtual keyboard after h1,
   and the responses to h2 are exactly those of a newly created mapper. *)
Theorem C06_fresh_after_rest :
  forall (is_action : key -> bool) (L : layout) (h1 h2 : list input),
    for_layout_ok L = true ->
    phys_of h1 = [] ->
    held_all is_action L h1 = []
    /\ mresp is_action L (state_of is_action L h1) h2 = mresp is_action L init h2.
Proof.
  intros a L h1 h2 H Hp. assert (Hwf : wf_layout L) by (apply for_layout_ok_wf; exact H).
  split; [apply no_stuck_keys; assumption | apply fresh_after_rest; assumption].
Qed.
Print Assumptions C06_fresh_after_rest.

(* The same after the release-all operation, whatever is physically held at
   that moment and whatever follows (h2 may start with releases of keys that
   were pressed before or presses the mapper never saw released: "unseen key
   activity"). *)
Theorem C06_fresh_after_release_all :
  forall (is_action : key -> bool) (L : layout) (h1 h2 : list input),
    for_layout_ok L = true ->
    held_all is_action L (h1 ++ [IReleaseAll]) = []
    /\ mresp is_action L (state_of is_action L (h1 ++ [IReleaseAll])) h2 = mresp is_action L init h2.
Proof.
  intros a L h1 h2 H. assert (Hwf : wf_layout L) by (apply for_layout_ok_wf; exact H).
  split; [apply no_stuck_keys; [exact Hwf | apply phys_of_snoc] | apply fresh_after_release_all; exact Hwf].
Qed.
Print Assumptions C06_fresh_after_release_all.

(* "the responses to h2 after h1" are literally the last |h2| responses of the
   run on h1 ++ h2 *)
Theorem C06_responses_are_the_tail :
  forall (is_action : key -> bool) (L : layout) (h1 h2 : list input),
    mresp is_action L init (h1 ++ h2)
    = mresp is_action L init h1 ++ mresp is_action L (state_of is_action L h1) h2.
Proof. exact mresp_app. Qed.
Print Assumptions C06_responses_are_the_tail.

(* What survives in the state is inert: two reachable states that agree on the
   keys held on the input, the mappings in effect, the two output lists, the
   absorbed keys STILL HELD on the input and (if there is one) the absorbing
   trigger answer every continuation identically. *)
Theorem C06_no_memory :
  forall (is_action : key -> bool) (L : layout) (s s' : state) (h : list input),
    for_layout_ok L = true -> Inv L s -> Inv L s' -> aeq s s' ->
    mresp is_action L s' h = mresp is_action L s h.
Proof. intros a L s s' h H. apply mresp_aeq. apply for_layout_ok_wf. exact H. Qed.
Print Assumptions C06_no_memory.

(* ---- the tablet-mode reset as the event loop performs it (model TM.Loop of
   do_remapping_loop_one_device; vocabulary of TM.LoopSpec, see C12.v).  In EVERY
   configuration of EVERY run of the loop (any answer script), the loop's mapper
   answers EVERY future input sequence exactly like a mapper created fresh at
   the last tablet event that has seen only the key events read since then ... *)
Theorem C06_loop_mapper_is_fresh_after_tablet_event :
  forall (is_action : key -> bool) (L : layout),
    for_layout_ok L = true ->
    forall (rs : list resp) (cs : list call) (o : outcome) (k : nat) (x : conf),
    Loop.run is_action L rs = (cs, o) -> conf_at is_action L rs k = Some x ->
    forall h, mresp is_action L (l_mapper (c_state x)) h
              = mresp is_action L (state_of is_action L (since_tab false [] (firstn k (combine cs rs)))) h.
Proof. exact fresh_after_tablet_event. Qed.
Print Assumptions C06_loop_mapper_is_fresh_after_tablet_event.

(* ... and no repeat timer survives it: after any tablet event the loop is idle. *)
Theorem C06_loop_no_repeat_survives_tablet_event :
  forall (is_action : key -> bool) (L : layout) (rs : list resp) (k : nat) (x y : conf)
         (rest : list device) (on : bool),
    conf_at is_action L rs k = Some x -> conf_at is_action L rs (S k) = Some y ->
    c_point x = PTab rest -> c_resp x = RTab (NOne on) -> l_wr (c_state y) = Idle.
Proof. exact cancel_on_tablet_event. Qed.
Print Assumptions C06_loop_no_repeat_survives_tablet_event.

(* Non-vacuity: an absorbing layout; h1 leaves residue in the state (a stale
   absorbed key and trigger) although everything is released, and the
   continuation is answered as by a fresh mapper. *)
Example C06_example :
  let ia := fun k => negb (N.eqb k 42) in
  let L := [mkMapping [42%N; 30%N] [45%N] (RSpecial [191%N] 180 30) [42%N]; mkMapping [42%N; 48%N] [21%N] RNormal []] in
  let h1 := [IEv (Pressed 42%N); IEv (Pressed 30%N); IEv (Released 30%N); IEv (Released 42%N)] in
  let h2 := [IEv (Released 42%N); IEv (Pressed 42%N); IEv (Pressed 48%N); IReleaseAll; IEv (Pressed 30%N)] in
  for_layout_ok L = true /\ phys_of h1 = []
  /\ absd (state_of ia L h1) = [42%N] /\ atrig (state_of ia L h1) = Some 30%N
  /\ mresp ia L (state_of ia L h1) h2 = mresp ia L init h2
  /\ map fst (mresp ia L init h2)
     = [[]; [Pressed 42%N]; [Released 42%N; Pressed 21%N]; [Released 21%N]; [Pressed 30%N]].
Proof. vm_compute. repeat split; reflexivity. Qed.
