(* C12 — Tablet mode.  Statements only; proofs are in TM.LoopSends,
   TM.LoopTablet, TM.LoopSim, TM.LoopProps (mapper facts: TM.MapperInv,
   TM.MapperRefire).

   Vocabulary (TM.LoopSpec): `tab_after false tr` = state of the tablet switch
   after transcript tr (off at the start); `acked tr` = the events of the sends
   acknowledged in tr; `since_tab false [] tr` = the key events given to the
   mapper since the last tablet event in tr; `mresp s h` = the responses
   (events and repeat request) of the mapper from state s to every input of h. *)
From TM Require Import Base Mapper Monitors MapperInv MapperProps MapperRefire Loop LoopEnv LoopMonitors
                       LoopSpec LoopLemmas LoopSends LoopTablet LoopProps.

(* For EVERY key classification, EVERY layout accepted by Mapper::for_layout,
   EVERY script: when a tablet event (On, or Off: the code releases on both) is
   read as the k-th entry, the call directly after it is the send of the
   mapper's release-all batch, omitted (the next call is the next read) iff the
   batch is empty; and everything acknowledged before followed by that batch is
   a trace without redundant events after which NOTHING is held on the virtual
   keyboard. *)
Theorem C12_on_releases_all :
  forall (is_action : key -> bool) (L : layout),
    for_layout_ok L = true ->
    forall (rs : list resp) (cs : list call) (o : outcome) (k : nat) (on : bool),
    Loop.run is_action L rs = (cs, o) ->
    nth_error (combine cs rs) k = Some (CNextTab, RTab (NOne on)) ->
    let pre := firstn k (combine cs rs) in
    let batch := fst (release_all is_action L (state_of is_action L (minputs false pre))) in
    (batch <> [] -> nth_error cs (S k) = Some (CSend batch))
    /\ (batch = [] -> nth_error cs (S k) = Some CNextTab)
    /\ apply_evs [] (acked pre ++ batch) = []
    /\ redundant [] (acked pre ++ batch) = false.
Proof. exact tablet_event_then. Qed.
Print Assumptions C12_on_releases_all.

(* While the switch is on nothing at all is written: if the switch is on after
   the first k entries of the transcript, the call after the k-th entry —
   whatever that entry is: a key event, a time-out with a repeat pending,
   another On, the Off — is not a send.  (The release-all batch of the On event
   itself follows an entry before which the switch was off.) *)
Theorem C12_silent :
  forall (is_action : key -> bool) (L : layout),
    for_layout_ok L = true ->
    forall (rs : list resp) (cs : list call) (o : outcome) (k : nat),
    Loop.run is_action L rs = (cs, o) ->
    tab_after false (firstn k (combine cs rs)) = true ->
    ~ is_send (nth_error cs (S k)).
Proof. exact silent_while_on. Qed.
Print Assumptions C12_silent.

(* After a tablet event mapping resumes as from a fresh start: in every
   configuration of every run, the loop's mapper answers EVERY future input
   sequence exactly like a mapper created fresh at the last tablet event that
   has seen only the key events read since then with the switch off. *)
Theorem C12_off_is_fresh :
  forall (is_action : key -> bool) (L : layout),
    for_layout_ok L = true ->
    forall (rs : list resp) (cs : list call) (o : outcome) (k : nat) (x : conf),
    Loop.run is_action L rs = (cs, o) -> conf_at is_action L rs k = Some x ->
    forall h, mresp is_action L (l_mapper (c_state x)) h
              = mresp is_action L (state_of is_action L (since_tab false [] (firstn k (combine cs rs)))) h.
Proof. exact fresh_after_tablet_event. Qed.
Print Assumptions C12_off_is_fresh.

(* ... hence what is sent after a key read (switch off) is the output of that
   fresh mapper, sent at once, *)
Theorem C12_sends_after_off_are_fresh :
  forall (is_action : key -> bool) (L : layout),
    for_layout_ok L = true ->
    forall (rs : list resp) (cs : list call) (o : outcome) (k : nat) (e : event),
    Loop.run is_action L rs = (cs, o) ->
    nth_error (combine cs rs) k = Some (CNextKbd, RKbd (NOne e)) ->
    let pre := firstn k (combine cs rs) in
    tab_after false pre = false ->
    let out := fst (fst (step is_action L (state_of is_action L (since_tab false [] pre)) e)) in
    (out <> [] -> nth_error cs (S k) = Some (CSend out))
    /\ (out = [] -> ~ is_send (nth_error cs (S k))).
Proof. exact key_read_then_send_fresh. Qed.
Print Assumptions C12_sends_after_off_are_fresh.

(* ... and the release of a key that was pressed before or during tablet mode
   (not pressed since the last tablet event) produces no output. *)
Theorem C12_stale_release_is_silent :
  forall (is_action : key -> bool) (L : layout),
    for_layout_ok L = true ->
    forall (rs : list resp) (cs : list call) (o : outcome) (k : nat) (key : key),
    Loop.run is_action L rs = (cs, o) ->
    nth_error (combine cs rs) k = Some (CNextKbd, RKbd (NOne (Released key))) ->
    ~ In (IEv (Pressed key)) (since_tab false [] (firstn k (combine cs rs))) ->
    ~ is_send (nth_error cs (S k)).
Proof. exact stale_release_silent. Qed.
Print Assumptions C12_stale_release_is_silent.

(* The extracted transcript checker never reports a C12 clause on the model's
   own annotated transcript, for ALL scripts. *)
Theorem C12_monitor_never_fires :
  forall (is_action : key -> bool) (L : layout),
    for_layout_ok L = true ->
    forall (rs : list resp) (cs : list call) (o : outcome) (t0 tol : Z) (n : N) (c : lclause),
    (0 <= tol)%Z -> Loop.run is_action L rs = (cs, o) ->
    In c [L_C12_on_releases_all; L_C12_silent; L_C12_off_fresh] ->
    ~ In (n, c) (check_transcript is_action L tol (annotate t0 cs rs)).
Proof. intros ia L Hok rs cs o t0 tol n c Htol Hrun _. exact (monitors_silent_clause ia L Hok rs cs o t0 tol n c Htol Hrun). Qed.
Print Assumptions C12_monitor_never_fires.

(* Non-vacuity: a Special-repeat mapping A -> LEFTSHIFT+B fires (LEFTSHIFT stays
   held, the repeat is armed); the tablet switch turns On in the same wake-up:
   LEFTSHIFT is released and the repeat is cancelled (the next poll has no
   time-out); key events and a time-out during tablet mode write nothing; after
   Off the stale release of a key pressed during tablet mode writes nothing and a
   new key press is passed through. *)
Example C12_example :
  let ia := fun k => negb (N.eqb k 42) in
  let L := [mkMapping [30%N] [42%N; 48%N] (RSpecial [190%N; 42%N; 190%N] 200 30) []] in
  let rs := [RUnit; RPoll (PDeviceEvent [DKbd; DTab]); RKbd (NOne (Pressed 30%N)); RUnit; RNow 1000%Z;
             RKbd NBusy; RTab (NOne true); RUnit; RTab NBusy; RPoll (PDeviceEvent [DKbd]);
             RKbd (NOne (Released 30%N)); RKbd (NOne (Pressed 31%N)); RKbd NBusy; RPoll PTimedOut;
             RPoll (PDeviceEvent [DTab]); RTab (NOne false); RTab NBusy; RPoll (PDeviceEvent [DKbd]);
             RKbd (NOne (Released 31%N)); RKbd (NOne (Pressed 32%N)); RUnit; RKbd NEnd; RUnit] in
  for_layout_ok L = true
  /\ Loop.run ia L rs =
     ([CRegister; CPoll None; CNextKbd; CSend [Pressed 42%N; Pressed 48%N; Released 48%N]; CNow;
       CNextKbd; CNextTab; CSend [Released 42%N]; CNextTab; CPoll None; CNextKbd; CNextKbd; CNextKbd;
       CPoll None; CPoll None; CNextTab; CNextTab; CPoll None; CNextKbd; CNextKbd;
       CSend [Pressed 32%N]; CNextKbd], Returned_ok)
  /\ apply_evs [] (acked (firstn 8 (combine (fst (Loop.run ia L rs)) rs))) = []
  /\ since_tab false [] (combine (fst (Loop.run ia L rs)) rs) = [IEv (Released 31%N); IEv (Pressed 32%N)].
Proof. vm_compute. repeat split; reflexivity. Qed.

(* ---------- the tablet-mode switch device ---------- *)

(* The tablet events of the theorems above (`RTab (NOne on)`, the answers to the
   loop's `next_tablet`) are produced by TabletModeSwitchReader::next
   (src/tablet_mode_switch_reader.rs) decoding the records of the tablet-mode
   switch device.  Model: TM.TabletWire (same buffer handling as
   DevInputReader::next, TM.Wire: 24-byte input_event, type/code/value at
   16/18/20, little-endian — assumptions measured by the `wire` engine);
   specification: TabletWire.tablet_events_of; proofs: TM.TabletWireLemmas.
   The real reader is run on generated record streams by the `wire` engine
   (class TABLET, clause C12.switch_reader). *)
From TM Require Import Wire WireSpec TabletWire TabletWireLemmas.

(* For EVERY sequence of device records — any 16 time bytes, type and code any
   u16, value any i32 on every record — calling next() until the descriptor is
   drained returns exactly one event per record that is EV_SW (type 5) /
   SW_TABLET_MODE (code 1) with value 1 (On = true) or value 0 (Off = false), in
   order; every other record (other switches such as SW_LID = code 0, EV_SYN,
   EV_KEY, EV_MSC, other values) is skipped; and no index panics. *)
Theorem C12_switch_reader_exact :
  forall rs : list raw,
    (forall r, In r rs -> raw_wf r = true) ->
    decode_tablet_run (raw_stream rs) = (tablet_events_of rs, Drained).
Proof. exact decode_tablet_run_raw. Qed.
Print Assumptions C12_switch_reader_exact.

(* ... where tablet_events_of is, record by record: *)
Theorem C12_switch_reader_spec :
  (forall (r : raw) (rs : list raw),
      tablet_events_of (r :: rs) =
      match tablet_event r with Some on => on :: tablet_events_of rs | None => tablet_events_of rs end)
  /\ tablet_events_of [] = []
  /\ (forall (r : raw) (on : bool),
        tablet_event r = Some on <->
        (r_type r = 5%N /\ r_code r = 1%N /\ r_value r = (if on then 1 else 0)%Z)).
Proof. exact tablet_events_of_spec. Qed.
Print Assumptions C12_switch_reader_spec.

(* On ANY byte stream (garbage, truncated) no call of next() panics. *)
Theorem C12_switch_reader_never_panics :
  forall s : list N, snd (decode_tablet_run s) = Drained.
Proof. exact decode_tablet_run_no_panic. Qed.
Print Assumptions C12_switch_reader_never_panics.

(* The extracted checker that judges the REAL reader's answers (clause
   C12.switch_reader of the wire engine) accepts exactly the specified list, and
   therefore never fires on the model. *)
Theorem C12_switch_checker_never_fires_on_model :
  (forall (rs : list raw) (returned : list bool),
      check_switch_reader rs returned = true <-> returned = tablet_events_of rs)
  /\ (forall rs : list raw,
        (forall r, In r rs -> raw_wf r = true) ->
        check_switch_reader rs (fst (decode_tablet_run (raw_stream rs))) = true).
Proof. exact switch_checker_full. Qed.
Print Assumptions C12_switch_checker_never_fires_on_model.

(* Non-vacuity: SW_LID closing (code 0), tablet mode On, a key press, an
   EV_SYN, tablet mode Off, a value-2 record on the tablet switch, a record whose
   type has 5 in the low byte only (0x0105), and an On again: On, Off, On. *)
Example C12_switch_reader_example :
  let rs := [mk_raw 1700000000 11 5 0 1;
             mk_raw 1700000000 12 5 1 1;
             mk_raw 1700000001 13 1 30 1;
             mk_raw 1700000001 14 0 0 0;
             mk_raw 1700000002 15 5 1 0;
             mk_raw (-1) 16 5 1 2;
             mk_raw 1700000003 17 261 1 1;
             mk_raw 1700000004 18 5 1 1] in
  forallb raw_wf rs = true
  /\ tablet_events_of rs = [true; false; true]
  /\ decode_tablet_run (raw_stream rs) = ([true; false; true], Drained)
  /\ decode_run (raw_stream rs) = ([Pressed 30%N], Drained)
  /\ snd (decode_tablet_run (firstn 100 (raw_stream rs))) = Drained.
Proof. vm_compute. repeat split; reflexivity. Qed.
