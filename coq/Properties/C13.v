(* C13 — Row and alias shorthands mean exactly their hand-written expansion.
   Statements only; proofs are in TM.LoaderTables, TM.SortLemmas, TM.ConvertLemmas,
   TM.ExpandLemmas and TM.SpellingLemmas. *)
From TM Require Import Base Json RustOps Fancy Mapper Parser Convert SpecTables ConvertSpec LoaderTables ExpandLemmas.
From TMGen Require Import CharTable Rows Modifiers.

(* The converter computes exactly the declarative expansion, for EVERY fancy
   layout (any list of alias, single, row and repeat-only mappings, parsed or
   not): both sides are outcomes (Ok layout / Err / Panic), so the layouts, the
   rejections and the absence of panics coincide.  ConvertSpec.expand: one
   mapping per non-space letter and per combination of alias definitions
   (first alias slot fastest), Shift as the US-QWERTY keyboard of SpecTables.v
   says, right Shift if the trigger contains right Shift, output-side aliases
   replaced by the trigger-side choice, source order preserved, repeat-only
   entries set the repeat mode of the mappings with the same trigger set or add
   an identity mapping, duplicate keys in a trigger or output rejected. *)
Theorem C13_convert_refines_spec : forall f : fancy_layout, Convert.convert f = ConvertSpec.expand f.
Proof. exact convert_refines_spec. Qed.
Print Assumptions C13_convert_refines_spec.

(* the same for the part before the final duplicate-key rejection *)
Theorem C13_convert_core_refines_spec : forall f : fancy_layout, Convert.convert_core f = ConvertSpec.expand_core f.
Proof. exact convert_core_spec. Qed.
Print Assumptions C13_convert_core_refines_spec.

(* The converter's character table (regenerated from char_production_map.rs) is
   the US-QWERTY keyboard written down in SpecTables.v: for EVERY Unicode scalar
   the lookup the converter performs answers what the keyboard says (needs
   Shift?, which key), and the table has exactly the 94 printable characters. *)
Theorem C13_char_table_is_usqwerty :
  (forall ch, char_lookup ch = spec_char ch)
  /\ incl char_table us_qwerty /\ incl us_qwerty char_table
  /\ length char_table = 94%nat.
Proof.
  destruct char_table_same_entries as [H1 [H2 [H3 _]]].
  split; [exact char_lookup_is_spec|].
  split; [apply table_subset_incl; exact H1|].
  split; [apply table_subset_incl; exact H2|exact H3].
Qed.
Print Assumptions C13_char_table_is_usqwerty.

(* The five shorthand rows are the physical rows of the keyboard (the row named
   1 is the number row without its first key), the two Shift keys and the set
   of keys that may define an alias without becoming a mapping are the ones the
   specification names. *)
Theorem C13_rows :
  (forall r, physical_row r = Some (spec_row r))
  /\ RIGHTSHIFT = KEY_RIGHTSHIFT /\ LEFTSHIFT = KEY_LEFTSHIFT
  /\ (forall k, Modifiers.is_modifier k = spec_is_modifier k).
Proof.
  destruct shift_keys_are_spec as [H1 H2].
  split; [exact physical_row_is_spec|]. split; [exact H1|]. split; [exact H2|exact is_modifier_is_spec].
Qed.
Print Assumptions C13_rows.

Example C13_tables_example :
  spec_char 43 = Some (true, 13%N) /\ spec_row RowA = [30; 31; 32; 33; 34; 35; 36; 37; 38; 39; 40]%N.
Proof. vm_compute. split; reflexivity. Qed.
