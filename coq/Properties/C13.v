(* C13 — Row and alias shorthands mean exactly their hand-written expansion.
   Statements only; proofs are in TM.LoaderTables, TM.SortLemmas, TM.ConvertLemmas,
   TM.ExpandLemmas and TM.SpellingLemmas. *)
From TM Require Import Base Json RustOps Fancy Mapper Parser Convert SpecTables ConvertSpec Serde LoaderTables ExpandLemmas SpellingLemmas LoadedWf.
From TMGen Require Import CharTable Rows Modifiers.

(* The converter computes exactly the declarative expansion, for EVERY fancy
   layout (any list of alias, single, row and repeat-only mappings, parsed or
   not): both sides are outcomes (Ok layout / Err / Panic), so the layouts, the
   rejections and the absence of panics coincide.  ConvertSpec.expand: one
   mapping per non-space letter and per combination of alias definitions
   (first alias slot fastest), Shift as the US-QWERTY keyboard of SpecTables.v
   says, right Shift if the trigger contains right Shift, output-side aliases
   replaced by the trigger-side choice, source order preserved, repeat-only
   entries set the repeat mode of the mappings with the same trigger set or add
   an identity mapping, duplicate keys in a trigger or output rejected. *)
Theorem C13_convert_refines_spec : forall f : fancy_layout, Convert.convert f = ConvertSpec.expand f.
Proof. exact convert_refines_spec. Qed.
Print Assumptions C13_convert_refines_spec.

(* the same for the part before the final duplicate-key rejection *)
Theorem C13_convert_core_refines_spec : forall f : fancy_layout, Convert.convert_core f = ConvertSpec.expand_core f.
Proof. exact convert_core_spec. Qed.
Print Assumptions C13_convert_core_refines_spec.

(* The converter's character table (regenerated from char_production_map.rs) is
   the US-QWERTY keyboard written down in SpecTables.v: for EVERY Unicode scalar
   the lookup the converter performs answers what the keyboard says (needs
   Shift?, which key), and the table has exactly the 94 printable characters. *)
Theorem C13_char_table_is_usqwerty :
  (forall ch, char_lookup ch = spec_char ch)
  /\ incl char_table us_qwerty /\ incl us_qwerty char_table
  /\ length char_table = 94%nat.
Proof.
  destruct char_table_same_entries as [H1 [H2 [H3 _]]].
  split; [exact char_lookup_is_spec|].
  split; [apply table_subset_incl; exact H1|].
  split; [apply table_subset_incl; exact H2|exact H3].
Qed.
Print Assumptions C13_char_table_is_usqwerty.

(* The five shorthand rows are the physical rows of the keyboard (the row named
   1 is the number row without its first key), the two Shift keys and the set
   of keys that may define an alias without becoming a mapping are the ones the
   specification names. *)
Theorem C13_rows :
  (forall r, physical_row r = Some (spec_row r))
  /\ RIGHTSHIFT = KEY_RIGHTSHIFT /\ LEFTSHIFT = KEY_LEFTSHIFT
  /\ (forall k, Modifiers.is_modifier k = spec_is_modifier k).
Proof.
  destruct shift_keys_are_spec as [H1 H2].
  split; [exact physical_row_is_spec|]. split; [exact H1|]. split; [exact H2|exact is_modifier_is_spec].
Qed.
Print Assumptions C13_rows.

(* The shorthand layout and its expansion written out by hand load to the same
   basic layout: if a layout file j (any spelling, rows, aliases, repeat-only
   entries) loads to L, then the file that lists the mappings of L one by one
   with every key written out (Serde.to_json L: `from`, `to`, `absorbing` as
   arrays of key names, the repeat spelled out) loads to L as well. *)
Theorem C13_written_out : forall (j : json) (L : layout), load j = Ok L -> load (to_json L) = Ok L.
Proof. exact saved_layout_reloads. Qed.
Print Assumptions C13_written_out.

(* Equivalent spellings parse to the same fancy layout (hence convert
   identically).  (1) A bare value and the one-element array holding it are read
   alike as `from` (key name or {"row":..}), as `to` of a single/alias mapping, as
   `to` of a row mapping, as the `keys` of a Special repeat (= parse_single_to /
   parse_row_to) and as `absorbing`.  (2) For EVERY JSON value j, rewriting every
   such one-element array of every mapping to the bare value (unwrap_layout)
   changes neither what parse_layout_from_json returns nor what loading returns. *)
Theorem C13_spellings_singleton :
  (forall v, is_arr v = false -> parse_from (JArr [v]) = parse_from v)
  /\ (forall v, is_arr v = false -> parse_single_or_alias_to (JArr [v]) = parse_single_or_alias_to v)
  /\ (forall v, is_arr v = false -> parse_row_to (JArr [v]) = parse_row_to v)
  /\ (forall v, is_arr v = false -> parse_single_repeat_keys (JArr [v]) = parse_single_repeat_keys v)
  /\ (forall v, is_arr v = false -> parse_row_repeat_keys (JArr [v]) = parse_row_repeat_keys v)
  /\ (forall v, is_arr v = false -> parse_absorbing (Some (JArr [v])) = parse_absorbing (Some v)).
Proof.
  exact (conj parse_from_singleton (conj parse_single_or_alias_to_singleton (conj parse_row_to_singleton
          (conj parse_single_to_singleton (conj parse_row_to_singleton parse_absorbing_singleton))))).
Qed.
Print Assumptions C13_spellings_singleton.

Theorem C13_spellings : forall j : json,
  parse_layout (unwrap_layout j) = parse_layout j /\ load (unwrap_layout j) = load j.
Proof. exact (fun j => conj (parse_layout_unwrap j) (load_unwrap j)). Qed.
Print Assumptions C13_spellings.

(* Row names are read through their upper-case form and repeat names through
   their lower-case form: two names with the same upper-case (lower-case) form
   parse alike, and each of the five row names parses to its row in lower and
   in upper case, "normal"/"disabled" in the three usual capitalisations. *)
Theorem C13_spellings_names :
  (forall t t', to_uppercase t = to_uppercase t' -> parse_row t = parse_row t')
  /\ (forall t t', to_lowercase t = to_lowercase t' ->
        parse_single_repeat (Some (JStr t)) = parse_single_repeat (Some (JStr t'))
        /\ parse_row_repeat (Some (JStr t)) = parse_row_repeat (Some (JStr t')))
  /\ map (fun s => parse_row (lit s)) ["`"; "1"; "q"; "Q"; "a"; "A"; "z"; "Z"]%string
     = [Ok RowGrave; Ok Row1; Ok RowQ; Ok RowQ; Ok RowA; Ok RowA; Ok RowZ; Ok RowZ]
  /\ map (fun s => parse_single_repeat (Some (JStr (lit s)))) ["normal"; "Normal"; "NORMAL"; "disabled"; "Disabled"; "DISABLED"]%string
     = [Ok SRNormal; Ok SRNormal; Ok SRNormal; Ok SRDisabled; Ok SRDisabled; Ok SRDisabled]
  /\ map (fun s => parse_row_repeat (Some (JStr (lit s)))) ["normal"; "Normal"; "NORMAL"; "disabled"; "Disabled"; "DISABLED"]%string
     = [Ok WRNormal; Ok WRNormal; Ok WRNormal; Ok WRDisabled; Ok WRDisabled; Ok WRDisabled].
Proof. exact names_either_case_full. Qed.
Print Assumptions C13_spellings_names.

(* a layout with aliases, a row, output-side aliases and a repeat-only entry, in
   two spellings: same fancy layout, and the expansion written out *)
Example C13_expand_example :
  let j1 := JObj [(lit "mappings", JArr [
             JObj [(lit "from", JStr (lit "LEFTSHIFT")); (lit "to", JStr (lit "@s"))];
             JObj [(lit "from", JArr [JStr (lit "RIGHTSHIFT")]); (lit "to", JArr [JStr (lit "@s")])];
             JObj [(lit "absorbing", JStr (lit "@s"));
                   (lit "from", JArr [JStr (lit "@s"); JObj [(lit "row", JStr (lit "a"))]]);
                   (lit "to", JArr [JObj [(lit "letters", JStr (lit "a B"))]])];
             JObj [(lit "from", JArr [JStr (lit "RIGHTSHIFT"); JStr (lit "A")]); (lit "repeat", JStr (lit "DISABLED"))]])] in
  unwrap_layout j1 = JObj [(lit "mappings", JArr [
             JObj [(lit "from", JStr (lit "LEFTSHIFT")); (lit "to", JStr (lit "@s"))];
             JObj [(lit "from", JStr (lit "RIGHTSHIFT")); (lit "to", JStr (lit "@s"))];
             JObj [(lit "absorbing", JStr (lit "@s"));
                   (lit "from", JArr [JStr (lit "@s"); JObj [(lit "row", JStr (lit "a"))]]);
                   (lit "to", JObj [(lit "letters", JStr (lit "a B"))])];
             JObj [(lit "from", JArr [JStr (lit "RIGHTSHIFT"); JStr (lit "A")]); (lit "repeat", JStr (lit "DISABLED"))]])]
  /\ load j1 = Ok [ mkMapping [42; 30]%N [30]%N RNormal [42]%N; mkMapping [42; 32]%N [42; 48]%N RNormal [42]%N;
                    mkMapping [54; 30]%N [30]%N RDisabled [54]%N; mkMapping [54; 32]%N [54; 48]%N RNormal [54]%N ].
Proof. vm_compute. split; reflexivity. Qed.

Example C13_tables_example :
  spec_char 43 = Some (true, 13%N) /\ spec_row RowA = [30; 31; 32; 33; 34; 35; 36; 37; 38; 39; 40]%N.
Proof. vm_compute. split; reflexivity. Qed.
