(* C01 — No stuck keys.  Statements only.
   C01_no_stuck_keys is about the events the mapper returns; the theorems after
   it carry it through the event loop to what is WRITTEN to the virtual keyboard
   (TM.LoopDevice: the device-level monitor `device_check` that the loop engine
   applies, extracted, to the transcripts of the REAL loop, clause C01.device;
   proofs in TM.LoopDeviceLemmas).  The byte-level form is
   C10_every_write_keeps_the_device_in_step (Properties/C10.v). *)
From TM Require Import Base Mapper Monitors Trace MapperInv MapperProps.
From TM Require MonitorsSilent.
From TM Require Loop LoopSpec LoopDevice LoopDeviceLemmas.

(* For EVERY key classification, EVERY accepted layout and EVERY finite history
   (duplicate presses, releases of keys never pressed and release-all calls
   included; no bound on length or on the number of keys held): whenever no key
   is physically held, no key is held on the virtual keyboard. *)
Theorem C01_no_stuck_keys :
  forall (is_action : key -> bool) (L : layout) (h : list input),
    for_layout_ok L = true ->
    phys_of h = [] ->
    held_all is_action L h = [].
Proof. intros a L h H. apply no_stuck_keys. apply for_layout_ok_wf. exact H. Qed.
Print Assumptions C01_no_stuck_keys.

(* Non-vacuity: a chord history on a CAPSLOCK layout ends at rest with all keys up,
   and in the middle of it keys are held. *)
Example C01_example :
  let ia := fun k => negb (N.eqb k 42) in
  let L := [mkMapping [58%N] [] RNormal []; mkMapping [58%N; 36%N] [42%N; 105%N] RNormal []] in
  let h := [IEv (Pressed 58%N); IEv (Pressed 36%N); IEv (Pressed 36%N); IEv (Released 58%N);
            IEv (Released 99%N); IEv (Released 36%N)] in
  for_layout_ok L = true /\ phys_of h = [] /\ held_all ia L h = []
  /\ held_all ia L (firstn 2 h) = [42%N; 105%N].
Proof. vm_compute. repeat split; reflexivity. Qed.

(* The extracted step checker Monitors.check_step (applied by the mapper engine
   to the outputs of the REAL mapper on every explored transition: specification
   state before and after, keys physically held and keys held on the virtual
   keyboard before the step, the input, the observed events; its clause K_C01 -
   nothing physically held after the step, something held on the virtual
   keyboard - is reported as C01) never fires on the model: for EVERY
   classification, EVERY accepted layout, EVERY history h and EVERY next input
   i, applied to the model's own events for i it returns no clause at all, in
   particular not K_C01.  A run on which it fires: MonitorsSilent.check_step_fires. *)
Theorem C01_checker_silent_on_model :
  forall (is_action : key -> bool) (L : layout) (h : list input) (i : input),
    for_layout_ok L = true ->
    let chk := check_step is_action L (state_of is_action L h) (state_of is_action L (h ++ [i]))
                 (phys_of h) (held_all is_action L h) i
                 (fst (fst (mstep is_action L (state_of is_action L h) i))) in
    chk = [] /\ ~ In K_C01 chk.
Proof.
  intros a L h i H. cbn zeta. split.
  - apply MonitorsSilent.check_step_silent. apply for_layout_ok_wf. exact H.
  - apply MonitorsSilent.check_step_clause_silent. apply for_layout_ok_wf. exact H.
Qed.
Print Assumptions C01_checker_silent_on_model.

(* ---------- at the device: through the event loop ---------- *)

(* In EVERY configuration of EVERY run of the per-device loop (any answer
   script: batching, time-outs with their timer chords, interruptions, tablet
   events, errors), layout accepted by Mapper::for_layout: whenever the inputs
   the transcript implies for the mapper so far (LoopSpec.minputs: key events
   read while the tablet switch is off, a release-all per tablet event) leave
   no key physically held, the events of all acknowledged sends followed by the
   send being waited on (`written_at`) leave NO key held on the device. *)
Theorem C01_loop_no_stuck_keys_at_the_device :
  forall (is_action : key -> bool) (L : layout),
    for_layout_ok L = true ->
    forall (rs : list Loop.resp) (cs : list Loop.call) (o : Loop.outcome) (k : nat) (x : LoopSpec.conf),
    Loop.run is_action L rs = (cs, o) -> LoopSpec.conf_at is_action L rs k = Some x ->
    phys_of (LoopSpec.minputs false (firstn k (combine cs rs))) = [] ->
    apply_evs [] (LoopDeviceLemmas.written_at cs rs k x) = [].
Proof. intros ia L Hok rs cs o k x. exact (LoopDeviceLemmas.loop_device_no_stuck_keys ia L rs cs o k x Hok). Qed.
Print Assumptions C01_loop_no_stuck_keys_at_the_device.

(* The extracted one-pass monitor LoopDevice.device_check (what the loop engine
   applies to every transcript of the REAL loop; clause D_stuck is reported as
   C01.device) never fires on a transcript of the model, for ALL answer scripts:
   neither D_stuck nor any other clause. *)
Theorem C01_loop_device_monitor_never_fires :
  forall (is_action : key -> bool) (L : layout),
    for_layout_ok L = true ->
    forall (rs : list Loop.resp) (cs : list Loop.call) (o : Loop.outcome),
    Loop.run is_action L rs = (cs, o) ->
    LoopDevice.device_check is_action L (combine cs rs) = []
    /\ forall n : N, ~ In (n, LoopDevice.D_stuck) (LoopDevice.device_check is_action L (combine cs rs)).
Proof.
  intros ia L Hok rs cs o Hrun. split.
  - exact (LoopDeviceLemmas.device_check_silent ia L rs cs o Hok Hrun).
  - intros n. exact (LoopDeviceLemmas.device_clause_silent ia L rs cs o Hok Hrun n LoopDevice.D_stuck).
Qed.
Print Assumptions C01_loop_device_monitor_never_fires.

(* What a firing means, for ANY transcript (in particular one recorded from the
   real loop): a hit (n, clause) names an entry i = n whose call cl, with the
   transcript `pre` before it, violates the statement above / its C02 / C19
   counterparts: with `acked pre` the events of the acknowledged sends and
   `payload cl` the events of cl when it is a send,
     D_stuck      nothing is physically held, and a key is held on the device
     D_step       the device's held set is not the specification mapper's
     D_redundant  the send presses a held key or releases a key that is up. *)
Theorem C01_device_monitor_hit_means :
  forall (is_action : key -> bool) (L : layout) (tr : list (Loop.call * Loop.resp)) (n : N) (c : LoopDevice.dclause),
    In (n, c) (LoopDevice.device_check is_action L tr) ->
    exists (i : nat) (cl : Loop.call) (r : Loop.resp),
      n = N.of_nat i /\ nth_error tr i = Some (cl, r)
      /\ let pre := firstn i tr in
         match c with
         | LoopDevice.D_redundant =>
             redundant (apply_evs [] (LoopSpec.acked pre)) (LoopDevice.payload cl) = true
         | LoopDevice.D_step =>
             ~ seteq (apply_evs [] (LoopSpec.acked pre ++ LoopDevice.payload cl))
                     (held_of (state_of is_action L (LoopSpec.minputs false pre)))
         | LoopDevice.D_stuck =>
             phys_of (LoopSpec.minputs false pre) = []
             /\ apply_evs [] (LoopSpec.acked pre ++ LoopDevice.payload cl) <> []
         end.
Proof. exact LoopDeviceLemmas.device_check_hit_means. Qed.
Print Assumptions C01_device_monitor_hit_means.

(* Non-vacuity: the monitor fires on transcripts a defective loop would
   produce.  tr1: A (30) is mapped to B (48); B goes down; the poll is
   interrupted and the loop continues with a FRESH mapper, which ignores the
   release of A and later presses B again: B stays down with nothing physically
   held (D_stuck and D_step from entry 9 on) and is pressed while down
   (D_redundant at entry 12).  tr2: the tablet switch turns on while B is down
   and the release-all batch is never written.  On the model's own transcript
   for the first script the monitor is silent. *)
Example C01_example_device_monitor :
  let ia := fun k => negb (N.eqb k 42) in
  let L := [mkMapping [30%N] [48%N] RNormal []] in
  let tr1 := [(Loop.CRegister, Loop.RUnit); (Loop.CPoll None, Loop.RPoll (Loop.PDeviceEvent [Loop.DKbd]));
              (Loop.CNextKbd, Loop.RKbd (Loop.NOne (Pressed 30%N))); (Loop.CSend [Pressed 48%N], Loop.RUnit);
              (Loop.CNextKbd, Loop.RKbd Loop.NBusy); (Loop.CPoll None, Loop.RPoll Loop.PInterrupted);
              (Loop.CRegister, Loop.RUnit); (Loop.CPoll None, Loop.RPoll (Loop.PDeviceEvent [Loop.DKbd]));
              (Loop.CNextKbd, Loop.RKbd (Loop.NOne (Released 30%N))); (Loop.CNextKbd, Loop.RKbd Loop.NBusy);
              (Loop.CPoll None, Loop.RPoll (Loop.PDeviceEvent [Loop.DKbd]));
              (Loop.CNextKbd, Loop.RKbd (Loop.NOne (Pressed 30%N))); (Loop.CSend [Pressed 48%N], Loop.RUnit);
              (Loop.CNextKbd, Loop.RKbd Loop.NBusy)] in
  let tr2 := [(Loop.CRegister, Loop.RUnit); (Loop.CPoll None, Loop.RPoll (Loop.PDeviceEvent [Loop.DKbd]));
              (Loop.CNextKbd, Loop.RKbd (Loop.NOne (Pressed 30%N))); (Loop.CSend [Pressed 48%N], Loop.RUnit);
              (Loop.CNextKbd, Loop.RKbd Loop.NBusy); (Loop.CPoll None, Loop.RPoll (Loop.PDeviceEvent [Loop.DTab]));
              (Loop.CNextTab, Loop.RTab (Loop.NOne true)); (Loop.CNextTab, Loop.RTab Loop.NBusy)] in
  let rs := [Loop.RUnit; Loop.RPoll (Loop.PDeviceEvent [Loop.DKbd]); Loop.RKbd (Loop.NOne (Pressed 30%N)); Loop.RUnit;
             Loop.RKbd Loop.NBusy; Loop.RPoll Loop.PInterrupted; Loop.RPoll (Loop.PDeviceEvent [Loop.DKbd]);
             Loop.RKbd (Loop.NOne (Released 30%N)); Loop.RUnit; Loop.RKbd Loop.NBusy] in
  for_layout_ok L = true
  /\ LoopDevice.device_check ia L tr1
     = [(9%N, LoopDevice.D_step); (9%N, LoopDevice.D_stuck); (10%N, LoopDevice.D_step); (10%N, LoopDevice.D_stuck);
        (11%N, LoopDevice.D_step); (11%N, LoopDevice.D_stuck); (12%N, LoopDevice.D_redundant)]
  /\ LoopDevice.device_check ia L tr2
     = [(7%N, LoopDevice.D_step); (7%N, LoopDevice.D_stuck)]
  /\ nth_error (fst (Loop.run ia L rs)) 8 = Some (Loop.CSend [Released 48%N])
  /\ LoopDevice.device_check ia L (combine (fst (Loop.run ia L rs)) rs) = [].
Proof. vm_compute. repeat split; reflexivity. Qed.
