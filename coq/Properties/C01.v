(* C01 — No stuck keys.  Statements only. *)
From TM Require Import Base Mapper Monitors Trace MapperInv MapperProps.

(* For EVERY key classification, EVERY accepted layout and EVERY finite history
   (duplicate presses, releases of keys never pressed and release-all calls
   included; no bound on length or on the number of keys held): whenever no key
   is physically held, no key is held on the virtual keyboard. *)
Theorem C01_no_stuck_keys :
  forall (is_action : key -> bool) (L : layout) (h : list input),
    for_layout_ok L = true ->
    phys_of h = [] ->
    held_all is_action L h = [].
Proof. intros a L h H. apply no_stuck_keys. apply for_layout_ok_wf. exact H. Qed.
Print Assumptions C01_no_stuck_keys.

(* Non-vacuity: a chord history on a CAPSLOCK layout ends at rest with all keys up,
   and in the middle of it keys are held. *)
Example C01_example :
  let ia := fun k => negb (N.eqb k 42) in
  let L := [mkMapping [58%N] [] RNormal []; mkMapping [58%N; 36%N] [42%N; 105%N] RNormal []] in
  let h := [IEv (Pressed 58%N); IEv (Pressed 36%N); IEv (Pressed 36%N); IEv (Released 58%N);
            IEv (Released 99%N); IEv (Released 36%N)] in
  for_layout_ok L = true /\ phys_of h = [] /\ held_all ia L h = []
  /\ held_all ia L (firstn 2 h) = [42%N; 105%N].
Proof. vm_compute. repeat split; reflexivity. Qed.
