(* loop_check.ml — for every recorded run of the REAL per-device loop (written by
   tm-harness loop):
   1. the extracted checkers LoopMonitors.check_transcript / check_outcome are
      applied to the REAL transcript (windows = wall clock around the calls,
      tolerance 5 ms): MONITOR lines = the property fails on the real code;
   1b. the extracted device-level monitor LoopDevice.device_check is applied to
      the REAL transcript: the keys the acknowledged sends leave down on the
      virtual keyboard against the specification mapper for the inputs the
      transcript implies (MONITOR clauses C01.device = a key is down although
      nothing is physically held, C02.device = the device is out of step with
      the mapper, C19.device = a send presses a held key / releases an up key;
      theorems C01_loop_device_monitor_never_fires, C02_loop_device_in_step,
      C19_loop_device_no_redundant_event);
   2. Loop.run is run on the same answers (clock readings taken from the
      recorded wall clock) and its calls, time-outs and outcome are compared
      with the real ones: DIFF lines, classes CALLS / TIMEOUT / OUTCOME and the
      per-property observations OBS_C10 / OBS_C11 / OBS_C12 / OBS_C20. *)

open Model

let rec pos_of_int (i : int) : positive =
  if i = 1 then XH
  else if i land 1 = 0 then XO (pos_of_int (i lsr 1))
  else XI (pos_of_int (i lsr 1))
let n_of_int (i : int) : n = if i = 0 then N0 else Npos (pos_of_int i)
let rec int_of_pos (p : positive) : int =
  match p with XH -> 1 | XO q -> 2 * int_of_pos q | XI q -> 2 * int_of_pos q + 1
let int_of_n (x : n) : int = match x with N0 -> 0 | Npos p -> int_of_pos p
let z_of_int (i : int) : z =
  if i = 0 then Z0 else if i > 0 then Zpos (pos_of_int i) else Zneg (pos_of_int (- i))

(* decimal strings of any size <-> Z, through the extracted arithmetic *)
let z_of_string (s : string) : z =
  let neg = String.length s > 0 && s.[0] = '-' in
  let s = if neg then String.sub s 1 (String.length s - 1) else s in
  let acc = ref Z0 in
  let i = ref 0 in
  let len = String.length s in
  while !i < len do
    let n = min 9 (len - !i) in
    let chunk = int_of_string (String.sub s !i n) in
    let mul = z_of_int (int_of_float (10. ** float_of_int n)) in
    acc := x_zadd (x_zmul !acc mul) (z_of_int chunk);
    i := !i + n
  done;
  if neg then x_zsub Z0 !acc else !acc

let small_int_of_z (x : z) : int =
  match x with Z0 -> 0 | Zpos p -> int_of_pos p | Zneg p -> - (int_of_pos p)

let string_of_z (x : z) : string =
  let neg = x_zltb x Z0 in
  let x = if neg then x_zsub Z0 x else x in
  let base = z_of_int 1_000_000_000 in
  let rec go x acc =
    let (q, r) = x_zdiv_eucl x base in
    let r = small_int_of_z r in
    if q = Z0 then string_of_int r :: acc else go q (Printf.sprintf "%09d" r :: acc) in
  (if neg then "-" else "") ^ String.concat "" (go x [])

let zabs x = if x_zltb x Z0 then x_zsub Z0 x else x

(* ---------- parsing ---------- *)

let split_ws (s : string) : string array =
  Array.of_list (List.filter (fun x -> x <> "") (String.split_on_char ' ' s))

let parse_mapping (toks : string array) : mapping =
  let i = ref 1 in
  let num () = let v = int_of_string toks.(!i) in incr i; v in
  let keys n = List.init n (fun _ -> n_of_int (num ())) in
  let nf = num () in let from = keys nf in
  let nt = num () in let to_ = keys nt in
  let kind = num () in
  let rep =
    if kind = 0 then RNormal else if kind = 1 then RDisabled
    else begin
      let nk = num () in let ks = keys nk in
      let d = num () in let iv = num () in
      RSpecial (ks, z_of_int d, z_of_int iv)
    end in
  let na = num () in let abs = keys na in
  { m_from = from; m_to = to_; m_repeat = rep; m_abs = abs }

let ev_of_tok (s : string) : event =
  let c = int_of_string (String.sub s 1 (String.length s - 1)) in
  if s.[0] = 'P' then Pressed (n_of_int c) else Released (n_of_int c)

let ev_str (e : event) = match e with Pressed k -> "P" ^ string_of_int (int_of_n k) | Released k -> "R" ^ string_of_int (int_of_n k)
let evs_str evs = String.concat "," (List.map ev_str evs)

type rrec = { call : call; resp : resp option; enter : int; exit_ : int }

type case = {
  id : string; tag : string; header : string;
  layout : mapping list; layout_lines : string list;
  recs : rrec array; out : string; unread : int;
  rm : (int, event list) Hashtbl.t;   (* record index of a read -> what the REAL mapper returned for it *)
}

let parse_call (t : string array) (i : int ref) : call =
  let k = t.(!i) in incr i;
  match k with
  | "R" -> CRegister
  | "P" -> let a = t.(!i) in incr i; if a = "-" then CPoll None else CPoll (Some (z_of_string a))
  | "K" -> CNextKbd
  | "B" -> CNextTab
  | "S" ->
    let n = int_of_string t.(!i) in incr i;
    let evs = List.init n (fun _ -> let e = ev_of_tok t.(!i) in incr i; e) in
    CSend evs
  | other -> failwith ("bad call token " ^ other)

let parse_resp (c : call) (t : string array) (i : int ref) : resp option =
  let k = t.(!i) in incr i;
  match k with
  | "X" -> None
  | "U" -> Some RUnit
  | "E" -> let m = int_of_string t.(!i) in incr i; Some (RErr (n_of_int m))
  | "O" -> Some (RPoll PTimedOut)
  | "I" -> Some (RPoll PInterrupted)
  | "D" ->
    let n = int_of_string t.(!i) in incr i;
    let ds = List.init n (fun _ -> let d = t.(!i) in incr i; if d = "K" then DKbd else DTab) in
    Some (RPoll (PDeviceEvent ds))
  | "B" -> (match c with CNextKbd -> Some (RKbd NBusy) | _ -> Some (RTab NBusy))
  | "N" -> (match c with CNextKbd -> Some (RKbd NEnd) | _ -> Some (RTab NEnd))
  | "1" -> Some (RTab (NOne true))
  | "0" -> Some (RTab (NOne false))
  | s -> Some (RKbd (NOne (ev_of_tok s)))

let read_case (ic : in_channel) : case option =
  let rec first () =
    match input_line ic with
    | exception End_of_file -> None
    | l -> if String.length l >= 5 && String.sub l 0 5 = "CASE " then Some l else first () in
  match first () with
  | None -> None
  | Some hdr ->
    let ht = split_ws hdr in
    let maps = ref [] and mlines = ref [] and recs = ref [] and out = ref "" and unread = ref 0 in
    let rm = Hashtbl.create 16 in
    let fin = ref false in
    while not !fin do
      let l = input_line ic in
      let t = split_ws l in
      if Array.length t = 0 then ()
      else match t.(0) with
        | "M" -> maps := parse_mapping t :: !maps; mlines := l :: !mlines
        | "T" ->
          let enter = int_of_string t.(1) and exit_ = int_of_string t.(2) in
          let i = ref 3 in
          let c = parse_call t i in
          if t.(!i) <> "|" then failwith "bad T line";
          incr i;
          let r = parse_resp c t i in
          recs := { call = c; resp = r; enter; exit_ } :: !recs
        | "RM" ->
          let idx = int_of_string t.(1) and n = int_of_string t.(2) in
          Hashtbl.replace rm idx (List.init n (fun k -> ev_of_tok t.(3 + k)))
        | "OUT" -> out := String.concat " " (List.tl (Array.to_list t))
        | "UNREAD" -> unread := int_of_string t.(1)
        | "END" -> fin := true
        | _ -> ()
    done;
    Some { id = ht.(1); tag = ht.(2); header = hdr; layout = List.rev !maps; layout_lines = List.rev !mlines;
           recs = Array.of_list (List.rev !recs); out = !out; unread = !unread; rm }

(* ---------- printing ---------- *)

let ms_str (ns : z) : string =
  let s = string_of_z ns in
  let neg = String.length s > 0 && s.[0] = '-' in
  let s = if neg then String.sub s 1 (String.length s - 1) else s in
  let s = if String.length s < 7 then String.make (7 - String.length s) '0' ^ s else s in
  let l = String.length s in
  (if neg then "-" else "") ^ String.sub s 0 (l - 6) ^ "." ^ String.sub s (l - 6) 3 ^ "ms"

let call_str (c : call) : string =
  match c with
  | CRegister -> "reg"
  | CNow -> "now"
  | CPoll None -> "poll(-)"
  | CPoll (Some t) -> "poll(" ^ ms_str t ^ ")"
  | CNextKbd -> "kbd"
  | CNextTab -> "tab"
  | CSend evs -> "send[" ^ evs_str evs ^ "]"
  | CSleep ms -> "sleep(" ^ string_of_z ms ^ "ms)"

let resp_str (r : resp option) : string =
  match r with
  | None -> "X"
  | Some RUnit -> "U"
  | Some (RNow t) -> "t" ^ string_of_z t
  | Some (RPoll PTimedOut) -> "O"
  | Some (RPoll PInterrupted) -> "I"
  | Some (RPoll (PDeviceEvent ds)) -> "D[" ^ String.concat "," (List.map (fun d -> match d with DKbd -> "K" | DTab -> "T") ds) ^ "]"
  | Some (RKbd NBusy) | Some (RTab NBusy) -> "B"
  | Some (RKbd NEnd) | Some (RTab NEnd) -> "N"
  | Some (RKbd (NOne e)) -> ev_str e
  | Some (RTab (NOne b)) -> if b then "1" else "0"
  | Some (RErr m) -> "E" ^ string_of_int (int_of_n m)

let script_str (c : case) (upto : int) : string =
  let b = Buffer.create 256 in
  Array.iteri (fun i r ->
      if i <= upto then begin
        if i > 0 then Buffer.add_char b ' ';
        Buffer.add_string b (call_str r.call); Buffer.add_string b "=>"; Buffer.add_string b (resp_str r.resp)
      end) c.recs;
  Buffer.contents b

let clause_name = function
  | L_C10_sends -> "C10.sends"
  | L_C10_unread -> "C10.unread"
  | L_C10_end -> "C10.end"
  | L_C11_only_then -> "C11.only_then"
  | L_C11_chord -> "C11.chord"
  | L_C11_schedule -> "C11.schedule"
  | L_C11_cancel -> "C11.cancel"
  | L_C12_on_releases_all -> "C12.on_releases_all"
  | L_C12_silent -> "C12.silent"
  | L_C12_off_fresh -> "C12.off_fresh"
  | L_C20_stops -> "C20.stops"

let device_clause_name = function
  | D_stuck -> "C01.device"
  | D_step -> "C02.device"
  | D_redundant -> "C19.device"

let device_clause_text = function
  | D_stuck -> "no_key_is_physically_held_but_the_acknowledged_sends_leave_a_key_down_on_the_virtual_keyboard"
  | D_step -> "the_keys_down_on_the_virtual_keyboard_after_the_acknowledged_sends_are_not_the_held_set_of_the_specification_mapper"
  | D_redundant -> "this_send_presses_a_key_that_is_down_on_the_virtual_keyboard_or_releases_one_that_is_up"

let outcome_of_real (s : string) : outcome =
  let t = split_ws s in
  match t.(0) with
  | "ok" -> Returned_ok
  | "starved" -> Starved
  | "panic" -> Panicked
  | "err" -> (match int_of_string_opt t.(1) with Some k -> Returned_err (n_of_int k) | None -> Returned_err (n_of_int 999_999_999))
  | _ -> Mismatch

let outcome_str (o : outcome) : string =
  match o with
  | Returned_ok -> "ok"
  | Returned_err m -> "err " ^ string_of_int (int_of_n m)
  | Starved -> "starved"
  | Mismatch -> "mismatch"
  | Panicked -> "panic"

(* ---------- observations per property (lists of tokens) ---------- *)

type ent = call * resp option

let is_err (r : resp option) = match r with Some (RErr _) -> true | _ -> false

(* prefix before the first Err answer *)
let rec before_err (l : ent list) : ent list =
  match l with
  | [] -> []
  | (c, r) :: t -> if is_err r then [] else (c, r) :: before_err t

let obs_c10 (l : ent list) : string list =
  let rec go l prev_tick notified acc =
    match l with
    | [] -> List.rev acc
    | (c, r) :: t ->
      (match c, r with
       | CNextTab, Some (RTab (NOne _)) -> List.rev acc           (* tablet involvement: C12 *)
       | CNextKbd, Some (RKbd (NOne e)) -> go t false notified (("K:" ^ ev_str e) :: acc)
       | CNextKbd, Some (RKbd NBusy) -> go t false (List.filter (fun d -> d <> DKbd) notified) acc
       | CNextTab, Some (RTab NBusy) -> go t false (List.filter (fun d -> d <> DTab) notified) acc
       | CNextKbd, Some (RKbd NEnd) | CNextTab, Some (RTab NEnd) ->
         List.rev (("AFTER-END:" ^ string_of_int (List.length t)) :: "END" :: acc)
       | CSend evs, _ -> if prev_tick then go t false notified acc else go t false notified (("S:" ^ evs_str evs) :: acc)
       | CPoll _, _ ->
         let tok = if notified = [] then "P" else "P-UNREAD" in
         let notified' = (match r with Some (RPoll (PDeviceEvent ds)) -> ds | _ -> notified) in
         go t (r = Some (RPoll PTimedOut)) notified' (tok :: acc)
       | _, _ -> go t false notified acc) in
  go (before_err l) false [] []

let obs_c11 (l : ent list) : string list =
  let rec go l prev_tick acc =
    match l with
    | [] -> List.rev acc
    | (c, r) :: t ->
      (match c, r with
       | CPoll to_, _ ->
         let tick = (r = Some (RPoll PTimedOut)) in
         (match to_ with
          | None -> go t tick acc
          | Some _ -> go t tick ((if tick then [ "O"; "P:some" ] else [ "P:some" ]) @ acc))
       | CSend evs, _ -> if prev_tick then go t false (("S:" ^ evs_str evs) :: acc) else go t false acc
       | _, _ -> go t false acc) in
  go (before_err l) false []

let obs_c12 (l : ent list) : string list =
  let rec go l tab prev_tab acc =
    match l with
    | [] -> List.rev acc
    | (c, r) :: t ->
      (match c, r with
       | CNextTab, Some (RTab (NOne b)) -> go t b true (("T:" ^ (if b then "1" else "0")) :: acc)
       | CSend evs, _ ->
         if prev_tab then go t tab false (("S:" ^ evs_str evs) :: acc)
         else if tab then go t tab false (("SILENT:" ^ evs_str evs) :: acc)
         else go t tab false acc
       | _, _ -> go t tab false acc) in
  go (before_err l) false false []

let obs_c20 (l : ent list) (out : string) : string list =
  let rec go l =
    match l with
    | [] -> []
    | (c, r) :: t -> if is_err r then [ "AFTER-ERR:" ^ string_of_int (List.length t); "OUT:" ^ out ] else go t in
  go l

(* ---------- one case ---------- *)

let tol_ns = 5_000_000

let check_case (c : case) (findings : Buffer.t) : int * int * bool =
  (* returns (calls, model steps, nontrivial) *)
  let n = Array.length c.recs in
  let win_lo j = if j = 0 then c.recs.(0).enter else c.recs.(j - 1).exit_ in
  let win_hi j = c.recs.(j).enter in
  let defined = ref false in
  let define () =
    if not !defined then begin
      defined := true;
      Buffer.add_string findings
        (Printf.sprintf "CASEDEF case=%s tag=%s layout=%s script=%s\n" c.id c.tag
           (String.concat " ; " c.layout_lines) (script_str c (n - 1)))
    end in
  if not (x_for_layout_ok c.layout) then begin
    if c.out <> "panic" then begin
      define ();
      Buffer.add_string findings
        (Printf.sprintf "DIFF case=%s class=OUTCOME at=0 impl=%s model=panic(for_layout)\n" c.id c.out)
    end;
    (n, 0, false)
  end else begin
    (* 1. the extracted checkers on the REAL transcript *)
    let answered = List.filter (fun (_, r) -> r.resp <> None) (List.mapi (fun j r -> (j, r)) (Array.to_list c.recs)) in
    let tr = List.map (fun (j, r) ->
        { te_call = r.call; te_resp = (match r.resp with Some x -> x | None -> RUnit);
          te_lo = z_of_int (win_lo j); te_hi = z_of_int (win_hi j) }) answered in
    let hits = x_check_transcript c.layout (z_of_int tol_ns) tr in
    let seen = Hashtbl.create 8 in
    (* a send that differs from the MODEL mapper's step output but is exactly what the REAL mapper returned for the
       read before it (RM lines; or no send where the real mapper returned nothing): the loop transported its mapper
       faithfully, the mapper differs from its model - the mapper engine's business, reported here as a difference
       of class MAPPER_MODEL (which no loop property observes), not as a failure of C10 / C12 *)
    let transported (j : int) : bool =
      let observed = (match c.recs.(j).call with CSend evs -> evs | _ -> []) in
      let rec last_read i = if i < 0 then None else if Hashtbl.mem c.rm i then Some i else
          (match c.recs.(i).call with CSend _ -> last_read (i - 1) | _ -> if i = j then last_read (i - 1) else None) in
      (match last_read (j - 1) with
       | Some i -> Hashtbl.find c.rm i = observed
       | None -> false) in
    List.iter (fun (idx, cl) ->
        let name = clause_name cl in
        let j = int_of_n idx in
        if (cl = L_C10_sends || cl = L_C12_off_fresh) && j < Array.length c.recs && transported j then begin
          if not (Hashtbl.mem seen ("MM" ^ name)) then begin
            Hashtbl.add seen ("MM" ^ name) ();
            define ();
            Buffer.add_string findings
              (Printf.sprintf "DIFF case=%s class=MAPPER_MODEL at=%d impl=%s model=%s_expected_by_the_model_mapper(the_loop_wrote_what_the_real_mapper_returned)\n"
                 c.id j (call_str c.recs.(j).call) name)
          end
        end else
        if not (Hashtbl.mem seen name) then begin
          Hashtbl.add seen name ();
          define ();
          let r = c.recs.(j) in
          Buffer.add_string findings
            (Printf.sprintf "MONITOR case=%s clause=%s index=%d observed=%s=>%s\n" c.id name j (call_str r.call) (resp_str r.resp))
        end) hits;
    let real_out = outcome_of_real c.out in
    List.iter (fun cl ->
        let name = clause_name cl in
        if not (Hashtbl.mem seen name) then begin
          Hashtbl.add seen name ();
          define ();
          Buffer.add_string findings
            (Printf.sprintf "MONITOR case=%s clause=%s index=%d observed=returned:%s\n" c.id name (n - 1) (String.concat "_" (Array.to_list (split_ws c.out))))
        end) (x_check_outcome tr real_out);
    (* 1b. the device-level monitor (LoopDevice.device_check) on the REAL transcript: what the acknowledged sends
       leave held on the virtual keyboard against the specification mapper for the inputs the transcript implies *)
    let dtr = List.map (fun (_, r) -> (r.call, (match r.resp with Some x -> x | None -> RUnit))) answered in
    let aidx = Array.of_list (List.map fst answered) in
    (* did the loop write exactly what its (real) Mapper returned - every non-empty answer of the real Mapper written as
       the next call, every send that is not a timer chord being such an answer?  Then a disagreement between the
       device and the MODEL mapper is the mapper's (mapper engine, class MAPPER_MODEL here), not the loop's. *)
    let faithful =
      Hashtbl.length c.rm > 0
      && Hashtbl.fold (fun i evs acc -> acc && (evs = [] || (i + 1 < n && (match c.recs.(i + 1).call with CSend e -> e = evs | _ -> false)))) c.rm true
      && (let ok = ref true in
          Array.iteri (fun j r ->
              match r.call with
              | CSend _ ->
                let after_tick = j > 0 && (match c.recs.(j - 1).call, c.recs.(j - 1).resp with CPoll _, Some (RPoll PTimedOut) -> true | _, _ -> false) in
                (* a timer chord must at least have the shape of one: keys pressed, then released in reverse order *)
                let chord_shaped evs =
                  let nn = List.length evs in
                  nn mod 2 = 0 &&
                  (let rec take k l = if k = 0 then [] else (match l with [] -> [] | x :: t -> x :: take (k - 1) t) in
                   let rec drop k l = if k = 0 then l else (match l with [] -> [] | _ :: t -> drop (k - 1) t) in
                   let ps = take (nn / 2) evs and rs = drop (nn / 2) evs in
                   List.for_all (fun e -> match e with Pressed _ -> true | _ -> false) ps
                   && rs = List.rev_map (fun e -> match e with Pressed k -> Released k | x -> x) ps) in
                if after_tick then (match r.call with CSend evs -> if not (chord_shaped evs) then ok := false | _ -> ())
                else if not (transported j) then ok := false
              | _ -> ()) c.recs;
          !ok) in
    List.iter (fun (idx, cl) ->
        let name = device_clause_name cl in
        if faithful then begin
          if not (Hashtbl.mem seen ("MM" ^ name)) then begin
            Hashtbl.add seen ("MM" ^ name) ();
            define ();
            Buffer.add_string findings
              (Printf.sprintf "DIFF case=%s class=MAPPER_MODEL at=%d impl=the_loop_wrote_what_the_real_mapper_returned model=%s_of_the_model_mapper\n" c.id (aidx.(int_of_n idx)) name)
          end
        end else
        if not (Hashtbl.mem seen name) then begin
          Hashtbl.add seen name ();
          define ();
          let j = aidx.(int_of_n idx) in
          let r = c.recs.(j) in
          Buffer.add_string findings
            (Printf.sprintf "MONITOR case=%s clause=%s index=%d observed=%s=>%s:%s\n" c.id name j (call_str r.call) (resp_str r.resp)
               (device_clause_text cl))
        end) (x_device_check c.layout dtr);
    (* 2. the model on the same answers *)
    let resps = ref [] in            (* reversed *)
    let mcalls = ref [] in           (* reversed: (call, real index or -1, tolerance ns) *)
    let j = ref 0 in                 (* next real record *)
    let steps = ref 0 in
    let arm_unc = ref 0 in
    let cur_unc = ref 0 in
    let divergence = ref None in
    let last_time () = if n = 0 then 0 else if !j < n then c.recs.(!j).enter else c.recs.(n - 1).exit_ in
    let width () = if !j < n && !j > 0 then c.recs.(!j).enter - c.recs.(!j - 1).exit_ else 0 in
    let rec drive (p : point) (st : lstate) : outcome =
      let call = x_pending p in
      incr steps;
      let answer (r : resp) = resps := r :: !resps; (match x_resume c.layout p st r with Go (p', st') -> drive p' st' | Stop o -> o) in
      match call with
      | CNow ->
        mcalls := (call, -1, 0) :: !mcalls;
        (match p with
         | PNowStep _ -> arm_unc := width (); cur_unc := 0
         | _ -> cur_unc := width ());
        answer (RNow (z_of_int (last_time ())))
      | CSleep ms ->
        mcalls := (call, -1, 0) :: !mcalls;
        let gap = if !j < n && !j > 0 then c.recs.(!j).enter - c.recs.(!j - 1).exit_ else max_int in
        let need = x_zmul ms (z_of_int 1_000_000) in
        if x_zltb (z_of_int gap) need && !divergence = None then
          divergence := Some ("CALLS", !j, "no sleep of " ^ string_of_z ms ^ " ms before this call", call_str call);
        answer RUnit
      | _ ->
        mcalls := (call, !j, !arm_unc + !cur_unc + tol_ns) :: !mcalls;
        if !j >= n then Starved     (* the real loop made no further call *)
        else begin
          let r = c.recs.(!j) in
          let same_kind =
            (match call, r.call with
             | CRegister, CRegister | CNextKbd, CNextKbd | CNextTab, CNextTab | CPoll _, CPoll _ -> true
             | CSend a, CSend b -> a = b
             | _, _ -> false) in
          if not same_kind then begin
            if !divergence = None then divergence := Some ("CALLS", !j, call_str r.call, call_str call);
            Mismatch
          end else begin
            incr j;
            match r.resp with
            | None -> Starved
            | Some x -> answer x
          end
        end in
    let o_inc = drive PRegister x_linit in
    ignore o_inc;
    let rs = List.rev !resps in
    (* the object compared is Loop.run itself, on the complete answer list *)
    let (calls_m, out_m) = x_run c.layout rs in
    let real_calls = Array.to_list (Array.map (fun r -> r.call) c.recs) in
    let model_driver_calls = List.filter (fun x -> match x with CNow | CSleep _ -> false | _ -> true) calls_m in
    let diff cls at impl model =
      define ();
      Buffer.add_string findings (Printf.sprintf "DIFF case=%s class=%s at=%d impl=%s model=%s\n" c.id cls at impl model) in
    (* CALLS *)
    let rec cmp_calls i a b =
      match a, b with
      | [], [] -> None
      | x :: a', y :: b' ->
        let same = (match x, y with CPoll _, CPoll _ -> true | _, _ -> x = y) in
        if same then cmp_calls (i + 1) a' b' else Some (i, call_str x, call_str y)
      | x :: _, [] -> Some (i, call_str x, "(no call)")
      | [], y :: _ -> Some (i, "(no call)", call_str y) in
    let div : int option =
      (match !divergence with
       | Some (cls, at, impl, model) -> diff cls at impl model; Some at
       | None ->
         (match cmp_calls 0 real_calls model_driver_calls with
          | Some (i, a, b) -> diff "CALLS" i a b; Some i
          | None -> None)) in
    let before_div idx = (match div with None -> true | Some d -> idx < d) in
    (* TIMEOUT *)
    let timeout_diffs = ref 0 in
    List.iter (fun (call, idx, tol) ->
        if idx >= 0 && idx < n && before_div idx && !timeout_diffs = 0 then
          match call, c.recs.(idx).call with
          | CPoll None, CPoll None -> ()
          | CPoll (Some a), CPoll (Some b) ->
            if x_zltb (z_of_int tol) (zabs (x_zsub a b)) then begin
              incr timeout_diffs;
              diff "TIMEOUT" idx (call_str (CPoll (Some b))) (call_str (CPoll (Some a)) ^ "+-" ^ ms_str (z_of_int tol))
            end
          | CPoll a, CPoll b ->
            incr timeout_diffs;
            diff "TIMEOUT" idx (call_str (CPoll b)) (call_str (CPoll a))
          | _, _ -> ()) (List.rev !mcalls);
    (* OUTCOME *)
    let out_m_s = outcome_str out_m in
    let out_i_s = outcome_str real_out in
    if div = None && out_m_s <> out_i_s then diff "OUTCOME" (n - 1) c.out out_m_s;
    (* C14: a layout that loading accepts runs without crashing - the event loop included.  With repeat timings that are
       not negative the loop never panics (theorem C14_event_loop_does_not_panic); a panic of the REAL loop on such a
       layout is a failure of C14 whatever the model's own outcome *)
    let nonneg = List.for_all (fun m -> match m.m_repeat with
        | RSpecial (_, d, iv) -> not (x_zltb d Z0) && not (x_zltb iv Z0)
        | _ -> true) c.layout in
    if nonneg && outcome_str real_out = "panic" && not (Hashtbl.mem seen "C14.loop_panic") then begin
      Hashtbl.add seen "C14.loop_panic" ();
      define ();
      Buffer.add_string findings
        (Printf.sprintf "MONITOR case=%s clause=C14.loop_panic index=%d observed=the_event_loop_panicked expected=Ok_or_Err\n" c.id (max 0 (n - 1)))
    end;
    (* per-property observations *)
    (* the payload of a send that directly follows a read is abstracted to "what the mapper returned for that read"
       when it is exactly that (real side: the RM lines of the real Mapper; model side: always, by
       C10_step_output_sent_at_once): the loop observations then do not depend on the mapper's choice of event order
       inside a batch, which is the mapper properties' business (mapper engine) *)
    let marker = [ Pressed N0 ] in
    let real_ents : ent list = Array.to_list (Array.mapi (fun j r ->
        (match r.call with
         | CSend evs when j > 0 && evs <> [] && Hashtbl.mem c.rm (j - 1) && Hashtbl.find c.rm (j - 1) = evs -> (CSend marker, r.resp)
         | _ -> (r.call, r.resp))) c.recs) in
    let model_ents : ent list =
      let rec zip cs rs =
        match cs, rs with
        | [], _ -> []
        | c :: cs', [] -> (c, None) :: zip cs' []
        | c :: cs', r :: rs' -> (c, Some r) :: zip cs' rs' in
      let l = List.filter (fun (c, _) -> match c with CNow | CSleep _ -> false | _ -> true) (zip calls_m rs) in
      let rec abs prev l =
        match l with
        | [] -> []
        | ((CSend evs, r) as _x) :: t when evs <> [] && prev -> (CSend marker, r) :: abs false t
        | ((cl, r) as x) :: t ->
          let is_read = (match cl, r with
              | CNextKbd, Some (RKbd (NOne _)) -> true
              | CNextTab, Some (RTab (NOne _)) -> true
              | _, _ -> false) in
          x :: abs is_read t in
      abs false l in
    let rec cut (k : int) (l : ent list) : ent list =
      match l with
      | [] -> []
      | (c, r) :: t -> if k = 0 then [ (c, None) ] else (c, r) :: cut (k - 1) t in
    let real_ents = (match div with Some d -> cut d real_ents | None -> real_ents) in
    let model_ents = (match div with Some d -> cut d model_ents | None -> model_ents) in
    let (out_i_s, out_m_s) = (match div with Some _ -> ("-", "-") | None -> (out_i_s, out_m_s)) in
    let cmp_obs cls (a : string list) (b : string list) =
      if a <> b then begin
        let rec first i a b =
          match a, b with
          | x :: a', y :: b' -> if x = y then first (i + 1) a' b' else (i, x, y)
          | x :: _, [] -> (i, x, "(nothing)")
          | [], y :: _ -> (i, "(nothing)", y)
          | [], [] -> (i, "", "") in
        let (i, x, y) = first 0 a b in
        diff cls i x y
      end in
    cmp_obs "OBS_C10" (obs_c10 real_ents) (obs_c10 model_ents);
    cmp_obs "OBS_C11" (obs_c11 real_ents) (obs_c11 model_ents);
    cmp_obs "OBS_C12" (obs_c12 real_ents) (obs_c12 model_ents);
    cmp_obs "OBS_C20" (obs_c20 real_ents out_i_s) (obs_c20 model_ents out_m_s);
    let nontrivial = List.exists (fun r -> match r.call with CSend _ -> true | _ -> false) (Array.to_list c.recs) in
    (n, !steps, nontrivial)
  end

let () =
  let path = Sys.argv.(1) in
  let ic = open_in path in
  let cases = ref 0 and calls = ref 0 and steps = ref 0 and nontriv = ref 0 and faults = ref 0 in
  let sends = ref 0 and ticks = ref 0 and tabs = ref 0 and kreads = ref 0 and late = ref 0 in
  let distinct : (string, unit) Hashtbl.t = Hashtbl.create 1024 in
  let samples = ref 0 in
  let rec loop () =
    match read_case ic with
    | None -> ()
    | Some c ->
      incr cases;
      let f = Buffer.create 256 in
      let (n, s, nt) = (try check_case c f with e ->
          Buffer.add_string f (Printf.sprintf "CHECKER-EXCEPTION case=%s %s\n" c.id (Printexc.to_string e)); (0, 0, false)) in
      calls := !calls + n; steps := !steps + s;
      if String.contains c.id 'f' then incr faults;
      Array.iter (fun r ->
          (match r.call, r.resp with
           | CSend _, _ -> incr sends
           | CPoll (Some t), Some (RPoll PTimedOut) -> incr ticks; if t = z_of_int 1_000_000 then incr late
           | CNextTab, Some (RTab (NOne _)) -> incr tabs
           | CNextKbd, Some (RKbd (NOne _)) -> incr kreads
           | _, _ -> ())) c.recs;
      if nt then begin
        let key = Digest.string (String.concat ";" c.layout_lines ^ "#" ^
                                 String.concat " " (Array.to_list (Array.map (fun r -> call_str (match r.call with CPoll (Some _) -> CPoll (Some Z0) | x -> x) ^ resp_str r.resp) c.recs))) in
        if not (Hashtbl.mem distinct key) then begin Hashtbl.add distinct key (); incr nontriv end
      end;
      if !samples < 2 && nt && Array.length c.recs > 8 && Array.length c.recs < 40 && not (String.contains c.id 'f')
         && Array.exists (fun r -> r.resp = Some (RPoll PTimedOut)) c.recs then begin
        incr samples;
        Printf.printf "SAMPLE layout{%s} transcript{%s} returned{%s}\n" (String.concat " ; " c.layout_lines) (script_str c (Array.length c.recs - 1)) c.out
      end;
      print_string (Buffer.contents f);
      loop () in
  loop ();
  Printf.printf "SUMMARY file=%s cases=%d calls=%d model_steps=%d distinct_nontrivial=%d fault_runs=%d sends=%d ticks=%d late_ticks=%d tablet_events=%d key_reads=%d\n"
    path !cases !calls !steps !nontriv !faults !sends !ticks !late !tabs !kreads
