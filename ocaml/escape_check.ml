(* escape_check.ml — property C17 on the REAL unit text.

   Input (written by `tm-harness escape`, or by tools/engines/cli.py from the
   unit files the real binary installed): one case per line
     CASE <id> <tag> <pats> <text>
   <pats>: patterns separated by '|', each the '.'-separated hexadecimal scalar
           values of the pattern; '-' for the empty list
   <text>: hexadecimal bytes of what crate::udev_utils::verif_build_service_text
           returned for these patterns (or of the installed file), or PANIC

   For every case
     (a) class TEXT, the extracted EscapeSpec.text_class_ok on the REAL text:
         systemd finds exactly one ExecStart= assignment in [Service]
         (Systemd.service_exec_starts); its value ends, byte for byte, with what
         the model writes from the exclude region on (Escape.build_exclude_text,
         then " --dev-file /%I"); the part in front of that, read alone by
         systemd's rules, is an intact prefix (complete words, a program,
         --layout-file <path>, --only-if-keyboard, no --exclude) under both
         environments.  Otherwise                      -> DIFF ... class=TEXT
         (followed by an EXECSTART line that shows the two sides).  Theorems
         C17_text_class_on_model / C17_text_class_implies_check / C17_any_prefix
         are about exactly this comparison.  The other lines of the unit and
         the words of the front part are NOT compared; how many accepted real
         texts differ from the model's full text outside the ExecStart= line,
         and how many in the front part of that line, is counted (SUMMARY
         outside= prefixdiff=).
     (b) the REAL text is judged by the extracted EscapeSpec.c17_check
         (Systemd.service_exec_starts + Systemd.decode + the shape of the
         argument vector, no use of the escaper model), under an environment
         with no variable set and under one where every variable is set to
         "X Y", for the instance dev/input/event3
                                                       -> MONITOR ... clause=C17.roundtrip
   Theorem C17_check_on_model says (b) can never fire on the model's text, and
   C17_check_sound / C17_check_complete say (b) fires exactly when the text
   does not have the property; so a MONITOR line is a failure of the real code.

   Second mode:  escape_check --decode-lines FILE   (decoder validation)
     each line: hexadecimal bytes of an ExecStart= value; answer per line
     ACCEPT <argv> | REJECT, decided by Systemd.decode with no variable set.
   Third mode:   escape_check --exec-starts FILE    (unit reader validation)
     each line: hexadecimal bytes of a unit file; answer per line
     UNLOADABLE | EXECSTARTS <n> <hex value, '-' for an empty one>... *)

open Model

let rec pos_of_int (i : int) : positive =
  if i = 1 then XH
  else if i land 1 = 0 then XO (pos_of_int (i lsr 1))
  else XI (pos_of_int (i lsr 1))

let n_of_int_raw (i : int) : n = if i = 0 then N0 else Npos (pos_of_int i)
let small : n array = Array.init 256 n_of_int_raw
let n_of_int (i : int) : n = if i >= 0 && i < 256 then small.(i) else n_of_int_raw i

let rec int_of_pos (p : positive) : int =
  match p with XH -> 1 | XO q -> 2 * int_of_pos q | XI q -> 2 * int_of_pos q + 1

let int_of_n (x : n) : int = match x with N0 -> 0 | Npos p -> int_of_pos p

let hexval c =
  match c with
  | '0' .. '9' -> Char.code c - 48
  | 'a' .. 'f' -> Char.code c - 87
  | 'A' .. 'F' -> Char.code c - 55
  | _ -> failwith "bad hex digit"

let bytes_of_hex (s : string) : int list =
  let n = String.length s in
  if n land 1 = 1 then failwith "odd hex length";
  List.init (n / 2) (fun i -> hexval s.[2 * i] * 16 + hexval s.[2 * i + 1])

let hex_of_bytes (l : int list) : string =
  let b = Buffer.create (2 * List.length l) in
  List.iter (fun x -> Buffer.add_string b (Printf.sprintf "%02x" (x land 255))) l;
  Buffer.contents b

let parse_pats (s : string) : int list list =
  if s = "-" then []
  else
    List.map
      (fun p -> if p = "" then [] else List.map (fun h -> int_of_string ("0x" ^ h)) (String.split_on_char '.' p))
      (String.split_on_char '|' s)

(* human-readable rendering of bytes: printable ASCII as is, the rest \xNN *)
let show_bytes (l : int list) : string =
  let b = Buffer.create 64 in
  List.iter
    (fun x ->
      if x >= 33 && x < 127 && x <> 92 then Buffer.add_char b (Char.chr x)
      else Buffer.add_string b (Printf.sprintf "\\x%02x" x))
    l;
  Buffer.contents b

let show_pat (p : int list) : string = String.concat "," (List.map (fun c -> Printf.sprintf "U+%04X" c) p)

let to_n (l : int list) : n list = List.map n_of_int l
let of_n (l : n list) : int list = List.map int_of_n l

let str_bytes (s : string) : int list = List.init (String.length s) (fun i -> Char.code s.[i])

let instance = to_n (str_bytes "dev/input/event3")
let env_none : n list -> n list option = fun _ -> None
let env_poison : n list -> n list option =
  let v = to_n (str_bytes "X Y") in
  fun _ -> Some v

(* first index where two argument vectors differ *)
let first_diff (a : int list list) (b : int list list) : string =
  let rec go i a b =
    match (a, b) with
    | [], [] -> "none"
    | x :: a', y :: b' ->
        if x = y then go (i + 1) a' b'
        else Printf.sprintf "arg[%d] got=%s want=%s" i (show_bytes x) (show_bytes y)
    | [], y :: _ -> Printf.sprintf "arg[%d] missing want=%s" i (show_bytes y)
    | x :: _, [] -> Printf.sprintf "arg[%d] extra got=%s" i (show_bytes x)
  in
  go 0 a b

let max_report = 40

let run_cases (file : string) : unit =
  let ic = open_in file in
  let cases = ref 0 and patterns = ref 0 and scalars = ref 0 and diffs = ref 0 and hits = ref 0 in
  let skipped = ref 0 and nontrivial = ref 0 and validated = ref 0 and samples = ref 0 and outside = ref 0 and prefixdiff = ref 0 in
  (try
     while true do
       let line = input_line ic in
       if String.length line > 5 && String.sub line 0 5 = "CASE " then begin
         match String.split_on_char ' ' line with
         | [ _; id; tag; pats_s; text_s ] ->
             incr cases;
             let pats = parse_pats pats_s in
             let npats = List.map to_n pats in
             patterns := !patterns + List.length pats;
             List.iter (fun p -> scalars := !scalars + List.length p) pats;
             (* non-trivial: some scalar is not copied literally by the escaper, or more than one pattern *)
             if List.length pats <> 1
                || List.exists (fun p -> List.exists (fun c -> c < 48 || (c > 57 && c < 65) || (c > 90 && c < 97) || c > 122) p) pats
             then incr nontrivial;
             let model_text = of_n (x_utf8 (x_build_service_text npats)) in
             let model_exec = of_n (x_utf8 (x_exec_line npats)) in
             let panic = text_s = "PANIC" in
             let real_text = if panic then [] else bytes_of_hex text_s in
             let nreal = to_n real_text in
             let real_execs = if panic then None else (match x_service_exec_starts nreal with None -> None | Some l -> Some (List.map of_n l)) in
             let text_ok = (not panic) && x_text_class_ok instance env_none npats nreal && x_text_class_ok instance env_poison npats nreal in
             if not text_ok then begin
               incr diffs;
               if !diffs <= max_report then begin
                 Printf.printf "DIFF id=%s tag=%s class=TEXT pats=%s impl=%s model=%s\n" id tag pats_s
                   (if panic then "PANIC" else hex_of_bytes real_text)
                   (hex_of_bytes model_text);
                 Printf.printf "EXECSTART id=%s impl=%s model=%s\n" id
                   (if panic then "PANIC"
                    else match real_execs with
                      | None -> "UNLOADABLE"
                      | Some [] -> "NONE"
                      | Some l -> String.concat "," (List.map (fun v -> if v = [] then "-" else hex_of_bytes v) l))
                   (hex_of_bytes model_exec)
               end
             end
             else begin
               incr validated;
               if real_execs <> Some [ model_exec ] then incr prefixdiff
               else if real_text <> model_text then incr outside
             end;
             let hyp = List.for_all (fun p -> p <> [] && List.for_all (fun c -> x_scalar_okb (n_of_int c)) p) pats in
             if not hyp then incr skipped
             else begin
               let check name env =
                 if panic || not (x_c17_check instance env npats nreal) then begin
                   incr hits;
                   if !hits <= max_report then begin
                     let suffix = List.map of_n (x_required_suffix instance npats) in
                     let observed =
                       if panic then "PANIC"
                       else
                         match real_execs with
                         | None -> "UNLOADABLE(systemd would not load this unit text)"
                         | Some [] -> "NO-EXECSTART(systemd finds no ExecStart= assignment in [Service])"
                         | Some (_ :: _ :: _ as l) -> Printf.sprintf "%d-EXECSTART-ASSIGNMENTS(systemd finds more than one ExecStart= assignment in [Service])" (List.length l)
                         | Some [ _ ] -> (
                             match x_read_unit instance env nreal with
                             | None -> "REJECTED(systemd would not run exactly one command from this ExecStart= line)"
                             | Some argv ->
                                 let a = List.map of_n argv in
                                 let la = List.length a and ls = List.length suffix in
                                 let rec drop n l = if n <= 0 then l else match l with [] -> [] | _ :: t -> drop (n - 1) t in
                                 let rec take n l = if n <= 0 then [] else match l with [] -> [] | x :: t -> x :: take (n - 1) t in
                                 let n = if la > ls then la - ls else 0 in
                                 let tail = drop n a in
                                 if tail <> suffix then
                                   Printf.sprintf "argc=%d;argv-does-not-end-with-the-%d-required-arguments;counted-from-arg[%d]:%s" la ls n
                                     (String.map (fun c -> if c = ' ' then '_' else c) (first_diff tail suffix))
                                 else
                                   Printf.sprintf "argc=%d;exclude-arguments-as-required;arguments-in-front-of-them-not-intact:%s" la
                                     (String.concat "," (List.map (fun w -> "[" ^ show_bytes w ^ "]") (take n a))))
                     in
                     Printf.printf "MONITOR id=%s tag=%s clause=C17.roundtrip pats=%s env=%s observed=%s text=%s\n" id tag
                       pats_s name observed
                       (if panic then "PANIC" else hex_of_bytes real_text)
                   end
                 end
               in
               check "none" env_none;
               check "all-set" env_poison
             end;
             if !samples < 2 && (tag = "random" || tag = "hand") && List.length pats >= 1 && List.length pats <= 2 && List.exists (fun p -> List.length p > 2) pats && not panic then begin
               incr samples;
               (* the ExecStart line of the real text, printable *)
               let txt = String.concat "" (List.map (fun x -> String.make 1 (Char.chr x)) real_text) in
               let lines = String.split_on_char '\n' txt in
               let ex = try List.find (fun l -> String.length l > 10 && String.sub l 0 10 = "ExecStart=") lines with Not_found -> "?" in
               Printf.printf "SAMPLE tag=%s patterns=[%s] real unit line: %s\n" tag
                 (String.concat " | " (List.map show_pat pats))
                 (String.concat "" (List.map (fun c -> let x = Char.code c in if x >= 32 && x < 127 then String.make 1 c else Printf.sprintf "<%02x>" x) (List.init (String.length ex) (String.get ex))))
             end
         | _ -> failwith ("malformed case line: " ^ String.sub line 0 (min 80 (String.length line)))
       end
     done
   with End_of_file -> ());
  close_in ic;
  Printf.printf "SUMMARY cases=%d patterns=%d scalars=%d diffs=%d hits=%d skipped=%d nontrivial=%d validated=%d outside=%d prefixdiff=%d\n" !cases
    !patterns !scalars !diffs !hits !skipped !nontrivial !validated !outside !prefixdiff

let run_decode_lines (file : string) : unit =
  let ic = open_in file in
  (try
     while true do
       let line = String.trim (input_line ic) in
       if line <> "" then begin
         let bytes = to_n (bytes_of_hex (if line = "-" then "" else line)) in
         match x_decode instance env_none bytes with
         | None -> print_endline "REJECT"
         | Some argv -> Printf.printf "ACCEPT %s\n" (String.concat " " (List.map (fun a -> "[" ^ show_bytes (of_n a) ^ "]") argv))
       end
     done
   with End_of_file -> ());
  close_in ic

let run_exec_starts (file : string) : unit =
  let ic = open_in file in
  (try
     while true do
       let line = String.trim (input_line ic) in
       if line <> "" then begin
         let bytes = to_n (bytes_of_hex (if line = "-" then "" else line)) in
         match x_service_exec_starts bytes with
         | None -> print_endline "UNLOADABLE"
         | Some l -> Printf.printf "EXECSTARTS %d%s\n" (List.length l) (String.concat "" (List.map (fun v -> " " ^ (if v = [] then "-" else hex_of_bytes (of_n v))) l))
       end
     done
   with End_of_file -> ());
  close_in ic

let () =
  match Array.to_list Sys.argv with
  | [ _; "--decode-lines"; f ] -> run_decode_lines f
  | [ _; "--exec-starts"; f ] -> run_exec_starts f
  | [ _; f ] -> run_cases f
  | _ ->
      prerr_endline "usage: escape_check CASEFILE | escape_check --decode-lines FILE | escape_check --exec-starts FILE";
      exit 2
