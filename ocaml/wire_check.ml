(* wire_check.ml — model-side checker of the `wire` engine (property C18; the
   tablet-mode switch reader lines belong to property C12).

   Reads the case file written by `tm-harness wire` (real DevInputWriter::send
   and DevInputReader::next over pipes), and for every line
     - recomputes the observation with the extracted Coq model (Wire.v):
         DIFF class=WRITE       written bytes differ outside the time fields
         DIFF class=WRITE_TIME  written bytes differ only inside the time fields
         DIFF class=READ        events returned by the reader differ
         DIFF class=READ_SHORT  ... on a stream that is not a whole number of records
     - judges the REAL outputs with the extracted specification checkers
       (WireSpec.v: check_write, check_roundtrip, check_reader), which use
       neither the model's encoder nor its decoder:
         MONITOR clause=C18.length | C18.record | C18.syn | C18.roundtrip | C18.reader
     - compares every entry of the regenerated key table with the pinned kernel
       numbering:  MONITOR clause=C18.codes
     - on R lines checks that the bytes the harness built through
       libc::input_event are the bytes the specification gives the records
       (ASSUMPTION-FAIL otherwise: the layout assumed by model and spec is not
       the platform's).
     - T / Y lines (real TabletModeSwitchReader::next, property C12): the answers are
       compared with the extracted TabletWire.decode_tablet_run
         DIFF class=TABLET      On/Off events returned by the switch reader differ
       and judged by the extracted TabletWire.check_switch_reader (= the answer is
       TabletWire.tablet_events_of of the records; theorem C12_switch_reader_exact):
         MONITOR clause=C12.switch_reader
       (also when a call panics, on T and Y lines: C12_switch_reader_never_panics).
   One SUMMARY line with counts; TABLE line about the key table vs the pinned
   kernel numbering; a few SAMPLE lines. *)

open Model

let rec pos_of_int (i : int) : positive =
  if i = 1 then XH
  else if i land 1 = 0 then XO (pos_of_int (i lsr 1))
  else XI (pos_of_int (i lsr 1))

let n_of_int (i : int) : n = if i = 0 then N0 else Npos (pos_of_int i)

let rec int_of_pos (p : positive) : int =
  match p with XH -> 1 | XO q -> 2 * int_of_pos q | XI q -> 2 * int_of_pos q + 1

let int_of_n (x : n) : int = match x with N0 -> 0 | Npos p -> int_of_pos p

let z_of_int (i : int) : z =
  if i = 0 then Z0 else if i > 0 then Zpos (pos_of_int i) else Zneg (pos_of_int (- i))

let rec int_of_nat (x : nat) : int = match x with O -> 0 | S y -> 1 + int_of_nat y

let byte_n : n array = Array.init 256 n_of_int

let string_of_chars (l : char list) : string = String.init (List.length l) (List.nth l)

(* ---------- parsing ---------- *)

let split_ws (s : string) : string list = List.filter (fun x -> x <> "") (String.split_on_char ' ' s)

(* fields separated by " | " *)
let split_fields (s : string) : string list =
  List.map String.trim (Str.split_delim (Str.regexp_string " | ") s)

let hexval c =
  match c with
  | '0' .. '9' -> Char.code c - 48
  | 'a' .. 'f' -> Char.code c - 87
  | 'A' .. 'F' -> Char.code c - 55
  | _ -> failwith "bad hex digit"

let bytes_of_hex (h : string) : int list =
  if h = "-" || h = "" then []
  else begin
    let n = String.length h / 2 in
    List.init n (fun i -> 16 * hexval h.[2 * i] + hexval h.[2 * i + 1])
  end

let hex_of_bytes (b : int list) : string =
  if b = [] then "-" else String.concat "" (List.map (Printf.sprintf "%02x") b)

let ev_of_tok (s : string) : event =
  let c = int_of_string (String.sub s 1 (String.length s - 1)) in
  if s.[0] = 'P' then Pressed (n_of_int c) else Released (n_of_int c)

let tok_of_ev (e : event) : string =
  match e with Pressed k -> "P" ^ string_of_int (int_of_n k) | Released k -> "R" ^ string_of_int (int_of_n k)

let evs_str (l : event list) : string = String.concat " " (List.map tok_of_ev l)

(* "OK P1 R2" / "PANIC P1" *)
let parse_read_result (s : string) : bool * event list =
  match split_ws s with
  | "OK" :: t -> (false, List.map ev_of_tok t)
  | "PANIC" :: t -> (true, List.map ev_of_tok t)
  | _ -> failwith ("bad reader result: " ^ s)

let read_result_str (panicked, evs) = (if panicked then "PANIC" else "OK") ^ (if evs = [] then "" else " " ^ evs_str evs)

let model_read (bytes : int list) : bool * event list =
  let (evs, fin) = x_decode_run (List.map (fun b -> byte_n.(b)) bytes) in
  ((match fin with Drained -> false | Panicked -> true), evs)

(* "OK On Off" / "PANIC On" *)
let bool_of_tok (s : string) : bool =
  match s with "On" -> true | "Off" -> false | _ -> failwith ("bad switch event: " ^ s)

let parse_tablet_result (s : string) : bool * bool list =
  match split_ws s with
  | "OK" :: t -> (false, List.map bool_of_tok t)
  | "PANIC" :: t -> (true, List.map bool_of_tok t)
  | _ -> failwith ("bad switch reader result: " ^ s)

let sw_str (l : bool list) : string = String.concat " " (List.map (fun b -> if b then "On" else "Off") l)

let tablet_result_str (panicked, evs) = (if panicked then "PANIC" else "OK") ^ (if evs = [] then "" else " " ^ sw_str evs)

let model_tablet_read (bytes : int list) : bool * bool list =
  let (evs, fin) = x_decode_tablet_run (List.map (fun b -> byte_n.(b)) bytes) in
  ((match fin with Drained -> false | Panicked -> true), evs)

let raw_of_tok (s : string) : raw =
  match String.split_on_char ':' s with
  | [sec; usec; ty; code; v] ->
    x_mk_raw (z_of_int (int_of_string sec)) (z_of_int (int_of_string usec))
      (n_of_int (int_of_string ty)) (n_of_int (int_of_string code)) (z_of_int (int_of_string v))
  | _ -> failwith ("bad record: " ^ s)

let clause_name = function
  | K_length -> "C18.length"
  | K_record -> "C18.record"
  | K_syn -> "C18.syn"
  | K_roundtrip -> "C18.roundtrip"
  | K_reader -> "C18.reader"

(* zero the 16 time bytes of every 24-byte piece *)
let mask_time (b : int list) : int list = List.mapi (fun i x -> if i mod 24 < 16 then 0 else x) b

let clip s = if String.length s > 6000 then String.sub s 0 6000 ^ "..." else s

(* ---------- main ---------- *)

let () =
  let path = Sys.argv.(1) in
  let ic = open_in path in
  let cases = ref 0 and nw = ref 0 and nr = ref 0 and nx = ref 0 in
  let nt = ref 0 and ny = ref 0 and tablet_records = ref 0 and tablet_events = ref 0 and tablet_skipped = ref 0 and tsamples = ref 0 in
  let grid_single : (int * int * int, unit) Hashtbl.t = Hashtbl.create 512 in
  let diffs = ref 0 and hits = ref 0 and assumption_fails = ref 0 in
  let events_written = ref 0 and records_read = ref 0 and events_returned = ref 0 and foreign_skipped = ref 0 in
  let distinct : (string, unit) Hashtbl.t = Hashtbl.create 8192 in
  let nontrivial = ref 0 in
  let keys_single : (int * bool, unit) Hashtbl.t = Hashtbl.create 1024 in
  let samples = ref [] and wsamples = ref 0 and rsamples = ref 0 and xsamples = ref 0 in
  let note_case key nontriv =
    if not (Hashtbl.mem distinct key) then begin
      Hashtbl.add distinct key ();
      if nontriv then incr nontrivial
    end in
  let diff cls kind input impl model =
    incr diffs;
    Printf.printf "DIFF class=%s kind=%s input=%s impl=%s model=%s\n" cls kind input (clip impl) (clip model) in
  let monitor clause kind input observed expected =
    incr hits;
    Printf.printf "MONITOR clause=%s kind=%s input=%s observed=%s expected=%s\n" clause kind input (clip observed) (clip expected) in
  (try
     while true do
       let line = input_line ic in
       if String.length line >= 2 then begin
         match line.[0] with
         | 'F' -> print_endline line
         | 'W' ->
           incr cases; incr nw;
           (match split_fields line with
            | [f0; fhex; fread] ->
              let evs_s = String.trim (String.sub f0 1 (String.length f0 - 1)) in
              let evs = List.map ev_of_tok (split_ws evs_s) in
              events_written := !events_written + List.length evs;
              note_case ("W " ^ evs_s) (evs <> []);
              (match evs with
               | [Pressed k] -> Hashtbl.replace keys_single (int_of_n k, true) ()
               | [Released k] -> Hashtbl.replace keys_single (int_of_n k, false) ()
               | _ -> ());
              let model_bytes = List.map int_of_n (x_encode_batch evs) in
              if fhex = "PANIC" || (String.length fhex >= 3 && String.sub fhex 0 3 = "ERR") then begin
                diff "WRITE" "W" evs_s fhex (hex_of_bytes model_bytes);
                monitor "C18.length" "W" evs_s fhex (hex_of_bytes model_bytes)
              end else begin
                let real = bytes_of_hex fhex in
                if real <> model_bytes then begin
                  if mask_time real <> mask_time model_bytes then
                    diff "WRITE" "W" evs_s fhex (hex_of_bytes model_bytes)
                  else
                    diff "WRITE_TIME" "W" evs_s fhex (hex_of_bytes model_bytes)
                end;
                (* the specification's judgement of the REAL bytes *)
                let bad = x_check_write evs (List.map (fun b -> byte_n.(b)) real) in
                List.iter (fun c -> monitor (clause_name c) "W" evs_s fhex (hex_of_bytes model_bytes)) bad;
                (* the real reader on the real writer's bytes *)
                let (rp, revs) = parse_read_result fread in
                let (mp, mevs) = model_read real in
                if (rp, revs) <> (mp, mevs) then
                  diff "READ" "W" ("bytes:" ^ fhex) (read_result_str (rp, revs)) (read_result_str (mp, mevs));
                if rp then monitor "C18.roundtrip" "W" evs_s ("PANIC " ^ evs_str revs) (evs_str evs)
                else
                  List.iter (fun c -> monitor (clause_name c) "W" evs_s ("[" ^ evs_str revs ^ "]") ("[" ^ evs_str evs ^ "]"))
                    (x_check_roundtrip evs revs);
                if !nw > 1000 && !wsamples < 2 && List.length evs > 2 && List.length evs < 8 && (incr wsamples; true) then
                  samples := Printf.sprintf "write batch{%s} bytes{%s} reader_returns{%s}" evs_s fhex (evs_str revs) :: !samples
              end
            | _ -> failwith ("bad W line: " ^ clip line))
         | 'R' ->
           incr cases; incr nr;
           (match split_fields line with
            | [f0; fhex; fread] ->
              let recs_s = String.trim (String.sub f0 1 (String.length f0 - 1)) in
              let raws = List.map raw_of_tok (split_ws recs_s) in
              records_read := !records_read + List.length raws;
              note_case ("R " ^ recs_s) (raws <> []);
              let fed = bytes_of_hex fhex in
              List.iter (fun r -> if not (x_raw_wf r) then failwith ("record out of range in: " ^ clip recs_s)) raws;
              let spec_bytes = List.map int_of_n (x_raw_stream raws) in
              if spec_bytes <> fed then begin
                incr assumption_fails;
                Printf.printf "ASSUMPTION-FAIL layout records=%s libc=%s spec=%s\n" (clip recs_s) (clip fhex) (clip (hex_of_bytes spec_bytes))
              end;
              let (rp, revs) = parse_read_result fread in
              events_returned := !events_returned + List.length revs;
              let (mp, mevs) = model_read fed in
              if (rp, revs) <> (mp, mevs) then
                diff "READ" "R" recs_s (read_result_str (rp, revs)) (read_result_str (mp, mevs));
              let expected = x_raw_events raws in
              foreign_skipped := !foreign_skipped + (List.length raws - List.length expected);
              if rp then monitor "C18.reader" "R" recs_s ("PANIC " ^ evs_str revs) ("[" ^ evs_str expected ^ "]")
              else
                List.iter (fun c -> monitor (clause_name c) "R" recs_s ("[" ^ evs_str revs ^ "]") ("[" ^ evs_str expected ^ "]"))
                  (x_check_reader raws revs);
              if !rsamples < 3 && List.length raws > 3 && List.length raws < 9 && (incr rsamples; true) then
                samples := Printf.sprintf "read records{%s} reader_returns{%s}" recs_s (evs_str revs) :: !samples
            | _ -> failwith ("bad R line: " ^ clip line))
         | 'X' ->
           incr cases; incr nx;
           (match split_fields line with
            | [f0; fread] ->
              let fhex = String.trim (String.sub f0 1 (String.length f0 - 1)) in
              let fed = bytes_of_hex fhex in
              note_case ("X " ^ fhex) (fed <> []);
              let (rp, revs) = parse_read_result fread in
              let (mp, mevs) = model_read fed in
              (* a stream that is not a whole number of records never comes out of an evdev
                 node: differences there are reported in a class C18 does not observe *)
              if (rp, revs) <> (mp, mevs) then
                diff (if List.length fed mod 24 = 0 then "READ" else "READ_SHORT") "X" ("bytes:" ^ fhex)
                  (read_result_str (rp, revs)) (read_result_str (mp, mevs));
              if !xsamples < 1 && List.length fed > 30 && List.length fed < 80 && (incr xsamples; true) then
                samples := Printf.sprintf "raw bytes{%s} reader_returns{%s}" fhex (evs_str revs) :: !samples;
              (* C18_reader_never_panics *)
              if rp then monitor "C18.reader" "X" ("bytes:" ^ fhex) "PANIC" "no panic"
            | _ -> failwith ("bad X line: " ^ clip line))
         | 'T' ->
           incr cases; incr nt;
           (match split_fields line with
            | [f0; fhex; fread] ->
              let recs_s = String.trim (String.sub f0 1 (String.length f0 - 1)) in
              let toks = split_ws recs_s in
              let raws = List.map raw_of_tok toks in
              tablet_records := !tablet_records + List.length raws;
              note_case ("T " ^ recs_s) (raws <> []);
              (match toks with
               | [one] -> (match String.split_on_char ':' one with
                           | [_; _; ty; code; v] -> Hashtbl.replace grid_single (int_of_string ty, int_of_string code, int_of_string v) ()
                           | _ -> ())
               | _ -> ());
              let fed = bytes_of_hex fhex in
              List.iter (fun r -> if not (x_raw_wf r) then failwith ("record out of range in: " ^ clip recs_s)) raws;
              let spec_bytes = List.map int_of_n (x_raw_stream raws) in
              if spec_bytes <> fed then begin
                incr assumption_fails;
                Printf.printf "ASSUMPTION-FAIL layout records=%s libc=%s spec=%s\n" (clip recs_s) (clip fhex) (clip (hex_of_bytes spec_bytes))
              end;
              let (rp, revs) = parse_tablet_result fread in
              tablet_events := !tablet_events + List.length revs;
              let (mp, mevs) = model_tablet_read fed in
              if (rp, revs) <> (mp, mevs) then
                diff "TABLET" "T" recs_s (tablet_result_str (rp, revs)) (tablet_result_str (mp, mevs));
              (* the specification's judgement of the REAL reader's answer *)
              let expected = x_tablet_events_of raws in
              tablet_skipped := !tablet_skipped + (List.length raws - List.length expected);
              if rp then monitor "C12.switch_reader" "T" recs_s ("PANIC " ^ sw_str revs) ("[" ^ sw_str expected ^ "]")
              else if not (x_check_switch_reader raws revs) then
                monitor "C12.switch_reader" "T" recs_s ("[" ^ sw_str revs ^ "]") ("[" ^ sw_str expected ^ "]");
              if !nt > 700 && !tsamples < 2 && List.length raws > 3 && List.length raws < 9 && revs <> [] && (incr tsamples; true) then
                samples := Printf.sprintf "switch records{%s} switch_reader_returns{%s}" recs_s (sw_str revs) :: !samples
            | _ -> failwith ("bad T line: " ^ clip line))
         | 'Y' ->
           incr cases; incr ny;
           (match split_fields line with
            | [f0; fread] ->
              let fhex = String.trim (String.sub f0 1 (String.length f0 - 1)) in
              let fed = bytes_of_hex fhex in
              note_case ("Y " ^ fhex) (fed <> []);
              let (rp, revs) = parse_tablet_result fread in
              let (mp, mevs) = model_tablet_read fed in
              if (rp, revs) <> (mp, mevs) then
                diff "TABLET" "Y" ("bytes:" ^ fhex) (tablet_result_str (rp, revs)) (tablet_result_str (mp, mevs));
              (* C12_switch_reader_never_panics *)
              if rp then monitor "C12.switch_reader" "Y" ("bytes:" ^ fhex) "PANIC" "no panic"
            | _ -> failwith ("bad Y line: " ^ clip line))
         | _ -> ()
       end
     done
   with End_of_file -> ());
  close_in ic;
  (* exhaustiveness over the model's key table: every known code was written alone, pressed and released *)
  let codes = List.map int_of_n x_key_codes in
  let missing = List.filter (fun c -> not (Hashtbl.mem keys_single (c, true) && Hashtbl.mem keys_single (c, false))) codes in
  let foreign_single = Hashtbl.fold (fun (c, _) () acc -> if List.mem c codes then acc else c :: acc) keys_single [] in
  (* the key table against the pinned kernel numbering, entry by entry *)
  List.iter (fun ((id, c), _) ->
      let ids = string_of_chars id and ci = int_of_n c in
      (match x_kernel_code_of_ident id with
       | Some kc when int_of_n kc <> ci ->
         monitor "C18.codes" "K" ids (Printf.sprintf "KeyCode::%s=%d" ids ci) (Printf.sprintf "kernel:%d" (int_of_n kc))
       | _ -> ());
      if ci >= 65536 then monitor "C18.codes" "K" ids (Printf.sprintf "KeyCode::%s=%d" ids ci) "below:65536") x_key_table;
  Printf.printf "TABLE ok=%d matched=%d keys=%d unmatched=[%s] singles_missing=%d singles_outside_table=%d\n"
    (if x_table_ok then 1 else 0) (int_of_nat x_matched_count) (List.length codes)
    (String.concat "," (List.map string_of_chars x_unmatched_idents))
    (List.length missing) (List.length (List.sort_uniq compare foreign_single));
  (* exhaustiveness over the switch reader's decision grid: every combination was fed as a single record *)
  let grid_missing = ref 0 in
  List.iter (fun t -> List.iter (fun c -> List.iter (fun v ->
      if not (Hashtbl.mem grid_single (t, c, v)) then incr grid_missing)
      [-1; 0; 1; 2; -2147483648; 2147483647]) [0; 1; 2; 5; 0xffff]) [0; 1; 2; 3; 4; 5; 0x11; 0x14; 0xffff];
  Printf.printf "TABLETGRID missing=%d singles=%d\n" !grid_missing (Hashtbl.length grid_single);
  List.iter (fun s -> Printf.printf "SAMPLE %s\n" s) (List.rev !samples);
  Printf.printf "SUMMARY cases=%d write=%d read=%d raw=%d tablet=%d tablet_raw=%d distinct=%d nontrivial=%d events_written=%d records_read=%d events_returned=%d foreign_skipped=%d tablet_records=%d tablet_events=%d tablet_skipped=%d diffs=%d hits=%d assumption_fails=%d\n"
    !cases !nw !nr !nx !nt !ny (Hashtbl.length distinct) !nontrivial !events_written !records_read !events_returned
    !foreign_skipped !tablet_records !tablet_events !tablet_skipped !diffs !hits !assumption_fails
