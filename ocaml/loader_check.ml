(* loader_check.ml — model side of the loader engine.

   Reads the case files written by `tm-harness loader` and, for every case,
     * runs the extracted Coq model (Parser.parse_layout, Convert.convert,
       Serde.to_json) on the same input and compares it with what the REAL code
       answered:                                   DIFF class=LOAD / class=SERDE
     * applies the extracted property checkers (LoaderCheck.v) to the REAL
       outputs:   HIT clause=C14.panic | C14.accepted_wf | C15.roundtrip | C13.expand
   Record format (one token-separated line each):
     CASE id kind / T json-text / J value / [B n + n "M" lines] /
     R OK n + n "M" lines | R ERR kind | R PANIC /
     [S value / R2 ...] / [X where] / [W note] / END
   value = prefix encoding: n | t | f | i <int> | x | s <len> <scalars> |
           a <n> values | o <n> (<len> <scalars> value)*
   SUBST blocks: the set of scalars accepted by the real code when substituted
   into a row / repeat name, compared with the model over the same scalars.

   The JSON text layer (JsonText.v), DIFF class=TEXT:
     P text   (in a CASE) the bytes serde_json::to_string_pretty wrote for the
              input Value: equal to print_pretty (when the value is printable
              in the model, i.e. holds no float / u64 above i64::MAX), and
              parse_text of these bytes is the Value again
     F =P | F =T | F text + RF SAME | RF OK.. | RF ERR kind | RF PANIC
              (in a CASE) the input Value written as a layout file (the P
              text, the T text, or a re-spaced text) and what the REAL
              load_layout_from_file answered on it (SAME = what parse+convert
              answered in memory).  A different answer is a hit C13.file_load
              and C15.file_load (the service's loader does not read a layout
              file as its JSON value), a panic a hit C14.file_panic; load_text
              on the same bytes is compared with the real answer (TEXT)
     PL text  (in a CASE, accepted layouts) the bytes of the file written with
              to_writer_pretty: equal to save_text of the layout, and load_text
              of these bytes is what the real load_layout_from_file answered
     TCASE id kind / X hex-bytes / V OK value + VP text + VC text | V ERR / [A note] /
              [LF OK n + M lines | LF ERR kind | LF PANIC] / END
              a generated JSON text: the real serde_json readers' outcome
              against parse_text (both Err, or equal Values); VP / VC: what
              to_string_pretty / to_string write for the Value read, against
              print_pretty / print_compact (printable values); LF: the real
              load_layout_from_file on a file with these bytes against load_text
   P and PL texts are one line: newline as \n, backslash as \\. *)

open Model

let rec pos_of_int (i : int) : positive =
  if i = 1 then XH
  else if i land 1 = 0 then XO (pos_of_int (i lsr 1))
  else XI (pos_of_int (i lsr 1))

let n_of_int (i : int) : n = if i = 0 then N0 else Npos (pos_of_int i)

let rec int_of_pos (p : positive) : int =
  match p with XH -> 1 | XO q -> 2 * int_of_pos q | XI q -> 2 * int_of_pos q + 1

let int_of_n (x : n) : int = match x with N0 -> 0 | Npos p -> int_of_pos p

(* OCaml ints are 63 bits; i64::MIN and friends go through strings *)
let z_of_string (s : string) : z =
  let neg = String.length s > 0 && s.[0] = '-' in
  let digits = if neg then String.sub s 1 (String.length s - 1) else s in
  (* decimal string -> positive by repeated doubling on a digit array *)
  let d = Array.init (String.length digits) (fun i -> Char.code digits.[i] - 48) in
  let is_zero () = Array.for_all (fun x -> x = 0) d in
  let halve () =
    let carry = ref 0 in
    for i = 0 to Array.length d - 1 do
      let cur = !carry * 10 + d.(i) in
      d.(i) <- cur / 2; carry := cur mod 2
    done; !carry in
  let bits = ref [] in
  while not (is_zero ()) do bits := halve () :: !bits done;
  (* !bits is most significant first *)
  match !bits with
  | [] -> Z0
  | _ :: rest ->
    let p = List.fold_left (fun acc b -> if b = 1 then XI acc else XO acc) XH rest in
    if neg then Zneg p else Zpos p

let z_of_int (i : int) : z =
  if i = 0 then Z0 else if i > 0 then Zpos (pos_of_int i) else Zneg (pos_of_int (- i))

let int_of_z (x : z) : int = match x with Z0 -> 0 | Zpos p -> int_of_pos p | Zneg p -> - (int_of_pos p)

(* ---------- bytes ---------- *)

let byte_table : n array = Array.init 256 n_of_int

let nlist_of_string (s : string) : n list =
  let r = ref [] in
  for i = String.length s - 1 downto 0 do r := byte_table.(Char.code s.[i]) :: !r done; !r

let string_of_nlist (l : n list) : string =
  let b = Buffer.create 1024 in
  List.iter (fun x -> let i = int_of_n x in Buffer.add_char b (Char.chr (i land 255))) l;
  Buffer.contents b

(* the one-line form of P / PL lines *)
let unesc_line (s : string) : string =
  let b = Buffer.create (String.length s) in
  let i = ref 0 and n = String.length s in
  while !i < n do
    (if s.[!i] = '\\' && !i + 1 < n then begin
       (match s.[!i + 1] with 'n' -> Buffer.add_char b '\n' | 'r' -> Buffer.add_char b '\r' | c -> Buffer.add_char b c);
       incr i
     end else Buffer.add_char b s.[!i]);
    incr i
  done;
  Buffer.contents b

let hex_of (s : string) : string =
  let b = Buffer.create (2 * String.length s) in
  String.iter (fun c -> Buffer.add_string b (Printf.sprintf "%02x" (Char.code c))) s;
  Buffer.contents b

let unhex (s : string) : string =
  let v c = match c with '0'..'9' -> Char.code c - 48 | 'a'..'f' -> Char.code c - 87 | _ -> 0 in
  String.init (String.length s / 2) (fun i -> Char.chr (v s.[2 * i] * 16 + v s.[2 * i + 1]))

(* a byte string on one line, for reports *)
let show_bytes (s : string) : string =
  let b = Buffer.create (String.length s) in
  String.iter (fun c ->
    let k = Char.code c in
    if c = '\\' then Buffer.add_string b "\\\\"
    else if k >= 32 && k < 127 then Buffer.add_char b c
    else if c = '\n' then Buffer.add_string b "\\n"
    else Buffer.add_string b (Printf.sprintf "\\x%02x" k)) s;
  let r = Buffer.contents b in
  if String.length r > 1500 then String.sub r 0 1500 ^ "..." else r

(* where two byte strings part *)
let first_diff (a : string) (b : string) : string =
  let n = min (String.length a) (String.length b) in
  let i = ref 0 in
  while !i < n && a.[!i] = b.[!i] do incr i done;
  let ctx s = show_bytes (String.sub s (max 0 (!i - 20)) (min (String.length s - max 0 (!i - 20)) 60)) in
  Printf.sprintf "lengths %d/%d, first difference at byte %d: real ...%s... model ...%s..." (String.length a) (String.length b) !i (ctx a) (ctx b)

let split_ws (s : string) : string array =
  Array.of_list (List.filter (fun x -> x <> "") (String.split_on_char ' ' s))

(* ---------- values ---------- *)

let parse_value (t : string array) (start : int) : json =
  let i = ref start in
  let next () = let v = t.(!i) in incr i; v in
  let num () = int_of_string (next ()) in
  let str () = let n = num () in List.init n (fun _ -> n_of_int (num ())) in
  let rec value () : json =
    match next () with
    | "n" -> JNull
    | "t" -> JBool true
    | "f" -> JBool false
    | "i" -> JNum (Some (z_of_string (next ())))
    | "x" -> JNum None
    | "s" -> JStr (str ())
    | "a" -> let n = num () in JArr (List.init n (fun _ -> value ()))
    | "o" -> let n = num () in JObj (List.init n (fun _ -> let k = str () in let v = value () in (k, v)))
    | other -> failwith ("bad value token " ^ other) in
  value ()

let parse_mapping (toks : string array) : mapping =
  let i = ref 1 in
  let num () = let v = int_of_string toks.(!i) in incr i; v in
  let keys n = List.init n (fun _ -> n_of_int (num ())) in
  let nf = num () in let from = keys nf in
  let nt = num () in let to_ = keys nt in
  let kind = num () in
  let rep =
    if kind = 0 then RNormal else if kind = 1 then RDisabled
    else begin
      let nk = num () in let ks = keys nk in
      let d = num () in let iv = num () in
      RSpecial (ks, z_of_int d, z_of_int iv)
    end in
  let na = num () in let abs = keys na in
  { m_from = from; m_to = to_; m_repeat = rep; m_abs = abs }

(* ---------- printing ---------- *)

let keys_str ks = String.concat "," (List.map (fun k -> string_of_int (int_of_n k)) ks)

let mapping_str (m : mapping) : string =
  Printf.sprintf "[%s]->[%s]%s%s" (keys_str m.m_from) (keys_str m.m_to)
    (match m.m_repeat with
     | RNormal -> "" | RDisabled -> " rep=Disabled"
     | RSpecial (ks, d, i) -> Printf.sprintf " rep=Special([%s],%d,%d)" (keys_str ks) (int_of_z d) (int_of_z i))
    (match m.m_abs with [] -> "" | a -> " abs=[" ^ keys_str a ^ "]")

let outcome_str (o : mapping list res) : string =
  match o with
  | Err -> "Err"
  | Panic site -> "Panic(" ^ (String.concat "" (List.map (String.make 1) site)) ^ ")"
  | Ok l ->
    let n = List.length l in
    let shown = List.filteri (fun i _ -> i < 8) l in
    Printf.sprintf "Ok(%d: %s%s)" n (String.concat " ; " (List.map mapping_str shown)) (if n > 8 then " ; ..." else "")

(* first differing mapping of two Ok outcomes, for the report *)
let diff_str (a : mapping list res) (b : mapping list res) : string * string =
  match a, b with
  | Ok x, Ok y when List.length x = List.length y ->
    let rec go i x y = match x, y with
      | u :: x', v :: y' -> if x_layout_eqb [u] [v] then go (i + 1) x' y' else
          (Printf.sprintf "Ok(%d mappings; #%d = %s)" (List.length a_list) i (mapping_str u),
           Printf.sprintf "Ok(%d mappings; #%d = %s)" (List.length a_list) i (mapping_str v))
      | _, _ -> (outcome_str a, outcome_str b)
    and a_list = x in
    go 0 x y
  | _, _ -> (outcome_str a, outcome_str b)

(* ---------- cases ---------- *)

type case = {
  id : int; kind : string; text : string;
  j : json option;
  basic : mapping list option;
  r : mapping list res option;
  s : json option;
  r2 : mapping list res option;
  x : string list; w : string list;
  ptext : string option; pltext : string option;
  ftext : string option;                 (* F: the bytes of the input written as a layout file: "=P", "=T" or the text *)
  rf : mapping list res option option;   (* RF: what load_layout_from_file answered; Some None = the in-memory answer *)
}

let cases = ref 0 and distinct = Hashtbl.create 4096 and nontrivial = ref 0
and load_cmp = ref 0 and serde_cmp = ref 0 and checker_runs = ref 0 and diffs = ref 0 and hits = ref 0
and subst_cmp = ref 0 and text_print_cmp = ref 0 and text_parse_cmp = ref 0 and text_load_cmp = ref 0 and text_cases = ref 0

let one_line (s : string) = String.map (fun c -> if c = '\n' then ' ' else c) s

let report_diff c cls impl model =
  incr diffs;
  Printf.printf "DIFF case=%d kind=%s class=%s impl=%s model=%s input=%s\n" c.id c.kind cls (one_line impl) (one_line model) c.text

let report_hit c clause observed expected =
  incr hits;
  Printf.printf "HIT case=%d kind=%s clause=%s observed=%s expected=%s input=%s\n" c.id c.kind clause (one_line observed) (one_line expected) c.text

let nontrivial_json (j : json) : bool =
  match j with
  | JObj kvs -> List.exists (fun (_, v) -> match v with JArr (_ :: _) -> true | _ -> false) kvs
  | _ -> false

(* ---- what C13 leaves open, and inputs no property quantifies over ---- *)

(* a number outside the 32-bit range in the input: no property says what a 33-bit delay means (the code wraps it);
   a difference on such an input is reported in class LOAD_OUTSIDE_DOMAIN, which no property observes *)
let rec has_wide_number (j : json) : bool =
  let rec bits (p : positive) : int = (match p with XH -> 1 | XO q | XI q -> 1 + bits q) in
  let wide z = (match z with
      | Z0 -> false
      | Zpos p -> bits p > 31
      | Zneg p -> bits p > 32 || (bits p = 32 && int_of_pos p > 2147483648)) in
  match j with
  | JNum (Some z) -> (try wide z with _ -> true)
  | JNum None -> true
  | JArr l -> List.exists has_wide_number l
  | JObj kvs -> List.exists (fun (_, v) -> has_wide_number v) kvs
  | _ -> false

(* a mapping object with a field other than from / to / repeat / absorbing: HEAD ignores the field, a later version may
   reject it; C13's layout programs and the file the tool writes have the four fields only *)
let has_unknown_field (j : json) : bool =
  match j with
  | JObj kvs ->
    List.exists (fun (k, v) -> string_of_nlist k = "mappings" && (match v with
        | JArr ms -> List.exists (fun m -> match m with
            | JObj fs -> List.exists (fun (f, _) -> not (List.mem (string_of_nlist f) [ "from"; "to"; "repeat"; "absorbing" ])) fs
            | _ -> false) ms
        | _ -> false)) kvs
  | _ -> false

let outside_loads = ref 0
let lenient_loads = ref 0
let reordered_loads = ref 0

(* C13: "source order preserved between DIFFERENT source mappings" - the order of the basic mappings that stem from
   ONE source mapping (its alias combinations, its letters) is not fixed by the property.  real ~ reference when both
   are Ok, and cutting both at the lengths of the expansions of the prefixes of the source list gives blocks that
   are permutations of each other. *)
let blockwise_perm (j : json) (real : mapping list res) (reference : mapping list res) : bool =
  match real, reference with
  | Ok lr, Ok ls when List.length lr = List.length ls && lr <> [] && not (x_layout_eqb lr ls) ->
    (match x_block_lengths j with
     | None -> false
     | Some lens ->
       let rec int_of_nat (n : nat) = (match n with O -> 0 | S m -> 1 + int_of_nat m) in
       let lens = List.map int_of_nat lens in
       let total = List.fold_left (+) 0 lens in
       if total > List.length ls then false
       else begin
         (* the mappings added by repeat-only entries form one last block *)
         let lens = lens @ [ List.length ls - total ] in
         let rec take n l = if n = 0 then [] else (match l with [] -> [] | x :: t -> x :: take (n - 1) t) in
         let rec drop n l = if n = 0 then l else (match l with [] -> [] | _ :: t -> drop (n - 1) t) in
         let rec remove x l = (match l with [] -> None | y :: t -> if x_layout_eqb [ x ] [ y ] then Some t else (match remove x t with Some t' -> Some (y :: t') | None -> None)) in
         let rec perm a b = (match a with [] -> b = [] | x :: a' -> (match remove x b with Some b' -> perm a' b' | None -> false)) in
         let rec go lr ls lens = (match lens with
             | [] -> lr = [] && ls = []
             | n :: rest -> perm (take n lr) (take n ls) && go (drop n lr) (drop n ls) rest) in
         go lr ls lens
       end)
  | _, _ -> false

(* do a model answer and a real answer of a loader agree, as far as the properties fix them?  None = yes, Some class = no *)
let load_differs (jo : json option) (ml : mapping list res) (real : mapping list res) : string option =
  if x_outcome_eqb ml real then None
  else match jo with
    | Some j when blockwise_perm j real ml -> incr reordered_loads; None
    | Some j when has_wide_number j || has_unknown_field j -> incr outside_loads; Some "TEXT_OUTSIDE_DOMAIN"
    | _ when (match ml, real with Err, Ok l -> x_check_accepted_wf l | _, _ -> false) -> incr lenient_loads; Some "TEXT_MORE_LENIENT"
    | _ -> Some "TEXT"

let check_case (c : case) : unit =
  incr cases;
  match c.j, c.r with
  | Some j, Some real ->
    let jl = c.text in
    if not (Hashtbl.mem distinct jl) then begin
      Hashtbl.add distinct jl ();
      if nontrivial_json j then incr nontrivial
    end;
    (* model vs implementation: the loader *)
    let model = x_load j in
    incr load_cmp;
    let wide = has_wide_number j || has_unknown_field j in
    if not (x_outcome_eqb model real) then begin
      if blockwise_perm j real model then incr reordered_loads
      else begin
        let (a, b) = diff_str real model in
        (* an input the model rejects and the code accepts as a layout the mapper can take: a more lenient input language,
           which no property forbids (C13-C15 speak about the inputs that ARE accepted; C14.accepted_wf below still judges
           what was accepted) *)
        let more_lenient = (match model, real with Err, Ok l -> x_check_accepted_wf l | _, _ -> false) in
        if wide then begin incr outside_loads; report_diff c "LOAD_OUTSIDE_DOMAIN" a b end
        else if more_lenient then begin incr lenient_loads; report_diff c "LOAD_MORE_LENIENT" a b end
        else report_diff c "LOAD" a b
      end
    end;
    (* C13: the specification against the real answer *)
    (match real with
     | Panic _ -> ()
     | _ ->
       incr checker_runs;
       if not (x_check_expand j real) && not wide && not (blockwise_perm j real (x_spec_load j)) then begin
         let spec = x_spec_load j in
         let (a, b) = diff_str real spec in report_hit c "C13.expand" a b;
         (* the layout the mapper is GIVEN is not the layout the file says: the mapper properties that a user states in
            terms of the layout file listen to this clause *)
         report_hit c "LAYOUT.expansion" a b;
         (* C08 starts from the layout the mapper is GIVEN: an `absorbing` list that the conversion loses or changes
            (same triggers and outputs, other absorbed keys) makes the modifier count for every following keystroke *)
         (match real, spec with
          | Ok lr, Ok ls when List.length lr = List.length ls
                              && List.for_all2 (fun u v -> u.m_from = v.m_from && u.m_to = v.m_to) lr ls
                              && List.exists2 (fun u v -> u.m_abs <> v.m_abs) lr ls ->
            report_hit c "C08.absorbing_converted" a b
          | _, _ -> ())
       end);
    (* C14: panics anywhere *)
    (match real with Panic _ -> report_hit c "C14.panic" "panic in parse_layout_from_json/convert" "Ok or Err" | _ -> ());
    (match c.r2 with Some (Panic _) -> report_hit c "C14.panic" "panic while reloading the saved layout" "Ok or Err" | _ -> ());
    List.iter (fun x -> report_hit c "C14.panic" ("panic in " ^ x) "no panic on an accepted layout") c.x;
    List.iter (fun w ->
        if String.length w >= 21 && String.sub w 0 21 = "load_layout_from_file" then
          (* the service's own reload of the file written with to_writer_pretty answers differently from the
             in-memory reload (which the model is compared with): the saved layout does not reload as saved *)
          report_hit c "C15.roundtrip" w "load_layout_from_file(saved file) = parse_layout_from_json + convert (to_value)"
        else report_diff c "SERDE" w "to_writer_pretty + from_str = to_value") c.w;
    (* the text layer: serde_json's pretty printer and reader on the input Value *)
    (match c.ptext with
     | Some p ->
       if x_printable j then begin
         incr text_print_cmp;
         let m = string_of_nlist (x_print_pretty j) in
         if m <> p then report_diff c "TEXT" ("to_string_pretty(value): " ^ first_diff p m) "print_pretty differs"
       end;
       incr text_parse_cmp;
       (match x_parse_text (nlist_of_string p) with
        | Some j' -> if not (x_json_eqb j' j) then report_diff c "TEXT" "from_str(to_string_pretty(value)) = value" "parse_text gives another value"
        | None -> report_diff c "TEXT" "from_str(to_string_pretty(value)) = value" "parse_text rejects the text")
     | None -> ());
    (* the input as a layout file through the real load_layout_from_file *)
    (match c.ftext, c.rf with
     | Some ft, Some rfo ->
       let rf = match rfo with None -> real | Some o -> o in
       (match rfo with
        | Some _ when not (x_outcome_eqb rf real) ->
          let (a, b) = diff_str rf real in
          report_hit c "C13.file_load" ("load_layout_from_file(file with this JSON): " ^ a) ("parse_layout_from_json + convert (in memory): " ^ b);
          report_hit c "C15.file_load" ("load_layout_from_file(file with this JSON): " ^ a) ("parse_layout_from_json + convert (in memory): " ^ b)
        | _ -> ());
       (match rf, real with
        | Panic _, Panic _ -> ()
        | Panic _, _ -> report_hit c "C14.file_panic" "panic in load_layout_from_file on a file with this JSON" "Ok or Err"
        | _, _ -> ());
       let bytes = if ft = "=P" then c.ptext else if ft = "=T" then Some c.text else Some (unesc_line ft) in
       (match bytes with
        | Some b ->
          incr text_load_cmp;
          let ml = x_load_text (nlist_of_string b) in
          (match load_differs (Some j) ml rf with
           | Some cls -> let (x, y) = diff_str rf ml in report_diff c cls ("load_layout_from_file(input as a file): " ^ x) ("load_text: " ^ y)
           | None -> ())
        | None -> ())
     | _, _ -> ());
    (* ... and the saved layout file: its bytes, and the reload from these bytes *)
    (match c.pltext, real with
     | Some p, Ok l ->
       incr text_print_cmp;
       let m = string_of_nlist (x_save_text l) in
       if m <> p then report_diff c "TEXT" ("saved file (to_writer_pretty(layout)): " ^ first_diff p m) "save_text differs";
       let file_differs = List.exists (fun w -> String.length w >= 21 && String.sub w 0 21 = "load_layout_from_file") c.w in
       (match c.r2 with
        | Some r2 when not file_differs ->
          incr text_load_cmp;
          let ml = x_load_text (nlist_of_string p) in
          if not (x_outcome_eqb ml r2) then begin
            let (a, b) = diff_str r2 ml in report_diff c "TEXT" ("load_layout_from_file(saved file): " ^ a) ("load_text: " ^ b) end
        | _ -> ())
     | _, _ -> ());
    (* C15 on a basic layout serialised by the real serde impl *)
    (match c.basic with
     | Some l0 ->
       incr serde_cmp;
       if not (x_json_eqb (x_to_json l0) j) then report_diff c "SERDE" "serde_json::to_value(layout)" "Serde.to_json differs";
       incr checker_runs;
       if not (x_check_roundtrip l0 real) then
         report_hit c "C15.roundtrip" (outcome_str real) (outcome_str (Ok l0))
     | None -> ());
    (match real with
     | Ok l ->
       incr checker_runs;
       if not (x_check_accepted_wf l) then
         report_hit c "C14.accepted_wf" (outcome_str real) "every trigger non-empty, no key twice in a trigger or an output";
       (match c.s, c.r2 with
        | Some s, Some r2 ->
          incr serde_cmp;
          if not (x_json_eqb (x_to_json l) s) then report_diff c "SERDE" "serde_json::to_value(layout)" "Serde.to_json differs";
          incr load_cmp;
          let m2 = x_load s in
          if not (x_outcome_eqb m2 r2) then begin
            let (a, b) = diff_str r2 m2 in report_diff c "LOAD" ("reload: " ^ a) ("reload: " ^ b) end;
          incr checker_runs;
          if not (x_check_roundtrip l r2) then begin
            let (a, b) = diff_str r2 (Ok l) in report_hit c "C15.roundtrip" ("reload: " ^ a) b end
        | _, _ -> ())
     | _ -> ())
  | _, _ -> Printf.printf "CHECKER-FAILED incomplete case %d\n" c.id

(* ---------- text cases ---------- *)

type tcase = { tid : int; tkind : string; bytes : string; v : json option option; notes : string list; lf : mapping list res option;
               vp : string option; vc : string option }

let check_tcase (t : tcase) : unit =
  incr text_cases;
  (* the input of a text case in reports: the exact bytes in hex (what --replay feeds the real code), then readable *)
  let c = { id = t.tid; kind = t.tkind; text = "hex:" ^ hex_of (if String.length t.bytes > 4000 then String.sub t.bytes 0 4000 else t.bytes) ^ " " ^ show_bytes t.bytes; j = None; basic = None; r = None; s = None; r2 = None; x = []; w = [];
            ptext = None; pltext = None; ftext = None; rf = None } in
  List.iter (fun a -> report_diff c "TEXT" a "the real readers of serde_json agree with each other") t.notes;
  let input = nlist_of_string t.bytes in
  (match t.v with
   | None -> Printf.printf "CHECKER-FAILED incomplete text case %d\n" t.tid
   | Some real ->
     incr text_parse_cmp;
     let m = x_parse_text input in
     (match real, m with
      | None, None -> ()
      | Some a, Some b ->
        if not (x_json_eqb a b) then report_diff c "TEXT" "serde_json: Ok(value)" "parse_text: another value";
        (* the real printers on the Value just read, against the model's printers *)
        if x_printable a then begin
          (match t.vp with
           | Some p -> incr text_print_cmp; let m = string_of_nlist (x_print_pretty a) in
             if m <> p then report_diff c "TEXT" ("to_string_pretty(value read): " ^ first_diff p m) "print_pretty differs"
           | None -> ());
          (match t.vc with
           | Some p -> incr text_print_cmp; let m = string_of_nlist (x_print_compact a) in
             if m <> p then report_diff c "TEXT" ("to_string(value read): " ^ first_diff p m) "print_compact differs"
           | None -> ())
        end
      | Some _, None -> report_diff c "TEXT" "serde_json: Ok" "parse_text: error"
      | None, Some _ -> report_diff c "TEXT" "serde_json: Err" "parse_text: a value"));
  (match t.lf with
   | Some real ->
     incr text_load_cmp;
     let ml = x_load_text input in
     (match load_differs (x_parse_text input) ml real with
      | Some cls -> let (a, b) = diff_str real ml in report_diff c cls ("load_layout_from_file: " ^ a) ("load_text: " ^ b)
      | None -> ());
     (match real with Panic _ -> report_hit c "C14.file_panic" "panic in load_layout_from_file on a file with these bytes" "Ok or Err" | _ -> ())
   | None -> ())

(* ---------- substitution blocks ---------- *)

let lit (s : string) : n list = List.init (String.length s) (fun i -> n_of_int (Char.code s.[i]))

let subst_json (kind : string) (pos : int) (c : int) : json =
  let name base = JStr (List.mapi (fun i x -> if i = pos then n_of_int c else x) (lit base)) in
  let o l = JObj (List.map (fun (k, v) -> (lit k, v)) l) in
  match kind with
  | "row" -> o ["mappings", JArr [o ["from", o ["row", JStr [n_of_int c]]; "to", o ["letters", JStr (lit "a")]]]]
  | "normal" -> o ["mappings", JArr [o ["from", JStr (lit "A"); "repeat", name "normal"; "to", JStr (lit "B")]]]
  | _ -> o ["mappings", JArr [o ["from", JStr (lit "A"); "repeat", name "disabled"; "to", JStr (lit "B")]]]

let model_subst kind pos c : string option =
  match x_load (subst_json kind pos c) with
  | Ok [m] ->
    let last = List.nth m.m_from (List.length m.m_from - 1) in
    let rk = match m.m_repeat with RNormal -> 0 | RDisabled -> 1 | _ -> 2 in
    Some (Printf.sprintf "%d:%d:%d" c (int_of_n last) rk)
  | Ok _ -> Some (Printf.sprintf "%d:0:9" c)
  | Panic _ -> Some (Printf.sprintf "%d:0:8" c)
  | Err -> None

let check_subst kind pos (scalars : int list) (accepted : string list) =
  let acc = Hashtbl.create 64 in
  List.iter (fun a -> match String.split_on_char ':' a with c :: _ -> Hashtbl.replace acc (int_of_string c) a | [] -> ()) accepted;
  List.iter (fun c ->
    incr subst_cmp;
    let m = model_subst kind pos c in
    let i = try Some (Hashtbl.find acc c) with Not_found -> None in
    if m <> i then begin
      incr diffs;
      Printf.printf "DIFF case=-1 kind=subst class=LOAD impl=%s model=%s input=%s name with scalar U+%04X at position %d\n"
        (match i with Some s -> s | None -> "Err") (match m with Some s -> s | None -> "Err") kind c pos
    end) scalars

(* ---------- reader ---------- *)

let starts s p = String.length s >= String.length p && String.sub s 0 (String.length p) = p

let read_outcome (ic : in_channel) (t : string array) : mapping list res =
  match t.(1) with
  | "PANIC" -> Panic []
  | "ERR" -> Err
  | _ ->
    let n = int_of_string t.(2) in
    Ok (List.init n (fun _ -> parse_mapping (split_ws (input_line ic))))

let process (path : string) =
  let ic = open_in path in
  let cur = ref None in
  let tcur = ref None in
  (try
     while true do
       let l = input_line ic in
       if starts l "CASE " then begin
         let t = split_ws l in
         cur := Some { id = int_of_string t.(1); kind = t.(2); text = ""; j = None; basic = None; r = None; s = None; r2 = None; x = []; w = [];
                       ptext = None; pltext = None; ftext = None; rf = None }
       end else if starts l "TCASE " then begin
         let t = split_ws l in
         tcur := Some { tid = int_of_string t.(1); tkind = t.(2); bytes = ""; v = None; notes = []; lf = None; vp = None; vc = None }
       end else if !tcur <> None then begin
         match !tcur with
         | None -> ()
         | Some t ->
           if starts l "X " then tcur := Some { t with bytes = unhex (String.sub l 2 (String.length l - 2)) }
           else if l = "X" then ()
           else if starts l "V OK" then tcur := Some { t with v = Some (Some (parse_value (split_ws l) 2)) }
           else if starts l "V ERR" then tcur := Some { t with v = Some None }
           else if starts l "VP " then tcur := Some { t with vp = Some (unesc_line (String.sub l 3 (String.length l - 3))) }
           else if starts l "VC " then tcur := Some { t with vc = Some (unesc_line (String.sub l 3 (String.length l - 3))) }
           else if starts l "A " then tcur := Some { t with notes = t.notes @ [String.sub l 2 (String.length l - 2)] }
           else if starts l "LF " then tcur := Some { t with lf = Some (read_outcome ic (split_ws l)) }
           else if l = "END" then begin check_tcase t; tcur := None end
       end else if starts l "SUBST " then begin
         let t = split_ws l in
         let kind = t.(1) and pos = int_of_string t.(2) in
         let l2 = input_line ic in
         let t2 = split_ws l2 in
         let scalars =
           if t2.(0) = "RANGE" then begin
             let lo = int_of_string t2.(1) and hi = int_of_string t2.(2) in
             let r = ref [] in
             for c = hi downto lo do if c < 0xD800 || c > 0xDFFF then r := c :: !r done; !r
           end else List.map int_of_string (Array.to_list (Array.sub t2 1 (Array.length t2 - 1))) in
         let l3 = input_line ic in
         let t3 = split_ws l3 in
         let accepted = List.tl (Array.to_list t3) in
         check_subst kind pos scalars accepted;
         ignore (input_line ic)
       end else match !cur with
         | None -> ()
         | Some c ->
           if starts l "T " then cur := Some { c with text = String.sub l 2 (String.length l - 2) }
           else if starts l "J " then cur := Some { c with j = Some (parse_value (split_ws l) 1) }
           else if starts l "S " then cur := Some { c with s = Some (parse_value (split_ws l) 1) }
           else if starts l "P " then cur := Some { c with ptext = Some (unesc_line (String.sub l 2 (String.length l - 2))) }
           else if starts l "F " then cur := Some { c with ftext = Some (String.sub l 2 (String.length l - 2)) }
           else if l = "RF SAME" then cur := Some { c with rf = Some None }
           else if starts l "RF " then cur := Some { c with rf = Some (Some (read_outcome ic (split_ws l))) }
           else if starts l "PL " then cur := Some { c with pltext = Some (unesc_line (String.sub l 3 (String.length l - 3))) }
           else if starts l "B " then begin
             let n = int_of_string (split_ws l).(1) in
             cur := Some { c with basic = Some (List.init n (fun _ -> parse_mapping (split_ws (input_line ic)))) }
           end
           else if starts l "R2 " then cur := Some { c with r2 = Some (read_outcome ic (split_ws l)) }
           else if starts l "R " then cur := Some { c with r = Some (read_outcome ic (split_ws l)) }
           else if starts l "X " then cur := Some { c with x = c.x @ [String.sub l 2 (String.length l - 2)] }
           else if starts l "W " then cur := Some { c with w = c.w @ [String.sub l 2 (String.length l - 2)] }
           else if l = "END" then begin check_case c; cur := None end
     done
   with End_of_file -> ());
  close_in ic

let () =
  for i = 1 to Array.length Sys.argv - 1 do process Sys.argv.(i) done;
  Printf.printf "SUMMARY cases=%d distinct=%d distinct_nontrivial=%d load_compared=%d serde_compared=%d checker_runs=%d subst_compared=%d text_cases=%d text_printed_compared=%d text_parsed_compared=%d text_loads_compared=%d diffs=%d hits=%d\n"
    !cases (Hashtbl.length distinct) !nontrivial !load_cmp !serde_cmp !checker_runs !subst_cmp !text_cases !text_print_cmp !text_parse_cmp !text_load_cmp !diffs !hits
