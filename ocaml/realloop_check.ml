(* realloop_check.ml — judges what the REAL per-device loop with the REAL driver
   (mio/epoll, DevInputReader, TabletModeSwitchReader, DevInputWriter; run over
   pipes in a child process by tm-harness realloop) wrote to the "virtual
   keyboard" descriptor.

   What the bytes must be is computed by the extracted Coq definitions of
   coq/extract/Extract_realloop.v only:
     expected after the key history  = Pipeline.device_bytes_out L (bytes written to the keyboard descriptor)
                                                                        [C10_bytes_out_depend_only_on_events_read,
                                                                         C18_virtual_keyboard_sees_mapper_outputs]
     expected after a tablet-switch On = Pipeline.device_bytes_tablet_on L (the same bytes)
                                                                        [Pipeline.pipeline_bytes_then_tablet_event]
   whatever the batching of the input into write(2) calls.  For the statistics and
   the SAMPLE lines also
     history  = Wire.decode_stream (bytes written to the keyboard descriptor)
     sends    = filter non_nil (mrun L init (map IEv history))          [C10_sends_are_mapper_outputs]
                ++ filter non_nil (mrun L _ [IReleaseAll]) if a tablet-switch On was written
   (device_bytes_out = concat (map Wire.encode_batch sends): C10_device_bytes_out_is).

   Verdicts, one line each:
     MONITOR case=.. clause=C10.real_epoll ..   key events lost / duplicated / reordered, output after the
                                                end, input left unread while the loop sleeps, the loop returned
     MONITOR case=.. clause=C18.real_records .. a malformed record, a missing or an extra SYN_REPORT
     DIFF    case=.. class=MAPPER_MODEL ..           the bytes are exactly what the in-process real Mapper announces
                                                but not what the model says: the mapper differs from its model
                                                (the loop and the driver transported it faithfully)
   plus CASEDEF for every case with a verdict, SAMPLE and SUMMARY lines. *)

open Model

let rec pos_of_int (i : int) : positive =
  if i = 1 then XH
  else if i land 1 = 0 then XO (pos_of_int (i lsr 1))
  else XI (pos_of_int (i lsr 1))
let n_of_int (i : int) : n = if i = 0 then N0 else Npos (pos_of_int i)
let rec int_of_pos (p : positive) : int =
  match p with XH -> 1 | XO q -> 2 * int_of_pos q | XI q -> 2 * int_of_pos q + 1
let int_of_n (x : n) : int = match x with N0 -> 0 | Npos p -> int_of_pos p
let z_of_int (i : int) : z =
  if i = 0 then Z0 else if i > 0 then Zpos (pos_of_int i) else Zneg (pos_of_int (- i))

let split_ws (s : string) : string array =
  Array.of_list (List.filter (fun x -> x <> "") (String.split_on_char ' ' s))

let parse_mapping (toks : string array) : mapping =
  let i = ref 1 in
  let num () = let v = int_of_string toks.(!i) in incr i; v in
  let keys n = List.init n (fun _ -> n_of_int (num ())) in
  let nf = num () in let from = keys nf in
  let nt = num () in let to_ = keys nt in
  let kind = num () in
  let rep =
    if kind = 0 then RNormal else if kind = 1 then RDisabled
    else begin
      let nk = num () in let ks = keys nk in
      let d = num () in let iv = num () in
      RSpecial (ks, z_of_int d, z_of_int iv)
    end in
  let na = num () in let abs = keys na in
  { m_from = from; m_to = to_; m_repeat = rep; m_abs = abs }

(* ---------- records ---------- *)

let le16 (b : Buffer.t) (x : int) = Buffer.add_char b (Char.chr (x land 255)); Buffer.add_char b (Char.chr ((x lsr 8) land 255))
let le32 (b : Buffer.t) (x : int) =
  let x = x land 0xffffffff in
  for i = 0 to 3 do Buffer.add_char b (Char.chr ((x lsr (8 * i)) land 255)) done

(* a 24-byte struct input_event with a zero timestamp (the reader does not look at the time: C18_reader_exact) *)
let record (ty : int) (code : int) (value : int) : string =
  let b = Buffer.create 24 in
  for _ = 1 to 16 do Buffer.add_char b '\000' done;
  le16 b ty; le16 b code; le32 b value;
  Buffer.contents b

let n_list_of_string (s : string) : n list = List.init (String.length s) (fun i -> n_of_int (Char.code s.[i]))
let string_of_n_list (l : n list) : string =
  let b = Buffer.create 1024 in
  List.iter (fun x -> Buffer.add_char b (Char.chr (int_of_n x land 255))) l;
  Buffer.contents b

let unhex (s : string) : string =
  if s = "-" then ""
  else begin
    let n = String.length s / 2 in
    let b = Bytes.create n in
    for i = 0 to n - 1 do Bytes.set b i (Char.chr (int_of_string ("0x" ^ String.sub s (2 * i) 2))) done;
    Bytes.to_string b
  end

type rcd = { ty : int; code : int; value : int; time_zero : bool; whole : bool }

let records_of (s : string) : rcd list =
  let n = String.length s in
  let rec go i acc =
    if i >= n then List.rev acc
    else if i + 24 > n then List.rev ({ ty = -1; code = -1; value = 0; time_zero = false; whole = false } :: acc)
    else begin
      let g k = Char.code s.[i + k] in
      let tz = ref true in
      for k = 0 to 15 do if g k <> 0 then tz := false done;
      let v = g 20 lor (g 21 lsl 8) lor (g 22 lsl 16) lor (g 23 lsl 24) in
      let v = if v >= 0x80000000 then v - 0x100000000 else v in
      go (i + 24) ({ ty = g 16 lor (g 17 lsl 8); code = g 18 lor (g 19 lsl 8); value = v; time_zero = !tz; whole = true } :: acc)
    end in
  go 0 []

let rcd_str (r : rcd) : string =
  if not r.whole then "torn-record"
  else if r.ty = 1 && r.value = 1 && r.time_zero then "P" ^ string_of_int r.code
  else if r.ty = 1 && r.value = 0 && r.time_zero then "R" ^ string_of_int r.code
  else if r.ty = 0 && r.code = 0 && r.value = 0 && r.time_zero then "SYN"
  else Printf.sprintf "X%d:%d:%d%s" r.ty r.code r.value (if r.time_zero then "" else ":time!=0")

let wellformed (r : rcd) : bool =
  r.whole && r.time_zero && ((r.ty = 1 && (r.value = 0 || r.value = 1)) || (r.ty = 0 && r.code = 0 && r.value = 0))

let keys_of (rs : rcd list) : (int * int) list =
  List.filter_map (fun r -> if r.ty = 1 then Some (r.code, r.value) else None) rs

let ev_str (e : event) = match e with Pressed k -> "P" ^ string_of_int (int_of_n k) | Released k -> "R" ^ string_of_int (int_of_n k)
let evs_str (l : event list) = String.concat " " (List.map ev_str l)
let parse_ev (s : string) : event =
  let c = n_of_int (int_of_string (String.sub s 1 (String.length s - 1))) in
  if s.[0] = 'P' then Pressed c else Released c

(* ---------- cases ---------- *)

type case = {
  id : string; tag : string; tablet : bool; mode : string;
  layout : mapping list; layout_lines : string list;
  script : string;
  impl_sends : event list list; impl_rel : event list;
  obs1 : string; obs2 : string option;       (* None: phase 2 not run *)
  status : (string * string) list;
}

let status_get (c : case) (k : string) : string = try List.assoc k c.status with Not_found -> ""
let status_int (c : case) (k : string) : int = try int_of_string (status_get c k) with _ -> 0

let kv (s : string) : (string * string) option =
  match String.index_opt s '=' with
  | None -> None
  | Some i -> Some (String.sub s 0 i, String.sub s (i + 1) (String.length s - i - 1))

let after_word (l : string) : string =
  match String.index_opt l ' ' with None -> "" | Some i -> String.sub l (i + 1) (String.length l - i - 1)

type item = ICase of case | ISkip of string

let read_item (ic : in_channel) : item option =
  let rec first () =
    match input_line ic with
    | exception End_of_file -> None
    | l ->
      if String.length l >= 5 && String.sub l 0 5 = "CASE " then Some (`Case l)
      else if String.length l >= 5 && String.sub l 0 5 = "SKIP " then Some (`Skip (after_word l))
      else first () in
  match first () with
  | None -> None
  | Some (`Skip id) -> Some (ISkip id)
  | Some (`Case hdr) ->
    let ht = split_ws hdr in
    let id = ht.(1) and tag = ht.(2) in
    let hkv = List.filter_map kv (Array.to_list ht) in
    let maps = ref [] and mlines = ref [] and script = ref "" and impl = ref [] and implrel = ref []
    and obs1 = ref "" and obs2 = ref None and status = ref [] and fin = ref false in
    while not !fin do
      let l = input_line ic in
      let t = split_ws l in
      if Array.length t = 0 then ()
      else match t.(0) with
        | "M" -> maps := parse_mapping t :: !maps; mlines := l :: !mlines
        | "W" -> script := after_word l
        | "IMPL" ->
          let parts = List.tl (String.split_on_char '|' (after_word l)) in
          impl := List.map (fun p -> List.map parse_ev (Array.to_list (split_ws p))) parts
        | "IMPLREL" -> if Array.length t > 1 && t.(1) <> "-" then implrel := List.map parse_ev (List.tl (Array.to_list t))
        | "OBS1" -> obs1 := unhex t.(1)
        | "OBS2" -> if t.(1) = "skipped" then obs2 := None else if t.(1) = "-" then obs2 := Some "" else obs2 := Some (unhex t.(1))
        | "STATUS" -> status := List.filter_map kv (Array.to_list t)
        | "END" -> fin := true
        | _ -> ()
    done;
    Some (ICase { id; tag; tablet = (try List.assoc "tablet" hkv = "1" with Not_found -> false);
                  mode = (try List.assoc "mode" hkv with Not_found -> "");
                  layout = List.rev !maps; layout_lines = List.rev !mlines; script = !script;
                  impl_sends = !impl; impl_rel = !implrel; obs1 = !obs1; obs2 = !obs2; status = !status })

(* the bytes the parent wrote to the keyboard descriptor, timestamps zeroed *)
let input_bytes (script : string) : string * int * int =
  let b = Buffer.create 4096 in
  let nrec = ref 0 and nwrites = ref 0 in
  Array.iter (fun w ->
      match w.[0] with
      | 'P' -> incr nrec; Buffer.add_string b (record 1 (int_of_string (String.sub w 1 (String.length w - 1))) 1)
      | 'R' -> incr nrec; Buffer.add_string b (record 1 (int_of_string (String.sub w 1 (String.length w - 1))) 0)
      | 'X' ->
        incr nrec;
        (match String.split_on_char ':' (String.sub w 1 (String.length w - 1)) with
         | [t; c; v] -> Buffer.add_string b (record (int_of_string t) (int_of_string c) (int_of_string v))
         | _ -> failwith ("bad record token " ^ w))
      | '/' -> incr nwrites
      | _ -> failwith ("bad script token " ^ w)) (split_ws script);
  (Buffer.contents b, !nrec, !nwrites)

type verdict = { clause : string; index : int; observed : string; expected : string }

(* compare one phase; None = as the model says *)
(* the 16 time bytes of a record are not constrained by C18 (the kernel ignores them on writes to uinput): the
   observed stream is compared with the time field of every complete record set to zero *)
let nonzero_time_records = ref 0
let mask_time (obs : string) : string =
  let b = Bytes.of_string obs in
  let n = Bytes.length b / 24 in
  for r = 0 to n - 1 do
    let nz = ref false in
    for j = 0 to 15 do if Bytes.get b (24 * r + j) <> '\000' then (nz := true; Bytes.set b (24 * r + j) '\000') done;
    if !nz then incr nonzero_time_records
  done;
  Bytes.to_string b

let judge (phase : string) (obs : string) (exp : string) : verdict option =
  let obs = mask_time obs in
  if obs = exp then None
  else begin
    let ro = records_of obs and re = records_of exp in
    let ao = Array.of_list ro and ae = Array.of_list re in
    let no = Array.length ao and ne = Array.length ae in
    let i = ref 0 in
    while !i < no && !i < ne && ao.(!i) = ae.(!i) do incr i done;
    let at a n j = if j < n then rcd_str a.(j) else "nothing" in
    let ko = keys_of ro and ke = keys_of re in
    let nko = List.length ko and nke = List.length ke in
    let rec is_prefix a b = match a, b with [], _ -> true | x :: a', y :: b' -> x = y && is_prefix a' b' | _ -> false in
    let clause, what =
      if String.length obs mod 24 <> 0 then "C18.real_records", Printf.sprintf "the stream ends inside a record (%d bytes)" (String.length obs)
      else if List.exists (fun r -> not (wellformed r)) ro then "C18.real_records", "a record that is neither a key event (type 1, value 0/1) nor SYN_REPORT"
      else if ko <> ke then
        "C10.real_epoll",
        (if nko < nke && is_prefix ko ke then Printf.sprintf "the last %d of %d key events of the output never arrive (input events lost)" (nke - nko) nke
         else if nko > nke && is_prefix ke ko then Printf.sprintf "%d key events more than the %d expected (duplicated input or output after the end)" (nko - nke) nke
         else "key events differ (lost, duplicated or reordered input)")
      else "C18.real_records", Printf.sprintf "the key events are right but SYN_REPORT records are missing or extra (%d records instead of %d)" no ne in
    Some { clause; index = !i;
           observed = Printf.sprintf "%s: record %d is %s (%d records in all); %s" phase !i (at ao no !i) no what;
           expected = Printf.sprintf "%s: record %d is %s (%d records in all)" phase !i (at ae ne !i) ne }
  end

let sp (s : string) = String.concat "_" (List.filter (fun x -> x <> "") (String.split_on_char ' ' s))

let () =
  let path = Sys.argv.(1) in
  let ic = open_in path in
  let cases = ref 0 and skipped = ref 0 and nontrivial = ref 0 and key_events = ref 0 and in_records = ref 0
  and out_records = ref 0 and writes = ref 0 and tablet_cases = ref 0 and tablet_nonempty = ref 0 and deadlines = ref 0
  and big_final = ref 0 and over64 = ref 0 and sends = ref 0 and model_steps = ref 0 in
  let seen : (string, unit) Hashtbl.t = Hashtbl.create 256 in
  let samples = ref 0 in
  let rec loop () =
    match read_item ic with
    | None -> ()
    | Some (ISkip _) -> incr skipped; loop ()
    | Some (ICase c) ->
      incr cases;
      let out = Buffer.create 256 in
      let monitor (v : verdict) =
        Buffer.add_string out (Printf.sprintf "MONITOR case=%s clause=%s index=%d observed=%s expected=%s\n" c.id v.clause v.index v.observed v.expected) in
      (try
         let (inb, nrec, nw) = input_bytes c.script in
         in_records := !in_records + nrec; writes := !writes + nw;
         if status_int c "deadline" <> 0 then incr deadlines;
         if status_int c "lastkeys" > 64 then incr big_final;
         if status_int c "maxwrite" > 64 then incr over64;
         if status_get c "child" = "impl-panic" then
           Buffer.add_string out (Printf.sprintf "DIFF case=%s class=OBS_C10 at=0 impl=the_real_Mapper_panics_on_this_history_in_process model=no_panic\n" c.id)
         else if not (x_for_layout_ok c.layout) then
           Buffer.add_string out (Printf.sprintf "DIFF case=%s class=OBS_C10 at=0 impl=for_layout_accepts model=for_layout_panics\n" c.id)
         else begin
           let inb_n = n_list_of_string inb in
           let h = x_history inb_n in
           key_events := !key_events + List.length h; model_steps := !model_steps + List.length h + (if c.tablet then 1 else 0);
           let (s1, s2) = x_sends c.layout h c.tablet in
           (* the object of the pipeline theorems, not a recomposition of it *)
           let exp1 = string_of_n_list (x_device_bytes_out c.layout inb_n)
           and exp2 = if c.tablet then string_of_n_list (x_device_bytes_tablet_on c.layout inb_n) else "" in
           let impl1 = string_of_n_list (x_bytes_of_sends c.impl_sends)
           and impl2 = string_of_n_list (x_bytes_of_sends (if c.impl_rel = [] then [] else [c.impl_rel])) in
           sends := !sends + List.length s1 + List.length s2;
           out_records := !out_records + (String.length c.obs1 + (match c.obs2 with Some o -> String.length o | None -> 0)) / 24;
           if c.tablet then begin incr tablet_cases; if s2 <> [] && c.obs2 <> None then incr tablet_nonempty end;
           if s1 <> [] then begin
             incr nontrivial;
             let k = Digest.string (String.concat ";" c.layout_lines ^ "#" ^ c.script) in
             if not (Hashtbl.mem seen k) then Hashtbl.add seen k ()
           end;
           let tail = Printf.sprintf " [child=%s unread_keyboard_bytes=%s unread_tablet_bytes=%s no_progress_deadline=%s]"
               (status_get c "child") (status_get c "unread_k") (status_get c "unread_t") (status_get c "deadline") in
           let clauses_hit : (string, unit) Hashtbl.t = Hashtbl.create 4 in
           let phase name obs exp impl =
             if obs <> exp && obs = impl then
               Buffer.add_string out (Printf.sprintf "DIFF case=%s class=MAPPER_MODEL at=0 impl=%s:the_loop_wrote_exactly_what_the_real_Mapper_computes_in_process model=%s\n"
                                        c.id name (match judge name obs exp with Some v -> sp v.expected | None -> "-"))
             else match judge name obs exp with
               | None -> ()
               | Some v ->
                 if not (Hashtbl.mem clauses_hit v.clause) then begin
                   Hashtbl.add clauses_hit v.clause ();
                   monitor { v with observed = v.observed ^ tail };
                   (* the key events that reach the virtual keyboard are not the mapper's: every mapper property that speaks
                      about events on the virtual keyboard is no longer delivered by the program (C18_virtual_keyboard_sees_
                      mapper_outputs is the theorem on the model's side); those properties listen to this clause *)
                   if v.clause = "C10.real_epoll" then monitor { v with clause = "DEVICE.key_events"; observed = v.observed ^ tail }
                 end in
           phase "after-the-key-history" c.obs1 exp1 impl1;
           (match c.obs2 with
            | Some o -> phase "after-tablet-switch-on" o exp2 impl2
            | None -> ());
           (* independent of the bytes: the loop must not sleep on unread input, and must not return *)
           let uk = status_int c "unread_k" and ut = status_int c "unread_t" in
           if (uk > 0 || ut > 0) && not (Hashtbl.mem clauses_hit "C10.real_epoll") then begin
             Hashtbl.add clauses_hit "C10.real_epoll" ();
             monitor { clause = "C10.real_epoll"; index = String.length c.obs1 / 24;
                       observed = Printf.sprintf "%d bytes (%d records) of the keyboard pipe and %d of the tablet pipe stay unread while the loop waits in poll%s" uk (uk / 24) ut tail;
                       expected = "every record written is read (FIONREAD = 0) before the loop blocks" }
           end;
           let child = status_get c "child" in
           if child <> "running" && not (Hashtbl.mem clauses_hit "C10.real_epoll") then begin
             Hashtbl.add clauses_hit "C10.real_epoll" ();
             monitor { clause = "C10.real_epoll"; index = String.length c.obs1 / 24;
                       observed = Printf.sprintf "the loop ended (%s: 10 = returned Ok, 11 = returned Err, 12 = panicked) although neither device ended%s" child tail;
                       expected = "the loop keeps running: a pipe never reports ENODEV" }
           end;
           if !samples < 2 && Buffer.length out = 0 && s1 <> [] && (try int_of_string c.id with _ -> 1) mod 37 = 0 then begin
             incr samples;
             let toks = split_ws c.script in
             let shown = String.concat " " (Array.to_list (Array.sub toks 0 (min 40 (Array.length toks)))) in
             Printf.printf "SAMPLE layout{%s} script{%s ... (%d records in %d writes, largest %s, batching mode %s)} key_events{%d} sends{%d} output_records{%d} tablet_on{%b} first_sends{%s}\n"
               (String.concat " ; " c.layout_lines) shown nrec nw (status_get c "maxwrite") c.mode (List.length h) (List.length s1) (String.length c.obs1 / 24) c.tablet
               (String.concat " | " (List.map evs_str (List.filteri (fun i _ -> i < 6) s1)))
           end
         end
       with e -> Buffer.add_string out (Printf.sprintf "CHECKER-EXCEPTION case=%s %s\n" c.id (Printexc.to_string e)));
      if Buffer.length out > 0 then begin
        Printf.printf "CASEDEF case=%s tag=%s tablet=%d layout=%s script=%s\n" c.id c.tag (if c.tablet then 1 else 0)
          (String.concat " ; " c.layout_lines) c.script;
        print_string (Buffer.contents out)
      end;
      loop () in
  loop ();
  Printf.printf "SUMMARY file=%s cases=%d skipped=%d nontrivial=%d distinct_nontrivial=%d key_events=%d in_records=%d out_records=%d writes=%d sends=%d model_steps=%d tablet_cases=%d tablet_nonempty=%d deadlines=%d final_write_over_64_keys=%d cases_with_write_over_64=%d nonzero_time_records=%d\n"
    path !cases !skipped !nontrivial (Hashtbl.length seen) !key_events !in_records !out_records !writes !sends !model_steps
    !tablet_cases !tablet_nonempty !deadlines !big_final !over64 !nonzero_time_records
