(* listing_check.ml — model side of the listing engine (property C16).

     listing_check cases FILE        the case file written by `tm-harness listing-gen`
     listing_check ns SPECDIR NSOUT  the scenarios + what `tm-harness listing-ns` recorded
     listing_check one HEXTEXT       the model's answers on one text (replay)

   cases: for every text, the REAL results of the two extractors are compared
   with the extracted Coq model (DIFF class KBD / DEVS), and the extracted
   checkers Listing.local_ok / agree_ok / exclude_agree_ok are applied to the
   REAL outputs (HIT clause C16.local.* / C16.agree / C16.exclude_agree).  The
   harness's entry splitter is validated against Listing.split_entries.
   ns: the model's selection layer is instantiated with the oracles recorded
   from the fabricated /sys, /dev and WildMatch and compared with what the real
   code selected (DIFF class SELECT); the extracted specifications spec_all /
   spec_dev_file / no_virtual_listed decide the hits C16.select_all,
   C16.select_devfile, C16.virtual on the real selections.
   What "selected" is observed through (field basis= of every DIFF/HIT line):
     open   PRIMARY: the nodes of the fabricated /dev/input the run opened
            (lines SAO/SDO/RAO/RDO/RUO, inotify).  The loop opens the selected
            nodes in order and stops at the first failure (a fabricated node is a
            plain file), so: only selected nodes may be opened, and the first
            selected node that exists must be; the auto mode (RUO) opens exactly
            the selected nodes that exist.
     log    SECONDARY: the verbose log (SA/SD/RA/RD/RU).  Judged only where it has
            the expected shape (a count that equals the entries it reports as
            selected) AND agrees with the opens of the same run; otherwise counted
            in NSSUMMARY (ns_log_unparsed_.., ns_log_disagree_..) without a verdict.
            tools/engines/listing.py drops every basis=log line of a run in which
            any log was unparsed or contradicted the opens.
     value  return values of the public listing functions
     listout stdout of `list_keyboards` (compared only when every line has the
            shape "<name>: /dev/...") *)

open Model

let rec pos_of_int (i : int) : positive =
  if i = 1 then XH
  else if i land 1 = 0 then XO (pos_of_int (i lsr 1))
  else XI (pos_of_int (i lsr 1))
let n_of_int (i : int) : n = if i = 0 then N0 else Npos (pos_of_int i)
let rec int_of_pos (p : positive) : int =
  match p with XH -> 1 | XO q -> 2 * int_of_pos q | XI q -> 2 * int_of_pos q + 1
let int_of_n (x : n) : int = match x with N0 -> 0 | Npos p -> int_of_pos p

let nb = Array.init 256 n_of_int
let hv c = match c with
  | '0'..'9' -> Char.code c - 48 | 'a'..'f' -> Char.code c - 87 | 'A'..'F' -> Char.code c - 55
  | _ -> failwith "bad hex digit"
let bytes_of_hex (s : string) : bytes =
  if s = "-" || s = "~" then []
  else List.init (String.length s / 2) (fun i -> nb.(hv s.[2 * i] * 16 + hv s.[2 * i + 1]))
let hex_of_bytes (b : bytes) : string =
  if b = [] then "-"
  else begin
    let buf = Buffer.create 64 in
    List.iter (fun x -> Buffer.add_string buf (Printf.sprintf "%02x" (int_of_n x))) b;
    Buffer.contents buf
  end

let split_sp (s : string) : string array = Array.of_list (String.split_on_char ' ' s)

(* ---- encodings of results: "P" | "O n f1 f2 .." *)
let parse_k (t : string array) (off : int) : kdev list res =
  if t.(off) = "P" then Panic []
  else begin
    let n = int_of_string t.(off + 1) in
    Ok (List.init n (fun i -> (bytes_of_hex t.(off + 2 + 2 * i), bytes_of_hex t.(off + 3 + 2 * i))))
  end
let parse_d (t : string array) (off : int) : idev list res =
  if t.(off) = "P" then Panic []
  else begin
    let n = int_of_string t.(off + 1) in
    Ok (List.init n (fun i -> ((bytes_of_hex t.(off + 2 + 3 * i), bytes_of_hex t.(off + 3 + 3 * i)), t.(off + 4 + 3 * i) = "1")))
  end
let parse_flags (t : string array) (off : int) : (bytes * bool) list res =
  if t.(off) = "P" then Panic []
  else begin
    let n = int_of_string t.(off + 1) in
    Ok (List.init n (fun i -> (bytes_of_hex t.(off + 2 + 2 * i), t.(off + 3 + 2 * i) = "1")))
  end
let enc_k (r : kdev list res) : string =
  match r with
  | Panic _ -> "P"
  | Ok l -> String.concat " " (("O " ^ string_of_int (List.length l)) :: List.map (fun (p, nm) -> hex_of_bytes p ^ " " ^ hex_of_bytes nm) l)
let enc_d (r : idev list res) : string =
  match r with
  | Panic _ -> "P"
  | Ok l -> String.concat " " (("O " ^ string_of_int (List.length l)) :: List.map (fun ((p, nm), k) -> hex_of_bytes p ^ " " ^ hex_of_bytes nm ^ " " ^ (if k then "1" else "0")) l)
let enc_flags (r : (bytes * bool) list res) : string =
  match r with
  | Panic _ -> "P"
  | Ok l -> String.concat " " (("O " ^ string_of_int (List.length l)) :: List.map (fun (nm, k) -> hex_of_bytes nm ^ " " ^ (if k then "1" else "0")) l)

let eq_k = beq_res (beq_list beq_kdev)
let eq_d = beq_res (beq_list beq_idev)

let cat_res (rs : 'a list res list) : 'a list res =
  List.fold_right (fun r acc -> match r, acc with
    | Panic s, _ -> Panic s | _, Panic s -> Panic s | Ok a, Ok b -> Ok (a @ b)) rs (Ok [])

(* C16 speaks about WHICH devices are selected, not about the order in which a listing returns them: a real result
   that is a permutation of the reference list is judged as that list (n_reordered counts them) *)
let n_reordered = ref 0
let n_outside = ref 0
let as_perm_of (eq : 'a -> 'a -> bool) (real : 'a list res) (reference : 'a list res) : 'a list res =
  match real, reference with
  | Ok a, Ok b when List.length a = List.length b && a <> b ->
    let rec remove x l = match l with [] -> None | y :: t -> if eq x y then Some t else (match remove x t with Some t' -> Some (y :: t') | None -> None) in
    let rec perm a b = match a with [] -> b = [] | x :: a' -> (match remove x b with Some b' -> perm a' b' | None -> false) in
    if perm a b then (incr n_reordered; reference) else real
  | _, _ -> real

(* ------------------------------------------------------------------ cases *)

type tcase = {
  id : string; family : string; text_hex : string;
  mutable k : string array; mutable d : string array;
  mutable ents : (int * string) list; mutable eks : (int * string array) list; mutable eds : (int * string array) list;
}

let n_texts = ref 0 and n_entries = ref 0 and n_kbd = ref 0 and n_dev = ref 0 and n_panic = ref 0
let n_nontrivial = ref 0 and n_distinct = ref 0 and n_diffs = ref 0 and n_hits = ref 0 and n_excl = ref 0
let n_evals = ref 0 and n_samples = ref 0 and n_oracle_panics = ref 0 and n_excl_flagged = ref 0
let seen : (string, unit) Hashtbl.t = Hashtbl.create 4096
let with_entries = ref false

let outside_kernel_format (text : bytes) : bool =
    (* the kernel's own format (drivers/input/input.c, input_devices_seq_show): bitmap lines are lower-case hex words
       separated by single blanks; a sysfs path is empty or starts with one '/' and has no blank at either end and no
       "//"; no carriage return anywhere.  Names, Phys, Uniq are free; fields may be missing, repeated, in any order. *)
    let str = String.concat "" (List.map (fun b -> String.make 1 (Char.chr (int_of_n b land 255))) text) in
    let bad_line (l : string) : bool =
      let n = String.length l in
      let value () = (try String.sub l (String.index l '=' + 1) (n - String.index l '=' - 1) with Not_found -> "") in
      if n >= 3 && String.sub l 0 3 = "B: " then begin
        let v = value () in
        v = "" || v.[0] = ' ' || v.[String.length v - 1] = ' '
        || (let bad = ref false and prev_sp = ref false in
            String.iter (fun ch ->
                if ch = ' ' then (if !prev_sp then bad := true; prev_sp := true)
                else begin prev_sp := false; if not ((ch >= '0' && ch <= '9') || (ch >= 'a' && ch <= 'f')) then bad := true end) v;
            !bad)
      end else if n >= 9 && String.sub l 0 9 = "S: Sysfs=" then begin
        let v = value () in
        let m = String.length v in
        m > 0 && (v.[0] <> '/' || v.[m - 1] = ' ' || v.[m - 1] = '\t' || (m > 1 && v.[1] = '/')
                  || (let dbl = ref false in String.iteri (fun i ch -> if ch = '/' && i + 1 < m && v.[i + 1] = '/' then dbl := true) v; !dbl))
      end else false in
    String.contains str '\r' || List.exists bad_line (String.split_on_char '\n' str)

let process_t (c : tcase) =
  incr n_texts;
  let text = bytes_of_hex c.text_hex in
  let rk = parse_k c.k 2 and rd = parse_d c.d 2 in
  let mk = extract_keyboards text and md = extract_input_devices text in
  let rk_raw = rk in
  let rk = as_perm_of beq_kdev rk mk and rd = as_perm_of beq_idev rd md in
  ignore rk_raw;
  n_evals := !n_evals + 2;
  (* C16 quantifies over texts in the kernel's format.  A text with a carriage return, or with upper-case hex digits in
     a bitmap line, is not one (the generator writes some to pin the model down): a difference there is reported in a
     class of its own that C16 does not observe (n_outside counts them) *)
  let outside = outside_kernel_format text in
  let cls name = if outside then (incr n_outside; name ^ "_OUTSIDE_DOMAIN") else name in
  if not (eq_k rk mk) then begin
    incr n_diffs;
    Printf.printf "DIFF class=%s id=%s family=%s text=%s impl=%s model=%s\n" (cls "KBD") c.id c.family c.text_hex (enc_k rk) (enc_k mk)
  end;
  if not (eq_d rd md) then begin
    incr n_diffs;
    (* C16 is about keyboards: a --dev-file listing that agrees with the model on every keyboard and differs in which
       NON-keyboard devices it carries along is a class of its own *)
    let kb (r : idev list res) = (match r with Ok l -> Ok (List.filter is_kbd l) | Panic s -> Panic s) in
    let only_nonkbd = eq_d (as_perm_of beq_idev (kb rd) (kb md)) (kb md) in
    Printf.printf "DIFF class=%s id=%s family=%s text=%s impl=%s model=%s\n" (if only_nonkbd then "DEVS_NONKEYBOARD" else cls "DEVS") c.id c.family c.text_hex (enc_d rd) (enc_d md)
  end;
  (* the harness's decomposition into entries must be the model's *)
  let (pre, es) = split_entries (split_lines text) in
  let ents = List.sort compare c.ents in
  let eks = List.sort (fun (a, _) (b, _) -> compare a b) c.eks and eds = List.sort (fun (a, _) (b, _) -> compare a b) c.eds in
  let h_pre = (match ents with (0, h) :: _ -> h | _ -> "?") in
  let h_es = List.filter_map (fun (i, h) -> if i > 0 then Some h else None) ents in
  let m_pre = (if pre = [] then "~" else hex_of_bytes (join_lines pre)) in
  let m_es = List.map (fun e -> hex_of_bytes (join_lines e)) es in
  let norm h = if h = "~" then "~" else h in
  if norm h_pre <> m_pre || h_es <> m_es then
    Printf.printf "CHECKER-FAILED entry split of the harness differs from Listing.split_entries on text %s\n" c.text_hex;
  n_entries := !n_entries + List.length es;
  (* the extracted checkers on the REAL outputs *)
  let rek = List.map (fun (_, t) -> parse_k t 3) eks and red = List.map (fun (_, t) -> parse_d t 3) eds in
  (match rek with
   | p :: rest ->
     if not (local_ok beq_kdev (as_perm_of beq_kdev rk (cat_res rek)) p rest) then begin
       incr n_hits;
       Printf.printf "HIT clause=C16.local.kbd id=%s family=%s text=%s observed=%s expected=%s\n" c.id c.family c.text_hex (enc_k rk) (enc_k (cat_res rek))
     end
   | [] -> ());
  (match red with
   | p :: rest ->
     (* C16: "whether a device counts as a keyboard depends only on that device's own entry" - the verdict per device.
        Which NON-keyboard devices the --dev-file listing carries along (an entry without a key map, a second entry with the
        same sysfs path) is not fixed by the property: the keyboards of the whole text are the keyboards of the entries *)
     let kb_only (r : idev list res) = (match r with Ok l -> Ok (List.filter is_kbd l) | Panic s -> Panic s) in
     let rd_k = kb_only rd and red_k = List.map kb_only red in
     let (pk, restk) = (match red_k with a :: b -> (a, b) | [] -> (p, rest)) in
     if not (local_ok beq_idev (as_perm_of beq_idev rd (cat_res red)) p rest)
        && not (local_ok beq_idev (as_perm_of beq_idev rd_k (cat_res red_k)) pk restk) then begin
       incr n_hits;
       Printf.printf "HIT clause=C16.local.dev id=%s family=%s text=%s observed=%s expected=%s\n" c.id c.family c.text_hex (enc_d rd) (enc_d (cat_res red))
     end
   | [] -> ());
  if not (agree_ok (as_perm_of beq_kdev rk (match rd with Ok ds -> Ok (List.map forget (List.filter is_kbd ds)) | Panic s -> Panic s)) rd) then begin
    incr n_hits;
    let exp = (match rd with Ok ds -> Ok (List.map forget (List.filter is_kbd ds)) | Panic s -> Panic s) in
    Printf.printf "HIT clause=C16.agree id=%s family=%s text=%s observed=%s expected=%s\n" c.id c.family c.text_hex (enc_k rk) (enc_k exp)
  end;
  (* the same checkers can never fire on the model (C16_local, C16_agree) *)
  if not (agree_ok mk md) then Printf.printf "CHECKER-FAILED agree_ok fails on the model for text %s\n" c.text_hex;
  if !with_entries then begin
    (* per-entry correspondence as well *)
    let mek = (if pre = [] then Ok [] else extract_keyboards (join_lines pre)) :: List.map (fun e -> extract_keyboards (join_lines e)) es in
    let med = (if pre = [] then Ok [] else extract_input_devices (join_lines pre)) :: List.map (fun e -> extract_input_devices (join_lines e)) es in
    n_evals := !n_evals + 2 * List.length mek;
    (match mek with p :: rest -> if not (local_ok beq_kdev mk p rest) then Printf.printf "CHECKER-FAILED local_ok(kbd) fails on the model for text %s\n" c.text_hex | [] -> ());
    (match med with p :: rest -> if not (local_ok beq_idev md p rest) then Printf.printf "CHECKER-FAILED local_ok(dev) fails on the model for text %s\n" c.text_hex | [] -> ());
    if List.length mek = List.length rek && not (List.for_all2 (fun r m -> eq_k (as_perm_of beq_kdev r m) m) rek mek) then begin
      incr n_diffs;
      Printf.printf "DIFF class=%s id=%s family=%s-entry text=%s impl=%s model=%s\n" (cls "KBD") c.id c.family c.text_hex (enc_k (cat_res rek)) (enc_k (cat_res mek))
    end;
    if List.length med = List.length red && not (List.for_all2 (fun r m -> eq_d (as_perm_of beq_idev r m) m) red med) then begin
      incr n_diffs;
      let kb (r : idev list res) = (match r with Ok l -> Ok (List.filter is_kbd l) | Panic s -> Panic s) in
      let only_nonkbd = List.for_all2 (fun r m -> eq_d (as_perm_of beq_idev (kb r) (kb m)) (kb m)) red med in
      Printf.printf "DIFF class=%s id=%s family=%s-entry text=%s impl=%s model=%s\n" (if only_nonkbd then "DEVS_NONKEYBOARD" else cls "DEVS") c.id c.family c.text_hex (enc_d (cat_res red)) (enc_d (cat_res med))
    end
  end;
  (* statistics *)
  (match rk with Ok l -> n_kbd := !n_kbd + List.length l | Panic _ -> incr n_panic);
  (match rd with Ok l -> n_dev := !n_dev + List.length l | Panic _ -> incr n_panic);
  let key = Digest.string c.text_hex in
  if not (Hashtbl.mem seen key) then begin
    Hashtbl.add seen key ();
    incr n_distinct;
    let mixed = (match rd with Ok l -> List.exists is_kbd l && List.exists (fun x -> not (is_kbd x)) l | Panic _ -> false) in
    if List.length es >= 2 && mixed then begin
      incr n_nontrivial;
      if !n_samples < 3 && (c.family = "assembled" || c.family = "leak") && String.length c.text_hex < 2400 then begin
        incr n_samples;
        Printf.printf "SAMPLE family=%s text=%s kbd=%s dev=%s\n" c.family c.text_hex (enc_k rk) (enc_d rd)
      end
    end
  end

let process_x (x : string array) (xa : string array) (xb : string array) (xm : string) =
  incr n_excl;
  let id = x.(1) in
  let nn = int_of_string x.(2) in
  let names = List.init nn (fun i -> x.(3 + i)) in
  let np = int_of_string x.(3 + nn) in
  let pats = List.init np (fun i -> x.(4 + nn + i)) in
  let ra = parse_flags xa 2 and rb = parse_flags xb 2 in
  let inp = Printf.sprintf "names=%s patterns=%s" (String.concat "," names) (String.concat "," pats) in
  if not (exclude_agree_ok ra rb) then begin
    incr n_hits;
    Printf.printf "HIT clause=C16.exclude_agree id=%s %s observed=%s expected=%s\n" id inp (enc_flags rb) (enc_flags ra)
  end;
  (match ra with Ok l -> n_excl_flagged := !n_excl_flagged + List.length (List.filter snd l) | Panic _ -> ());
  if String.contains xm 'p' then incr n_oracle_panics
  else begin
    let tbl : (string * string, bool) Hashtbl.t = Hashtbl.create 16 in
    List.iteri (fun i nm -> List.iteri (fun j p -> Hashtbl.replace tbl (p, nm) (xm.[i * np + j] = '1')) pats) names;
    let glob (p : bytes) (nm : bytes) : bool =
      try Hashtbl.find tbl (hex_of_bytes p, hex_of_bytes nm) with Not_found -> false in
    let bn = List.map bytes_of_hex names and bp = List.map bytes_of_hex pats in
    let ma = Ok (List.map (fun ((_, nm), f) -> (nm, f)) (flag_excluded glob (List.mapi (fun i nm -> ([nb.(i)], nm)) bn) bp)) in
    let mb = Ok (List.map (fun (((_, nm), _), f) -> (nm, f)) (flag_excluded_input_devices glob (List.mapi (fun i nm -> (([nb.(i)], nm), i mod 2 = 0)) bn) bp)) in
    n_evals := !n_evals + 2;
    if not (exclude_agree_ok ra ma) then begin
      incr n_diffs;
      Printf.printf "DIFF class=EXCL id=%s fn=flag_excluded %s impl=%s model=%s\n" id inp (enc_flags ra) (enc_flags ma)
    end;
    if not (exclude_agree_ok rb mb) then begin
      incr n_diffs;
      Printf.printf "DIFF class=EXCL id=%s fn=flag_excluded_input_devices %s impl=%s model=%s\n" id inp (enc_flags rb) (enc_flags mb)
    end
  end

let run_cases (file : string) =
  let ic = open_in file in
  let cur : tcase option ref = ref None in
  let x = ref [||] and xa = ref [||] and xb = ref [||] in
  (try
     while true do
       let l = input_line ic in
       let t = split_sp l in
       match t.(0) with
       | "T" -> cur := Some { id = t.(1); family = t.(2); text_hex = t.(3); k = [||]; d = [||]; ents = []; eks = []; eds = [] }
       | "K" -> (match !cur with Some c -> c.k <- t | None -> ())
       | "D" -> (match !cur with Some c -> c.d <- t | None -> ())
       | "E" -> (match !cur with Some c -> c.ents <- (int_of_string t.(2), t.(3)) :: c.ents | None -> ())
       | "EK" -> (match !cur with Some c -> c.eks <- (int_of_string t.(2), t) :: c.eks | None -> ())
       | "ED" -> (match !cur with Some c -> c.eds <- (int_of_string t.(2), t) :: c.eds | None -> ())
       | "END" -> (match !cur with Some c -> process_t c; cur := None | None -> ())
       | "X" -> x := t
       | "XA" -> xa := t
       | "XB" -> xb := t
       | "XM" -> process_x !x !xa !xb t.(2)
       | _ -> ()
     done
   with End_of_file -> ());
  close_in ic;
  Printf.printf "SUMMARY texts=%d entries=%d evaluations=%d distinct=%d distinct_nontrivial=%d keyboards_found=%d devices_found=%d panics=%d excl_cases=%d excl_flagged=%d oracle_panics=%d diffs=%d hits=%d\n"
    !n_texts !n_entries !n_evals !n_distinct !n_nontrivial !n_kbd !n_dev !n_panic !n_excl !n_excl_flagged !n_oracle_panics !n_diffs !n_hits

(* ------------------------------------------------------------------ namespace scenarios *)

let read_lines (file : string) : string list =
  let ic = open_in file in
  let r = ref [] in
  (try while true do r := input_line ic :: !r done with End_of_file -> ());
  close_in ic;
  List.rev !r

let enc_paths (l : bytes list) : string = String.concat "," (List.map hex_of_bytes l)

let run_ns (dir : string) (nsout : string) =
  let lines = read_lines nsout in
  (* group by scenario *)
  let groups : (string * string list ref) list ref = ref [] in
  let cur = ref None in
  List.iter (fun l ->
      let t = split_sp l in
      match t.(0) with
      | "NSFAIL" -> Printf.printf "NSFAIL %s\n" l
      | "NS" -> let g = ref [] in groups := (t.(2), g) :: !groups; cur := Some g
      | _ -> (match !cur with Some g -> g := l :: !g | None -> ())) lines;
  let n_sc = ref 0 and n_cmp = ref 0 and n_diffs = ref 0 and n_hits = ref 0 and n_guarded = ref 0 and n_sel = ref 0
  and n_virtual_present = ref 0 and n_real_bin = ref 0 and n_ioerr = ref 0 and n_samples = ref 0
  and n_open = ref 0 and n_log_used = ref 0 and n_log_unparsed_probe = ref 0 and n_log_disagree_probe = ref 0
  and n_log_unparsed_real = ref 0 and n_log_disagree_real = ref 0 and n_list_unparsed = ref 0 and n_auto = ref 0 in
  List.iter (fun (spec, g) ->
      incr n_sc;
      let sl = List.map split_sp (read_lines spec) in
      let text = ref [] and sys = ref [] and truth = ref [] and args = ref [] and excl = ref [] in
      List.iter (fun t ->
          match t.(0) with
          | "TEXT" -> text := bytes_of_hex t.(1)
          | "SYS" ->
            let p = t.(1) in
            (match t.(2) with
             | "node" ->
               let node = bytes_of_hex ("2f6465762f" ^ t.(4)) (* "/dev/" ^ devname *) in
               sys := (p, IoOk (Some node)) :: !sys; truth := (node, bytes_of_hex p) :: !truth
             | "empty" | "nodevname" -> sys := (p, IoOk None) :: !sys
             | _ -> sys := (p, IoErr) :: !sys)
          | "ARG" -> args := bytes_of_hex t.(1) :: !args
          | "EXC" -> excl := bytes_of_hex t.(1) :: !excl
          | _ -> ()) sl;
      let args = List.rev !args and excl = List.rev !excl and text = !text in
      let sys_devnode (p : bytes) = try List.assoc (hex_of_bytes p) !sys with Not_found -> IoErr in
      let canon_tbl = Hashtbl.create 16 and glob_tbl = Hashtbl.create 16 in
      let gl = List.map split_sp (List.rev !g) in
      List.iter (fun t ->
          match t.(0) with
          | "CANON" -> Hashtbl.replace canon_tbl t.(2) (if t.(3) = "!" then None else Some (bytes_of_hex t.(3)))
          | "GLOB" -> Hashtbl.replace glob_tbl (t.(2), t.(3)) (t.(4) = "1")
          | _ -> ()) gl;
      let missing_oracle = ref false in
      let canon (p : bytes) = try Hashtbl.find canon_tbl (hex_of_bytes p) with Not_found -> (missing_oracle := true; None) in
      let glob (p : bytes) (nm : bytes) = try Hashtbl.find glob_tbl (hex_of_bytes p, hex_of_bytes nm) with Not_found -> (missing_oracle := true; false) in
      let find tag = List.find_opt (fun t -> t.(0) = tag) gl in
      let cur_basis = ref "value" in
      let diff what impl model =
        incr n_diffs;
        Printf.printf "DIFF class=%s basis=%s scenario=%s what=%s impl=%s model=%s\n"
          (if outside_kernel_format text || List.exists (fun (_, r) -> r = IoErr) !sys
           then (incr n_outside; "SELECT_OUTSIDE_DOMAIN") else "SELECT") !cur_basis spec what impl model in
      let hit clause engine observed expected =
        incr n_hits;
        Printf.printf "HIT clause=%s basis=%s engine=%s scenario=%s observed=%s expected=%s\n" clause !cur_basis engine spec observed expected in
      if List.exists (fun (_, p) -> is_virtual p) !truth then incr n_virtual_present;
      (* real extractor outputs on the scenario text (hooks) *)
      let rd = (match find "ND" with Some t -> parse_d t 2 | None -> Panic []) in
      (* ---- model vs real listings (return values of the public functions) *)
      let enc_lk o = (match o with
          | OPanic _ -> "P" | OIoErr -> "E"
          | OOk l -> String.concat " " (("O " ^ string_of_int (List.length l)) :: List.map (fun (p, nm) -> hex_of_bytes p ^ " " ^ hex_of_bytes nm) l)) in
      let enc_ld o = (match o with
          | OPanic _ -> "P" | OIoErr -> "E"
          | OOk l -> String.concat " " (("O " ^ string_of_int (List.length l)) :: List.map (fun ((p, nm), k) -> hex_of_bytes p ^ " " ^ hex_of_bytes nm ^ " " ^ (if k then "1" else "0")) l)) in
      let rest t off = String.concat " " (Array.to_list (Array.sub t off (Array.length t - off))) in
      let mlk = list_keyboards sys_devnode text and mld = list_input_devices sys_devnode text in
      (match mlk with OIoErr -> incr n_ioerr | _ -> ());
      (* C16 is about WHICH devices are listed / selected, not about the order of a listing: encoded listings are
         compared with their items (groups of k tokens after hdr header tokens) sorted *)
      let norm_groups (hdr : int) (k : int) (str : string) : string =
        let t = Array.of_list (String.split_on_char ' ' str) in
        let n = Array.length t in
        if n < hdr || (n - hdr) mod k <> 0 then str
        else begin
          let groups = List.init ((n - hdr) / k) (fun i -> String.concat " " (Array.to_list (Array.sub t (hdr + k * i) k))) in
          String.concat " " (Array.to_list (Array.sub t 0 hdr) @ List.sort compare groups)
        end in
      let order_kept = ref true in
      (match find "LK" with
       | Some t ->
         incr n_cmp;
         if rest t 2 <> enc_lk mlk then begin
           order_kept := false;
           if norm_groups 2 2 (rest t 2) <> norm_groups 2 2 (enc_lk mlk) then diff "list_keyboards" (rest t 2) (enc_lk mlk) else incr n_reordered
         end
       | None -> ());
      (match find "LD" with
       | Some t ->
         incr n_cmp;
         if rest t 2 <> enc_ld mld && norm_groups 2 3 (rest t 2) <> norm_groups 2 3 (enc_ld mld) then diff "list_input_devices" (rest t 2) (enc_ld mld)
       | None -> ());
      (* ---- the model's selections: ordered lists of what is selected; None: the listing itself fails *)
      let model_fl = (match mlk with OOk devs -> Some (flag_excluded glob devs excl) | _ -> None) in
      let model_sel_all : bytes list option =
        (match model_fl with Some fl -> Some (List.filter_map (fun ((p, _), x) -> if x then None else Some p) fl) | None -> None) in
      let model_sa = (match model_fl with
          | Some fl ->
            let cnt = List.length (List.filter (fun (_, x) -> not x) fl) in
            String.concat " " ((string_of_int cnt ^ " " ^ string_of_int (List.length fl)) :: List.map (fun ((p, _), x) -> hex_of_bytes p ^ " " ^ (if x then "1" else "0")) fl)
          | None -> "-1 0") in
      let model_fd = filter_devices glob sys_devnode canon text args true excl in
      let model_sel_dev : bytes list option =
        (match model_fd with OOk sel -> Some (List.filter (fun a -> List.exists (fun s -> beq_bytes s a) sel) args) | _ -> None) in
      let model_sd = (match model_fd with
          | OOk sel ->
            (* the harness reports, per argument in order, whether it was NOT skipped *)
            String.concat " " ((string_of_int (List.length sel) ^ " " ^ string_of_int (List.length args))
                               :: List.map (fun a -> hex_of_bytes a ^ " " ^ (if List.exists (fun s -> beq_bytes s a) sel then "1" else "0")) args)
          | _ -> "-1 " ^ string_of_int (List.length args) ^ String.concat "" (List.map (fun a -> " " ^ hex_of_bytes a ^ " 1") args)) in
      let sel_of_sa (t : string array) off : bytes list =
        (* non-excluded listed paths *)
        let n = int_of_string t.(off + 1) in
        List.filter_map (fun i -> if t.(off + 3 + 2 * i) = "0" then Some (bytes_of_hex t.(off + 2 + 2 * i)) else None) (List.init n (fun i -> i)) in
      let sel_of_sd (t : string array) off : bytes list =
        let n = int_of_string t.(off + 1) in
        List.filter_map (fun i -> if t.(off + 3 + 2 * i) = "1" then Some (bytes_of_hex t.(off + 2 + 2 * i)) else None) (List.init n (fun i -> i)) in
      (* ---- PRIMARY observation: the nodes of /dev/input the run opened (names, hexadecimal).  The loop opens the
         selected nodes in order and stops at the first failure, and a fabricated node always fails (plain file), so
         a run of --all-keyboards / --dev-file opens the first selected node that exists; the auto mode opens every
         selected node that exists.  Accepted: only selected nodes are opened, and the first selected one is among
         them when it exists (strict = false); exactly the selected existing nodes (strict = true, auto mode). *)
      let basename (p : bytes) : string =
        let rec go acc l = (match l with [] -> List.rev acc | x :: r -> if int_of_n x = 47 then go [] r else go (x :: acc) r) in
        hex_of_bytes (go [] p) in
      let opens_of tag : string list option =
        (match find tag with
         | Some t when Array.length t > 2 && t.(2) <> "-" -> let n = int_of_string t.(2) in Some (List.init n (fun i -> t.(3 + i)))
         | _ -> None) in
      let existing_names (sel : bytes list) : string list =
        List.filter_map (fun p -> match canon p with Some q -> Some (basename q) | None -> None) sel in
      let first_name (sel : bytes list) : string option =
        (match sel with [] -> None | p :: _ -> (match canon p with Some q -> Some (basename q) | None -> None)) in
      let opens_ok (strict : bool) (o : string list) (sel : bytes list) : bool =
        let names = existing_names sel in
        if strict then List.sort_uniq compare o = List.sort_uniq compare names
        else List.for_all (fun x -> List.mem x names) o
             && (if !order_kept then (match first_name sel with Some f -> List.mem f o | None -> true)
                 else (names = [] || o <> [] || List.length names < List.length sel))
                 (* a listing in another order: SOME selected node is tried first - and opened unless it is one that is
                    missing from /dev *) in
      let show_names l = if l = [] then "-" else String.concat "," l in
      let node_of_name nm = bytes_of_hex ("2f6465762f696e7075742f" ^ nm) (* "/dev/input/" ^ name *) in
      let guard_all () = (match rd with Ok ds when lookups_ok_b sys_devnode true ds && model_sel_all <> None -> Some (spec_all glob sys_devnode excl ds) | _ -> None) in
      let guard_dev () = (match rd with
          | Ok ds when model_sel_dev <> None && lookups_ok_b sys_devnode false ds && canon_distinct_b sys_devnode canon ds
                       && canon_clean_b canon (args @ List.map fst (listed sys_devnode ds)) -> Some (spec_dev_file glob sys_devnode canon excl ds args)
          | _ -> None) in
      let check_open engine mode (strict : bool) otag (msel : bytes list option) (guard : unit -> bytes list option) clause =
        (match opens_of otag with
         | None -> ()
         | Some o ->
           incr n_open; incr n_cmp;
           cur_basis := "open";
           n_sel := !n_sel + List.length o;
           let sel = (match msel with Some l -> l | None -> []) in
           if not (opens_ok strict o sel) then
             diff (engine ^ ":" ^ mode ^ (if strict then ":opens-all" else ":opens-first")) (show_names o) (show_names (existing_names sel));
           let opaths = List.map node_of_name o in
           if not (no_virtual_listed !truth opaths) then hit "C16.virtual" engine ("opened:" ^ enc_paths opaths) "no node of a /devices/virtual/input/ device";
           (match guard () with
            | Some exp ->
              incr n_guarded;
              if not (opens_ok strict o exp) then
                hit clause engine ("opened:" ^ enc_paths opaths) ((if strict then "opens-exactly:" else "opens-first-of:") ^ enc_paths exp)
            | None -> ())) in
      (* ---- SECONDARY observation: what the verbose log says.  Used only when it has the expected shape (header,
         list lines, a count that equals the number of entries it reports as selected) AND agrees with the opens;
         otherwise it is counted (unparsed / disagree) and gives no verdict. *)
      let log_bad kind what =
        (match kind, what with
         | "probe", "unparsed" -> incr n_log_unparsed_probe | "probe", _ -> incr n_log_disagree_probe
         | _, "unparsed" -> incr n_log_unparsed_real | _, _ -> incr n_log_disagree_real) in
      let check_log engine kind mode (strict : bool) tag otag (is_dev : bool) model_str (model_fails : bool) (guard : unit -> bytes list option) clause =
        (match find tag with
         | None -> ()
         | Some t ->
           let off = 3 in
           let parsed = (try int_of_string t.(off) >= 0 with _ -> false) in
           let sel = if parsed then (try (if is_dev then sel_of_sd t off else sel_of_sa t off) with _ -> []) else [] in
           let shape_ok = parsed && (try int_of_string t.(off) = List.length sel with _ -> false) in
           if not shape_ok then begin
             (* no list in the log: the expected thing when the listing itself fails *)
             if not (model_fails && not parsed) then log_bad kind "unparsed"
           end else begin
             let agrees = (match opens_of otag with Some o -> opens_ok strict o sel | None -> true) in
             if not agrees then log_bad kind "disagree"
             else begin
               incr n_log_used; incr n_cmp;
               cur_basis := "log";
               (* --dev-file: WHICH nodes are selected (a node named twice may be selected once or twice) *)
               let dev_sets_differ () =
                 let mt = Array.of_list (String.split_on_char ' ' model_str) in
                 let cz l = List.sort_uniq compare (List.map (fun a -> match canon a with Some c -> hex_of_bytes c | None -> hex_of_bytes a) l) in
                 (try cz (sel_of_sd mt 0) <> cz sel with _ -> true) in
               if rest t off <> model_str && (if is_dev then dev_sets_differ () else norm_groups 2 2 (rest t off) <> norm_groups 2 2 model_str) then diff (engine ^ ":" ^ mode) (rest t off) model_str;
               let csel = if is_dev then List.filter_map canon sel else sel in
               if not (no_virtual_listed !truth csel) then hit "C16.virtual" engine (enc_paths sel) "no node of a /devices/virtual/input/ device";
               (match guard () with
                | Some exp -> incr n_guarded;
                  let srt l = List.sort compare (List.map hex_of_bytes l) in
                  (* as sets of the nodes the arguments resolve to (an argument may name a node through a symlink) *)
                  let srtu l = List.sort_uniq compare (List.map (fun a -> match canon a with Some c -> hex_of_bytes c | None -> hex_of_bytes a) l) in
                  if not (beq_list beq_bytes sel exp) && (if is_dev then srtu sel <> srtu exp else srt sel <> srt exp) then hit clause engine (enc_paths sel) (enc_paths exp)
                | None -> ())
             end
           end) in
      let check_selection engine kind pa pd =
        check_open engine "all-keyboards" false (pa ^ "O") model_sel_all guard_all "C16.select_all";
        check_open engine "dev-file" false (pd ^ "O") model_sel_dev guard_dev "C16.select_devfile";
        check_log engine kind "all-keyboards" false pa (pa ^ "O") false model_sa (model_sel_all = None) guard_all "C16.select_all";
        check_log engine kind "dev-file" false pd (pd ^ "O") true model_sd (model_sel_dev = None) guard_dev "C16.select_devfile" in
      check_selection "listing" "probe" "SA" "SD";
      (* listings returned by the public functions: no virtual node either *)
      cur_basis := "value";
      (match find "LD" with
       | Some t when t.(2) = "O" ->
         let n = int_of_string t.(3) in
         let nodes = List.init n (fun i -> bytes_of_hex t.(4 + 3 * i)) in
         if not (no_virtual_listed !truth nodes) then hit "C16.virtual" "listing" ("list_input_devices:" ^ enc_paths nodes) "no node of a /devices/virtual/input/ device"
       | _ -> ());
      (match find "LK" with
       | Some t when t.(2) = "O" ->
         let n = int_of_string t.(3) in
         let nodes = List.init n (fun i -> bytes_of_hex t.(4 + 2 * i)) in
         if not (no_virtual_listed !truth nodes) then hit "C16.virtual" "listing" ("list_keyboards:" ^ enc_paths nodes) "no node of a /devices/virtual/input/ device"
       | _ -> ());
      (* ---- the real binary *)
      (match find "RK" with
       | Some t ->
         incr n_real_bin;
         let n = int_of_string t.(3) in
         let got = List.init n (fun i -> t.(4 + i)) in
         let exp = (match mlk with
             | OOk l -> List.map (fun (p, nm) -> hex_of_bytes (nm @ [nb.(58); nb.(32)] @ p)) l
             | _ -> []) in
         (* `list_keyboards` prints "<name>: <path>" lines; output of another shape (also: a name with a line break) is
            not judged *)
         let has_sub (h : string) (needle : string) =
           let ln = String.length needle and lh = String.length h in
           let rec go i = i + ln <= lh && (String.sub h i ln = needle || go (i + 2)) in go 0 in
         let shaped = List.for_all (fun h -> has_sub h "3a202f6465762f") got (* ": /dev/" *) in
         if not shaped then incr n_list_unparsed
         else begin
           incr n_cmp; cur_basis := "listout";
           if List.sort compare got <> List.sort compare exp then diff "real-binary:list_keyboards" (String.concat "," got) (String.concat "," exp)
         end
       | None -> ());
      check_selection "listing(real-binary)" "real" "RA" "RD";
      (* the auto mode of the real binary: every selected node is opened *)
      check_open "listing(real-binary)" "auto-all-keyboards" true "RUO" model_sel_all guard_all "C16.select_all";
      check_log "listing(real-binary)" "real" "auto-all-keyboards" true "RU" "RUO" false model_sa (model_sel_all = None) guard_all "C16.select_all";
      (match find "RUO" with Some _ -> incr n_auto | None -> ());
      if !missing_oracle then Printf.printf "NOTE scenario=%s the model asked an oracle question the recording does not answer\n" spec;
      if !n_samples < 2 then begin
        incr n_samples;
        Printf.printf "NSSAMPLE scenario=%s text=%s args=%s excludes=%s all_keyboards=%s dev_file=%s\n" spec (hex_of_bytes text) (enc_paths args) (enc_paths excl) model_sa model_sd
      end) (List.rev !groups);
  Printf.printf "NSSUMMARY ns_scenarios=%d ns_comparisons=%d ns_guarded_spec_checks=%d ns_selected_nodes=%d ns_scenarios_with_virtual_node=%d ns_real_binary_scenarios=%d ns_ioerr_scenarios=%d ns_diffs=%d ns_hits=%d ns_open_observations=%d ns_auto_mode_runs=%d ns_log_used=%d ns_log_unparsed_probe=%d ns_log_disagree_probe=%d ns_log_unparsed_real=%d ns_log_disagree_real=%d ns_list_output_unparsed=%d\n"
    !n_sc !n_cmp !n_guarded !n_sel !n_virtual_present !n_real_bin !n_ioerr !n_diffs !n_hits !n_open !n_auto !n_log_used
    !n_log_unparsed_probe !n_log_disagree_probe !n_log_unparsed_real !n_log_disagree_real !n_list_unparsed

let () =
  match Array.to_list Sys.argv with
  | _ :: "cases" :: file :: rest -> with_entries := List.mem "--entries" rest; run_cases file
  | [_; "ns"; dir; nsout] -> run_ns dir nsout
  | [_; "one"; hex] ->
    let text = bytes_of_hex hex in
    Printf.printf "model extract_keyboards:     %s\n" (enc_k (extract_keyboards text));
    Printf.printf "model extract_input_devices: %s\n" (enc_d (extract_input_devices text))
  | _ -> prerr_endline "usage: listing_check cases FILE [--entries] | ns SPECDIR NSOUT | one HEX"; exit 2
