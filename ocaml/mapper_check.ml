(* mapper_check.ml — replays the transition tables of the REAL mapper (written
   by tm-harness mapper-graph) against the extracted Coq model and applies the
   extracted property checkers (Monitors.check_step) to the REAL outputs.

   For every layout: product search over (impl node, model state, phys, held)
   from the initial pair.  Reports per layout
     - the first (shortest) history on which model and implementation differ,
       per observation class: FULL (events+repeat), EVENTS, REPEAT, HELD
     - the first history on which each checker clause fires on the real outputs
     - C06: a rest node of the implementation that is not bisimilar to the
       initial node (search on the implementation's table alone)
   Output: one line per finding, one summary line per layout. *)

open Model

let rec pos_of_int (i : int) : positive =
  if i = 1 then XH
  else if i land 1 = 0 then XO (pos_of_int (i lsr 1))
  else XI (pos_of_int (i lsr 1))

let n_of_int (i : int) : n = if i = 0 then N0 else Npos (pos_of_int i)

let rec int_of_pos (p : positive) : int =
  match p with XH -> 1 | XO q -> 2 * int_of_pos q | XI q -> 2 * int_of_pos q + 1

let int_of_n (x : n) : int = match x with N0 -> 0 | Npos p -> int_of_pos p

let z_of_int (i : int) : z =
  if i = 0 then Z0 else if i > 0 then Zpos (pos_of_int i) else Zneg (pos_of_int (- i))

let int_of_z (x : z) : int = match x with Z0 -> 0 | Zpos p -> int_of_pos p | Zneg p -> - (int_of_pos p)

(* ---------- table representation ---------- *)

type label = LP of int | LR of int | LA

type irep = IRDisabled | IRNoChange | IRRepeating of int list * int * int | IRNone

type edge = { lab : label; dst : int; rep : irep; evs : (bool * int) list; panic : bool }
(* event = (is_press, code) *)

type table = {
  id : int; tag : string;
  layout : mapping list;
  layout_lines : string list;
  mutable edges : edge list array;   (* per source node, in file order *)
  nnodes : int; truncated : bool; forlayout_panic : bool;
}

let label_str = function LP k -> "P" ^ string_of_int k | LR k -> "R" ^ string_of_int k | LA -> "A"

let parse_label s =
  if s = "A" then LA
  else
    let c = int_of_string (String.sub s 1 (String.length s - 1)) in
    if s.[0] = 'P' then LP c else LR c

let parse_mapping (toks : string array) : mapping =
  let i = ref 1 in
  let num () = let v = int_of_string toks.(!i) in incr i; v in
  let keys n = List.init n (fun _ -> n_of_int (num ())) in
  let nf = num () in let from = keys nf in
  let nt = num () in let to_ = keys nt in
  let kind = num () in
  let rep =
    if kind = 0 then RNormal else if kind = 1 then RDisabled
    else begin
      let nk = num () in let ks = keys nk in
      let d = num () in let iv = num () in
      RSpecial (ks, z_of_int d, z_of_int iv)
    end in
  let na = num () in let abs = keys na in
  { m_from = from; m_to = to_; m_repeat = rep; m_abs = abs }

let split_ws (s : string) : string array =
  Array.of_list (List.filter (fun x -> x <> "") (String.split_on_char ' ' s))

(* read the next table from the channel, None at EOF *)
let read_table (ic : in_channel) : table option =
  let rec first () =
    match input_line ic with
    | exception End_of_file -> None
    | l -> if String.length l >= 6 && String.sub l 0 6 = "LAYOUT" then Some l else first () in
  match first () with
  | None -> None
  | Some hdr ->
    let ht = split_ws hdr in
    let id = int_of_string ht.(1) in
    let tag = if Array.length ht > 2 then ht.(2) else "" in
    let maps = ref [] and mlines = ref [] in
    let edges : (int, edge list) Hashtbl.t = Hashtbl.create 1024 in
    let add src e =
      let old = try Hashtbl.find edges src with Not_found -> [] in
      Hashtbl.replace edges src (e :: old) in
    let nn = ref 0 and trunc = ref false and flp = ref false in
    let fin = ref false in
    while not !fin do
      let l = input_line ic in
      let t = split_ws l in
      if Array.length t = 0 then ()
      else match t.(0) with
        | "M" -> maps := parse_mapping t :: !maps; mlines := l :: !mlines
        | "ALPHA" | "MAXHELD" -> ()
        | "FORLAYOUT-PANIC" -> flp := true
        | "X" ->
          add (int_of_string t.(1)) { lab = parse_label t.(2); dst = -1; rep = IRNone; evs = []; panic = true }
        | "E" ->
          let src = int_of_string t.(1) in
          let lab = parse_label t.(2) in
          let dst = int_of_string t.(3) in
          let i = ref 4 in
          let rep =
            match t.(!i) with
            | "D" -> incr i; IRDisabled
            | "N" -> incr i; IRNoChange
            | "-" -> incr i; IRNone
            | "S" ->
              incr i;
              let nk = int_of_string t.(!i) in incr i;
              let ks = List.init nk (fun _ -> let v = int_of_string t.(!i) in incr i; v) in
              let d = int_of_string t.(!i) in incr i;
              let iv = int_of_string t.(!i) in incr i;
              IRRepeating (ks, d, iv)
            | other -> failwith ("bad repeat token " ^ other) in
          let nev = int_of_string t.(!i) in incr i;
          let evs = List.init nev (fun _ ->
              let s = t.(!i) in incr i;
              (s.[0] = 'P', int_of_string (String.sub s 1 (String.length s - 1)))) in
          add src { lab; dst; rep; evs; panic = false }
        | "END" ->
          nn := int_of_string t.(1); trunc := (t.(2) = "1"); fin := true
        | _ -> ()
    done;
    let arr = Array.make (max !nn 1) [] in
    Hashtbl.iter (fun src es -> if src < Array.length arr then arr.(src) <- List.rev es) edges;
    Some { id; tag; layout = List.rev !maps; layout_lines = List.rev !mlines; edges = arr;
           nnodes = !nn; truncated = !trunc; forlayout_panic = !flp }

(* ---------- conversions ---------- *)

let ev_of (p, c) : event = if p then Pressed (n_of_int c) else Released (n_of_int c)
let ev_to (e : event) : bool * int = match e with Pressed k -> (true, int_of_n k) | Released k -> (false, int_of_n k)

let input_of_label = function
  | LP k -> IEv (Pressed (n_of_int k))
  | LR k -> IEv (Released (n_of_int k))
  | LA -> IReleaseAll

let irep_of_model (r : rrepeat option) : irep =
  match r with
  | None -> IRNone
  | Some RRDisabled -> IRDisabled
  | Some RRNoChange -> IRNoChange
  | Some (RRRepeating (ks, d, i)) -> IRRepeating (List.map int_of_n ks, int_of_z d, int_of_z i)

let ev_str (p, c) = (if p then "P" else "R") ^ string_of_int c
let evs_str evs = String.concat " " (List.map ev_str evs)
let irep_str = function
  | IRDisabled -> "D" | IRNoChange -> "N" | IRNone -> "-"
  | IRRepeating (ks, d, i) ->
    "S[" ^ String.concat "," (List.map string_of_int ks) ^ "]/" ^ string_of_int d ^ "/" ^ string_of_int i

let clause_name = function
  | K_C01 -> "C01"
  | K_C02_justified -> "C02.justified"
  | K_C02_silenced -> "C02.silenced"
  | K_C02_release_presses -> "C02.release_presses"
  | K_C02_trigger -> "C02.trigger"
  | K_C03_fire -> "C03.fire"
  | K_C03_pass -> "C03.pass"
  | K_C04_missing -> "C04.missing"
  | K_C04_stale -> "C04.stale"
  | K_C05_foreign -> "C05.foreign"
  | K_C05_empty -> "C05.empty"
  | K_C05_scope -> "C05.scope"
  | K_C05_stay -> "C05.stay"
  | K_C07_held -> "C07.held"
  | K_C07_pressed -> "C07.pressed"
  | K_C19 -> "C19"

let clause8_name = function
  | K8_fires -> "C08.fires"
  | K8_held -> "C08.held"
  | K8_refire -> "C08.refire"
  | K8_counts -> "C08.counts"

(* canonical string key of the C08 ghost *)
let ghost_key (b : Buffer.t) (g : aghost) =
  let pairs = List.sort compare (List.map (fun (m, t) -> (int_of_n m, int_of_n t)) g.ag_abs) in
  List.iter (fun (m, t) -> Buffer.add_string b (string_of_int m); Buffer.add_char b ':';
              Buffer.add_string b (string_of_int t); Buffer.add_char b ',') pairs;
  Buffer.add_char b '|';
  List.iter (fun k -> Buffer.add_string b (string_of_int k); Buffer.add_char b ',')
    (List.sort compare (List.map int_of_n g.ag_counts));
  Buffer.add_char b '|';
  (match g.ag_last with
   | None -> Buffer.add_char b '-'
   | Some ((m, t), p) ->
     Buffer.add_string b (string_of_int (int_of_n t)); Buffer.add_char b '@';
     List.iter (fun k -> Buffer.add_string b (string_of_int (int_of_n k)); Buffer.add_char b '>') m.m_from;
     List.iter (fun k -> Buffer.add_string b (string_of_int (int_of_n k)); Buffer.add_char b '<') m.m_to;
     List.iter (fun k -> Buffer.add_string b (string_of_int k); Buffer.add_char b ',')
       (List.sort compare (List.map int_of_n p)))

(* canonical string key of a model state *)
let state_key (b : Buffer.t) (s : state) =
  let ks l = List.iter (fun k -> Buffer.add_string b (string_of_int (int_of_n k)); Buffer.add_char b ',') l in
  let opt o = match o with None -> Buffer.add_char b '-' | Some k -> Buffer.add_string b (string_of_int (int_of_n k)) in
  ks s.inp; Buffer.add_char b '|';
  List.iter (fun m ->
      ks m.m_from; Buffer.add_char b '>'; ks m.m_to; Buffer.add_char b '/';
      (match m.m_repeat with
       | RNormal -> Buffer.add_char b 'n' | RDisabled -> Buffer.add_char b 'd'
       | RSpecial (k, d, i) -> Buffer.add_char b 's'; ks k;
         Buffer.add_string b (string_of_int (int_of_z d)); Buffer.add_char b ':';
         Buffer.add_string b (string_of_int (int_of_z i)));
      Buffer.add_char b '/'; ks m.m_abs; Buffer.add_char b ';') s.act;
  Buffer.add_char b '|'; ks s.pass; Buffer.add_char b '|'; ks s.mout;
  Buffer.add_char b '|'; ks s.absd; Buffer.add_char b '|'; opt s.atrig; Buffer.add_char b '|'; opt s.rtrig

let sorted_ints (l : key list) : int list = List.sort compare (List.map int_of_n l)

(* ---------- product search ---------- *)

type pnode = {
  node : int; ms : state; phys : key list; held_i : key list; held_m : key list;
  ghost : aghost;   (* C08 history ghost (Absorb.v) *)
  parent : int; via : label;
  div : bool;       (* an earlier edge of this path differed from the model (events or repeat request) *)
}

let classes = [| "FULL"; "EVENTS"; "REPEAT"; "HELD" |]

let history (nodes : pnode array) (nn : int) (idx : int) (last : label option) : string =
  let rec go i acc =
    if i <= 0 then acc
    else go nodes.(i).parent (label_str nodes.(i).via :: acc) in
  ignore nn;
  let base = go idx [] in
  String.concat " " (match last with None -> base | Some l -> base @ [label_str l])

(* Class EVENTS compares the event list of a step modulo the order the mapper properties leave open: two lists are
   the same observation when one is a permutation of the other that keeps (i) the order of the events of each key and
   (ii) the position of every PRESS OF A NON-MODIFIER KEY relative to all other events (what is down at the moment a
   non-modifier key goes down is what C04, C07, C08 speak about; which presses occur is what C03 speaks about;
   redundancy, C19, is per key).  Canonical form: the segments between presses of non-modifier keys, each
   stable-sorted by key code. *)
let canon_events (is_action : int -> bool) (evs : (bool * int) list) : (bool * int) list =
  let sort_seg seg = List.stable_sort (fun (_, a) (_, b) -> compare a b) (List.rev seg) in
  let rec go evs seg acc =
    match evs with
    | [] -> List.rev_append acc (sort_seg seg)
    | ((true, c) as e) :: t when is_action c -> go t [] (e :: List.rev_append (sort_seg seg) acc)
    | e :: t -> go t (e :: seg) acc in
  go evs [] []

let pressed_set evs = List.sort_uniq compare (List.filter_map (fun (p, c) -> if p then Some c else None) evs)

let check_table (t : table) (max_pairs : int) =
  let findings = Buffer.create 256 in
  let diff_found = Array.make 4 false in
  let clause_found : (string, unit) Hashtbl.t = Hashtbl.create 16 in
  let deferred : (string, string) Hashtbl.t = Hashtbl.create 16 in
  let state_free = [ "C01"; "C19"; "C02.justified"; "C02.silenced"; "C02.release"; "C05.foreign"; "C05.empty"; "C14.panic" ] in
  let emit (div : bool) (name : string) (line : string) =
    if div && not (List.mem name state_free) then begin
      if not (Hashtbl.mem deferred name) then Hashtbl.add deferred name line
    end else if not (Hashtbl.mem clause_found name) then begin
      Hashtbl.add clause_found name ();
      Buffer.add_string findings line
    end in
  let ok_model = x_for_layout_ok t.layout in
  if t.forlayout_panic || not ok_model then begin
    (* Mapper::for_layout panics exactly on the layouts the model rejects *)
    if t.forlayout_panic <> (not ok_model) then
      Buffer.add_string findings
        (Printf.sprintf "DIFF layout=%d class=FULL history=<for_layout> impl=%s model=%s\n" t.id
           (if t.forlayout_panic then "panic" else "ok") (if ok_model then "ok" else "panic"));
    (findings, 0, 0, 0)
  end else begin
    let visited : (string, int) Hashtbl.t = Hashtbl.create 4096 in
    let nodes = ref (Array.make 1024 { node = 0; ms = x_init; phys = []; held_i = []; held_m = []; ghost = x_ag_init; parent = -1; via = LA; div = false }) in
    let count = ref 0 in
    let buf = Buffer.create 256 in
    let key_of (p : pnode) =
      Buffer.clear buf;
      Buffer.add_string buf (string_of_int p.node); Buffer.add_char buf '#';
      state_key buf p.ms; Buffer.add_char buf '#';
      List.iter (fun k -> Buffer.add_string buf (string_of_int k); Buffer.add_char buf ',') (sorted_ints p.phys);
      Buffer.add_char buf '#';
      List.iter (fun k -> Buffer.add_string buf (string_of_int k); Buffer.add_char buf ',') (sorted_ints p.held_i);
      Buffer.add_char buf '#';
      List.iter (fun k -> Buffer.add_string buf (string_of_int k); Buffer.add_char buf ',') (sorted_ints p.held_m);
      Buffer.add_char buf '#';
      ghost_key buf p.ghost;
      Buffer.add_char buf (if p.div then '!' else '.');
      Buffer.contents buf in
    let push (p : pnode) : bool =
      let k = key_of p in
      if Hashtbl.mem visited k then false
      else begin
        if !count >= Array.length !nodes then begin
          let bigger = Array.make (2 * Array.length !nodes) p in
          Array.blit !nodes 0 bigger 0 !count;
          nodes := bigger
        end;
        !nodes.(!count) <- p;
        Hashtbl.add visited k !count;
        incr count;
        true
      end in
    ignore (push { node = 0; ms = x_init; phys = []; held_i = []; held_m = []; ghost = x_ag_init; parent = -1; via = LA; div = false });
    (* C08 is proved for layouts in K1 /\ K2; outside, a hit belongs to a recorded class (KNOWN_FINDINGS.txt) *)
    let in_k1 = x_K1 t.layout and in_k2 = x_K2 t.layout in
    let known8 (c : clause8) : string =
      match c with
      | K8_held ->
        if not in_k2 then " known=non-key-producing-mapping-presses-ordinary-key"
        else if not in_k1 then " known=absorbing-mapping-not-key-producing" else ""
      | _ ->
        if not in_k1 then " known=absorbing-mapping-not-key-producing"
        else if not in_k2 then " known=non-key-producing-mapping-presses-ordinary-key" else "" in
    let next = ref 0 in
    let edges_checked = ref 0 in
    let fired_edges = ref 0 in
    (* C06: rest product nodes (phys empty) whose impl node is not 0 *)
    let rest_nodes : (int, int) Hashtbl.t = Hashtbl.create 16 in
    while !next < !count && !count < max_pairs do
      let idx = !next in
      incr next;
      let p = !nodes.(idx) in
      if p.phys = [] && p.node <> 0 && not (Hashtbl.mem rest_nodes p.node) then Hashtbl.add rest_nodes p.node idx;
      List.iter (fun (e : edge) ->
          incr edges_checked;
          let inp = input_of_label e.lab in
          let ((evs_m, rep_m), ms') = x_mstep t.layout p.ms inp in
          if e.panic then begin
            if not (Hashtbl.mem clause_found "C14.panic") then begin
              Hashtbl.add clause_found "C14.panic" ();
              Buffer.add_string findings
                (Printf.sprintf "MONITOR layout=%d clause=C14.panic history=%s observed=PANIC\n" t.id
                   (history !nodes !count idx (Some e.lab)))
            end
          end else begin
            let evs_i = List.map ev_of e.evs in
            if e.evs <> [] then incr fired_edges;
            (* property checkers on the REAL outputs *)
            let bad = x_check_step t.layout p.ms ms' p.phys p.held_i inp evs_i in
            List.iter (fun c ->
                let name = clause_name c in
                if not (Hashtbl.mem clause_found name) then
                  emit p.div name
                    (Printf.sprintf "MONITOR layout=%d clause=%s history=%s observed=[%s]%s\n" t.id name
                       (history !nodes !count idx (Some e.lab)) (evs_str e.evs) (if p.div then "_(after_an_earlier_difference_from_the_model)" else ""))) bad;
            (* C08: the history checker on the REAL outputs (fired mapping = the specification's choice) *)
            let bad8 = x_c08_check t.layout p.ms ms' p.phys p.held_i p.ghost inp evs_i in
            List.iter (fun c ->
                let name = clause8_name c in
                (* clauses decided from the specification state alone are reported only where the real
                   step's events equal the model's, so that the hit is a statement about the real code *)
                let about_impl = (match c with K8_held -> true | _ -> List.map ev_to evs_m = e.evs) in
                if about_impl && not (Hashtbl.mem clause_found name) then
                  emit p.div name
                    (Printf.sprintf "MONITOR layout=%d clause=%s%s history=%s observed=[%s]%s\n" t.id name (known8 c)
                       (history !nodes !count idx (Some e.lab)) (evs_str e.evs) (if p.div then "_(after_an_earlier_difference_from_the_model)" else ""))) bad8;
            (* C09: the repeat request of the REAL step against the specification's expected_repeat *)
            (match inp with
             | IEv ev ->
               let exp = irep_of_model (Some (x_expected_repeat t.layout p.ms ev)) in
               if exp <> e.rep && not (Hashtbl.mem clause_found "C09") then
                 emit p.div "C09"
                   (Printf.sprintf "MONITOR layout=%d clause=C09 history=%s observed=repeat%s expected%s%s\n" t.id
                      (history !nodes !count idx (Some e.lab)) (irep_str e.rep) (irep_str exp) (if p.div then "_(after_an_earlier_difference_from_the_model)" else ""))
             | IReleaseAll -> ());
            (* model vs implementation *)
            let evs_m_i = List.map ev_to evs_m in
            let rep_m_i = irep_of_model rep_m in
            let held_i' = x_apply_evs p.held_i evs_i in
            let held_m' = x_apply_evs p.held_m evs_m in
            let spec_action c = x_spec_is_action (n_of_int c) in
            let d_events = evs_m_i <> e.evs && canon_events spec_action evs_m_i <> canon_events spec_action e.evs in
            let d_repeat = rep_m_i <> e.rep in
            let d_held = sorted_ints held_i' <> sorted_ints held_m' || pressed_set e.evs <> pressed_set evs_m_i in
            let ds = [| d_events || d_repeat; d_events; d_repeat; d_held |] in
            Array.iteri (fun ci d ->
                if d && not diff_found.(ci) then begin
                  diff_found.(ci) <- true;
                  Buffer.add_string findings
                    (Printf.sprintf "DIFF layout=%d class=%s history=%s impl=[%s]%s model=[%s]%s\n" t.id classes.(ci)
                       (history !nodes !count idx (Some e.lab)) (evs_str e.evs) (irep_str e.rep)
                       (evs_str evs_m_i) (irep_str rep_m_i))
                end) ds;
            (* beyond an edge on which the real step and the model step differ (events or repeat request) the model state may
               no longer be the specification state of the real mapper (p.div): reports of the state-dependent clauses made
               there are kept back and used only for clauses that no undiverged path reports (marked after_divergence) *)
            if e.dst >= 0 then
              ignore (push { div = p.div || d_events || d_repeat; node = e.dst; ms = ms'; phys = x_phys_after p.phys inp;
                             held_i = held_i'; held_m = held_m';
                             ghost = x_ag_step t.layout p.ms p.phys p.ghost inp; parent = idx; via = e.lab })
          end) t.edges.(p.node)
    done;
    (* clauses reported only beyond a divergence: better than nothing, marked as such *)
    Hashtbl.iter (fun name line ->
        if not (Hashtbl.mem clause_found name) then begin
          Hashtbl.add clause_found name ();
          Buffer.add_string findings line
        end) deferred;
    (* C06 on the implementation's own table: every rest node answers like node 0 *)
    let checked = ref 0 in
    Hashtbl.iter (fun n idx ->
        if !checked < 40 && not (Hashtbl.mem clause_found "C06") then begin
          incr checked;
          let seen : (int * int, unit) Hashtbl.t = Hashtbl.create 256 in
          let q = Queue.create () in
          Queue.add (n, 0, []) q; Hashtbl.add seen (n, 0) ();
          let found = ref None in
          while !found = None && not (Queue.is_empty q) do
            let (a, b, path) = Queue.pop q in
            let ea = t.edges.(a) and eb = t.edges.(b) in
            List.iter (fun (x : edge) ->
                if !found = None then
                  match List.find_opt (fun (y : edge) -> y.lab = x.lab) eb with
                  | None -> ()
                  | Some y ->
                    if x.panic || y.panic then ()
                    else if x.evs <> y.evs || x.rep <> y.rep then
                      found := Some (List.rev (x.lab :: path), x, y)
                    else if x.dst >= 0 && y.dst >= 0 && not (Hashtbl.mem seen (x.dst, y.dst)) then begin
                      Hashtbl.add seen (x.dst, y.dst) ();
                      Queue.add (x.dst, y.dst, x.lab :: path) q
                    end) ea
          done;
          match !found with
          | None -> ()
          | Some (path, x, y) ->
            Hashtbl.add clause_found "C06" ();
            Buffer.add_string findings
              (Printf.sprintf "MONITOR layout=%d clause=C06 history=%s | %s observed=[%s]%s fresh=[%s]%s\n" t.id
                 (history !nodes !count idx None) (String.concat " " (List.map label_str path))
                 (evs_str x.evs) (irep_str x.rep) (evs_str y.evs) (irep_str y.rep))
        end) rest_nodes;
    if t.id mod 97 = 0 && !count > 1 then begin
      (* a written-out case for the evidence file: the deepest product node's history *)
      let idx = !count - 1 in
      let p = !nodes.(idx) in
      Printf.printf "SAMPLE layout{%s} history{%s} held_on_output{%s} physically_held{%s}\n"
        (String.concat " ; " t.layout_lines) (history !nodes !count idx None)
        (String.concat "," (List.map string_of_int (sorted_ints p.held_i)))
        (String.concat "," (List.map string_of_int (sorted_ints p.phys)))
    end;
    (findings, !count, !edges_checked, !fired_edges)
  end

let () =
  let path = Sys.argv.(1) in
  let max_pairs = if Array.length Sys.argv > 2 then int_of_string Sys.argv.(2) else 2_000_000 in
  let ic = open_in path in
  let layouts = ref 0 and pairs = ref 0 and edges = ref 0 and fired = ref 0 and trunc = ref 0 in
  let rec loop () =
    match read_table ic with
    | None -> ()
    | Some t ->
      incr layouts;
      if t.truncated then incr trunc;
      let (f, c, e, fe) = check_table t max_pairs in
      pairs := !pairs + c; edges := !edges + e; fired := !fired + fe;
      if Buffer.length f > 0 then begin
        Printf.printf "LAYOUTDEF layout=%d tag=%s def=%s\n" t.id t.tag (String.concat " ; " t.layout_lines);
        print_string (Buffer.contents f)
      end;
      loop () in
  loop ();
  Printf.printf "SUMMARY file=%s layouts=%d pairs=%d edges=%d nonempty_edges=%d truncated=%d\n"
    path !layouts !pairs !edges !fired !trunc
