#!/bin/sh
# re-run every claimed check on the unchanged tree (under the mutation lock) so that evidence/ describes clean runs
cd "$(dirname "$0")/.."
for p in $(python3 -c "import json;print(' '.join(json.load(open('tools/ready.json'))))"); do
  flock build/repo-mutation.lock ./check $p --tier ${1:-quick} | tail -1
done
