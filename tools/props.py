"""props.py — merges the per-engine property tables in tools/props_d/*.py.
Each fragment defines PROPS = {"Cxx": {...}} (see props_common.py for the keys).
A fragment may also define EXTEND = {"Cxx": {...}}: additions to a property that
another fragment defines (an engine serving properties of several families):
list-valued keys (engines, classes, clauses, trusted, assumptions) are appended
without duplicates, string-valued keys (rule, explanation) are appended after a
blank; applied after all PROPS are merged.  ENGINE_TEXT = {engine: text} gives
the MANIFEST description of an engine that is not of the usual
harness-vs-extracted-model shape."""
import glob, importlib.util, os
from props_common import ALLOWED_AXIOMS  # noqa

PROPS = {}
ENGINE_TEXT = {}
_extend = []
_d = os.path.join(os.path.dirname(os.path.abspath(__file__)), "props_d")
for _f in sorted(glob.glob(os.path.join(_d, "*.py"))):
    if os.path.basename(_f) == "__init__.py":
        continue
    _spec = importlib.util.spec_from_file_location("props_d_" + os.path.basename(_f)[:-3], _f)
    _m = importlib.util.module_from_spec(_spec)
    _spec.loader.exec_module(_m)
    PROPS.update(getattr(_m, "PROPS", {}))
    ENGINE_TEXT.update(getattr(_m, "ENGINE_TEXT", {}))
    _extend.append(getattr(_m, "EXTEND", {}))

for _e in _extend:
    for _pid, _add in _e.items():
        if _pid not in PROPS:
            continue
        _P = dict(PROPS[_pid])
        for _k, _v in _add.items():
            if isinstance(_v, list):
                _P[_k] = list(_P.get(_k, [])) + [x for x in _v if x not in _P.get(_k, [])]
            elif isinstance(_v, str):
                _P[_k] = (_P.get(_k, "") + " " + _v).strip()
            else:
                _P[_k] = _v
        PROPS[_pid] = _P
