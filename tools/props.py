"""props.py — merges the per-engine property tables in tools/props_d/*.py.
Each fragment defines PROPS = {"Cxx": {...}} (see props_common.py for the keys)."""
import glob, importlib.util, os
from props_common import ALLOWED_AXIOMS  # noqa

PROPS = {}
_d = os.path.join(os.path.dirname(os.path.abspath(__file__)), "props_d")
for _f in sorted(glob.glob(os.path.join(_d, "*.py"))):
    if os.path.basename(_f) == "__init__.py":
        continue
    _spec = importlib.util.spec_from_file_location("props_d_" + os.path.basename(_f)[:-3], _f)
    _m = importlib.util.module_from_spec(_spec)
    _spec.loader.exec_module(_m)
    PROPS.update(_m.PROPS)
