#!/usr/bin/env python3
"""seeded.py — bookkeeping for seeded regressions (changes to /repo that break a
property while compiling and passing the existing tests).

  tools/seeded.py import SRC_PREFIX ID PROP   # SRC_PREFIX.diff, SRC_PREFIX_demo.diff, SRC_PREFIX.json -> seeded/ID/
  tools/seeded.py verify ID [WORKTREE]        # confirm in a scratch worktree: demo passes on HEAD, suite passes with
                                              # the change, demo fails with the change
  tools/seeded.py run ID [PROP ...]           # apply to /repo under the mutation lock, run ./check PROP (default: the
                                              # property it breaks), undo, record seeded/ID/result.json
Nothing here is used by the registered checks."""
import sys, os, json, subprocess, shutil, re, time, fcntl

HERE = os.path.dirname(os.path.dirname(os.path.abspath(__file__)))
SEEDED = os.path.join(HERE, "seeded")
REPO = "/repo"


def sh(cmd, cwd=None, timeout=3000):
    e = dict(os.environ); e.update({"CARGO_NET_OFFLINE": "true"})
    p = subprocess.run(cmd, shell=True, cwd=cwd, env=e, stdout=subprocess.PIPE, stderr=subprocess.STDOUT, timeout=timeout)
    return p.returncode, p.stdout.decode("utf-8", "replace")


def do_import(src, sid, prop):
    d = os.path.join(SEEDED, sid)
    os.makedirs(d, exist_ok=True)
    shutil.copy(src + ".diff", os.path.join(d, "patch.diff"))
    shutil.copy(src + "_demo.diff", os.path.join(d, "demo.diff"))
    meta = json.load(open(src + ".json"))
    meta["property"] = prop
    meta["id"] = sid
    meta["source"] = "written by a fresh sub-agent that saw only the property text and its own worktree of /repo"
    json.dump(meta, open(os.path.join(d, "meta.json"), "w"), indent=1)
    print("imported", sid)


def do_verify(sid, wt=None):
    d = os.path.join(SEEDED, sid)
    meta = json.load(open(os.path.join(d, "meta.json")))
    made = False
    if not wt or not os.path.isdir(wt):
        wt = "/tmp/seedwt-%s" % sid
        sh("git -C %s worktree remove --force %s" % (REPO, wt))
        rc, out = sh("git -C %s worktree add --detach %s HEAD" % (REPO, wt))
        made = True
    clean = "git checkout -q -- . && git clean -fdq -e _out -e target"
    demo_cmd = meta.get("demo_cmd", "cargo test --offline")
    demo_cmd = re.sub(r"cd\s+/tmp/mut\d*/\w+\s*&&\s*", "", demo_cmd)
    demo_cmd = re.split(r"\s{2,}[#(]", demo_cmd)[0].strip()      # trailing explanations
    demo_cmd = re.sub(r"git apply\s+\S+\s*&&\s*", "", demo_cmd)
    res = {}
    sh(clean, cwd=wt)
    rc, out = sh("git apply %s && %s" % (os.path.join(d, "demo.diff"), demo_cmd), cwd=wt)
    is_script = "cargo test" not in demo_cmd
    res["head_plus_demo_passes"] = (rc == 0 and ("PASS" in out or "pass" in out or "ok" in out.lower())) if is_script else \
        (rc == 0 and "test result: ok" in out and not re.search(r"test result: ok\. 0 passed", out))
    res["head_plus_demo_tail"] = out[-300:]
    sh(clean, cwd=wt)
    rc, out = sh("git apply %s && cargo test --offline 2>&1" % os.path.join(d, "patch.diff"), cwd=wt)
    m = re.search(r"test result: (\w+)\. (\d+) passed; (\d+) failed", out)
    res["suite_with_change"] = m.group(0) if m else out[-300:]
    res["suite_passes_with_change"] = bool(m and m.group(1) == "ok" and int(m.group(2)) >= 49 and int(m.group(3)) == 0)
    rc, out = sh("git apply %s && %s" % (os.path.join(d, "demo.diff"), demo_cmd), cwd=wt)
    res["demo_fails_with_change"] = (rc != 0) if is_script else (rc != 0 and ("FAILED" in out or "panicked" in out))
    res["demo_with_change_tail"] = out[-400:]
    sh(clean, cwd=wt)
    if made:
        sh("git -C %s worktree remove --force %s" % (REPO, wt))
    res["confirmed"] = res["head_plus_demo_passes"] and res["suite_passes_with_change"] and res["demo_fails_with_change"]
    meta["verified"] = res
    meta["what_i_ran"] = ["HEAD + demo.diff: %s (passes)" % demo_cmd, "HEAD + patch.diff: cargo test --offline (49 pass)",
                          "HEAD + patch.diff + demo.diff: %s (fails)" % demo_cmd]
    json.dump(meta, open(os.path.join(d, "meta.json"), "w"), indent=1)
    print(sid, "confirmed" if res["confirmed"] else "NOT CONFIRMED", {k: v for k, v in res.items() if not k.endswith("tail")})
    return 0 if res["confirmed"] else 1


def do_run(sid, props):
    d = os.path.join(SEEDED, sid)
    meta = json.load(open(os.path.join(d, "meta.json")))
    if not props:
        props = [meta["property"]]
    lock = open(os.path.join(HERE, "build", "repo-mutation.lock"), "w")
    fcntl.flock(lock, fcntl.LOCK_EX)
    results = {}
    try:
        rc, out = sh("git -C %s status --porcelain --untracked-files=no" % REPO)
        if out.strip():
            print("/repo is not clean; refusing"); return 2
        rc, out = sh("git -C %s apply %s" % (REPO, os.path.join(d, "patch.diff")))
        if rc != 0:
            print("patch does not apply:", out); return 2
        for p in props:
            t0 = time.time()
            evf = os.path.join(HERE, "evidence", p + ".json")
            saved = open(evf).read() if os.path.exists(evf) else None
            rc, out = sh("./check %s --tier quick" % p, cwd=HERE)
            if saved is not None:   # evidence files describe runs on the unchanged tree only
                open(evf, "w").write(saved)
            lines = [l for l in out.split("\n") if l.startswith(("VIOLATION", "OK ", "KNOWN-FINDING", "DETAIL"))]
            replay = None
            m = re.search(r"VIOLATION property=\S+ replay=(\S+)", out)
            if m and os.path.exists(m.group(1)):
                rp = json.load(open(m.group(1)))
                replay = {"kind": rp.get("kind"), "clause": rp.get("clause"), "input": rp.get("input"), "broken": rp.get("broken")}
            results[p] = {"exit": rc, "detected": rc == 1 and any(l.startswith("VIOLATION") for l in lines),
                          "lines": lines[:6], "replay": replay, "wall_s": round(time.time() - t0, 1)}
            print(sid, p, "exit", rc, "|", " || ".join(lines[:3])[:400])
    finally:
        sh("git -C %s checkout -- ." % REPO)
        fcntl.flock(lock, fcntl.LOCK_UN)
    rf = os.path.join(d, "result.json")
    old = json.load(open(rf)) if os.path.exists(rf) else {}
    old.update(results)
    json.dump(old, open(rf, "w"), indent=1)
    return 0


if __name__ == "__main__":
    a = sys.argv[1:]
    if a and a[0] == "import":
        do_import(a[1], a[2], a[3])
    elif a and a[0] == "verify":
        sys.exit(do_verify(a[1], a[2] if len(a) > 2 else None))
    elif a and a[0] == "run":
        sys.exit(do_run(a[1], a[2:]))
    else:
        print(__doc__)
