#!/usr/bin/env python3
"""gen_baseline.py — record the sha256 of every /repo/src/*.rs (and Cargo.toml) at the commit the models were
written against.  ./check uses it only to decide whether to LOOK HARDER (search budget) because the source differs
from that baseline; a stale baseline costs time, never a verdict.  Run after every commit to /repo."""
import hashlib, glob, json, os, subprocess
HERE = os.path.dirname(os.path.dirname(os.path.abspath(__file__)))
REPO = "/repo"
out = {"commit": subprocess.run("git -C /repo rev-parse HEAD", shell=True, stdout=subprocess.PIPE).stdout.decode().strip(), "files": {}}
# hash the COMMITTED content (git show), not the working tree, which may carry a seeded change at this moment
names = subprocess.run("git -C /repo ls-tree --name-only HEAD src/", shell=True, stdout=subprocess.PIPE).stdout.decode().split()
for rel in sorted(n for n in names if n.endswith(".rs")) + ["Cargo.toml"]:
    blob = subprocess.run(["git", "-C", REPO, "show", "HEAD:" + rel], stdout=subprocess.PIPE).stdout
    out["files"][rel] = hashlib.sha256(blob).hexdigest()
json.dump(out, open(os.path.join(HERE, "tools", "baseline_src.json"), "w"), indent=1, sort_keys=True)
print("baseline: %d files at %s" % (len(out["files"]), out["commit"][:8]))
