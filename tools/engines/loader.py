"""loader engine: the REAL layout loader (parse_layout_from_json -> convert), the
serde save path and the reload, plus Mapper::for_layout and a random history on
every accepted layout (harness/src/engines/loader.rs), against the extracted Coq
model Parser/Convert/Serde and the extracted checkers of LoaderCheck.v
(ocaml/loader_check.ml).

Observation classes (diffs):  LOAD  Ok/Err/Panic and the basic layout of parse+convert
                              SERDE serde_json::to_value(keys::Layout)
                              TEXT  the JSON text layer (coq/theories/JsonText.v): the bytes of
                                    serde_json::to_string_pretty / to_string and of the saved layout file
                                    against print_pretty / print_compact / save_text; the real readers
                                    (from_str, from_slice, from_reader into Value) against parse_text on a
                                    stream of generated texts (harness/src/engines/loader_text.rs); the real
                                    load_layout_from_file on the saved file and on re-spaced / mutated
                                    layout files against load_text
Checker clauses (hits):       C14.panic, C14.accepted_wf, C15.roundtrip, C13.expand,
                              C13.file_load / C15.file_load (the real load_layout_from_file on the input written as a
                              file answers differently from parse_layout_from_json+convert in memory),
                              C14.file_panic (load_layout_from_file panics on some file content)"""
import os, json, re, time, glob, shutil

NEEDS_MODEL = True
NEEDS_HARNESS = True


def parse_out(text, engine):
    diffs, hits, summary = [], [], {}
    for line in text.split("\n"):
        if line.startswith("DIFF "):
            m = re.match(r"DIFF case=(-?\d+) kind=(\S+) class=(\w+) impl=(.*?) model=(.*?) input=(.*)$", line)
            if m:
                diffs.append({"engine": engine, "class": m.group(3),
                              "input": {"kind": m.group(2), "json": m.group(6)}, "impl": m.group(4)[:600], "model": m.group(5)[:600]})
        elif line.startswith("HIT "):
            m = re.match(r"HIT case=(-?\d+) kind=(\S+) clause=(\S+) observed=(.*?) expected=(.*?) input=(.*)$", line)
            if m:
                hits.append({"engine": engine, "clause": m.group(3), "known_class": None,
                             "input": {"kind": m.group(2), "json": m.group(6)},
                             "observed": m.group(4)[:800], "expected": m.group(5)[:800]})
        elif line.startswith("SUMMARY "):
            for k, v in re.findall(r"(\w+)=(\d+)", line):
                summary[k] = summary.get(k, 0) + int(v)
    # smallest failing inputs first: they become the replay files
    diffs.sort(key=lambda d: len(d["input"]["json"]))
    hits.sort(key=lambda h: len(h["input"]["json"]))
    return diffs, hits, summary


def run(ctx):
    here, build, sh = ctx["here"], ctx["build"], ctx["sh"]
    tier, seed, budget = ctx["tier"], ctx["seed"], ctx.get("budget", "normal")
    key = ctx["tree_hash"]([os.path.join(ctx["repo"], "src"), os.path.join(ctx["repo"], "Cargo.toml"),
                            os.path.join(ctx["repo"], "README.md"), os.path.join(ctx["repo"], "working"),
                            os.path.join(here, "harness", "src"), os.path.join(here, "ocaml", "loader_check.ml"),
                            os.path.join(here, "coq", "theories"), os.path.join(here, "coq", "gen"),
                            os.path.join(here, "coq", "extract", "Extract_loader.v"),
                            os.path.join(here, "tools", "engines", "loader.py")]) + "-%s-%d-%s" % (tier, seed, budget)
    cdir = os.path.join(build, "cache", key)
    cfile = os.path.join(cdir, "loader.json")
    with ctx["Lock"]("engine-loader"):
        if os.path.exists(cfile):
            r = json.load(open(cfile))
            r["cache_hit"] = True
            return r
        t0 = time.time()
        work = os.path.join(build, "work", "loader-%s" % key)
        shutil.rmtree(work, ignore_errors=True)
        os.makedirs(work)
        scale = 24 if tier == "thorough" else 4
        if budget == "search":
            scale *= 3
            seed = seed + 7919
        cmd = "%s loader --out %s --seed %d --tier %s --repo %s --scale %d" % (ctx["harness"], work, seed, tier, ctx["repo"], scale)
        rc, out, _ = sh(cmd, timeout=3000)
        res = {"engine": "loader", "ok": False, "error": None, "diffs": [], "hits": [], "stats": {}, "cache_hit": False}
        if rc != 0:
            res["error"] = "harness loader failed (rc=%d): %s" % (rc, out[-500:])
            return res
        dist, samples, gen_line = {}, [], ""
        for line in out.split("\n"):
            if line.startswith("DIST "):
                try:
                    dist = json.loads(line[5:])
                except ValueError:
                    dist = {"unparsed": line[5:200]}
            elif line.startswith("SAMPLE "):
                samples.append(line[7:])
            elif line.startswith("loader: "):
                gen_line = line
        rc, out2, _ = sh("ls %s/cases-*.txt | xargs -P16 -I{} sh -c '%s {} > {}.out 2>&1 || echo CHECKER-FAILED {} >> {}.out'" % (
            work, ctx["model_exe"]), timeout=3000)
        text = ""
        for f in sorted(glob.glob(os.path.join(work, "*.out"))):
            text += open(f, encoding="utf-8", errors="replace").read()
        if "CHECKER-FAILED" in text or "SUMMARY" not in text:
            res["error"] = "model-side checker failed: " + text[-500:]
            shutil.rmtree(work, ignore_errors=True)
            return res
        diffs, hits, summary = parse_out(text, "loader")
        res.update({"ok": True, "diffs": diffs[:200], "hits": hits[:200]})
        res["stats"] = {
            "programs": summary.get("cases", 0),
            "evaluations": summary.get("cases", 0) + summary.get("subst_compared", 0),
            "distinct_nontrivial": summary.get("distinct_nontrivial", 0),
            "distinct_inputs": summary.get("distinct", 0),
            "traces_validated_against_impl": summary.get("load_compared", 0) + summary.get("serde_compared", 0) + summary.get("subst_compared", 0)
                                             + summary.get("text_printed_compared", 0) + summary.get("text_parsed_compared", 0) + summary.get("text_loads_compared", 0),
            "loads_compared": summary.get("load_compared", 0),
            "serde_values_compared": summary.get("serde_compared", 0),
            "case_substitutions_compared": summary.get("subst_compared", 0),
            "checker_runs": summary.get("checker_runs", 0),
            "text_cases": summary.get("text_cases", 0),
            "texts_printed_compared": summary.get("text_printed_compared", 0),
            "texts_parsed_compared": summary.get("text_parsed_compared", 0),
            "text_loads_compared": summary.get("text_loads_compared", 0),
            "text_cases_by_kind_ok_err": dist.get("text_cases_by_kind_ok_err", {}),
            "disagreements_checked": len(diffs),
            "mapper_steps_under_catch_unwind": dist.get("mapper_steps", 0),
            "input_distribution": dist,
            "generator": gen_line,
            "samples": samples[:5],
        }
        res["wall_s"] = round(time.time() - t0, 1)
        shutil.rmtree(work, ignore_errors=True)
        os.makedirs(cdir, exist_ok=True)
        json.dump(res, open(cfile, "w"))
        return res


def replay(ctx, rp):
    """re-run a replay file's input on the real loader and print what it answers"""
    inp = rp.get("input") or (rp.get("first_difference") or {}).get("input") or {}
    text = inp.get("json")
    if text and text.startswith("hex:"):
        # a text case: the exact bytes
        tmp = os.path.join(ctx["build"], "work", "replay-loader.json")
        os.makedirs(os.path.dirname(tmp), exist_ok=True)
        open(tmp, "wb").write(bytes.fromhex(text[4:].split(" ")[0]))
        rc, out, _ = ctx["sh"]([ctx["harness"], "loader-replay", "--json", tmp])
        print("input bytes: " + text[:2000])
        print("real code:")
        print(out)
        print("recorded: clause=%s class=%s observed=%s expected=%s" % (rp.get("clause"), (rp.get("first_difference") or {}).get("class"),
              rp.get("observed") or (rp.get("first_difference") or {}).get("impl"), rp.get("expected") or (rp.get("first_difference") or {}).get("model")))
        return 0
    if not text or not text.lstrip().startswith(("{", "[", '"')) and not re.match(r"^\s*(null|true|false|-?\d)", text):
        print("replay names no concrete JSON input (kind=%s): %s %s" % (rp.get("kind"), rp.get("broken"), text or ""))
        return 0
    tmp = os.path.join(ctx["build"], "work", "replay-loader.json")
    os.makedirs(os.path.dirname(tmp), exist_ok=True)
    open(tmp, "w", encoding="utf-8").write(text)
    rc, out, _ = ctx["sh"]([ctx["harness"], "loader-replay", "--json", tmp])
    print("input: " + text[:2000])
    print("real code:")
    print(out)
    print("recorded: clause=%s observed=%s expected=%s" % (rp.get("clause"), rp.get("observed"), rp.get("expected")))
    return 0
