"""The REAL binary: `cargo build --offline` of /repo's current working tree WITHOUT
the verification cfg (RUSTFLAGS=""), shared by the listing and cli engines.

One cargo target directory (build/realbin/target, incremental) and a small store
of finished binaries keyed by the hash of what they were built from
(build/realbin/bin/<tree hash>/totalmapper), so that going back and forth between
a changed tree and the unchanged one costs one build each, not one per check."""
import os, shutil, time

KEEP = 8


def source_key(ctx):
    repo = ctx["repo"]
    return ctx["tree_hash"]([os.path.join(repo, "src"), os.path.join(repo, "Cargo.toml"), os.path.join(repo, "Cargo.lock")])


def build_real_binary(ctx):
    """returns (path, "") or (None, reason)"""
    repo = ctx["repo"]
    root = os.path.join(ctx["build"], "realbin")
    tdir = os.path.join(root, "target")
    store = os.path.join(root, "bin")
    os.makedirs(tdir, exist_ok=True)
    os.makedirs(store, exist_ok=True)
    with ctx["Lock"]("realbin"):
        key = source_key(ctx)
        kept = os.path.join(store, key, "totalmapper")
        if os.path.exists(kept):
            os.utime(os.path.dirname(kept))
            return kept, ""
        rc, out, _ = ctx["sh"]("cargo build --offline 2>&1 | tail -25", cwd=repo, timeout=1500,
                               env={"CARGO_TARGET_DIR": tdir, "RUSTFLAGS": ""})
        binp = os.path.join(tdir, "debug", "totalmapper")
        if "Finished" not in out or not os.path.exists(binp):
            return None, out[-600:]
        # the tree must not have changed while cargo ran (nobody should edit /repo under a check, but a
        # binary filed under the wrong key would be reused silently)
        if source_key(ctx) != key:
            return None, "the working tree changed during the build of the real binary"
        tmp = os.path.join(store, key + ".tmp%d" % os.getpid())
        shutil.rmtree(tmp, ignore_errors=True)
        os.makedirs(tmp)
        shutil.copy2(binp, os.path.join(tmp, "totalmapper"))
        shutil.rmtree(os.path.join(store, key), ignore_errors=True)
        os.rename(tmp, os.path.join(store, key))
        dirs = sorted((d for d in os.listdir(store) if os.path.isdir(os.path.join(store, d)) and ".tmp" not in d),
                      key=lambda d: os.path.getmtime(os.path.join(store, d)), reverse=True)
        for d in dirs[KEEP:]:
            shutil.rmtree(os.path.join(store, d), ignore_errors=True)
        return kept, ""
