"""realloop engine: the REAL per-device loop with the REAL driver (mio/epoll
edge-triggered readiness, DevInputReader, TabletModeSwitchReader, DevInputWriter:
remapping_loop::verif::run_real_driver_on_fds) runs in a child process over three
pipes; the parent writes seeded record scripts in random write(2) batches
(1..=300 records, pauses of 0-3 ms, foreign records interleaved) and collects the
bytes written to the "virtual keyboard" pipe; ocaml/realloop_check.ml compares
them with what coq/extract/Extract_realloop.v says they must be (decode_stream,
mrun, non_nil, encode_batch: the right-hand sides of C10_sends_are_mapper_outputs
and C18_wellformed).  The part of the loop theorems that LoopEnv.v only ASSUMES
(edge-triggered readiness + drain-until-Busy loses nothing) is thereby tested
against the kernel.  See harness/src/engines/realloop.rs."""
import os, json, re, time, glob, shutil, sys

NEEDS_MODEL = True
NEEDS_HARNESS = True

ENGINE = "realloop"
EXPECT = ("the bytes on the virtual keyboard are concat (map encode_batch (filter non_nil (mrun L init inputs))) for the key events "
          "decode_stream finds in the bytes written, whatever the batching (coq/extract/Extract_realloop.v; Properties/C10.v, C18.v)")


def parse_out(text, engine=ENGINE):
    diffs, hits, cases, summary, samples, errors = [], [], {}, {}, [], []
    for line in text.split("\n"):
        if line.startswith("CASEDEF "):
            m = re.match(r"CASEDEF case=(\S+) tag=(\S*) tablet=(\d) layout=(.*?) script=(.*)$", line)
            if m:
                cases[m.group(1)] = {"tag": m.group(2), "tablet": int(m.group(3)), "layout": m.group(4), "script": m.group(5)}
        elif line.startswith("DIFF "):
            m = re.match(r"DIFF case=(\S+) class=(\w+) at=(-?\d+) impl=(.*?) model=(.*)$", line)
            if m:
                c = cases.get(m.group(1), {})
                diffs.append({"engine": engine, "class": m.group(2),
                              "input": {"layout": c.get("layout"), "tag": c.get("tag"), "case": m.group(1),
                                        "script": c.get("script"), "tablet": c.get("tablet"), "at": int(m.group(3))},
                              "impl": m.group(4), "model": m.group(5)})
        elif line.startswith("MONITOR "):
            m = re.match(r"MONITOR case=(\S+) clause=(\S+) index=(\d+) observed=(.*?) expected=(.*)$", line)
            if m:
                c = cases.get(m.group(1), {})
                script = c.get("script") or ""
                toks = script.split(" ")
                sizes, cur = [], 0
                for t in toks:
                    if t.startswith("/"):
                        sizes.append(cur); cur = 0
                    elif t:
                        cur += 1
                hits.append({"engine": engine, "clause": m.group(2), "known_class": None,
                             "input": {"layout": c.get("layout"), "tag": c.get("tag"), "case": m.group(1),
                                       "history": " ".join(t for t in toks if t[:1] in ("P", "R")),
                                       "batching": "records per write(2): " + " ".join(str(s) for s in sizes),
                                       "script": script, "tablet": c.get("tablet"),
                                       "first_differing_record": int(m.group(3))},
                             "observed": m.group(4), "expected": m.group(5) + " - " + EXPECT})
        elif line.startswith("SUMMARY "):
            for k, v in re.findall(r"(\w+)=(\d+)", line):
                summary[k] = summary.get(k, 0) + int(v)
        elif line.startswith("SAMPLE "):
            samples.append(line[7:])
        elif line.startswith("CHECKER-"):
            errors.append(line)
    return diffs, hits, summary, samples, errors


def engine_name():
    return ENGINE


def _key(ctx, tier, seed, budget):
    here = ctx["here"]
    th = os.path.join(here, "coq", "theories")
    return ctx["tree_hash"]([os.path.join(ctx["repo"], "src"), os.path.join(ctx["repo"], "Cargo.toml"),
                             os.path.join(here, "harness", "src"), os.path.join(here, "ocaml", "realloop_check.ml"),
                             os.path.join(th, "Base.v"), os.path.join(th, "Mapper.v"), os.path.join(th, "Monitors.v"),
                             os.path.join(th, "MapperInv.v"), os.path.join(th, "LoopSpec.v"), os.path.join(th, "Wire.v"),
                             os.path.join(here, "coq", "gen"), os.path.join(here, "coq", "extract", "Extract_realloop.v"),
                             os.path.join(here, "tools", "engines", "realloop.py")]) + "-%s-%d-%s" % (tier, seed, budget)


def run(ctx):
    here, build, sh = ctx["here"], ctx["build"], ctx["sh"]
    tier, seed, budget = ctx["tier"], ctx["seed"], ctx.get("budget", "normal")
    key = _key(ctx, tier, seed, budget)
    cdir = os.path.join(build, "cache", key)
    cfile = os.path.join(cdir, "realloop.json")
    with ctx["Lock"]("engine-realloop"):
        if os.path.exists(cfile) and not os.environ.get("VERIF_REALLOOP_NOCACHE"):
            r = json.load(open(cfile))
            r["cache_hit"] = True
            return r
        t0 = time.time()
        work = os.path.join(build, "work", "realloop-%s" % key)
        shutil.rmtree(work, ignore_errors=True)
        os.makedirs(work)
        extra = ""
        if budget == "search":
            extra = " --scale 3"
            seed = seed + 7919
        res = {"engine": ENGINE, "ok": False, "error": None, "diffs": [], "hits": [], "stats": {}, "cache_hit": False}
        rc, out, _ = sh("%s realloop --out %s --seed %d --tier %s%s" % (ctx["harness"], work, seed, tier, extra), timeout=1500)
        if rc != 0:
            m = re.search(r"REALLOOP-UNAVAILABLE (.*)", out)
            if m:
                res["error"] = "the sandbox does not allow running the loop over pipes in a child process (no verdict): " + m.group(1)[:400]
            else:
                res["error"] = "harness realloop failed (rc=%d): %s" % (rc, out[-500:])
            shutil.rmtree(work, ignore_errors=True)
            return res
        gen_line = out.strip().split("\n")[-1]
        sh("ls %s/*.rl | xargs -P16 -I{} sh -c '%s {} > {}.out 2>&1 || echo CHECKER-FAILED {} >> {}.out'" % (work, ctx["model_exe"]), timeout=1500)
        text = ""
        for f in sorted(glob.glob(os.path.join(work, "*.out"))):
            text += open(f, encoding="utf-8", errors="replace").read()
        diffs, hits, summary, samples, errors = parse_out(text)
        if errors or "SUMMARY" not in text:
            res["error"] = "model-side checker failed: " + (errors[0][:400] if errors else text[-400:])
            shutil.rmtree(work, ignore_errors=True)
            return res
        # the poll adapter alone (RealDriver::register_poll + poll on prepared descriptors)
        probes = []
        try:
            for line in open(os.path.join(work, "poll_probes.txt"), encoding="utf-8"):
                m = re.match(r"POLLPROBE (\S+) expected=(\S+) observed=(.*)$", line.strip())
                if m:
                    probes.append(m.groups())
                    if m.group(2) != m.group(3):
                        hits.insert(0, {"engine": engine_name(), "clause": ("C20.real_send_error" if "output-gone" in m.group(1) else "C11.real_interrupt" if "signal" in m.group(1)
                                                   else "C10.real_hangup" if "gone" in m.group(1) else "C10.real_poll"),
                                        "known_class": None,
                                        "input": {"situation": m.group(1), "kind": "poll-probe"},
                                        "observed": m.group(3), "expected": m.group(2),
                                        "note": ("the real loop with the real driver in a child process; the virtual keyboard's reader is gone, the write fails with EPIPE and the loop must return the error"
                                                 if "output-gone" in m.group(1) else
                                                 "RealDriver::poll on prepared pipes; a wake-up that is not reported is lost for ever under edge-triggered readiness")})
        except OSError:
            pass
        res.update({"ok": True, "diffs": diffs[:40], "hits": hits[:40]})
        res["stats"] = {
            "programs": summary.get("cases", 0),
            "evaluations": summary.get("cases", 0),
            "distinct_nontrivial": summary.get("distinct_nontrivial", 0),
            "traces_validated_against_impl": summary.get("cases", 0),
            "model_steps": summary.get("model_steps", 0),
            "sends_observed": summary.get("sends", 0),
            "key_events_read": summary.get("key_events", 0),
            "tablet_events": summary.get("tablet_nonempty", 0),
            "real_epoll_runs": summary.get("cases", 0),
            "real_epoll_runs_skipped_after_misses": summary.get("skipped", 0),
            "real_epoll_input_records": summary.get("in_records", 0),
            "real_epoll_output_records": summary.get("out_records", 0),
            "real_epoll_write_calls": summary.get("writes", 0),
            "real_epoll_runs_with_a_write_over_64_records": summary.get("cases_with_write_over_64", 0),
            "real_epoll_runs_ending_in_a_burst_over_64_key_events": summary.get("final_write_over_64_keys", 0),
            "real_epoll_tablet_on_runs": summary.get("tablet_cases", 0),
            "real_epoll_no_progress_deadlines": summary.get("deadlines", 0),
            "real_epoll_output_records_with_nonzero_time_field(ignored)": summary.get("nonzero_time_records", 0),
            "disagreements_checked": len(diffs),
            "real_poll_adapter_probes": len(probes),
            "realloop_generator": gen_line,
            "input_distribution": {"realloop_runs": summary.get("cases", 0), "realloop_key_events": summary.get("key_events", 0),
                                   "realloop_input_records": summary.get("in_records", 0), "realloop_write_calls": summary.get("writes", 0),
                                   "realloop_runs_with_a_write_over_64_records": summary.get("cases_with_write_over_64", 0),
                                   "realloop_runs_ending_in_a_burst_over_64_key_events": summary.get("final_write_over_64_keys", 0),
                                   "realloop_tablet_on_runs": summary.get("tablet_cases", 0)},
            "samples": samples[:2],
        }
        res["wall_s"] = round(time.time() - t0, 1)
        shutil.rmtree(work, ignore_errors=True)
        os.makedirs(cdir, exist_ok=True)
        json.dump(res, open(cfile, "w"))
        return res


def _model_exe(ctx):
    exe = os.path.join(ctx["build"], "ocaml", ENGINE, ENGINE + "_check")
    if os.path.exists(exe):
        return exe
    main = sys.modules.get("__main__")
    if main is not None and hasattr(main, "build_model"):
        ok, exe2 = main.build_model(ENGINE)
        if ok:
            return exe2
    return None


def replay(ctx, rp):
    """run the real loop with the real driver again on the replay file's layout, record script (same batching) and tablet
    flag; print what the checker says"""
    inp = rp.get("input") or (rp.get("first_difference") or {}).get("input") or {}
    if inp.get("kind") == "poll-probe":
        work = os.path.join(ctx["build"], "work", "realloop-replay")
        os.makedirs(work, exist_ok=True)
        ctx["sh"]("%s realloop --out %s --seed 1 --tier quick --scale 0" % (ctx["harness"], work), timeout=300)
        print("RealDriver::register_poll + poll on prepared pipes (expected / observed on the current tree):")
        try:
            for line in open(os.path.join(work, "poll_probes.txt")):
                print(("* " if (" " + inp.get("situation", "") + " ") in line else "  ") + line.strip())
        except OSError:
            print("the probes could not be run here")
        print("recorded: situation=%s clause=%s observed=%s expected=%s" % (inp.get("situation"), rp.get("clause"), rp.get("observed"), rp.get("expected")))
        return 0
    if inp.get("layout") is None or not inp.get("script"):
        print("replay names no concrete input (kind=%s): %s" % (rp.get("kind"), rp.get("broken")))
        return 0
    work = os.path.join(ctx["build"], "work", "realloop-replay")
    os.makedirs(work, exist_ok=True)
    lf, sf, cf = os.path.join(work, "replay.layout"), os.path.join(work, "replay.script"), os.path.join(work, "replay.rl")
    open(lf, "w").write("\n".join(x.strip() for x in inp["layout"].split(";") if x.strip()) + "\n")
    open(sf, "w").write(inp["script"] + "\n")
    rc, out, _ = ctx["sh"]([ctx["harness"], "realloop-replay", "--layout", lf, "--script", sf, "--tablet", str(int(inp.get("tablet") or 0)), "--out", cf])
    print("layout: " + inp["layout"])
    print("key history: " + (inp.get("history") or ""))
    print(inp.get("batching") or "")
    print("tablet switch On afterwards: %s" % bool(inp.get("tablet")))
    print(out.strip())
    if rc != 0:
        print("the real loop could not be run here")
        return 0
    fired = False
    exe = _model_exe(ctx)
    if exe:
        rc, out2, _ = ctx["sh"]([exe, cf])
        for line in out2.split("\n"):
            if line.startswith(("MONITOR", "DIFF")):
                print(line[:1500])
                if rp.get("clause") and ("clause=%s " % rp.get("clause")) in line:
                    fired = True
    else:
        print("(model-side checker not built: build/ocaml/realloop/realloop_check)")
    print("recorded: clause=%s observed=%s" % (rp.get("clause"), rp.get("observed")))
    if rp.get("clause"):
        print("reproduced: %s" % ("yes" if fired else "no"))
        return 1 if fired else 0
    return 0
