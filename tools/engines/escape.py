"""escape engine (property C17): the REAL build_service_text (hook
crate::udev_utils::verif_build_service_text) is run on generated lists of
exclude patterns (harness/src/engines/escape.rs); ocaml/escape_check.ml then
(a) applies the extracted EscapeSpec.text_class_ok to every returned unit text:
    systemd finds exactly one ExecStart= assignment in [Service]
    (Systemd.service_exec_starts), its value ends byte for byte with what the
    extracted Coq model writes from the exclude region on (Escape.build_exclude_text
    and " --dev-file /%I"), and what is in front of that is an intact prefix
                                                       -> diffs, class TEXT.
    The other lines of the unit and the words of the front part (program path,
    --verbose, layout path) are not compared; how many accepted real texts differ
    from the model's full text outside the ExecStart= line
    (unit_text_differs_outside_exec_start) or in the front part of that line
    (exec_start_front_part_differs_from_model) is recorded, as information
(b) judges the REAL text with the extracted, escaper-independent
    EscapeSpec.c17_check (Systemd.service_exec_starts + Systemd.decode + the shape
    of the argument vector the property demands)      -> hits C17.roundtrip
In the thorough tier the decoder and the unit-file reader themselves are compared
(accept/reject) with the installed `systemd-analyze verify` on generated
ExecStart lines and hand-written unit files."""
import os, json, re, time, glob, shutil, subprocess, random
from concurrent.futures import ThreadPoolExecutor

NEEDS_MODEL = True
NEEDS_HARNESS = True

ALNUM = set(range(48, 58)) | set(range(65, 91)) | set(range(97, 123))


def parse_pats(field):
    if field == "-":
        return []
    return [[int(h, 16) for h in p.split(".") if h] for p in field.split("|")]


def pats_field(pats):
    if not pats:
        return "-"
    return "|".join(".".join("%x" % c for c in p) for p in pats)


def pats_text(pats):
    return ["".join(chr(c) for c in p) for p in pats]


def nontrivial(pats):
    """a case is non-trivial unless it is a single pattern made only of ASCII letters and digits
    (those are copied through by every escaper and every reader)"""
    return len(pats) != 1 or any(c not in ALNUM for p in pats for c in p)


def size_of(pats):
    return (sum(len(p) for p in pats), len(pats))


def run_checker(ctx, work):
    rc, out, _ = ctx["sh"]("ls %s/cases-*.txt | xargs -P16 -I{} sh -c '%s {} > {}.out 2>&1 || echo CHECKER-FAILED {} >> {}.out'" % (
        work, ctx["model_exe"]), timeout=6000)
    text = ""
    for f in sorted(glob.glob(os.path.join(work, "cases-*.txt.out"))):
        text += open(f, encoding="utf-8", errors="replace").read()
    return text


EXPECTED = ("systemd finds exactly one ExecStart= assignment in [Service] and reads it as: a program and its options, among them "
            "--layout-file <path> and --only-if-keyboard and no --exclude; then --exclude <pattern bytes> for each pattern, in order; "
            "then --dev-file /dev/input/event3")


def show_exec(field):
    if field in ("PANIC", "UNLOADABLE", "NONE"):
        return field
    return [bytes.fromhex("" if h == "-" else h).decode("utf-8", "backslashreplace") for h in field.split(",")]


def parse_out(text):
    diffs, hits, summary, samples = [], [], {}, []
    last_diff = {}
    for line in text.split("\n"):
        if line.startswith("DIFF "):
            m = re.match(r"DIFF id=(\d+) tag=(\S+) class=(\w+) pats=(\S+) impl=(\S+) model=(\S+)$", line)
            if m:
                pats = parse_pats(m.group(4))
                diffs.append({"engine": "escape", "class": m.group(3),
                              "input": {"patterns": pats_text(pats), "pats_field": m.group(4), "family": m.group(2)},
                              "impl": m.group(5)[:4000], "model": m.group(6)[:4000],
                              "compared": "the one ExecStart= value of [Service] as systemd finds it in the real unit text must end with the model's text from the exclude region on and have an intact front part (impl/model: the full texts, hex)"})
                last_diff[m.group(1)] = diffs[-1]
        elif line.startswith("EXECSTART "):
            m = re.match(r"EXECSTART id=(\d+) impl=(\S+) model=(\S+)$", line)
            if m and m.group(1) in last_diff:
                last_diff.pop(m.group(1)).update({"impl_exec_start": show_exec(m.group(2)), "model_exec_start": show_exec(m.group(3))})
        elif line.startswith("MONITOR "):
            m = re.match(r"MONITOR id=(\d+) tag=(\S+) clause=(\S+) pats=(\S+) env=(\S+) observed=(.*?) text=(\S+)$", line)
            if m:
                pats = parse_pats(m.group(4))
                hits.append({"engine": "escape", "clause": m.group(3), "known_class": None,
                             "input": {"patterns": pats_text(pats), "pats_field": m.group(4), "family": m.group(2),
                                       "environment": m.group(5), "instance": "dev/input/event3"},
                             "observed": m.group(6), "unit_text_hex": m.group(7)[:6000],
                             "expected": EXPECTED})
        elif line.startswith("SUMMARY "):
            for k, v in re.findall(r"(\w+)=(\d+)", line):
                summary[k] = summary.get(k, 0) + int(v)
        elif line.startswith("SAMPLE "):
            samples.append(line[7:])
    return diffs, hits, summary, samples


def explicit_round(ctx, work, cands):
    """run explicit candidate cases through the real code and the checker; return the hits"""
    shutil.rmtree(work, ignore_errors=True)
    os.makedirs(work)
    lst = os.path.join(work, "explicit.lst")
    with open(lst, "w") as f:
        for pats in cands:
            f.write("shrink %s\n" % pats_field(pats))
    rc, out, _ = ctx["sh"]([ctx["harness"], "escape", "--out", work, "--explicit", lst, "--chunk", "100000"], timeout=600)
    if rc != 0:
        return [], []
    d, h, _, _ = parse_out(run_checker(ctx, work))
    return d, h


def shrink(ctx, work, items, key):
    """items: hits or diffs; returns them with a minimal failing case first (greedy:
    single patterns, single scalars, adjacent pairs, one scalar removed)"""
    if not items:
        return items
    best = min(items, key=lambda h: size_of(parse_pats(h["input"]["pats_field"])))
    for _ in range(4):
        pats = parse_pats(best["input"]["pats_field"])
        if size_of(pats) <= (1, 1):
            break
        cands = []
        if len(pats) > 1:
            cands += [[p] for p in pats]
        for p in pats:
            if len(p) > 1:
                cands += [[[c]] for c in p]
                cands += [[p[i:i + 2]] for i in range(len(p) - 1)]
                cands += [[p[:i] + p[i + 1:]] for i in range(len(p))]
        seen, uniq = set(), []
        for c in cands:
            k = pats_field(c)
            if k not in seen and size_of(c) < size_of(pats):
                seen.add(k); uniq.append(c)
        if not uniq:
            break
        d, h = explicit_round(ctx, work, uniq[:3000])
        found = h if key == "hits" else d
        if not found:
            break
        nb = min(found, key=lambda x: size_of(parse_pats(x["input"]["pats_field"])))
        nb["input"]["family"] = best["input"].get("family", "") + "+shrunk"
        best = nb
    return [best] + [x for x in items if x is not best]


# ---------------------------------------------------------------- decoder vs systemd-analyze

HAND_LINES = [
    b"a b", b"a'b", b"'a b'", b"\"a b\"", b"'\\q'", b"'\\n'", b"\"\\x41\"", b"\\ud800", b"\\u0041", b"\\U0000fffe", b"\\U0001f600",
    b"\\U00110000", b"\\x00", b"\\000", b"\\400", b"\\377", b"\\q", b"\\x4", b"\\x4g", b"\\xZZ", b"\\u12", b"\\8", b"\\18",
    b"%h", b"%z", b"%1", b"%-", b"a%", b"%%", b"%i", b"%I", b"%%i", b"%", b"%e", b"%y", b"%Y", b"%D",
    b";", b"; /bin/true x", b"\\;", b"\\;a", b"a;b", b";a", b"a;", b"; ;", b"a ; b", b"a \\; b", b"';'", b"\";\"", b"\\x3b",
    b"\"abc", b"'abc", b"a\"b", b"''", b"\"\"", b"'a'\"b\"c", b"$A", b"${A}", b"$$", b"$", b"a\tb", b"\xc3\xa9", b"\xef\xbf\xbe",
    b"\xef\xb7\x90", b"\xed\xa0\x80", b"\xc0\xaf", b"\xf4\x8f\xbf\xbf", b"\xf4\x90\x80\x80", b"\xf0\x9f\x98\x80", b"\xe2\x80\xa8",
    b"\\xef\\xbf\\xbe", b"\\xed\\xa0\\x80", b"\xc2\x85", b"\x1b", b"\x7f", b"\x01", b"\\s", b"\\a\\b\\f\\n\\r\\t\\v\\\\\\\"\\'",
    b"\xff", b"\x80", b"a\\ b", b"\\\"", b"#x", b"!x", b"@x", b"-x", b":x", b"+x", b"*?[]{}",
]


def sd_verdict(args):
    d, line = args
    os.makedirs(d, exist_ok=True)
    with open(os.path.join(d, "x@.service"), "wb") as f:
        f.write(b"[Unit]\nDescription=x\n[Service]\nType=simple\nExecStart=" + line + b"\n")
    try:
        p = subprocess.run(["systemd-analyze", "verify", "./x@.service"], cwd=d, stdout=subprocess.PIPE, stderr=subprocess.STDOUT, timeout=60)
    except Exception as ex:  # noqa
        return None, str(ex)
    out = p.stdout.decode("utf-8", "replace")
    # systemd 252 keeps an unknown escape verbatim and warns; the oracle rejects such lines on purpose
    accept = p.returncode == 0 and "Ignoring unknown escape sequences" not in out
    return accept, out.strip().replace("\n", " | ")[:300]


def validate_decoder(ctx, work, case_lines, seed):
    """accept/reject of Systemd.decode vs systemd-analyze verify on generated ExecStart values"""
    if shutil.which("systemd-analyze") is None:
        return {"decoder_lines_checked": 0, "decoder_disagreements": 0, "decoder_validation": "skipped: systemd-analyze not installed"}
    rng = random.Random(seed)
    lines = []
    for h in HAND_LINES:
        lines.append(b"/bin/true --exclude " + h + b" --dev-file /%I")
    pick = [c for c in case_lines if c[0] in ("random", "hand", "pair")]
    rng.shuffle(pick)
    for tag, pats, text in pick[:260]:
        if text == "PANIC":
            continue
        raw = bytes.fromhex(text)
        ex = [l for l in raw.split(b"\n") if l.startswith(b"ExecStart=")]
        if ex:
            # the real line, executable replaced by one that exists in the sandbox
            lines.append(ex[-1][len(b"ExecStart="):].replace(b"/usr/bin/totalmapper", b"/bin/true", 1))
        # the same patterns NOT escaped (frequently broken in an interesting way)
        rawp = b" ".join(b"--exclude " + "".join(chr(c) for c in p).encode("utf-8") for p in pats)
        lines.append(b"/bin/true " + rawp + b" --dev-file /%I")
        # the real line with one byte dropped or doubled
        if ex and len(ex[-1]) > 30:
            l = ex[-1][len(b"ExecStart="):].replace(b"/usr/bin/totalmapper", b"/bin/true", 1)
            i = rng.randrange(10, len(l))
            lines.append(l[:i] + l[i + 1:])
            lines.append(l[:i] + l[i:i + 1] + l[i:])
    # not expressible as one line of a unit file / line continuation: not compared
    lines = [l for l in lines if not any(b in l for b in (b"\n", b"\r", b"\x00")) and not l.rstrip(b" \t").endswith(b"\\") and l.strip(b" \t") == l]
    seen, uniq = set(), []
    for l in lines:
        if l not in seen:
            seen.add(l); uniq.append(l)
    lines = uniq[:900]
    os.makedirs(work, exist_ok=True)
    lf = os.path.join(work, "lines.hex")
    open(lf, "w").write("\n".join(l.hex() for l in lines) + "\n")
    rc, out, _ = ctx["sh"]([ctx["model_exe"], "--decode-lines", lf], timeout=600)
    verdicts = [x for x in out.split("\n") if x.startswith("ACCEPT") or x.startswith("REJECT")]
    if rc != 0 or len(verdicts) != len(lines):
        return {"decoder_lines_checked": 0, "decoder_disagreements": 0, "decoder_validation": "failed: decoder run rc=%d (%d of %d answers)" % (rc, len(verdicts), len(lines))}
    with ThreadPoolExecutor(max_workers=8) as ex:
        sd = list(ex.map(sd_verdict, [(os.path.join(work, "u%04d" % i), l) for i, l in enumerate(lines)]))
    shutil.rmtree(work, ignore_errors=True)
    dis, acc, rej = [], 0, 0
    for l, v, (a, msg) in zip(lines, verdicts, sd):
        if a is None:
            continue
        mine = v.startswith("ACCEPT")
        acc += 1 if a else 0
        rej += 0 if a else 1
        if mine != a:
            dis.append({"line": l.decode("utf-8", "backslashreplace"), "decoder": v[:200], "systemd_analyze": ("accept" if a else "reject") + ": " + msg})
    return {"decoder_lines_checked": len(lines), "decoder_lines_systemd_accepts": acc, "decoder_lines_systemd_rejects": rej,
            "decoder_disagreements": len(dis), "decoder_disagreement_samples": dis[:10],
            "decoder_validation": "accept/reject of Systemd.decode vs `systemd-analyze verify` (v252) on unit files x@.service; a line systemd only accepts with the warning 'Ignoring unknown escape sequences' counts as rejected"}


# ---------------------------------------------------------------- unit-file reader vs systemd-analyze

UNIT_HEAD = b"[Unit]\nDescription=x\n[Service]\nType=simple\n"
HAND_UNITS = {
    "plain": UNIT_HEAD + b"ExecStart=/bin/true a\n",
    "comment-inside-continued-line": UNIT_HEAD + b"ExecStart=/bin/true a \\\n#'\nb\n",
    "no-comment-inside-continued-line": UNIT_HEAD + b"ExecStart=/bin/true a \\\nx'\nb\n",
    "indented-comment-inside-continued-line": UNIT_HEAD + b"ExecStart=/bin/true a \\\n   ;'\nb\n",
    "comment-then-more-continuation": UNIT_HEAD + b"ExecStart=/bin/true a \\\n#' \\\nb \\\nc\n",
    "empty-line-ends-continuation": UNIT_HEAD + b"ExecStart=/bin/true a \\\n\nb='\n",
    "continuation-swallows-next-assignment": UNIT_HEAD + b"ExecStart=/bin/true a\\\nFoo=bar\nExecStart=/bin/true b\n",
    "escaped-backslash-is-no-continuation": UNIT_HEAD + b"ExecStart=/bin/true a\\\\\nExecStart=/bin/true b\n",
    "bom-dropped-on-a-later-line": UNIT_HEAD + b"ExecStart=/bin/true a \\\n\xef\xbb\xbf'\n",
    "bom-then-hash-is-no-comment": b"\xef\xbb\xbf#x\n" + UNIT_HEAD + b"ExecStart=/bin/true a\n",
    "second-bom-stays": b"\xef\xbb\xbf[Unit]\nDescription=x\n\xef\xbb\xbf[Service]\nType=simple\nExecStart=/bin/true a\n",
    "bom-on-second-line": b"[Unit]\nDescription=x\n\xef\xbb\xbf[Service]\nType=simple\nExecStart=/bin/true a\n",
    "cr-line-ends": UNIT_HEAD.replace(b"\n", b"\r") + b"ExecStart=/bin/true a\r",
    "crlf-continuation": UNIT_HEAD.replace(b"\n", b"\r\n") + b"ExecStart=/bin/true a \\\r\nb'\r\n",
    "lflf-ends-continuation": UNIT_HEAD + b"ExecStart=/bin/true a \\\n\nb'\n",
    "line-not-utf8-clean": UNIT_HEAD + b"ExecStart=/bin/true \xff\n",
    "other-line-not-utf8-clean": UNIT_HEAD + b"Foo=\xff\nExecStart=/bin/true a\n",
    "no-key": UNIT_HEAD + b"=x\nExecStart=/bin/true a\n",
    "blanks-around-header-and-key": b"  [Unit]  \nDescription=x\n [Service]\t\nType=simple\n  ExecStart  =   /bin/true a  \n",
    "section-name-case": b"[Unit]\nDescription=x\n[service]\nType=simple\nExecStart=/bin/true a\n",
    "key-case": UNIT_HEAD + b"execstart=/bin/true a\n",
    "text-after-section-header": b"[Unit]\nDescription=x\n[Service] x\nType=simple\nExecStart=/bin/true a\n",
    "unclosed-section-header": b"[Unit]\nDescription=x\n[Service\nType=simple\nExecStart=/bin/true a\n",
    "exec-start-in-install": UNIT_HEAD + b"[Install]\nExecStart=/bin/true a\n",
    "exec-start-in-unit": b"[Unit]\nDescription=x\nExecStart=/bin/true a\n[Service]\nType=simple\n",
    "exec-start-before-any-section": b"ExecStart=/bin/true a\n" + UNIT_HEAD,
    "exec-start-in-unknown-section": UNIT_HEAD + b"[Foo]\nExecStart=/bin/true a\n",
    "service-section-twice": b"[Service]\nType=simple\n[Unit]\nDescription=x\n[Service]\nExecStart=/bin/true a\n",
    "no-final-newline": UNIT_HEAD + b"ExecStart=/bin/true a",
    "continuation-open-at-end": UNIT_HEAD + b"ExecStart=/bin/true a \\",
    "semicolon-comment": UNIT_HEAD + b";ExecStart=/bin/false '\nExecStart=/bin/true a\n",
    "nul-ends-line": UNIT_HEAD + b"ExecStart=/bin/true a\0b'\n",
    # (a reset after a well-formed line is fine for systemd and refused by the reader: documented strictness, not compared)
    "reset-after-malformed-line": UNIT_HEAD + b"ExecStart=/bin/true '\nExecStart=\nExecStart=/bin/true b\n",
    "blank-reset-after-malformed-line": UNIT_HEAD + b"ExecStart=/bin/true '\nExecStart=   \nExecStart=/bin/true b\n",
    "two-exec-starts": UNIT_HEAD + b"ExecStart=/bin/true a\nExecStart=/bin/true b\n",
    "other-settings": b"[Unit]\nDescription=Something else\nAfter=network.target\n\n[Service]\nType=simple\nRestart=on-failure\nExecStart=/bin/true a\nUser=nobody\n\n[Install]\nWantedBy=multi-user.target\n",
}


def sd_verdict_unit(args):
    d, content = args
    os.makedirs(d, exist_ok=True)
    with open(os.path.join(d, "x@.service"), "wb") as f:
        f.write(content)
    try:
        p = subprocess.run(["systemd-analyze", "verify", "./x@.service"], cwd=d, stdout=subprocess.PIPE, stderr=subprocess.STDOUT, timeout=60)
    except Exception as ex:  # noqa
        return None, str(ex)
    out = p.stdout.decode("utf-8", "replace")
    return p.returncode == 0 and "Ignoring unknown escape sequences" not in out, out.strip().replace("\n", " | ")[:300]


def validate_reader(ctx, work):
    """accept/reject of Systemd.service_exec_starts + Systemd.decode vs systemd-analyze verify on hand-written unit
    files (all Type=simple): systemd accepts the unit iff the reader finds exactly one ExecStart= assignment in [Service]
    and the decoder accepts its value"""
    if shutil.which("systemd-analyze") is None:
        return {"unit_reader_files_checked": 0, "unit_reader_disagreements": 0, "unit_reader_validation": "skipped: systemd-analyze not installed"}
    names = sorted(HAND_UNITS)
    os.makedirs(work, exist_ok=True)
    uf = os.path.join(work, "units.hex")
    open(uf, "w").write("\n".join(HAND_UNITS[n].hex() for n in names) + "\n")
    rc, out, _ = ctx["sh"]([ctx["model_exe"], "--exec-starts", uf], timeout=600)
    answers = [x for x in out.split("\n") if x.startswith("UNLOADABLE") or x.startswith("EXECSTARTS")]
    if rc != 0 or len(answers) != len(names):
        return {"unit_reader_files_checked": 0, "unit_reader_disagreements": 0, "unit_reader_validation": "failed: reader run rc=%d (%d of %d answers)" % (rc, len(answers), len(names))}
    single = [(i, a.split(" ")[2]) for i, a in enumerate(answers) if a.startswith("EXECSTARTS 1 ")]
    lf = os.path.join(work, "values.hex")
    open(lf, "w").write("\n".join(v for _, v in single) + "\n")
    rc, out, _ = ctx["sh"]([ctx["model_exe"], "--decode-lines", lf], timeout=600)
    verdicts = [x for x in out.split("\n") if x.startswith("ACCEPT") or x.startswith("REJECT")]
    if rc != 0 or len(verdicts) != len(single):
        return {"unit_reader_files_checked": 0, "unit_reader_disagreements": 0, "unit_reader_validation": "failed: decoder run rc=%d" % rc}
    mine = [False] * len(names)
    for (i, _), v in zip(single, verdicts):
        mine[i] = v.startswith("ACCEPT")
    with ThreadPoolExecutor(max_workers=8) as ex:
        sd = list(ex.map(sd_verdict_unit, [(os.path.join(work, "r%04d" % i), HAND_UNITS[n]) for i, n in enumerate(names)]))
    shutil.rmtree(work, ignore_errors=True)
    dis = []
    for n, a, m, (acc, msg) in zip(names, answers, mine, sd):
        if acc is not None and acc != m:
            dis.append({"unit": n, "reader": a[:200], "reader_accepts": m, "systemd_analyze": ("accept" if acc else "reject") + ": " + msg})
    return {"unit_reader_files_checked": len(names), "unit_reader_disagreements": len(dis), "unit_reader_disagreement_samples": dis[:10],
            "unit_reader_validation": "accept/reject of Systemd.service_exec_starts (exactly one assignment) + Systemd.decode vs `systemd-analyze verify` (v252) on hand-written unit files x@.service: comments and byte order marks inside continued lines, line ends, sections, resets, several ExecStart="}


# ---------------------------------------------------------------- entry points

def run(ctx):
    here, build, sh = ctx["here"], ctx["build"], ctx["sh"]
    tier, seed, budget = ctx["tier"], ctx["seed"], ctx.get("budget", "normal")
    key = ctx["tree_hash"]([os.path.join(ctx["repo"], "src"), os.path.join(ctx["repo"], "Cargo.toml"),
                            os.path.join(here, "harness", "src"), os.path.join(here, "ocaml", "escape_check.ml"),
                            os.path.join(here, "coq", "theories", "Escape.v"), os.path.join(here, "coq", "theories", "Systemd.v"),
                            os.path.join(here, "coq", "theories", "EscapeSpec.v"), os.path.join(here, "coq", "extract", "Extract_escape.v"),
                            os.path.join(here, "tools", "engines", "escape.py")]) + "-%s-%d-%s" % (tier, seed, budget)
    cdir = os.path.join(build, "cache", key)
    cfile = os.path.join(cdir, "escape.json")
    with ctx["Lock"]("engine-escape"):
        if os.path.exists(cfile):
            r = json.load(open(cfile))
            r["cache_hit"] = True
            return r
        t0 = time.time()
        res = {"engine": "escape", "ok": False, "error": None, "diffs": [], "hits": [], "stats": {}, "cache_hit": False}
        work = os.path.join(build, "work", "escape-%s" % key)
        shutil.rmtree(work, ignore_errors=True)
        os.makedirs(work)
        cmd = [ctx["harness"], "escape", "--out", work, "--seed", str(seed), "--tier", tier]
        if budget == "search":
            cmd += ["--budget", "search"]
        rc, out, _ = sh(cmd, timeout=3000)
        if rc != 0 or "GEN " not in out:
            res["error"] = "harness escape failed (rc=%d): %s" % (rc, out[-500:])
            res["wall_s"] = round(time.time() - t0, 1)
            return res
        gen_line = [l for l in out.split("\n") if l.startswith("GEN ")][-1]
        text = run_checker(ctx, work)
        if "CHECKER-FAILED" in text or "SUMMARY" not in text:
            res["error"] = "model-side checker failed: " + text[-500:]
            shutil.rmtree(work, ignore_errors=True)
            res["wall_s"] = round(time.time() - t0, 1)
            return res
        diffs, hits, summary, samples = parse_out(text)
        # measured: distinct non-trivial cases, families, validation input
        distinct, fam, case_lines = set(), {}, []
        for f in sorted(glob.glob(os.path.join(work, "cases-*.txt"))):
            for line in open(f, encoding="ascii", errors="replace"):
                t = line.rstrip("\n").split(" ")
                if len(t) != 5 or t[0] != "CASE":
                    continue
                fam[t[2]] = fam.get(t[2], 0) + 1
                pats = parse_pats(t[3])
                if nontrivial(pats):
                    distinct.add(t[3])
                if tier == "thorough" and t[2] in ("random", "hand", "pair"):
                    case_lines.append((t[2], pats, t[4]))
        swork = os.path.join(work, "shrink")
        hits = shrink(ctx, swork, hits, "hits")
        diffs = shrink(ctx, swork, diffs, "diffs")
        res.update({"ok": True, "diffs": diffs[:100], "hits": hits[:100]})
        gen = dict(re.findall(r"(\w+)=(\[[^\]]*\]|\S+)", gen_line))
        sweep_n = int(gen.get("sweep_scalars", "0"))
        stats = {
            "evaluations": summary.get("cases", 0),
            "distinct_nontrivial": len(distinct),
            "programs": summary.get("patterns", 0),
            "patterns": summary.get("patterns", 0),
            "pattern_scalars": summary.get("scalars", 0),
            "traces_validated_against_impl": summary.get("validated", 0),
            "disagreements_checked": summary.get("diffs", 0),
            "monitor_evaluations": 2 * (summary.get("cases", 0) - summary.get("skipped", 0)),
            "monitor_hits_total": summary.get("hits", 0),
            "text_diffs_total": summary.get("diffs", 0),
            "unit_text_differs_outside_exec_start": summary.get("outside", 0),
            "exec_start_front_part_differs_from_model": summary.get("prefixdiff", 0),
            "sweep_scalars": sweep_n,
            "sweep_exhaustive": bool(sweep_n == 0x10ffff - 0x800),
            "generator": gen_line,
            "input_distribution": {"cases_by_family": fam, "random_list_sizes_0_to_5": gen.get("list_sizes"),
                                   "random_pattern_lengths_1_to_12": gen.get("pattern_lengths"),
                                   "syntax_chars": int(gen.get("syntax_chars", "0"))},
            "samples": samples[:4],
        }
        if tier == "thorough":
            stats.update(validate_decoder(ctx, os.path.join(build, "escape", "sd-validate"), case_lines, seed))
            stats.update(validate_reader(ctx, os.path.join(build, "escape", "sd-validate-units")))
        res["stats"] = stats
        res["wall_s"] = round(time.time() - t0, 1)
        shutil.rmtree(work, ignore_errors=True)
        os.makedirs(cdir, exist_ok=True)
        json.dump(res, open(cfile, "w"))
        return res


def replay(ctx, rp):
    """re-run the recorded patterns through the real build_service_text and the extracted checker"""
    inp = rp.get("input") or (rp.get("first_difference") or {}).get("input") or {}
    if "pats_field" not in inp:
        print("replay names no concrete input (kind=%s): %s" % (rp.get("kind"), rp.get("broken")))
        return 0
    work = os.path.join(ctx["build"], "work", "escape-replay")
    d, h = explicit_round(ctx, work, [parse_pats(inp["pats_field"])])
    print("patterns: %s  (scalars %s)" % (json.dumps(inp.get("patterns")), inp["pats_field"]))
    for f in glob.glob(os.path.join(work, "cases-*.txt")):
        for line in open(f):
            t = line.split(" ")
            if len(t) == 5 and t[4].strip() != "PANIC":
                txt = bytes.fromhex(t[4].strip()).decode("utf-8", "backslashreplace")
                print("real unit text:\n" + txt)
    for x in h:
        print("C17.roundtrip fails (env %s): %s" % (x["input"]["environment"], x["observed"]))
    for x in d:
        print("model and implementation differ in the ExecStart= value systemd finds (exclude region on, or no intact front part): impl=%s model=%s" % (
            json.dumps(x.get("impl_exec_start", x["impl"][:200])), json.dumps(x.get("model_exec_start", x["model"][:200]))))
    print("REPRODUCED" if (h or d) else "NOT REPRODUCED on the current tree")
    print("recorded: clause=%s observed=%s" % (rp.get("clause"), rp.get("observed")))
    return 0
