"""wire engine (property C18; the switch-reader cases serve property C12): the REAL
DevInputWriter::send / DevInputReader::next / TabletModeSwitchReader::next driven over pipes by `tm-harness wire`, compared with the extracted Coq model
(coq/theories/Wire.v) and judged by the extracted specification checkers
(coq/theories/WireSpec.v) in ocaml/wire_check.ml.

Observation classes of differences model vs implementation:
  WRITE       bytes written for a batch differ outside the 16 time bytes of a record
  WRITE_TIME  they differ only inside the time bytes (not observed by C18)
  READ        the events the reader returns on a byte stream differ
  READ_SHORT  ... on a stream that is not a whole number of 24-byte records (an evdev
              node never delivers one; not observed by C18)
  TABLET      the On/Off events the REAL TabletModeSwitchReader::next returns on a byte
              stream differ from the extracted TabletWire.decode_tablet_run (property C12)
Checker clauses on the real outputs: C12.switch_reader (the switch reader's answer is not
TabletWire.tablet_events_of of the records fed, or a call panicked), C18.length, C18.record, C18.syn (writer),
C18.roundtrip (reader on the writer's bytes), C18.reader (reader on records
laid out by libc::input_event with foreign records interleaved).

The model assumptions (little-endian, 24-byte input_event with type/code/value
at 16/18/20) are measured by the harness (FACTS line) and the engine FAILS when
they do not hold on this platform."""
import os, json, re, time, shutil

NEEDS_MODEL = True
NEEDS_HARNESS = True

EXPECTED_FACTS = {"size": "24", "off_time": "0", "off_usec": "8", "off_type": "16", "off_code": "18", "off_value": "20",
                  "timeval": "16", "sec": "8", "usec": "8", "endian": "little", "probe": "0201"}


def parse_out(text):
    diffs, hits, summary, samples, facts, table, afails = [], [], {}, [], None, {}, []
    grid = {}
    for line in text.split("\n"):
        if line.startswith("DIFF "):
            m = re.match(r"DIFF class=(\w+) kind=(\w) input=(.*?) impl=(.*?) model=(.*)$", line)
            if m:
                diffs.append({"engine": "wire", "class": m.group(1),
                              "input": {"kind": m.group(2), "case": m.group(3)}, "impl": m.group(4), "model": m.group(5)})
        elif line.startswith("MONITOR "):
            m = re.match(r"MONITOR clause=(\S+) kind=(\w) input=(.*?) observed=(.*?) expected=(.*)$", line)
            if m:
                hits.append({"engine": "wire", "clause": m.group(1), "known_class": None,
                             "input": {"kind": m.group(2), "case": m.group(3)}, "observed": m.group(4), "expected": m.group(5)})
        elif line.startswith("SUMMARY "):
            for k, v in re.findall(r"(\w+)=(\d+)", line):
                summary[k] = summary.get(k, 0) + int(v)
        elif line.startswith("SAMPLE "):
            samples.append(line[7:])
        elif line.startswith("FACTS "):
            facts = dict(re.findall(r"(\w+)=(\S+)", line))
        elif line.startswith("TABLE "):
            table = dict(re.findall(r"(\w+)=(\S+)", line))
        elif line.startswith("TABLETGRID "):
            grid = dict(re.findall(r"(\w+)=(\S+)", line))
        elif line.startswith("ASSUMPTION-FAIL"):
            afails.append(line[:400])
    table["tablet_grid"] = grid
    return diffs, hits, summary, samples, facts, table, afails


def facts_problem(facts):
    if facts is None:
        return "the harness printed no FACTS line"
    bad = ["%s=%s (model assumes %s)" % (k, facts.get(k), v) for k, v in EXPECTED_FACTS.items() if facts.get(k) != v]
    if bad:
        return "model assumptions do not hold on this platform: " + ", ".join(bad)
    return None


def shrink(ctx, work, item, want_key):
    """a failing case with many records/events: re-run every record/event alone
    and every prefix on the real code; keep the first (smallest) one that still
    shows the same clause / difference class"""
    inp = item["input"]
    toks = inp["case"].split()
    if len(toks) <= 1 or inp["kind"] not in ("R", "W", "T") or inp["case"].startswith("bytes:") or inp["case"].endswith("..."):
        return item
    flag = {"R": "--split-records", "T": "--split-tablet-records"}.get(inp["kind"], "--split-batch")
    f = os.path.join(work, "split.txt")
    rc, out, _ = ctx["sh"]([ctx["harness"], "wire", "--out", f, flag, inp["case"]], timeout=300)
    if rc != 0:
        return item
    rc, out, _ = ctx["sh"]([ctx["model_exe"], f], timeout=600)
    if rc != 0:
        return item
    diffs, hits, _, _, _, _, _ = parse_out(out)
    for cand in (hits if "clause" in item else diffs):
        if cand.get(want_key) == item.get(want_key):
            cand["note"] = "shrunk from a case of %d %s" % (len(toks), "records" if inp["kind"] in ("R", "T") else "events")
            return cand
    return item


def run(ctx):
    here, build, sh = ctx["here"], ctx["build"], ctx["sh"]
    tier, seed, budget = ctx["tier"], ctx["seed"], ctx.get("budget", "normal")
    key = ctx["tree_hash"]([os.path.join(ctx["repo"], "src"), os.path.join(ctx["repo"], "Cargo.toml"),
                            os.path.join(here, "harness", "src"), os.path.join(here, "ocaml", "wire_check.ml"),
                            os.path.join(here, "coq", "theories", "Wire.v"), os.path.join(here, "coq", "theories", "WireSpec.v"),
                            os.path.join(here, "coq", "theories", "TabletWire.v"),
                            os.path.join(here, "coq", "theories", "SpecKernelKeys.v"), os.path.join(here, "coq", "theories", "Base.v"),
                            os.path.join(here, "coq", "theories", "Mapper.v"),
                            os.path.join(here, "coq", "gen", "KeyTable.v"), os.path.join(here, "coq", "extract", "Extract_wire.v"),
                            os.path.join(here, "tools", "engines", "wire.py")]) + "-%s-%d-%s" % (tier, seed, budget)
    cdir = os.path.join(build, "cache", key)
    cfile = os.path.join(cdir, "wire.json")
    with ctx["Lock"]("engine-wire"):
        if os.path.exists(cfile):
            r = json.load(open(cfile))
            r["cache_hit"] = True
            return r
        t0 = time.time()
        work = os.path.join(build, "work", "wire-%s" % key)
        shutil.rmtree(work, ignore_errors=True)
        os.makedirs(work)
        res = {"engine": "wire", "ok": False, "error": None, "diffs": [], "hits": [], "stats": {}, "cache_hit": False}
        extra = ""
        if budget == "search":
            # more and differently seeded batches / streams to look for a concrete failing input
            extra = " --batches %d --streams %d" % ((150000, 30000) if tier == "thorough" else (12000, 3000))
            seed = seed + 7919
        cases = os.path.join(work, "cases.txt")
        rc, out, _ = sh("%s wire --out %s --seed %d --tier %s%s" % (ctx["harness"], cases, seed, tier, extra), timeout=1500)
        if rc != 0:
            res["error"] = "harness wire failed (rc=%d): %s" % (rc, out[-500:])
            return res
        gen_line = out.strip().split("\n")[-1]
        rc, out2, _ = sh([ctx["model_exe"], cases], timeout=3000)
        if rc != 0 or "SUMMARY" not in out2:
            res["error"] = "model-side checker failed (rc=%d): %s" % (rc, out2[-500:])
            shutil.rmtree(work, ignore_errors=True)
            return res
        diffs, hits, summary, samples, facts, table, afails = parse_out(out2)
        fp = facts_problem(facts)
        if fp:
            res["error"] = fp
        elif afails:
            res["error"] = "records laid out by libc::input_event are not the bytes the specification assumes: " + afails[0]
        elif table.get("ok") != "1":
            res["error"] = "extracted key-table check failed (codes_fit_u16 / codes_match_kernel / codes_distinct): %s" % table
        elif table.get("singles_missing") != "0" or table.get("singles_outside_table") != "0":
            res["error"] = "the key codes the real FromPrimitive knows are not the regenerated KeyTable: %s" % table
        elif table.get("tablet_grid", {}).get("missing") != "0":
            res["error"] = "the switch reader's (type, code, value) grid was not fed exhaustively as single records: %s" % table.get("tablet_grid")
        # one representative per clause / class, shrunk
        seen, out_hits = set(), []
        for h in hits:
            if h["clause"] in seen:
                continue
            seen.add(h["clause"])
            out_hits.append(shrink(ctx, work, h, "clause"))
        seen, out_diffs = set(), []
        for d in diffs:
            if d["class"] in seen:
                continue
            seen.add(d["class"])
            out_diffs.append(shrink(ctx, work, d, "class"))
        res.update({"ok": res["error"] is None, "diffs": out_diffs, "hits": out_hits})
        unmatched = table.get("unmatched", "[]").strip("[]")
        res["stats"] = {
            "evaluations": summary.get("cases", 0),
            "distinct_nontrivial": summary.get("nontrivial", 0),
            "programs": summary.get("cases", 0),
            "traces_validated_against_impl": summary.get("cases", 0),
            "write_cases": summary.get("write", 0),
            "read_cases": summary.get("read", 0),
            "raw_stream_cases": summary.get("raw", 0),
            "switch_reader_cases": summary.get("tablet", 0),
            "switch_reader_raw_stream_cases": summary.get("tablet_raw", 0),
            "switch_records_read": summary.get("tablet_records", 0),
            "switch_events_returned": summary.get("tablet_events", 0),
            "switch_records_skipped": summary.get("tablet_skipped", 0),
            "switch_grid_single_records": int(table.get("tablet_grid", {}).get("singles", "0")),
            "events_written": summary.get("events_written", 0),
            "records_read": summary.get("records_read", 0),
            "events_returned_by_reader": summary.get("events_returned", 0),
            "foreign_records_skipped": summary.get("foreign_skipped", 0),
            "disagreements_checked": summary.get("diffs", 0),
            "monitor_hits_total": summary.get("hits", 0),
            "known_keys": int(table.get("keys", "0")),
            "keys_matched_with_kernel_header": int(table.get("matched", "0")),
            "idents_without_kernel_counterpart": [x for x in unmatched.split(",") if x],
            "exhaustive_single_event_batches": table.get("singles_missing") == "0",
            "platform_facts": facts,
            "generator": gen_line,
            "input_distribution": {
                "write": "empty batch; every known key x {press, release} alone; all keys in one batch; seeded random batches, length 0..40 (5% 41..200/400), keys uniform / codes<128 / codes>=256 / mixed",
                "read": "every code 0..0x2ff (quick) or 0..0xffff (thorough) x value {0,1,2} as EV_KEY with random timestamps; seeded mixtures of key events, EV_SYN, EV_MSC, value 2, unknown codes (0, 600, 0xffff, ...), values -1, 256, 0x01000000, i32::MIN/MAX, types 0x0101/0x0100, random records; writer-shaped batches with foreign records interleaved",
                "raw": "random bytes and truncated record streams (model correspondence only)",
                "switch_reader": "the real TabletModeSwitchReader on a pipe: the empty stream; every (type in {0,1,2,3,4,5,0x11,0x14,0xffff}, code in {0,1,2,5,0xffff}, value in {-1,0,1,2,i32::MIN,i32::MAX}) as a single record with zero and with random timestamp (exhaustive, verified by the checker), the whole grid in one stream in order and shuffled, every grid record between two writer key records; seeded mixtures of On/Off, SYN_REPORT, other switches, other values, 5/1 in one byte of type/code only, the writer's own key records (incl. KEY_ESC = code 1), random records; writer-shaped batches with switch records spliced in; streams cut 1..23 bytes before the end of an On/Off record and garbage",
            },
            # one switch-reader sample first (C12 shows the first ones after the loop engine's), then the others
            "samples": ([x for x in samples if x.startswith("switch ")][:1] + [x for x in samples if not x.startswith("switch ")])[:6],
        }
        res["wall_s"] = round(time.time() - t0, 1)
        shutil.rmtree(work, ignore_errors=True)
        if res["ok"]:
            os.makedirs(cdir, exist_ok=True)
            json.dump(res, open(cfile, "w"))
        return res


def replay(ctx, rp):
    """re-run a replay file's case on the real writer / reader and print what they answer"""
    if str(rp.get("engine") or (rp.get("first_difference") or {}).get("engine") or "").startswith("realloop"):
        from engines import realloop   # second engine of this property; check.py hands every replay to the first
        return realloop.replay(ctx, rp)
    inp = rp.get("input") or (rp.get("first_difference") or {}).get("input") or {}
    case = inp.get("case")
    if case is None:
        print("replay names no concrete input (kind=%s): %s" % (rp.get("kind"), rp.get("broken")))
        return 0
    if inp.get("kind") == "K":
        print("key table entry %s: observed=%s expected=%s (coq/gen/KeyTable.v vs coq/theories/SpecKernelKeys.v)" % (case, rp.get("observed"), rp.get("expected")))
        return 0
    if inp.get("kind") == "T":
        args = ["--tablet-records", case]
    elif inp.get("kind") == "Y" and case.startswith("bytes:"):
        args = ["--tablet-bytes", case[6:]]
    elif case.startswith("bytes:"):
        args = ["--bytes", case[6:]]
    elif inp.get("kind") == "R":
        args = ["--records", case]
    else:
        args = ["--batch", case]
    rc, out, _ = ctx["sh"]([ctx["harness"], "wire-replay"] + args)
    print("case (%s): %s" % (inp.get("kind"), case))
    print(out)
    print("recorded: clause=%s observed=%s expected=%s" % (rp.get("clause"), rp.get("observed"), rp.get("expected")))
    return 0
