"""mapper engine: whole-graph correspondence between the real Mapper and the
extracted Coq model, with the extracted property checkers applied to the real
outputs (see ocaml/mapper_check.ml and harness/src/engines/mapper_graph.rs)."""
import os, json, re, time, glob, shutil, subprocess

NEEDS_MODEL = True
NEEDS_HARNESS = True


def parse_out(text, engine):
    diffs, hits, layouts, summary, samples = [], [], {}, {}, []
    for line in text.split("\n"):
        if line.startswith("LAYOUTDEF "):
            m = re.match(r"LAYOUTDEF layout=(\d+) tag=(\S*) def=(.*)", line)
            if m:
                layouts[m.group(1)] = {"tag": m.group(2), "def": m.group(3)}
        elif line.startswith("DIFF "):
            m = re.match(r"DIFF layout=(\d+) class=(\w+) history=(.*?) impl=(.*?) model=(.*)$", line)
            if m:
                L = layouts.get(m.group(1), {})
                diffs.append({"engine": engine, "class": m.group(2),
                              "input": {"layout": L.get("def"), "tag": L.get("tag"), "history": m.group(3)},
                              "impl": m.group(4), "model": m.group(5)})
        elif line.startswith("MONITOR "):
            m = re.match(r"MONITOR layout=(\d+) clause=(\S+)(?: known=(\S+))? history=(.*?) observed=(.*)$", line)
            if m:
                L = layouts.get(m.group(1), {})
                hits.append({"engine": engine, "clause": m.group(2), "known_class": m.group(3),
                             "input": {"layout": L.get("def"), "tag": L.get("tag"), "history": m.group(4)},
                             "observed": m.group(5)})
        elif line.startswith("SUMMARY "):
            for k, v in re.findall(r"(\w+)=(\d+)", line):
                summary[k] = summary.get(k, 0) + int(v)
        elif line.startswith("SAMPLE "):
            samples.append(line[7:])
    return diffs, hits, summary, samples


def run(ctx):
    here, build, sh = ctx["here"], ctx["build"], ctx["sh"]
    tier, seed, budget = ctx["tier"], ctx["seed"], ctx.get("budget", "normal")
    key = ctx["tree_hash"]([os.path.join(ctx["repo"], "src"), os.path.join(ctx["repo"], "Cargo.toml"),
                            os.path.join(here, "harness", "src"), os.path.join(here, "ocaml"),
                            os.path.join(here, "coq", "theories"), os.path.join(here, "coq", "gen"),
                            os.path.join(here, "coq", "extract"), os.path.join(here, "corpus", "mapper"),
                            os.path.join(here, "tools", "engines", "mapper.py")]) + "-%s-%d-%s" % (tier, seed, budget)
    cdir = os.path.join(build, "cache", key)
    cfile = os.path.join(cdir, "mapper.json")
    with ctx["Lock"]("engine-mapper"):
        if os.path.exists(cfile):
            r = json.load(open(cfile))
            r["cache_hit"] = True
            return r
        t0 = time.time()
        work = os.path.join(build, "work", "mapper-%s" % key)
        shutil.rmtree(work, ignore_errors=True)
        os.makedirs(work)
        extra = ""
        if budget == "search":
            # a bigger, differently seeded family to look for a concrete failing history
            extra = " --multi %d --single %d --node-cap %d --max-held %d --walk-steps %d" % (
                (6000, 100000, 30000, 5, 40000) if tier == "thorough" else (1500, 600, 12000, 5, 15000))
            seed = seed + 7919
        cmd = "%s mapper-graph --out %s --seed %d --tier %s --corpus %s%s" % (
            ctx["harness"], work, seed, tier, os.path.join(here, "corpus", "mapper"), extra)
        rc, out, _ = sh(cmd, timeout=3000)
        res = {"engine": "mapper", "ok": False, "error": None, "diffs": [], "hits": [], "stats": {}, "cache_hit": False}
        if rc != 0:
            res["error"] = "harness mapper-graph failed (rc=%d): %s" % (rc, out[-500:])
            return res
        gen_line = out.strip().split("\n")[-1]
        rc, out2, _ = sh("ls %s/*.tbl | xargs -P16 -I{} sh -c '%s {} > {}.out 2>&1 || echo CHECKER-FAILED {} >> {}.out'" % (
            work, ctx["model_exe"]), timeout=3000)
        text = ""
        for f in sorted(glob.glob(os.path.join(work, "*.out"))):
            text += open(f, encoding="utf-8", errors="replace").read()
        if "CHECKER-FAILED" in text or "SUMMARY" not in text:
            res["error"] = "model-side checker failed: " + text[-500:]
            shutil.rmtree(work, ignore_errors=True)
            return res
        diffs, hits, summary, samples = parse_out(text, "mapper")
        res.update({"ok": True, "diffs": diffs[:200], "hits": hits[:200]})
        res["stats"] = {
            "programs": summary.get("layouts", 0),
            "layouts": summary.get("layouts", 0),
            "states": summary.get("pairs", 0),
            "transitions": summary.get("edges", 0),
            "evaluations": summary.get("edges", 0),
            "distinct_nontrivial": max(0, summary.get("pairs", 0) - summary.get("layouts", 0)),
            "nonempty_step_edges": summary.get("nonempty_edges", 0),
            "traces_validated_against_impl": summary.get("edges", 0),
            "truncated_graphs": summary.get("truncated", 0),
            "disagreements_checked": len(diffs),
            "generator": gen_line,
            "samples": samples[:4],
        }
        res["wall_s"] = round(time.time() - t0, 1)
        shutil.rmtree(work, ignore_errors=True)
        os.makedirs(cdir, exist_ok=True)
        json.dump(res, open(cfile, "w"))
        return res


def replay(ctx, rp):
    """re-run a replay file's history on the real mapper and print what it answers"""
    inp = rp.get("input") or (rp.get("first_difference") or {}).get("input") or {}
    if not inp.get("layout"):
        print("replay names no concrete input (kind=%s): %s" % (rp.get("kind"), rp.get("broken")))
        return 0
    tmp = os.path.join(ctx["build"], "work", "replay.layout")
    os.makedirs(os.path.dirname(tmp), exist_ok=True)
    open(tmp, "w").write("\n".join(x.strip() for x in inp["layout"].split(";")) + "\n")
    hist = inp.get("history", "").replace("|", " ")
    rc, out, _ = ctx["sh"]([ctx["harness"], "mapper-replay", "--layout", tmp, "--history", hist])
    print("layout: " + inp["layout"])
    print("real mapper:")
    print(out)
    print("recorded: clause=%s observed=%s" % (rp.get("clause"), rp.get("observed")))
    return 0
